(* ProofProofs.v — lemmas for property C16 (Merkle proofs: complete for true statements, unforgeable for false ones) *)
From Coq Require Import NArith List Bool Lia Arith.
From V Require Import Trie TrieProofs Proof.
Import ListNotations.

Lemma digest_eqb_eq a b : digest_eqb a b = true <-> a = b.
Proof.
  revert b; induction a as [v|lk lv IHl rk rv IHr]; intros [v'|lk' lv' rk' rv']; simpl; split; intros H;
    try discriminate.
  - apply N.eqb_eq in H. congruence.
  - injection H as ->. apply N.eqb_refl.
  - rewrite !andb_true_iff in H. destruct H as [[[H1 H2] H3] H4].
    apply bits_eqb_eq in H1, H3. apply IHl in H2. apply IHr in H4. congruence.
  - injection H as -> -> -> ->. rewrite !bits_eqb_refl. simpl.
    rewrite (proj2 (IHl _) eq_refl), (proj2 (IHr _) eq_refl). reflexivity.
Qed.

(* ---- auxiliary: shape of canonical nodes *)
Lemma gcp_app p a b : gcp (p ++ a) (p ++ b) = p ++ gcp a b.
Proof. induction p as [|x p IH]; simpl; [reflexivity|]. rewrite eqb_reflx, IH. reflexivity. Qed.
Lemma gcp_split p a b :
  is_prefixb (p ++ [false]) a = true -> is_prefixb (p ++ [true]) b = true -> gcp a b = p.
Proof.
  rewrite !is_prefixb_spec. intros [s ->] [s' ->]. rewrite <- !app_assoc, gcp_app. simpl. apply app_nil_r.
Qed.
Lemma tkey_prefix w q t : canonical w t -> all_leaves (fun k => is_prefixb q k = true) t ->
  is_prefixb q (tkey t) = true.
Proof.
  destruct t as [k v|p l r]; simpl; [auto|].
  intros (_&H2&H3&_&_) [Hl Hr].
  destruct (keys_inhabited l) as [a Ha]. destruct (keys_inhabited r) as [b Hb].
  rewrite all_leaves_forall in H2, H3, Hl, Hr.
  apply (common_prefix_split q p a b); auto.
Qed.
Lemma node_children w p l r : canonical w (Node p l r) ->
  is_prefixb (p ++ [false]) (tkey l) = true /\ is_prefixb (p ++ [true]) (tkey r) = true.
Proof. intros (_&H2&H3&H4&H5). split; eapply tkey_prefix; eauto. Qed.

Lemma fold_step_FErr k l : fold_left (step k) l FErr = FErr.
Proof. induction l as [|x l IH]; simpl; auto. Qed.
Lemma fold_step_FNo k l : fold_left (step k) l FNo = FNo.
Proof. induction l as [|x l IH]; simpl; auto. Qed.

(* the codec quirk of [step] (the empty current key is read as the 1-bit key "0") is invisible on non-empty keys *)
Lemma fixcur_ne (c : bits) : c <> [] -> match c with [] => [false] | _ => c end = c.
Proof. destruct c; [congruence | reflexivity]. Qed.

(* one verifier step over an honest sibling rebuilds the parent *)
Lemma step_node w p l r k : canonical w (Node p l r) -> is_prefixb p k = true ->
  (bit_at (length p) k = true ->
     step k (FOk (tkey r) (hash r) (length (tkey r))) (mkPn (tkey l) (hash l) false)
     = FOk p (hash (Node p l r)) (length p)) /\
  (bit_at (length p) k = false ->
     step k (FOk (tkey l) (hash l) (length (tkey l))) (mkPn (tkey r) (hash r) true)
     = FOk p (hash (Node p l r)) (length p)).
Proof.
  intros Hc Hp. destruct (node_children _ _ _ _ Hc) as [Hl Hr].
  pose proof (gcp_split _ _ _ Hl Hr) as Hg.
  apply is_prefixb_snoc in Hl as (_ & Hll & Hbl). apply is_prefixb_snoc in Hr as (_ & Hlr & Hbr).
  assert (Hnl : tkey l <> []) by (intros E; rewrite E in Hll; simpl in Hll; lia).
  assert (Hnr : tkey r <> []) by (intros E; rewrite E in Hlr; simpl in Hlr; lia).
  apply Nat.ltb_lt in Hll, Hlr.
  split; intros Hb; unfold step; cbn [pn_key pn_val pn_right]; cbv zeta.
  - rewrite (fixcur_ne _ Hnr).
    rewrite (gcp_comm (tkey r) (tkey l)), Hg, Hbr, Hbl, Hp, Hb, Hll, Hlr. reflexivity.
  - rewrite (fixcur_ne _ Hnl).
    rewrite Hg, Hbr, Hbl, Hp, Hb, Hll, Hlr. reflexivity.
Qed.

Lemma complete_gen w k t : length k = w -> canonical w t -> forall acc,
  exists p0 sibs, proof_from k t acc = p0 :: sibs ++ acc /\
    fold_left (step k) sibs (FOk (pn_key p0) (pn_val p0) (length (pn_key p0)))
      = FOk (tkey t) (hash t) (length (tkey t)) /\
    (forall v, lookup k t = Some v -> pn_key p0 = k /\ pn_val p0 = DLeaf v) /\
    (lookup k t = None -> pn_key p0 <> k /\ is_prefixb (pn_key p0) k = false) /\
    (forall p l r, t = Node p l r -> is_prefixb p k = true -> sibs <> []).
Proof.
  intros Hk. induction t as [k0 v0|p l IHl r IHr]; intros Hc acc.
  - exists (mkPn k0 (DLeaf v0) false), []. cbn [proof_from pn_key pn_val fold_left tkey hash app].
    split; [reflexivity|]. split; [reflexivity|].
    rewrite lookup_leaf. split; [|split].
    + intros v H. destruct (bits_eqb k k0) eqn:E; [|discriminate]. apply bits_eqb_eq in E.
      injection H as ->. auto.
    + intros H. destruct (bits_eqb k k0) eqn:E; [discriminate|]. split.
      * intros ->. rewrite bits_eqb_refl in E. discriminate.
      * destruct (is_prefixb k0 k) eqn:Ep; [|reflexivity].
        apply is_prefixb_full in Ep; [|simpl in Hc; lia]. subst. rewrite bits_eqb_refl in E; discriminate.
    + discriminate.
  - pose proof Hc as (H1&H2&H3&H4&H5). cbn [proof_from]. destruct (is_prefixb p k) eqn:Ep.
    + destruct (step_node _ _ _ _ _ Hc Ep) as [SR SL].
      destruct (bit_at (length p) k) eqn:Eb.
      * destruct (IHr H5 (mkPn (tkey l) (hash l) false :: acc)) as (p0 & sibs & E1 & E2 & E3 & E4 & _).
        exists p0, (sibs ++ [mkPn (tkey l) (hash l) false]).
        assert (Hnl : lookup k l = None).
        { apply lookup_None; eapply not_in_side; [exact H2|congruence]. }
        split; [rewrite E1, <- app_assoc; reflexivity|].
        split; [rewrite fold_left_app, E2; cbn [fold_left tkey]; apply SR; reflexivity|].
        rewrite lookup_node, Hnl. split; [exact E3|]. split; [exact E4|].
        intros _ _ _ _ _ H. apply app_eq_nil in H as [_ H]. discriminate.
      * destruct (IHl H4 (mkPn (tkey r) (hash r) true :: acc)) as (p0 & sibs & E1 & E2 & E3 & E4 & _).
        exists p0, (sibs ++ [mkPn (tkey r) (hash r) true]).
        assert (Hnr : lookup k r = None).
        { apply lookup_None; eapply not_in_side; [exact H3|congruence]. }
        split; [rewrite E1, <- app_assoc; reflexivity|].
        split; [rewrite fold_left_app, E2; cbn [fold_left tkey]; apply SL; reflexivity|].
        rewrite lookup_node, Hnr. split; [|split].
        -- intros v H. apply E3. destruct (lookup k l); congruence.
        -- intros H. apply E4. destruct (lookup k l); congruence.
        -- intros _ _ _ _ _ H. apply app_eq_nil in H as [_ H]. discriminate.
    + exists (mkPn p (hash (Node p l r)) false), []. cbn [pn_key pn_val fold_left tkey app].
      split; [reflexivity|]. split; [reflexivity|]. split; [|split].
      * intros v H. exfalso. assert (Hn : lookup k (Node p l r) <> None) by congruence.
        apply lookup_In in Hn. apply (canonical_keys_prefix _ _ _ Hc) in Hn. simpl in Hn. congruence.
      * intros _. split; [|exact Ep]. intros ->. rewrite is_prefixb_refl in Ep. discriminate.
      * intros p' l' r' E. injection E as <- <- <-. congruence.
Qed.

(* ---- completeness: the store's own proof verifies against the root, for present and for absent keys *)
Theorem complete_member w t k v : rooted w t -> user_key w k -> lookup k t = Some v ->
  verify k v true (root_digest t) (get_proof t k) = Some true.
Proof.
  intros Hr (Hk & _) Hl. pose proof Hr as (Hc & Ht & _).
  destruct (complete_gen w k t Hk Hc []) as (p0 & sibs & E1 & E2 & E3 & _ & E5).
  destruct (rooted_node _ _ Hr) as (l & r & Et & _).
  assert (Hs : sibs <> []) by (eapply E5; [exact Et | reflexivity]).
  destruct (E3 _ Hl) as [Ek Ev].
  unfold get_proof, root_digest. rewrite E1, app_nil_r.
  destruct sibs as [|s sibs']; [congruence|].
  unfold verify. rewrite E2, Ht.
  rewrite (proj2 (digest_eqb_eq _ _) eq_refl). cbn [negb length Nat.eqb].
  rewrite Ek, Ev, bits_eqb_refl. simpl. rewrite N.eqb_refl. reflexivity.
Qed.
Theorem complete_nonmember w t k v : rooted w t -> user_key w k -> lookup k t = None ->
  verify k v false (root_digest t) (get_proof t k) = Some true.
Proof.
  intros Hr (Hk & _) Hl. pose proof Hr as (Hc & Ht & _).
  destruct (complete_gen w k t Hk Hc []) as (p0 & sibs & E1 & E2 & _ & E4 & E5).
  destruct (rooted_node _ _ Hr) as (l & r & Et & _).
  assert (Hs : sibs <> []) by (eapply E5; [exact Et | reflexivity]).
  destruct (E4 Hl) as [Ek Ep].
  unfold get_proof, root_digest. rewrite E1, app_nil_r.
  destruct sibs as [|s sibs']; [congruence|].
  unfold verify. rewrite E2, Ht.
  rewrite (proj2 (digest_eqb_eq _ _) eq_refl). cbn [negb length Nat.eqb].
  rewrite Ep, (bits_eqb_neq k (pn_key p0)) by congruence. reflexivity.
Qed.

(* ---- soundness *)
(* the verifier state (cur, d) denotes an actual canonical subtree that holds everything the tree says about k *)
Definition INV (w : nat) (k : bits) (t : tree) (cur : bits) (d : digest) : Prop :=
  exists s, canonical w s /\ tkey s = cur /\ hash s = d /\ lookup k s = lookup k t.

(* ... or, because of the codec quirk, the state key is the empty prefix while the subtree is the one keyed by the
   1-bit key "0" (this can only be the INITIAL state of an accepted fold: see step_sound) *)
Definition INV2 (w : nat) (k : bits) (t : tree) (cur : bits) (d : digest) : Prop :=
  INV w k t cur d \/ (cur = [] /\ INV w k t [false] d).

Lemma step_sound w k t cur0 d n s cur1 d1 n1 :
  step k (FOk cur0 d n) s = FOk cur1 d1 n1 -> INV2 w k t cur1 d1 -> INV2 w k t cur0 d.
Proof.
  unfold step. cbv zeta. set (cur := match cur0 with [] => [false] | _ => cur0 end).
  set (g := gcp cur (pn_key s)).
  match goal with |- (if ?c then _ else _) = _ -> _ => destruct c eqn:E1; [discriminate|] end.
  match goal with |- (if ?c then _ else _) = _ -> _ => destruct c eqn:E2; [discriminate|] end.
  match goal with |- (if ?c then _ else _) = _ -> _ => destruct c eqn:E3; [discriminate|] end.
  intros H. injection H as <- <- <-.
  intros [(s1 & Hc1 & Hk1 & Hh1 & Hl1)|(Hg0 & s1 & Hc1 & Hk1 & Hh1 & Hl1)].
  - assert (HI : INV w k t cur d).
    { apply orb_false_iff in E2 as [_ E2]. apply negb_false_iff in E2. apply eqb_prop in E2.
      apply negb_false_iff in E3. apply andb_true_iff in E3 as [_ E3]. apply eqb_prop in E3.
      destruct s1 as [k1 v1|p l r]; [destruct (pn_right s); discriminate|].
      cbn [tkey] in Hk1. subst p. pose proof Hc1 as (_&H2&H3&H4&H5).
      destruct (pn_right s); cbn [negb hash] in *; injection Hh1 as Hlk Hlv Hrk Hrv.
      - exists l. repeat split; auto. rewrite <- Hl1, lookup_node.
        rewrite (lookup_None k r).
        + destruct (lookup k l); reflexivity.
        + eapply not_in_side; [exact H3|]. congruence.
      - exists r. repeat split; auto. rewrite <- Hl1, lookup_node.
        rewrite (lookup_None k l); [reflexivity|].
        eapply not_in_side; [exact H2|]. congruence. }
    subst cur. destruct cur0 as [|x c]; [right; auto | left; exact HI].
  - (* the reconstructed prefix is empty but the digest is that of the node keyed "0": impossible, the children of
       that node share the prefix "0" *)
    exfalso. destruct s1 as [k1 v1|p l r]; [destruct (pn_right s); discriminate|].
    cbn [tkey] in Hk1. subst p. destruct (node_children _ _ _ _ Hc1) as [Hl Hr].
    pose proof (gcp_split _ _ _ Hl Hr) as Hgs. unfold g in Hg0.
    destruct (pn_right s); cbn [hash] in Hh1; injection Hh1 as Hlk Hlv Hrk Hrv.
    + rewrite <- Hlk, <- Hrk, Hgs in Hg0. discriminate.
    + rewrite <- Hlk, <- Hrk, gcp_comm, Hgs in Hg0. discriminate.
Qed.
Lemma fold_sound w k t sibs : forall cur d n cur1 d1 n1,
  fold_left (step k) sibs (FOk cur d n) = FOk cur1 d1 n1 -> INV2 w k t cur1 d1 -> INV2 w k t cur d.
Proof.
  induction sibs as [|s sibs IH]; intros cur d n cur1 d1 n1 H HI; cbn [fold_left] in H.
  - injection H as <- <- <-. exact HI.
  - destruct (step k (FOk cur d n) s) as [| |c2 d2 n2] eqn:E.
    + rewrite fold_step_FErr in H; discriminate.
    + rewrite fold_step_FNo in H; discriminate.
    + eapply step_sound; [exact E|]. eapply IH; eauto.
Qed.
Lemma step_len k cur d n s cur1 d1 n1 : step k (FOk cur d n) s = FOk cur1 d1 n1 -> length cur1 = n1.
Proof.
  unfold step. cbv zeta.
  repeat match goal with |- (if ?c then _ else _) = _ -> _ => destruct c; [discriminate|] end.
  intros H. injection H as <- _ <-. reflexivity.
Qed.
Lemma fold_len k sibs : forall cur d n cur1 d1 n1,
  fold_left (step k) sibs (FOk cur d n) = FOk cur1 d1 n1 -> length cur = n -> length cur1 = n1.
Proof.
  induction sibs as [|s sibs IH]; intros cur d n cur1 d1 n1 H HL; cbn [fold_left] in H.
  - injection H as <- _ <-. exact HL.
  - destruct (step k (FOk cur d n) s) as [| |c2 d2 n2] eqn:E.
    + rewrite fold_step_FErr in H; discriminate.
    + rewrite fold_step_FNo in H; discriminate.
    + eapply IH; [exact H|]. eapply step_len; eauto.
Qed.

(* whatever proof is accepted, its bottom node denotes the subtree of t where the traversal towards k ends *)
Lemma verify_sound w t k v m proof : canonical w t -> tkey t = [] -> k <> [] ->
  verify k v m (hash t) proof = Some true ->
  exists p0, INV w k t (pn_key p0) (pn_val p0) /\
    ((m = true /\ pn_key p0 = k /\ pn_val p0 = DLeaf v) \/
     (m = false /\ is_prefixb (pn_key p0) k = false)).
Proof.
  intros Hc Ht Hkn. destruct proof as [|p0 [|s sibs]]; [discriminate|discriminate|].
  unfold verify.
  destruct (fold_left (step k) (s :: sibs) _) as [| |g d n] eqn:EF; [discriminate|discriminate|].
  destruct (digest_eqb d (hash t)) eqn:Ed; cbn [negb]; [|discriminate].
  destruct (Nat.eqb n 0) eqn:En; cbn [negb]; [|discriminate].
  apply digest_eqb_eq in Ed. apply Nat.eqb_eq in En. subst d n.
  pose proof (fold_len _ _ _ _ _ _ _ _ EF eq_refl) as Hg.
  destruct g; [|discriminate]. clear Hg.
  assert (HI : INV2 w k t (pn_key p0) (pn_val p0)).
  { eapply fold_sound; [exact EF|]. left. exists t. auto. }
  intros H. exists p0.
  assert (Hne : pn_key p0 <> [] -> INV w k t (pn_key p0) (pn_val p0)).
  { intros Hne. destruct HI as [HI|[HI _]]; [exact HI | contradiction]. }
  destruct (bits_eqb k (pn_key p0)) eqn:Ek; cbn [negb andb orb] in H.
  - apply bits_eqb_eq in Ek. split; [apply Hne; congruence|].
    destruct m; cbn [negb] in H; [|discriminate]. left.
    injection H as H. apply digest_eqb_eq in H. auto.
  - destruct (is_prefixb (pn_key p0) k) eqn:Ep; [discriminate|].
    split; [apply Hne; intros E; rewrite E in Ep; discriminate|].
    destruct m; cbn [negb] in H; [discriminate|]. right; auto.
Qed.

(* ---- soundness against ARBITRARY proof lists (ideal hash): whatever an adversary presents, *)
(* a verified membership claim is true *)
Theorem sound_member w t k v proof : rooted w t -> length k = w ->
  verify k v true (root_digest t) proof = Some true -> lookup k t = Some v.
Proof.
  intros (Hc & Ht & Hw & _) Hk H. unfold root_digest in H.
  assert (Hkn : k <> []) by (intros E; rewrite E in Hk; simpl in Hk; lia).
  destruct (verify_sound _ _ _ _ _ _ Hc Ht Hkn H) as (p0 & (s & Hcs & Hks & Hhs & Hls) & [(_ & Ek & Ev)|(E & _)]);
    [|discriminate].
  rewrite <- Hls. destruct s as [k1 v1|p l r]; cbn [tkey hash] in Hks, Hhs; [|congruence].
  rewrite lookup_leaf. subst k1. rewrite Ek, bits_eqb_refl. congruence.
Qed.
(* ... and a verified non-membership claim is true *)
Theorem sound_nonmember w t k v proof : rooted w t -> length k = w ->
  verify k v false (root_digest t) proof = Some true -> lookup k t = None.
Proof.
  intros (Hc & Ht & Hw & _) Hk H. unfold root_digest in H.
  assert (Hkn : k <> []) by (intros E; rewrite E in Hk; simpl in Hk; lia).
  destruct (verify_sound _ _ _ _ _ _ Hc Ht Hkn H) as (p0 & (s & Hcs & Hks & Hhs & Hls) & [(E & _)|(_ & Ep)]);
    [discriminate|].
  rewrite <- Hls. apply lookup_None. intros Hin.
  apply (canonical_keys_prefix _ _ _ Hcs) in Hin. congruence.
Qed.

(* in particular the honest proof for one key says nothing about any other key *)
Theorem other_key_rejected w t k k' v : rooted w t -> user_key w k -> user_key w k' -> k <> k' ->
  lookup k' t <> None -> verify k' v false (root_digest t) (get_proof t k) <> Some true.
Proof.
  intros Hr _ (Hk' & _) _ Hl H. apply Hl. eapply sound_nonmember; eauto.
Qed.

Print Assumptions complete_member.
Print Assumptions complete_nonmember.
Print Assumptions sound_member.
Print Assumptions sound_nonmember.
Print Assumptions other_key_rejected.
