(* NonceProofs.v — the account-nonce floor gives at-most-once execution of nonce-based transactions (C06). *)
From Coq Require Import NArith List Bool Lia.
From V Require Import Nonce.
Import ListNotations.
Local Open Scope N_scope.

Lemma floor_set_same f a v : floor_of (set_floor f a v) a = v.
Proof. unfold set_floor; cbn [floor_of]. rewrite N.eqb_refl. reflexivity. Qed.
Lemma floor_set_other f a b v : a <> b -> floor_of (set_floor f a v) b = floor_of f b.
Proof. intros Hab. unfold set_floor; cbn [floor_of]. destruct (N.eqb_spec a b) as [E|E]; [contradiction|reflexivity]. Qed.

Lemma accept_spec f t :
  accept f t = true <-> n_wrapper_ok t = true /\ floor_of f (n_sender t) <= n_nonce t /\ n_nonce t <> max_u64.
Proof.
  unfold accept. rewrite !andb_true_iff, negb_true_iff, N.leb_le, N.eqb_neq. tauto.
Qed.

(* one offer never lowers a floor *)
Lemma exec_floor_mono f t a : floor_of f a <= floor_of (fst (exec f t)) a.
Proof.
  unfold exec. destruct (accept f t) eqn:Ha; cbn [fst]; [|lia].
  apply accept_spec in Ha. destruct Ha as (_ & Hle & _).
  destruct (N.eq_dec (n_sender t) a) as [E|E].
  - subst a. rewrite floor_set_same. lia.
  - rewrite floor_set_other by exact E. lia.
Qed.

Lemma exec_true f t : snd (exec f t) = true -> accept f t = true /\ fst (exec f t) = set_floor f (n_sender t) (n_nonce t + 1).
Proof. unfold exec. destruct (accept f t); cbn; intros H; [split; reflexivity|discriminate]. Qed.
Lemma exec_false f t : snd (exec f t) = false -> fst (exec f t) = f.
Proof. unfold exec. destruct (accept f t); cbn; intros H; [discriminate|reflexivity]. Qed.

Lemma offer_all_cons f t r :
  offer_all f (t :: r) =
  (fst (offer_all (fst (exec f t)) r), if snd (exec f t) then t :: snd (offer_all (fst (exec f t)) r) else snd (offer_all (fst (exec f t)) r)).
Proof.
  cbn [offer_all]. destruct (exec f t) as [f' ok]. cbn [fst snd]. destruct (offer_all f' r) as [f'' ex]. reflexivity.
Qed.

(* floors never go back over any sequence of offers *)
Lemma offer_all_floor_mono ts : forall f a, floor_of f a <= floor_of (fst (offer_all f ts)) a.
Proof.
  induction ts as [|t r IH]; intros f a; [cbn; lia|].
  rewrite offer_all_cons. cbn [fst].
  specialize (IH (fst (exec f t)) a). pose proof (exec_floor_mono f t a). lia.
Qed.

(* every executed transaction was accepted against a floor not above its nonce, and ends below the final floor *)
Lemma executed_bounds ts : forall f t, In t (snd (offer_all f ts)) ->
  floor_of f (n_sender t) <= n_nonce t /\ n_nonce t < floor_of (fst (offer_all f ts)) (n_sender t) /\ n_wrapper_ok t = true.
Proof.
  induction ts as [|x r IH]; intros f t Hin; [cbn in Hin; contradiction|].
  rewrite offer_all_cons in Hin |- *. cbn [fst snd] in *.
  destruct (snd (exec f x)) eqn:Hok.
  - destruct Hin as [E|Hin].
    + subst x. apply exec_true in Hok. destruct Hok as (Ha & Hf).
      apply accept_spec in Ha. destruct Ha as (Hw & Hle & _).
      pose proof (offer_all_floor_mono r (fst (exec f t)) (n_sender t)) as Hm.
      rewrite Hf in Hm at 1. rewrite floor_set_same in Hm. repeat split; [exact Hle | lia | exact Hw].
    + destruct (IH _ _ Hin) as (H1 & H2 & H3). pose proof (exec_floor_mono f x (n_sender t)). repeat split; [lia | exact H2 | exact H3].
  - destruct (IH _ _ Hin) as (H1 & H2 & H3). pose proof (exec_floor_mono f x (n_sender t)). repeat split; [lia | exact H2 | exact H3].
Qed.

(* the executed transactions of one sender carry strictly increasing nonces *)
Lemma executed_increasing ts : forall f l1 a l2,
  snd (offer_all f ts) = l1 ++ a :: l2 ->
  forall b, In b l2 -> n_sender b = n_sender a -> n_nonce a < n_nonce b.
Proof.
  induction ts as [|x r IH]; intros f l1 a l2 Heq b Hb Hs.
  - cbn in Heq. destruct l1; discriminate.
  - rewrite offer_all_cons in Heq. cbn [snd] in Heq.
    destruct (snd (exec f x)) eqn:Hok.
    + destruct l1 as [|y l1]; cbn in Heq.
      * injection Heq as Hx Hl. subst x. rewrite <- Hl in Hb.
        apply exec_true in Hok. destruct Hok as (_ & Hf).
        destruct (executed_bounds r _ _ Hb) as (Hle & _ & _).
        rewrite Hf, Hs, floor_set_same in Hle. lia.
      * injection Heq as _ Hl. exact (IH _ _ _ _ Hl b Hb Hs).
    + exact (IH _ _ _ _ Heq b Hb Hs).
Qed.

(* ---- the property: the same signed content never executes twice, however often and in whatever company it is offered *)
Theorem nonce_no_replay f ts l1 a l2 :
  snd (offer_all f ts) = l1 ++ a :: l2 -> forall b, In b l2 -> same_content a b = false.
Proof.
  intros Heq b Hb. unfold same_content.
  destruct (N.eqb_spec (n_sender a) (n_sender b)) as [Es|Es]; [|reflexivity].
  pose proof (executed_increasing ts f l1 a l2 Heq b Hb (eq_sym Es)) as Hlt.
  destruct (N.eqb_spec (n_nonce a) (n_nonce b)) as [En|En]; [lia|reflexivity].
Qed.

(* once executed, never accepted again: not now, and not after any further offers (the index plays no role) *)
Theorem nonce_executed_stays_rejected f ts a more b :
  In a (snd (offer_all f ts)) -> same_content a b = true ->
  accept (fst (offer_all (fst (offer_all f ts)) more)) b = false.
Proof.
  intros Hin Hsc. unfold same_content in Hsc. rewrite !andb_true_iff, !N.eqb_eq in Hsc. destruct Hsc as ((Es & En) & _).
  destruct (executed_bounds ts f a Hin) as (_ & Hlt & _).
  pose proof (offer_all_floor_mono more (fst (offer_all f ts)) (n_sender a)) as Hm.
  destruct (accept _ b) eqn:Ha; [|reflexivity].
  apply accept_spec in Ha. destruct Ha as (_ & Hle & _). rewrite <- Es, <- En in Hle. lia.
Qed.

(* a transaction below the floor, at the reserved maximal nonce, or with a wrapper that is not the conversion of the signed
   transaction changes nothing *)
Theorem nonce_rejected_no_effect f t :
  (n_nonce t < floor_of f (n_sender t) \/ n_nonce t = max_u64 \/ n_wrapper_ok t = false) -> exec f t = (f, false).
Proof.
  intros H. unfold exec. destruct (accept f t) eqn:Ha; [|reflexivity].
  apply accept_spec in Ha. destruct Ha as (Hw & Hle & Hne).
  destruct H as [H|[H|H]]; [lia | contradiction | rewrite H in Hw; discriminate].
Qed.

(* gaps are allowed and close the skipped nonces for good *)
Theorem nonce_gap_closes f t : accept f t = true ->
  forall u, n_sender u = n_sender t -> n_nonce u <= n_nonce t -> accept (fst (exec f t)) u = false.
Proof.
  intros Ha u Hs Hn. unfold exec. rewrite Ha. cbn [fst].
  destruct (accept _ u) eqn:Hu; [|reflexivity].
  apply accept_spec in Hu. destruct Hu as (_ & Hle & _). rewrite Hs, floor_set_same in Hle. lia.
Qed.

Example nonce_nonvacuous :
  snd (offer_all [] [mkNTx 1 2 7 true; mkNTx 1 2 7 true; mkNTx 1 1 8 true; mkNTx 1 5 9 true; mkNTx 2 0 7 true; mkNTx 1 5 9 false])
  = [mkNTx 1 2 7 true; mkNTx 1 5 9 true; mkNTx 2 0 7 true].
Proof. vm_compute. reflexivity. Qed.
