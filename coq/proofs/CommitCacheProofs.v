(* CommitCacheProofs.v - every commit is the application of the block (model/CommitCache.v) *)
From Coq Require Import List Bool.
From V Require Import CommitCache.
Import ListNotations.

Section P.
Variable S B : Type.
Variable apply : S -> B -> S.
Variable beq : B -> B -> bool.
Hypothesis beq_eq : forall a b, beq a b = true <-> a = b.

Definition CInv (r : rep S B) : Prop := forall b, cache r = Some b -> working r = apply (committed r) b /\ validated r = true.

Lemma cstep_inv r o : CInv r -> CInv (cstep apply beq true r o) /\ commit_ok apply r o (cstep apply beq true r o).
Proof.
  intros HI. destruct o as [b| | | |b]; cbn [cstep commit_ok].
  - split; [|exact I]. intros b' Hc. cbn in *. injection Hc as <-. split; reflexivity.
  - split; [|exact I]. destruct (validated r) eqn:Ev; [exact HI|].
    intros b' Hc. cbn in *. destruct (HI b' Hc) as [_ Hv]. congruence.
  - split; [|exact I]. intros b' Hc. cbn in Hc. discriminate.
  - split; [|exact I]. intros b' Hc. cbn in Hc. discriminate.
  - split; [intros b' Hc; cbn in Hc; discriminate|].
    cbn. destruct (cache r) as [b'|] eqn:Ec; [|reflexivity].
    destruct (beq b' b) eqn:Eb; [|reflexivity]. apply beq_eq in Eb. subst b'. exact (proj1 (HI b Ec)).
Qed.

Theorem commit_is_apply ops : forall r, CInv r -> crun apply beq true r ops.
Proof.
  induction ops as [|o rest IH]; intros r HI; cbn [crun]; [exact I|].
  destruct (cstep_inv r o HI) as [HI' Hok]. split; [exact Hok|apply IH; exact HI'].
Qed.
Lemma init_inv s : CInv (mkRep s s None false).
Proof. intros b Hc. cbn in Hc. discriminate. Qed.
Theorem commit_is_apply_from_start ops s : crun apply beq true (mkRep s s None false) ops.
Proof. apply commit_is_apply, init_inv. Qed.
End P.

Definition stale_history : list (cop nat) := [OValidate 7; ONewRound; OProduce; OCommitPeer 7].
Example old_commits_without_applying :
  committed (fold_left (cstep app_l Nat.eqb false) stale_history (mkRep [1] [1] None false)) = [1].
Proof. vm_compute. reflexivity. Qed.
Example new_commits_the_block :
  committed (fold_left (cstep app_l Nat.eqb true) stale_history (mkRep [1] [1] None false)) = [1; 7].
Proof. vm_compute. reflexivity. Qed.
Print Assumptions commit_is_apply_from_start.
