(* StoreAux.v — auxiliary lemmas for StoreRefine.v: extensionality of key-sorted lists, the simple versioned map
   (amap functions), membership characterisation of spec_get, the raw database operations db_put / db_remove. *)
From Coq Require Import NArith List Bool Lia Sorted.
From V Require Import Bytes Keys VStore Txn StoreModel KeysProofs VStoreProofs TxnProofs.
Import ListNotations.
Local Open Scope N_scope.

(* ---------------------------------------------------------------- generic *)
Lemma bytes_eqb_sym a b : bytes_eqb a b = bytes_eqb b a.
Proof. apply eq_true_iff_eq. rewrite !bytes_eqb_eq. split; congruence. Qed.

Lemma ksorted_ext r (l1 : list (bytes * bytes)) : forall l2, ksorted r l1 -> ksorted r l2 ->
  (forall e, In e l1 <-> In e l2) -> l1 = l2.
Proof.
  induction l1 as [|a l1 IH]; intros [|b l2] S1 S2 H.
  - reflexivity.
  - destruct (proj2 (H b) (or_introl eq_refl)).
  - destruct (proj1 (H a) (or_introl eq_refl)).
  - apply ksorted_inv in S1, S2. destruct S1 as [S1 A1], S2 as [S2 A2].
    assert (E : a = b).
    { destruct (proj1 (H a) (or_introl eq_refl)) as [Hb|Hb]; [now symmetry|].
      destruct (proj2 (H b) (or_introl eq_refl)) as [Ha|Ha]; [exact Ha|].
      specialize (A1 _ Ha). specialize (A2 _ Hb). rewrite (ltd_asym _ _ _ A1) in A2. discriminate. }
    subst b. f_equal. apply IH; try assumption. intros e. split; intros He.
    + destruct (proj1 (H e) (or_intror He)) as [<-|H']; [|exact H'].
      specialize (A1 _ He). rewrite ltd_irrefl in A1. discriminate.
    + destruct (proj2 (H e) (or_intror He)) as [<-|H']; [|exact H'].
      specialize (A2 _ He). rewrite ltd_irrefl in A2. discriminate.
Qed.

Lemma last_nth_len (A : Type) (l : list A) d : last l d = nth (length l - 1) l d.
Proof.
  induction l as [|x l IH]; [reflexivity|]. destruct l as [|y l]; [reflexivity|].
  change (last (x :: y :: l) d) with (last (y :: l) d). rewrite IH. cbn [length].
  replace (S (S (length l)) - 1)%nat with (S (S (length l) - 1)) by lia. reflexivity.
Qed.

(* ---------------------------------------------------------------- the key family *)
Definition keyfam (K : list bytes) : Prop :=
  prefix_free K /\ Forall (fun k => wf_bytes k /\ k <> [] /\ (length k <= 248)%nat) K.

Lemma keyfam_key_ok K k : keyfam K -> In k K -> key_ok k.
Proof.
  intros [_ F] Hk. rewrite Forall_forall in F. destruct (F k Hk) as (W & N & L). repeat split; auto. lia.
Qed.

(* ---------------------------------------------------------------- the simple versioned map *)
Definition amap_ok (K : list bytes) (m : amap) : Prop := ksorted false m /\ Forall (fun e => In (fst e) K) m.

Lemma amap_get_set k v m k' : amap_get k' (amap_set k v m) = if bytes_eqb k' k then Some v else amap_get k' m.
Proof.
  unfold amap_get. induction m as [|[k0 v0] r IH]; cbn [amap_set find fst snd].
  - rewrite (bytes_eqb_sym k k'). destruct (bytes_eqb k' k); reflexivity.
  - destruct (bytes_eqb k k0) eqn:E.
    + apply bytes_eqb_eq in E. subst k0. cbn [find fst snd]. rewrite (bytes_eqb_sym k k').
      destruct (bytes_eqb k' k); reflexivity.
    + destruct (lex_lt k k0).
      * cbn [find fst snd]. rewrite (bytes_eqb_sym k k'). destruct (bytes_eqb k' k); reflexivity.
      * cbn [find fst snd]. destruct (bytes_eqb k0 k') eqn:E1.
        -- apply bytes_eqb_eq in E1. subst k0. rewrite (bytes_eqb_sym k' k), E. reflexivity.
        -- exact IH.
Qed.

Lemma amap_get_del k m k' : amap_get k' (amap_del k m) = if bytes_eqb k' k then None else amap_get k' m.
Proof.
  unfold amap_get, amap_del. induction m as [|[k0 v0] r IH]; cbn [filter find fst snd].
  - destruct (bytes_eqb k' k); reflexivity.
  - destruct (bytes_eqb k0 k) eqn:E; cbn [negb find fst snd].
    + apply bytes_eqb_eq in E. subst k0. rewrite IH. rewrite (bytes_eqb_sym k k').
      destruct (bytes_eqb k' k); reflexivity.
    + destruct (bytes_eqb k0 k') eqn:E1.
      * apply bytes_eqb_eq in E1. subst k0. rewrite E. reflexivity.
      * exact IH.
Qed.

Lemma amap_set_In k v m e : In e (amap_set k v m) -> e = (k, v) \/ In e m.
Proof.
  induction m as [|[k0 v0] r IH]; cbn [amap_set]; intros H.
  - destruct H as [H|[]]; auto.
  - destruct (bytes_eqb k k0).
    + destruct H as [H|H]; [auto|right; now right].
    + destruct (lex_lt k k0).
      * destruct H as [H|H]; auto.
      * destruct H as [H|H]; [right; now left|]. apply IH in H. destruct H; [auto|right; now right].
Qed.

Lemma amap_set_ksorted k v m : ksorted false m -> ksorted false (amap_set k v m).
Proof.
  induction m as [|[k0 v0] r IH]; intros H; cbn [amap_set].
  - apply ksorted_cons; [constructor|]. intros e [].
  - pose proof H as H0. apply ksorted_inv in H0. destruct H0 as [H1 H2].
    destruct (bytes_eqb k k0) eqn:E.
    + apply bytes_eqb_eq in E. subst k0. apply ksorted_cons; [assumption|exact H2].
    + destruct (lex_lt k k0) eqn:El.
      * apply ksorted_cons; [assumption|]. intros e [<-|He]; [exact El|].
        eapply ltd_trans; [exact El|]. apply (H2 e He).
      * apply ksorted_cons; [auto|]. intros e He. apply amap_set_In in He. destruct He as [->|He]; [|auto].
        cbn [fst ltd]. destruct (lex_lt_total k k0) as [Hl|[Hl|Hl]]; [congruence| |exact Hl].
        subst k0. rewrite bytes_eqb_refl in E. discriminate.
Qed.

Lemma amap_set_ok K k v m : In k K -> amap_ok K m -> amap_ok K (amap_set k v m).
Proof.
  intros Hk [S F]. split; [now apply amap_set_ksorted|]. rewrite Forall_forall in *.
  intros e He. apply amap_set_In in He. destruct He as [->|He]; [exact Hk | now apply F].
Qed.
Lemma amap_del_ok K k m : amap_ok K m -> amap_ok K (amap_del k m).
Proof.
  intros [S F]. split; [now apply ksorted_filter|]. rewrite Forall_forall in *.
  intros e He. apply filter_In in He. now apply F.
Qed.

Definition ws_ok (K : list bytes) (ws : wset) : Prop := ksorted false ws /\ Forall (fun e => In (fst e) K) ws.

Lemma amap_apply_ok K ws : forall m, Forall (fun e => In (fst e) K) ws -> amap_ok K m -> amap_ok K (amap_apply m ws).
Proof.
  unfold amap_apply. induction ws as [|[k o] ws IH]; intros m F M; [exact M|].
  cbn [fold_left fst snd]. inversion F as [|x y Hk F']; subst. cbn [fst] in Hk. apply IH; [exact F'|].
  destruct o; [now apply amap_set_ok | now apply amap_del_ok].
Qed.

Lemma amap_get_apply ws : forall m k, ksorted false ws ->
  amap_get k (amap_apply m ws) = txn_get ws (fun k => amap_get k m) k.
Proof.
  unfold amap_apply, txn_get. induction ws as [|[k0 o] ws IH]; intros m k S; [reflexivity|].
  apply ksorted_inv in S. destruct S as [S A]. cbn [fold_left fst snd ws_find]. rewrite IH by exact S.
  destruct (bytes_eqb k k0) eqn:E.
  - apply bytes_eqb_eq in E. subst k0.
    assert (N : ws_find k ws = None).
    { apply ws_find_None. intros Hin. apply in_map_iff in Hin. destruct Hin as [x [Hx Hi]].
      specialize (A _ Hi). cbn [fst ltd] in A. rewrite Hx, lex_lt_irrefl in A. discriminate. }
    rewrite N. destruct o; [rewrite amap_get_set | rewrite amap_get_del]; now rewrite bytes_eqb_refl.
  - destruct (ws_find k ws) as [[v|]|]; try reflexivity.
    destruct o; [rewrite amap_get_set | rewrite amap_get_del]; now rewrite E.
Qed.

Lemma amap_get_In r m k v : ksorted r m -> In (k, v) m -> amap_get k m = Some v.
Proof. intros S H. unfold amap_get. now rewrite (find_ksorted r m k v S H). Qed.
Lemma amap_get_Some m k v : amap_get k m = Some v -> In (k, v) m.
Proof.
  unfold amap_get. destruct (find (fun e => bytes_eqb (fst e) k) m) as [[k0 v0]|] eqn:F; [|discriminate].
  cbn [snd]. intros H. injection H as ->. apply find_some in F. destruct F as [Hin E]. cbn [fst] in E.
  apply bytes_eqb_eq in E. now subst k0.
Qed.

Lemma amap_iter_In p rv m e : In e (amap_iter p rv m) <-> (In e m /\ prefixb p (fst e) = true).
Proof.
  unfold amap_iter. destruct rv; [rewrite <- in_rev|]; apply filter_In.
Qed.
Lemma amap_iter_ksorted p rv m : ksorted false m -> ksorted rv (amap_iter p rv m).
Proof.
  intros S. unfold amap_iter. pose proof (ksorted_filter _ false (fun e => prefixb p (fst e)) m S) as F.
  destruct rv; [|exact F]. now apply (ksorted_rev _ false).
Qed.
Lemma amap_get_iter p rv m k : ksorted false m -> prefixb p k = true -> amap_get k (amap_iter p rv m) = amap_get k m.
Proof.
  intros S P. destruct (amap_get k m) as [v|] eqn:G.
  - apply amap_get_Some in G. apply (amap_get_In rv); [now apply amap_iter_ksorted|].
    apply amap_iter_In. now split.
  - destruct (amap_get k (amap_iter p rv m)) as [v|] eqn:G'; [|reflexivity].
    apply amap_get_Some in G'. apply amap_iter_In in G'. destruct G' as [G' _].
    apply (amap_get_In false _ _ _ S) in G'. congruence.
Qed.

(* the merged iterator over a write-set and the iteration of a map = the iteration of the map after the write-set *)
Lemma txn_iter_amap K rv p ws m : keyfam K -> ws_ok K ws -> amap_ok K m -> wf_bytes p -> (length p <= 248)%nat ->
  txn_iter rv p ws (amap_iter p rv m) = amap_iter p rv (amap_apply m ws).
Proof.
  intros HK [Sw Fw] [Sm Fm] Wp Lp.
  assert (Hws : ws_sorted ws) by now apply ws_sorted_iff.
  assert (Hps : items_sorted rv (amap_iter p rv m)) by (apply items_sorted_iff; now apply amap_iter_ksorted).
  assert (Kw : Forall (fun e : bytes * wop => key_ok (fst e)) ws).
  { rewrite Forall_forall in *. intros e He. eapply keyfam_key_ok; eauto. }
  assert (Kp : Forall (fun e : bytes * bytes => key_ok (fst e) /\ prefixb p (fst e) = true) (amap_iter p rv m)).
  { rewrite Forall_forall in *. intros e He. apply amap_iter_In in He. destruct He as [He Pe].
    split; [eapply keyfam_key_ok; eauto | exact Pe]. }
  destruct (amap_apply_ok K ws m Fw (conj Sm Fm)) as [Sa Fa].
  apply (ksorted_ext rv).
  - apply items_sorted_iff. now apply txn_iter_sorted.
  - now apply amap_iter_ksorted.
  - intros [k v]. rewrite (txn_iter_complete rv p ws _ k v Hws Hps Kw Kp Wp) by lia.
    rewrite amap_iter_In. cbn [fst]. unfold overlay.
    change (fun k0 : bytes => match find (fun e : bytes * bytes => bytes_eqb (fst e) k0) (amap_iter p rv m) with
                              | Some x => Some (snd x) | None => None end)
      with (fun k0 : bytes => amap_get k0 (amap_iter p rv m)).
    split.
    + intros (P & O & _). split; [|exact P]. apply amap_get_Some. rewrite amap_get_apply by exact Sw.
      unfold txn_get in *. destruct (ws_find k ws) as [[v'|]|]; try exact O. now rewrite amap_get_iter in O.
    + intros (I & P). split; [exact P|]. apply (amap_get_In false _ _ _ Sa) in I.
      rewrite amap_get_apply in I by exact Sw. unfold txn_get in *.
      destruct (ws_find k ws) as [[v'|]|] eqn:E.
      * split; [exact I | left; discriminate].
      * discriminate I.
      * rewrite amap_get_iter by assumption. split; [exact I|]. right.
        apply amap_get_Some in I. apply in_map_iff. exists (k, v). split; [reflexivity|].
        apply amap_iter_In. now split.
Qed.

(* ---------------------------------------------------------------- spec_get by membership *)
Definition uniq (db : list entry) : Prop :=
  forall a b, In a db -> In b db -> e_key a = e_key b -> e_ver a = e_ver b -> a = b.

Lemma pw_rawlt_uniq db : pw rawlt db -> uniq db.
Proof.
  induction db as [|x r IH]; intros P a b Ha Hb Ek Ev; [destruct Ha|].
  cbn [pw] in P. destruct P as [F P]. rewrite Forall_forall in F.
  assert (Hr : rawkey a = rawkey b) by (unfold rawkey; now rewrite Ek, Ev).
  destruct Ha as [<-|Ha], Hb as [<-|Hb].
  - reflexivity.
  - specialize (F b Hb). unfold rawlt in F. rewrite Hr, lex_lt_irrefl in F. discriminate.
  - specialize (F a Ha). unfold rawlt in F. rewrite <- Hr, lex_lt_irrefl in F. discriminate.
  - now apply IH.
Qed.

Lemma vmatch_iff ver k x : vmatch ver k x = true <-> (e_key x = k /\ e_ver x <= ver).
Proof. unfold vmatch. rewrite andb_true_iff, bytes_eqb_eq, N.leb_le. reflexivity. Qed.

Lemma visible_ext db db' ver ver' k : uniq db' ->
  (forall x, e_key x = k -> (In x db /\ e_ver x <= ver) <-> (In x db' /\ e_ver x <= ver')) ->
  visible_entry db ver k = visible_entry db' ver' k.
Proof.
  intros U H.
  pose proof (visible_entry_inv db ver k) as I1. pose proof (visible_entry_inv db' ver' k) as I2.
  destruct (visible_entry db ver k) as [b1|], (visible_entry db' ver' k) as [b2|]; cbn [vinv] in I1, I2.
  - destruct I1 as (H1 & M1 & X1), I2 as (H2 & M2 & X2).
    apply vmatch_iff in M1, M2. destruct M1 as [K1 V1], M2 as [K2 V2].
    destruct (proj1 (H b1 K1) (conj H1 V1)) as [H1' V1'].
    destruct (proj2 (H b2 K2) (conj H2 V2)) as [H2' V2'].
    assert (L1 : e_ver b2 <= e_ver b1) by (apply X1; [exact H2' | apply vmatch_iff; now split]).
    assert (L2 : e_ver b1 <= e_ver b2) by (apply X2; [exact H1' | apply vmatch_iff; now split]).
    f_equal. apply U; [exact H1' | exact H2 | congruence | lia].
  - destruct I1 as (H1 & M1 & X1). apply vmatch_iff in M1. destruct M1 as [K1 V1].
    destruct (proj1 (H b1 K1) (conj H1 V1)) as [H1' V1'].
    specialize (I2 b1 H1'). assert (vmatch ver' k b1 = true) by (apply vmatch_iff; now split). congruence.
  - destruct I2 as (H2 & M2 & X2). apply vmatch_iff in M2. destruct M2 as [K2 V2].
    destruct (proj2 (H b2 K2) (conj H2 V2)) as [H2' V2'].
    specialize (I1 b2 H2'). assert (vmatch ver k b2 = true) by (apply vmatch_iff; now split). congruence.
  - reflexivity.
Qed.

Lemma spec_get_ext db db' ver ver' k : uniq db' ->
  (forall x, e_key x = k -> (In x db /\ e_ver x <= ver) <-> (In x db' /\ e_ver x <= ver')) ->
  spec_get db ver k = spec_get db' ver' k.
Proof. intros U H. unfold spec_get. now rewrite (visible_ext db db' ver ver' k U H). Qed.

Lemma spec_get_char db ver k b : uniq db -> In b db -> e_key b = k -> e_ver b <= ver ->
  (forall x, In x db -> e_key x = k -> e_ver x <= ver -> e_ver x <= e_ver b) ->
  spec_get db ver k = if e_dead b then None else Some (e_val b).
Proof.
  intros U Hb Kb Vb Hmax. unfold spec_get. pose proof (visible_entry_inv db ver k) as I1.
  destruct (visible_entry db ver k) as [b1|]; cbn [vinv] in I1.
  - destruct I1 as (H1 & M1 & X1). apply vmatch_iff in M1. destruct M1 as [K1 V1].
    assert (L1 : e_ver b <= e_ver b1) by (apply X1; [exact Hb | apply vmatch_iff; now split]).
    assert (L2 : e_ver b1 <= e_ver b) by now apply Hmax.
    assert (E : b1 = b) by (apply U; [assumption | assumption | congruence | lia]). now subst b1.
  - specialize (I1 b Hb). assert (vmatch ver k b = true) by (apply vmatch_iff; now split). congruence.
Qed.

Lemma spec_get_none db ver k : (forall x, In x db -> e_key x = k -> e_ver x <= ver -> False) -> spec_get db ver k = None.
Proof.
  intros H. unfold spec_get. pose proof (visible_entry_inv db ver k) as I1.
  destruct (visible_entry db ver k) as [b1|]; cbn [vinv] in I1; [|reflexivity].
  destruct I1 as (H1 & M1 & _). apply vmatch_iff in M1. destruct M1 as [K1 V1]. destruct (H b1 H1 K1 V1).
Qed.

Lemma spec_get_some_in db ver k v : spec_get db ver k = Some v -> In k (keys_of db).
Proof.
  unfold spec_get. pose proof (visible_entry_inv db ver k) as I1.
  destruct (visible_entry db ver k) as [b1|]; cbn [vinv] in I1; [|discriminate].
  destruct I1 as (H1 & M1 & _). apply vmatch_iff in M1. destruct M1 as [K1 _]. intros _.
  rewrite <- K1. unfold keys_of. now apply in_map.
Qed.

(* ---------------------------------------------------------------- raw databases over the key family *)
Definition dbok (K : list bytes) (db : list entry) : Prop :=
  pw rawlt db /\ Forall (fun e => In (e_key e) K /\ e_ver e < 18446744073709551616) db.

Lemma pw_sorted_raw l : pw rawlt l -> sorted_raw l = true.
Proof.
  induction l as [|a l IH]; intros P; [reflexivity|]. cbn [pw] in P. destruct P as [F P].
  destruct l as [|b r]; [reflexivity|].
  change (sorted_raw (a :: b :: r)) with (lex_lt (rawkey a) (rawkey b) && sorted_raw (b :: r)).
  rewrite (IH P), andb_true_r.
  inversion F as [|x y Hab _]; subst. exact Hab.
Qed.

Lemma dbok_nil K : dbok K [].
Proof. split; [exact I | constructor]. Qed.

Lemma dbok_wf K db : keyfam K -> dbok K db -> db_wf db.
Proof.
  intros [PF FK] [P F]. split; [now apply pw_sorted_raw|]. rewrite Forall_forall in *. split.
  - intros a b Ha Hb. unfold keys_of in Ha, Hb. apply in_map_iff in Ha, Hb.
    destruct Ha as (x & <- & Hx), Hb as (y & <- & Hy). apply PF; [apply (F x Hx) | apply (F y Hy)].
  - intros x Hx. destruct (F x Hx) as [Kx Vx]. destruct (FK _ Kx) as (W & N & L). repeat split; assumption.
Qed.

Lemma dbok_pf K db k : keyfam K -> dbok K db -> In k K -> prefix_free (k :: keys_of db).
Proof.
  intros [PF _] [_ F] Hk. rewrite Forall_forall in F.
  assert (S : forall a, In a (k :: keys_of db) -> In a K).
  { intros a [<-|Ha]; [exact Hk|]. unfold keys_of in Ha. apply in_map_iff in Ha. destruct Ha as (x & <- & Hx). apply (F x Hx). }
  intros a b Ha Hb. apply PF; now apply S.
Qed.

Lemma dbok_keys K db k : dbok K db -> In k (keys_of db) -> In k K.
Proof.
  intros [_ F] Ha. rewrite Forall_forall in F. unfold keys_of in Ha. apply in_map_iff in Ha.
  destruct Ha as (x & <- & Hx). apply (F x Hx).
Qed.

Lemma dbok_filter K f db : dbok K db -> dbok K (filter f db).
Proof.
  intros [P F]. split; [now apply pw_filter|]. rewrite Forall_forall in *. intros x Hx.
  apply filter_In in Hx. now apply F.
Qed.

Lemma dbok_uniq K db : dbok K db -> uniq db.
Proof. intros [P _]. now apply pw_rawlt_uniq. Qed.

Lemma rawkey_inj a b : e_ver a < 18446744073709551616 -> e_ver b < 18446744073709551616 -> rawkey a = rawkey b ->
  e_key a = e_key b /\ e_ver a = e_ver b.
Proof.
  intros Va Vb E. unfold rawkey, versioned_key in E.
  assert (L : length (e_key a) = length (e_key b)).
  { apply (f_equal (@length N)) in E. rewrite !app_length, !be64_length in E. lia. }
  destruct (app_eq_len _ _ _ _ _ L E) as [E1 E2]. split; [exact E1|].
  apply be64_injective in E2; unfold inv64 in *; lia.
Qed.

(* ---- db_put *)
Lemma db_put_In_weak e db y : In y (db_put e db) -> y = e \/ In y db.
Proof.
  induction db as [|x r IH]; cbn [db_put]; intros H.
  - destruct H as [H|[]]; auto.
  - destruct (bytes_eqb (rawkey x) (rawkey e)).
    + destruct H as [H|H]; [auto | right; now right].
    + destruct (lex_lt (rawkey e) (rawkey x)).
      * destruct H as [H|H]; auto.
      * destruct H as [H|H]; [right; now left|]. apply IH in H. destruct H; [auto | right; now right].
Qed.

Lemma db_put_pw e db : pw rawlt db -> pw rawlt (db_put e db).
Proof.
  induction db as [|x r IH]; intros P; cbn [db_put].
  - cbn [pw]. split; [constructor | exact I].
  - pose proof P as P0. cbn [pw] in P. destruct P as [F P]. rewrite Forall_forall in F.
    destruct (bytes_eqb (rawkey x) (rawkey e)) eqn:E.
    + apply bytes_eqb_eq in E. cbn [pw]. split; [|exact P]. apply Forall_forall. intros y Hy.
      specialize (F y Hy). unfold rawlt in *. now rewrite <- E.
    + destruct (lex_lt (rawkey e) (rawkey x)) eqn:L.
      * cbn [pw] in *. split; [|exact P0]. apply Forall_forall. intros y [<-|Hy]; [exact L|].
        unfold rawlt. eapply lex_lt_trans; [exact L | now apply F].
      * cbn [pw]. split; [|now apply IH]. apply Forall_forall. intros y Hy. apply db_put_In_weak in Hy.
        destruct Hy as [->|Hy]; [|now apply F]. unfold rawlt.
        destruct (lex_lt_total (rawkey x) (rawkey e)) as [H|[H|H]]; [exact H | | congruence].
        rewrite H, bytes_eqb_refl in E. discriminate.
Qed.

Lemma db_put_In e db y : pw rawlt db -> (In y (db_put e db) <-> y = e \/ (In y db /\ rawkey y <> rawkey e)).
Proof.
  induction db as [|x r IH]; intros P; cbn [db_put].
  - cbn [In]. split; [intros [H|[]]; auto | intros [H|[[] _]]; auto].
  - cbn [pw] in P. destruct P as [F P]. rewrite Forall_forall in F.
    assert (NE : forall z, In z r -> rawkey z <> rawkey x).
    { intros z Hz C. specialize (F z Hz). unfold rawlt in F. rewrite C, lex_lt_irrefl in F. discriminate. }
    destruct (bytes_eqb (rawkey x) (rawkey e)) eqn:E.
    + apply bytes_eqb_eq in E. split.
      * intros [H|H]; [auto|]. right. split; [now right|]. rewrite <- E. now apply NE.
      * intros [H|[[H|H] N]]; [left; auto | subst y; contradiction | now right].
    + apply bytes_eqb_neq in E. destruct (lex_lt (rawkey e) (rawkey x)) eqn:L.
      * split.
        -- intros [H|H]; [auto|]. right. split; [exact H|]. intros C. destruct H as [<-|H].
           ++ rewrite C, lex_lt_irrefl in L. discriminate.
           ++ specialize (F y H). unfold rawlt in F. rewrite C in F. rewrite (lex_lt_asym _ _ L) in F. discriminate.
        -- intros [H|[H _]]; [left; auto | now right].
      * cbn [In]. rewrite (IH P). split.
        -- intros [H|[H|[H N]]]; [subst y; right; split; [now left | exact E] | auto | right; split; [now right | exact N]].
        -- intros [H|[[H|H] N]]; [auto | auto | right; right; now split].
Qed.

Lemma db_put_ok K e db : dbok K db -> In (e_key e) K -> e_ver e < 18446744073709551616 -> dbok K (db_put e db).
Proof.
  intros [P F] Hk Hv. split; [now apply db_put_pw|]. rewrite Forall_forall in *. intros y Hy.
  apply db_put_In_weak in Hy. destruct Hy as [->|Hy]; [now split | now apply F].
Qed.

Lemma spec_get_put_same K e db ver : dbok K db -> e_ver e <= ver ->
  (forall x, In x db -> e_key x = e_key e -> e_ver x <= e_ver e) ->
  spec_get (db_put e db) ver (e_key e) = if e_dead e then None else Some (e_val e).
Proof.
  intros [P F] Hv Hmax. apply spec_get_char.
  - apply pw_rawlt_uniq. now apply db_put_pw.
  - apply db_put_In; [exact P | now left].
  - reflexivity.
  - exact Hv.
  - intros x Hx Kx _. apply db_put_In_weak in Hx. destruct Hx as [->|Hx]; [lia | now apply Hmax].
Qed.

Lemma spec_get_put_other K e db ver k : dbok K db -> e_ver e < 18446744073709551616 ->
  (e_key e <> k \/ ver < e_ver e) -> spec_get (db_put e db) ver k = spec_get db ver k.
Proof.
  intros [P F] Hv Hd. apply spec_get_ext; [now apply pw_rawlt_uniq|]. rewrite Forall_forall in F.
  intros x Kx. rewrite (db_put_In e db x P). split.
  - intros [[->|[Hx _]] Vx]; [exfalso; destruct Hd; [contradiction | lia] | now split].
  - intros [Hx Vx]. split; [|exact Vx]. right. split; [exact Hx|]. intros C.
    apply rawkey_inj in C; [|apply (F x Hx) | exact Hv]. destruct C as [C1 C2]. destruct Hd; [congruence | lia].
Qed.

(* ---- db_remove *)
Lemma spec_get_remove_other K k V db ver k' : dbok K db -> k' <> k ->
  spec_get (db_remove k V db) ver k' = spec_get db ver k'.
Proof.
  intros [P _] Hne. apply spec_get_ext; [now apply pw_rawlt_uniq|]. intros x Kx. unfold db_remove.
  rewrite filter_In. split; [tauto|]. intros [Hx Vx]. repeat split; try assumption.
  apply negb_true_iff, andb_false_iff. left. apply bytes_eqb_neq. congruence.
Qed.

Lemma spec_get_remove_same k V db ver : (forall x, In x db -> e_key x = k -> e_ver x = V) ->
  spec_get (db_remove k V db) ver k = None.
Proof.
  intros H. apply spec_get_none. intros x Hx Kx _. unfold db_remove in Hx. apply filter_In in Hx.
  destruct Hx as [Hx Hf]. apply negb_true_iff, andb_false_iff in Hf. destruct Hf as [Hf|Hf].
  - apply bytes_eqb_neq in Hf. contradiction.
  - apply N.eqb_neq in Hf. apply Hf. now apply H.
Qed.

(* ---- the latest-state partition: one entry per key, all at maxver *)
Definition lssok (K : list bytes) (db : list entry) : Prop := dbok K db /\ Forall (fun e => e_ver e = maxver) db.
Definition lss_patch (k : bytes) (o : option bytes) (db : list entry) : list entry :=
  match o with Some v => db_put (mkEntry k maxver false v) db | None => db_remove k maxver db end.

Lemma maxver_u64 : maxver < 18446744073709551616.
Proof. reflexivity. Qed.

Lemma lss_patch_ok K k o db : In k K -> lssok K db -> lssok K (lss_patch k o db).
Proof.
  intros Hk [D M]. destruct o as [v|]; cbn [lss_patch].
  - split; [apply db_put_ok; [exact D | exact Hk | exact maxver_u64]|].
    rewrite Forall_forall in *. intros y Hy. apply db_put_In_weak in Hy. destruct Hy as [->|Hy]; [reflexivity | now apply M].
  - split; [now apply dbok_filter|]. rewrite Forall_forall in *. intros y Hy. apply filter_In in Hy. now apply M.
Qed.

Lemma lss_patch_get K k o db k' : lssok K db ->
  spec_get (lss_patch k o db) maxver k' = if bytes_eqb k' k then o else spec_get db maxver k'.
Proof.
  intros [D M]. rewrite Forall_forall in M. destruct (bytes_eqb k' k) eqn:E.
  - apply bytes_eqb_eq in E. subst k'. destruct o as [v|]; cbn [lss_patch].
    + apply (spec_get_put_same K (mkEntry k maxver false v) db maxver D); cbn [e_ver e_key]; [lia|].
      intros x Hx _. rewrite (M x Hx). lia.
    + apply spec_get_remove_same. intros x Hx _. now apply M.
  - apply bytes_eqb_neq in E. destruct o as [v|]; cbn [lss_patch].
    + apply (spec_get_put_other K); [exact D | exact maxver_u64 | left; cbn [e_key]; congruence].
    + now apply (spec_get_remove_other K).
Qed.

(* ---------------------------------------------------------------- reads over the key family *)
Lemma spec_iter_amap K db ver m p rv : keyfam K -> dbok K db -> amap_ok K m -> wf_bytes p ->
  (forall k, In k K -> spec_get db ver k = amap_get k m) -> spec_iter db ver p rv = amap_iter p rv m.
Proof.
  intros HK D [Sm Fm] Wp H. pose proof (dbok_wf K db HK D) as W.
  assert (E : spec_iter_fwd db ver p = filter (fun e => prefixb p (fst e)) m).
  { apply (ksorted_ext false).
    - apply items_sorted_iff. exact (spec_iter_sorted db ver p W).
    - now apply ksorted_filter.
    - intros [k v]. rewrite (spec_iter_complete db ver p k v W Wp), filter_In. cbn [fst]. split.
      + intros (P & Hk & G). split; [|exact P]. apply amap_get_Some. rewrite <- H; [exact G|]. eapply dbok_keys; eauto.
      + intros (I & P). rewrite Forall_forall in Fm. pose proof (Fm _ I) as Hk. cbn [fst] in Hk.
        assert (G : spec_get db ver k = Some v) by (rewrite H by exact Hk; now apply (amap_get_In false)).
        split; [exact P|]. split; [now apply spec_get_some_in in G | exact G]. }
  unfold spec_iter, amap_iter. now rewrite E.
Qed.

Lemma vget_K K db ver k : keyfam K -> dbok K db -> In k K -> ver < 18446744073709551616 ->
  vget db ver k = spec_get db ver k.
Proof.
  intros HK D Hk Hv. pose proof HK as [_ FK]. rewrite Forall_forall in FK. destruct (FK k Hk) as (W & N & L).
  apply vget_refines; try assumption; [now apply (dbok_wf K) | now apply (dbok_pf K)].
Qed.

Lemma viter_K K db ver m p rv : keyfam K -> dbok K db -> amap_ok K m -> wf_bytes p -> (length p <= 248)%nat ->
  ver < 18446744073709551616 -> (forall k, In k K -> spec_get db ver k = amap_get k m) ->
  viter db ver p rv true = amap_iter p rv m.
Proof.
  intros HK D M Wp Lp Hv H. rewrite viter_refines; try assumption; [|now apply (dbok_wf K)].
  now apply (spec_iter_amap K).
Qed.

(* ---- the stack of write-sets *)
Definition aview (m : amap) (stack : list wset) : amap := fold_right (fun ws m => amap_apply m ws) m stack.

Lemma aview_ok K stack m : Forall (ws_ok K) stack -> amap_ok K m -> amap_ok K (aview m stack).
Proof.
  induction stack as [|ws r IH]; intros F M; [exact M|]. inversion F as [|x y [S Fk] F']; subst.
  cbn [aview fold_right]. apply amap_apply_ok; [exact Fk | now apply IH].
Qed.

Lemma stack_get_ext stack b1 b2 k : b1 k = b2 k -> stack_get stack b1 k = stack_get stack b2 k.
Proof.
  intros H. induction stack as [|ws r IH]; [exact H|]. cbn [stack_get]. unfold txn_get. now rewrite IH.
Qed.

Lemma stack_get_view K stack m k : Forall (ws_ok K) stack ->
  stack_get stack (fun k => amap_get k m) k = amap_get k (aview m stack).
Proof.
  induction stack as [|ws r IH]; intros F; [reflexivity|]. inversion F as [|x y [S Fk] F']; subst.
  cbn [stack_get aview fold_right]. rewrite amap_get_apply by exact S. unfold txn_get. now rewrite (IH F').
Qed.

Lemma stack_iter_view K stack m p rv : keyfam K -> Forall (ws_ok K) stack -> amap_ok K m -> wf_bytes p ->
  (length p <= 248)%nat -> stack_iter stack (amap_iter p rv m) rv p = amap_iter p rv (aview m stack).
Proof.
  intros HK F M Wp Lp. induction stack as [|ws r IH]; [reflexivity|]. inversion F as [|x y Hw F']; subst.
  cbn [stack_iter aview fold_right]. rewrite (IH F'). apply (txn_iter_amap K); try assumption.
  now apply aview_ok.
Qed.

(* ---- the folds of Commit and Rollback *)
Definition commit_lss_step (db : list entry) (e : bytes * wop) : list entry :=
  match snd e with
  | WSet v => db_put (mkEntry (fst e) maxver false v) db
  | WDel => db_remove (fst e) maxver db
  end.
Definition commit_hss_step (nv : N) (db : list entry) (e : bytes * wop) : list entry :=
  match snd e with
  | WSet v => db_put (mkEntry (fst e) nv false v) db
  | WDel => db_put (mkEntry (fst e) nv true []) db
  end.
Definition amap_step (m : amap) (e : bytes * wop) : amap :=
  match snd e with WSet v => amap_set (fst e) v m | WDel => amap_del (fst e) m end.

Lemma commit_lss_fold K ws : forall db m, Forall (fun e => In (fst e) K) ws -> lssok K db ->
  (forall k, In k K -> spec_get db maxver k = amap_get k m) ->
  lssok K (fold_left commit_lss_step ws db) /\
  (forall k, In k K -> spec_get (fold_left commit_lss_step ws db) maxver k = amap_get k (fold_left amap_step ws m)).
Proof.
  induction ws as [|[k0 o] ws IH]; intros db m F L H; [now split|].
  inversion F as [|x y Hk F']; subst. cbn [fst] in Hk. cbn [fold_left].
  assert (E : commit_lss_step db (k0, o) = lss_patch k0 (match o with WSet v => Some v | WDel => None end) db)
    by (destruct o; reflexivity).
  rewrite E. apply IH; [exact F' | now apply lss_patch_ok |].
  intros k Hkk. rewrite (lss_patch_get K) by exact L. unfold amap_step. cbn [fst snd].
  destruct o as [v|]; [rewrite amap_get_set | rewrite amap_get_del]; (destruct (bytes_eqb k k0); [reflexivity | now apply H]).
Qed.

Lemma commit_hss_fold K nv ws : nv < 18446744073709551616 -> forall db m, Forall (fun e => In (fst e) K) ws ->
  dbok K db -> Forall (fun e => e_ver e <= nv) db ->
  (forall k, In k K -> spec_get db nv k = amap_get k m) ->
  let db' := fold_left (commit_hss_step nv) ws db in
  dbok K db' /\ Forall (fun e => e_ver e <= nv) db' /\
  (forall k, In k K -> spec_get db' nv k = amap_get k (fold_left amap_step ws m)) /\
  (forall v k, v < nv -> spec_get db' v k = spec_get db v k).
Proof.
  intros Hnv. induction ws as [|[k0 o] ws IH]; intros db m F D V H; [cbn; auto|].
  inversion F as [|x y Hk F']; subst. cbn [fst] in Hk. cbn [fold_left].
  assert (E : exists d val, commit_hss_step nv db (k0, o) = db_put (mkEntry k0 nv d val) db /\
                            amap_get k0 (amap_step m (k0, o)) = (if d then None else Some val)).
  { destruct o as [v|]; [exists false, v | exists true, []]; (split; [reflexivity|]); unfold amap_step; cbn [fst snd];
      [rewrite amap_get_set | rewrite amap_get_del]; now rewrite bytes_eqb_refl. }
  destruct E as (d & val & E & Ea). rewrite E.
  assert (D1 : dbok K (db_put (mkEntry k0 nv d val) db)) by (apply db_put_ok; assumption).
  assert (V1 : Forall (fun e => e_ver e <= nv) (db_put (mkEntry k0 nv d val) db)).
  { rewrite Forall_forall in *. intros z Hz. apply db_put_In_weak in Hz. destruct Hz as [->|Hz]; [cbn; lia | now apply V]. }
  destruct (IH (db_put (mkEntry k0 nv d val) db) (amap_step m (k0, o)) F' D1 V1) as (A1 & A2 & A3 & A4).
  - intros k Hkk. destruct (bytes_eqb k k0) eqn:Ek.
    + apply bytes_eqb_eq in Ek. subst k. rewrite Ea.
      apply (spec_get_put_same K (mkEntry k0 nv d val) db nv D); cbn [e_ver e_key]; [lia|].
      intros z Hz _. rewrite Forall_forall in V. now apply V.
    + apply bytes_eqb_neq in Ek. rewrite (spec_get_put_other K) by (try assumption; left; cbn [e_key]; congruence).
      rewrite (H k Hkk). unfold amap_step. cbn [fst snd].
      destruct o as [v|]; [rewrite amap_get_set | rewrite amap_get_del];
        (destruct (bytes_eqb k k0) eqn:Ek'; [apply bytes_eqb_eq in Ek'; contradiction | reflexivity]).
  - cbv zeta. split; [exact A1|]. split; [exact A2|]. split; [exact A3|]. intros v k Hv. rewrite A4 by exact Hv.
    apply (spec_get_put_other K); [exact D | exact Hnv | right; cbn [e_ver]; exact Hv].
Qed.

Lemma amap_apply_fold m ws : amap_apply m ws = fold_left amap_step ws m.
Proof. reflexivity. Qed.

Lemma patch_fold K (g : bytes -> option bytes) ks : forall db, Forall (fun k => In k K) ks -> lssok K db ->
  let db' := fold_left (fun db k => lss_patch k (g k) db) ks db in
  lssok K db' /\
  forall k, spec_get db' maxver k = if existsb (bytes_eqb k) ks then g k else spec_get db maxver k.
Proof.
  induction ks as [|k0 ks IH]; intros db F L; [cbn; auto|].
  inversion F as [|x y Hk F']; subst. cbn [fold_left].
  destruct (IH (lss_patch k0 (g k0) db) F' (lss_patch_ok K k0 (g k0) db Hk L)) as [A1 A2].
  split; [exact A1|]. intros k. cbn zeta in A2. rewrite A2. cbn [existsb].
  rewrite (lss_patch_get K) by exact L.
  destruct (existsb (bytes_eqb k) ks); [now rewrite orb_true_r|]. rewrite orb_false_r.
  destruct (bytes_eqb k k0) eqn:E; [|reflexivity]. apply bytes_eqb_eq in E. now subst.
Qed.

(* ---- small list facts *)
Lemma In_firstn (A : Type) n : forall (l : list A) x, In x (firstn n l) -> In x l.
Proof.
  induction n as [|n IH]; intros [|y l] x H; try destruct H.
  - now left.
  - right. now apply IH.
Qed.
Lemma nth_firstn_lt (A : Type) n : forall i (l : list A) d, (i < n)%nat -> nth i (firstn n l) d = nth i l d.
Proof.
  induction n as [|n IH]; intros i l d H; [lia|]. destruct l as [|x l]; [now destruct i|].
  destruct i as [|i]; [reflexivity|]. cbn [firstn nth]. apply IH. lia.
Qed.
Lemma Forall_nth_d (A : Type) (P : A -> Prop) l d n : Forall P l -> P d -> P (nth n l d).
Proof.
  intros F Hd. revert n. induction F as [|x l Hx F IH]; intros [|n]; cbn [nth]; auto.
Qed.
