(* BftLiveAux.v — one replica through the phases of a synchronous round (used by BftLiveness.v). *)
From Coq Require Import NArith List Bool Lia.
From V Require Import U64 Extracted Bft BftNet BftLive BftArith BftInv BftLocal.
Import ListNotations.
Local Open Scope N_scope.

Lemma view_less_spec a b : view_less a b = true <->
  tlt3 (vw_root a) (vw_round a) (vw_phase a) (vw_root b) (vw_round b) (vw_phase b).
Proof.
  unfold view_less, tlt3.
  destruct (N.ltb_spec (vw_root a) (vw_root b)); [split; [lia|auto]|].
  destruct (N.ltb_spec (vw_root b) (vw_root a)); [split; [discriminate|lia]|].
  destruct (N.ltb_spec (vw_round a) (vw_round b)); [split; [lia|auto]|].
  destruct (N.ltb_spec (vw_round b) (vw_round a)); [split; [discriminate|lia]|].
  rewrite N.ltb_lt. lia.
Qed.
Lemma view_less_false a b : view_less a b = false <->
  tle3 (vw_root b) (vw_round b) (vw_phase b) (vw_root a) (vw_round a) (vw_phase a).
Proof.
  destruct (view_less a b) eqn:E.
  - apply view_less_spec in E. unfold tlt3, tle3 in *. split; [discriminate|lia].
  - split; [intros _|reflexivity].
    assert (H : ~ tlt3 (vw_root a) (vw_round a) (vw_phase a) (vw_root b) (vw_round b) (vw_phase b))
      by (intros Hc; apply view_less_spec in Hc; congruence).
    unfold tlt3, tle3 in *. lia.
Qed.

(* ---- get_prop after put_prop *)
Lemma get_prop_put m r : vw_root (q_view (m_qc m)) = r_root r -> get_prop (put_prop m r) (m_round m) (m_phase m) = Some m.
Proof.
  intros H. unfold get_prop, put_prop. simpl. rewrite !N.eqb_refl. simpl. rewrite H, N.eqb_refl. reflexivity.
Qed.
Lemma get_prop_put_other m r rd ph : (rd =? m_round m) && (ph =? m_phase m) = false ->
  get_prop (put_prop m r) rd ph = get_prop r rd ph.
Proof.
  intros H. unfold get_prop, put_prop. simpl.
  rewrite (N.eqb_sym (m_round m) rd), (N.eqb_sym (m_phase m) ph), H.
  assert (Hf : forall l, find (fun e : N * N * lmsg => (fst (fst e) =? rd) && (snd (fst e) =? ph))
                 (filter (fun e => negb ((fst (fst e) =? m_round m) && (snd (fst e) =? m_phase m))) l) =
               find (fun e : N * N * lmsg => (fst (fst e) =? rd) && (snd (fst e) =? ph)) l).
  { induction l as [|e l IH]; simpl; [reflexivity|].
    destruct ((fst (fst e) =? m_round m) && (snd (fst e) =? m_phase m)) eqn:E1; simpl.
    - destruct ((fst (fst e) =? rd) && (snd (fst e) =? ph)) eqn:E2; [|exact IH].
      exfalso. apply andb_true_iff in E1, E2. destruct E1 as [A1 A2], E2 as [B1 B2].
      apply N.eqb_eq in A1, A2, B1, B2. rewrite <- A1, <- A2, <- B1, <- B2, !N.eqb_refl in H. discriminate.
    - destruct ((fst (fst e) =? rd) && (snd (fst e) =? ph)); [reflexivity|exact IH]. }
  rewrite Hf. reflexivity.
Qed.

Section Replica.
Variables (P : list N) (lru : N) (i leader : N).
Let c := conf_of P lru i.
Hypothesis Hleader_val : is_validator c leader = true.

Definition stepf (prop : N * N) (r : rstate) : rstate :=
  fst (step c r (orc leader (i =? leader) prop (r_root r))).

(* the part of the state the round does not care about may change; what matters: *)
Definition core_eq (r r' : rstate) : Prop :=
  r_root r' = r_root r /\ r_round r' = r_round r /\ r_lock r' = r_lock r /\ r_props r' = r_props r /\ r_commit r' = r_commit r.

Definition core_eq0 (r r' : rstate) : Prop :=
  r_root r' = r_root r /\ r_round r' = r_round r /\ r_phase r' = r_phase r /\ r_lock r' = r_lock r /\ r_commit r' = r_commit r.

Ltac at_phase Hc Hph :=
  unfold stepf, step; rewrite Hc; cbv zeta; rewrite Hph;
  unfold Phase_ELECTION, Phase_ELECTION_VOTE, Phase_PROPOSE, Phase_PROPOSE_VOTE, Phase_PRECOMMIT, Phase_PRECOMMIT_VOTE,
    Phase_COMMIT, Phase_COMMIT_PROCESS, Phase_PACEMAKER;
  cbn [N.eqb Pos.eqb].

Lemma stepf_1 prop r : r_commit r = None -> r_phase r = 1 -> core_eq r (stepf prop r) /\ r_phase (stepf prop r) = 2.
Proof. intros Hc Hph. at_phase Hc Hph. simpl. rewrite Hph. repeat split; auto. Qed.
Lemma stepf_2 prop r : r_commit r = None -> r_phase r = 2 -> core_eq r (stepf prop r) /\ r_phase (stepf prop r) = 3.
Proof. intros Hc Hph. at_phase Hc Hph. simpl. rewrite Hph. repeat split; auto. Qed.
Lemma stepf_3 prop r : r_commit r = None -> r_phase r = 3 -> core_eq r (stepf prop r) /\ r_phase (stepf prop r) = 4.
Proof. intros Hc Hph. at_phase Hc Hph. destruct (i =? leader); simpl; try rewrite Hph; repeat split; auto. Qed.

(* ---- the leader's three messages *)
Variables (ids : list N) (root round : N) (v : N * N) (high : option qc).
Definition ecert (ph : N) : qc := mkQC (mkView root round ph) (fst v) (snd v) leader ids true.
Definition lm_prop : lmsg := mkLM leader true round 3 (ecert 2) true high lru.
Definition lm_prec : lmsg := mkLM leader true round 5 (ecert 4) false None lru.
Definition lm_com : lmsg := mkLM leader true round 7 (ecert 6) false None lru.
Hypothesis Hfull : forall ph, qc_check c (ecert ph) = QFull.
Hypothesis Hhigh : forall h, high = Some h -> high_ok c h = true.
Hypothesis Hv1 : fst v <> 0.
Hypothesis Hv2 : snd v <> 0.

Definition held (r : rstate) : Prop :=
  r_blk r = fst v /\ r_bhc r = fst v /\ r_res r = snd v /\ r_proposer r = Some leader.

Lemma held_touch r : held r -> touch r = r.
Proof.
  intros [H1 [H2 [H3 H4]]]. unfold touch, block_hash. rewrite H2.
  destruct (N.eqb_spec (fst v) 0) as [E|_]; [contradiction|]. rewrite <- H2. destruct r; reflexivity.
Qed.
Lemma held_hash r : held r -> block_hash r = fst v.
Proof.
  intros [H1 [H2 [H3 H4]]]. unfold block_hash. rewrite H2. destruct (N.eqb_spec (fst v) 0); [contradiction|reflexivity].
Qed.

Local Arguments qc_check : simpl never.
Local Arguments high_ok : simpl never.
Local Arguments get_prop : simpl never.
Local Arguments put_prop : simpl never.

Lemma recv_prop r : r_commit r = None -> r_root r = root ->
  let r' := recv_lmsg c r lm_prop in
  core_eq0 r r' /\ get_prop r' round 3 = Some lm_prop.
Proof.
  intros Hc Hr. unfold recv_lmsg. rewrite Hc. cbv zeta.
  change (m_from lm_prop) with leader. rewrite Hleader_val. cbn [negb].
  set (r1 := if r_blk r =? 0 then r else touch r).
  assert (H1 : core_eq0 r r1) by (unfold r1, core_eq0; destruct (r_blk r =? 0); simpl; repeat split; auto).
  destruct H1 as [A1 [A2 [A3 [A4 A5]]]].
  change (m_sigok lm_prop) with true. change (m_phase lm_prop) with 3. change (m_qc lm_prop) with (ecert 2).
  change (m_high lm_prop) with high. change (m_round lm_prop) with round. change (m_hasprop lm_prop) with true.
  unfold Phase_PROPOSE, Phase_PRECOMMIT, Phase_COMMIT. cbn [negb N.eqb Pos.eqb orb].
  change (vw_root (q_view (ecert 2))) with root. rewrite A1, Hr, N.eqb_refl. cbn [negb].
  rewrite (Hfull 2).
  assert (Hh : match high with Some h => negb (high_ok c h) | None => false end = false).
  { destruct high as [h|] eqn:E; [|reflexivity]. rewrite (Hhigh h eq_refl). reflexivity. }
  rewrite Hh.
  change (vw_round (q_view (ecert 2))) with round. change (vw_phase (q_view (ecert 2))) with 2.
  rewrite N.eqb_refl. cbn [N.add Pos.add N.eqb Pos.eqb andb negb Pos.succ].
  change (q_proposer (ecert 2)) with leader. rewrite N.eqb_refl. cbn [andb].
  split.
  - unfold core_eq0, put_prop. simpl. repeat split; auto.
  - apply (get_prop_put lm_prop r1). simpl. congruence.
Qed.

Lemma recv_held (m : lmsg) ph : (m = lm_prec /\ ph = 4) \/ (m = lm_com /\ ph = 6) ->
  forall r, r_commit r = None -> r_root r = root -> held r ->
  let r' := recv_lmsg c r m in
  core_eq0 r r' /\ held r' /\ get_prop r' round (ph + 1) = Some m.
Proof.
  intros Hm r Hc Hr Hh. unfold recv_lmsg. rewrite Hc. cbv zeta.
  assert (Hfrom : m_from m = leader) by (destruct Hm as [[-> _]|[-> _]]; reflexivity).
  rewrite Hfrom, Hleader_val. cbn [negb].
  assert (Hr1 : (if r_blk r =? 0 then r else touch r) = r) by (destruct (r_blk r =? 0); [reflexivity|now apply held_touch]).
  rewrite Hr1.
  (* the leader's message names the leader as proposer and is sent by the leader: nothing stored keeps it out *)
  assert (Hk : keeps r m = false).
  { apply keeps_consistent. rewrite Hfrom. destruct Hm as [[-> _]|[-> _]]; reflexivity. }
  rewrite Hk. cbn [negb andb].
  assert (Hq : m_qc m = ecert ph) by (destruct Hm as [[-> ->]|[-> ->]]; reflexivity).
  assert (Hs : m_sigok m = true) by (destruct Hm as [[-> _]|[-> _]]; reflexivity).
  assert (Hp : m_phase m = ph + 1) by (destruct Hm as [[-> ->]|[-> ->]]; reflexivity).
  assert (Hrd : m_round m = round) by (destruct Hm as [[-> _]|[-> _]]; reflexivity).
  assert (Hhi : m_high m = None) by (destruct Hm as [[-> _]|[-> _]]; reflexivity).
  rewrite Hs, Hq, Hhi, Hrd. cbn [negb].
  assert (Hpt : (m_phase m =? Phase_PROPOSE) || (m_phase m =? Phase_PRECOMMIT) || (m_phase m =? Phase_COMMIT) = true)
    by (destruct Hm as [[-> _]|[-> _]]; reflexivity).
  rewrite Hpt. cbn [negb].
  change (vw_root (q_view (ecert ph))) with root. rewrite Hr, N.eqb_refl. cbn [negb].
  rewrite (Hfull ph).
  change (vw_round (q_view (ecert ph))) with round. change (vw_phase (q_view (ecert ph))) with ph.
  rewrite Hp, !N.eqb_refl. cbn [andb negb].
  assert (Hnp : (ph + 1 =? Phase_PROPOSE) = false) by (destruct Hm as [[_ ->]|[_ ->]]; reflexivity).
  rewrite Hnp.
  destruct Hh as [H1 [H2 [H3 H4]]].
  assert (Hbh : block_hash r = fst v) by (apply held_hash; repeat split; auto).
  change (q_block (ecert ph)) with (fst v). change (q_results (ecert ph)) with (snd v).
  rewrite Hbh, H3, H1, !N.eqb_refl.
  destruct (N.eqb_spec (fst v) 0) as [E|_]; [contradiction|]. cbn [negb andb].
  split; [|split].
  - unfold core_eq0, put_prop. simpl. repeat split; auto.
  - unfold held, put_prop. simpl. auto.
  - rewrite <- Hp, <- Hrd. apply get_prop_put. rewrite Hq. simpl. congruence.
Qed.

Lemma stepf_4 r : r_commit r = None -> r_phase r = 4 -> r_round r = round ->
  get_prop r round 3 = Some lm_prop -> (forall l, r_lock r = Some l -> safe_node l lm_prop = true) ->
  core_eq r (stepf v r) /\ r_phase (stepf v r) = 5 /\ held (stepf v r).
Proof.
  intros Hc Hph Hrd Hg Hsafe. at_phase Hc Hph. rewrite Hrd, Hg.
  assert (Hs : match r_lock r with Some l => negb (safe_node l lm_prop) | None => false end = false).
  { destruct (r_lock r) as [l|] eqn:E; [|reflexivity]. rewrite (Hsafe l eq_refl). reflexivity. }
  rewrite Hs. change (m_rcbuild lm_prop) with lru. change (c_lru c) with lru. rewrite N.ltb_irrefl.
  change (o_valid (orc leader (i =? leader) v (r_root r))) with true. cbn [negb].
  unfold core_eq, held. simpl. repeat split; auto.
Qed.

Lemma pm_false r b : r_proposer r = Some leader ->
  (match r_proposer r with Some q => q =? c_self c | None => false end) && negb (o_maj (orc leader (i =? leader) v b)) = false.
Proof.
  intros H. rewrite H. change (c_self c) with i. change (o_maj (orc leader (i =? leader) v b)) with (i =? leader).
  rewrite (N.eqb_sym leader i). destruct (i =? leader); reflexivity.
Qed.

Lemma stepf_57 r ph : ph = 5 \/ ph = 7 -> r_commit r = None -> r_phase r = ph -> held r ->
  core_eq r (stepf v r) /\ r_phase (stepf v r) = ph + 1 /\ held (stepf v r).
Proof.
  intros Hp Hc Hph Hh. destruct Hh as [H1 [H2 [H3 H4]]].
  destruct Hp as [-> | ->]; at_phase Hc Hph; rewrite (pm_false r _ H4); unfold core_eq, held; simpl; rewrite Hph; repeat split; auto.
Qed.

Lemma stepf_6 r : r_commit r = None -> r_phase r = 6 -> r_round r = round -> held r ->
  get_prop r round 5 = Some lm_prec ->
  let r' := stepf v r in
  r_root r' = r_root r /\ r_round r' = r_round r /\ r_props r' = r_props r /\ r_commit r' = None /\ r_phase r' = 7 /\ held r'.
Proof.
  intros Hc Hph Hrd Hh Hg. pose proof (held_touch r Hh) as Ht. pose proof (held_hash r Hh) as Hb.
  destruct Hh as [H1 [H2 [H3 H4]]].
  cbv zeta. at_phase Hc Hph. rewrite Hrd, Hg.
  assert (Hcp : check_pp r lm_prec = true).
  { unfold check_pp. rewrite H4, Hb, H3. change (m_from lm_prec) with leader.
    change (q_block (m_qc lm_prec)) with (fst v). change (q_results (m_qc lm_prec)) with (snd v). now rewrite !N.eqb_refl. }
  rewrite Hcp. cbn [negb]. rewrite Ht. unfold held. simpl. rewrite Hc. repeat split; auto. rewrite Hph. reflexivity.
Qed.

Lemma stepf_8 r : r_commit r = None -> r_phase r = 8 -> r_round r = round -> held r ->
  get_prop r round 7 = Some lm_com -> r_commit (stepf v r) = Some v.
Proof.
  intros Hc Hph Hrd Hh Hg. pose proof (held_touch r Hh) as Ht. pose proof (held_hash r Hh) as Hb.
  destruct Hh as [H1 [H2 [H3 H4]]].
  at_phase Hc Hph. rewrite Hrd, Hg.
  assert (Hcp : check_pp r lm_com = true).
  { unfold check_pp. rewrite H4, Hb, H3. change (m_from lm_com) with leader.
    change (q_block (m_qc lm_com)) with (fst v). change (q_results (m_qc lm_com)) with (snd v). now rewrite !N.eqb_refl. }
  rewrite Hcp. cbn [negb]. rewrite Ht.
  change (m_qc lm_com) with (ecert 6). rewrite (Hfull 6).
  change (vw_phase (q_view (ecert 6))) with 6. change (q_block (ecert 6)) with (fst v). change (q_results (ecert 6)) with (snd v).
  rewrite H1, H3, !N.eqb_refl.
  destruct (N.eqb_spec (fst v) 0) as [E|_]; [contradiction|]. destruct (N.eqb_spec (snd v) 0) as [E|_]; [contradiction|].
  simpl. destruct v; reflexivity.
Qed.
End Replica.

(* ---- folding a per-replica action over duplicate-free ids touches each replica exactly once *)
Lemma memb_cons a l j : memb (a :: l) j = (j =? a) || memb l j.
Proof. reflexivity. Qed.

Lemma fold_upd_get (Fn : net -> N -> net) (G : N -> rstate -> rstate) :
  (forall n i r, get_rep n i = Some r -> exists nv, Fn n i = upd n i (G i r) nv) ->
  (forall n i, get_rep n i = None -> Fn n i = n) ->
  forall ids, NoDup ids -> forall n j,
  get_rep (fold_left Fn ids n) j = match get_rep n j with Some r => Some (if memb ids j then G j r else r) | None => None end.
Proof.
  intros HS HN. induction ids as [|a ids IH]; intros Hnd n j; cbn [fold_left].
  - destruct (get_rep n j); reflexivity.
  - inversion Hnd as [|? ? Hni Hnd']; subst. rewrite (IH Hnd').
    destruct (get_rep n a) as [ra|] eqn:Ea.
    + destruct (HS n a ra Ea) as [nv ->]. rewrite get_rep_upd.
      destruct (get_rep n j) as [rj|] eqn:Ej; [|reflexivity].
      rewrite memb_cons. destruct (N.eqb_spec j a) as [->|Hne]; simpl; [|reflexivity].
      assert (memb ids a = false) as -> by (destruct (memb ids a) eqn:E; [apply memb_In in E; contradiction|reflexivity]).
      congruence.
    + rewrite (HN n a Ea). destruct (get_rep n j) as [rj|] eqn:Ej; [|reflexivity].
      rewrite memb_cons. destruct (N.eqb_spec j a) as [->|Hne]; simpl; [congruence|reflexivity].
Qed.

Section NetStages.
Variables (P : list N) (lru : N) (ids : list N) (leader : N).
Hypothesis Hnd : NoDup ids.

Lemma step_all_get prop n j :
  get_rep (step_all P lru ids leader prop n) j =
  match get_rep n j with Some r => Some (if memb ids j then stepf P lru j leader prop r else r) | None => None end.
Proof.
  unfold step_all. apply (fold_upd_get _ (fun i r => stepf P lru i leader prop r)); auto.
  - intros n0 i r Hr. rewrite Hr. simpl. rewrite Hr. unfold stepf.
    destruct (step (conf_of P lru i) r (orc leader (i =? leader) prop (r_root r))) as [r' outs]. simpl. eexists. reflexivity.
  - intros n0 i Hr. rewrite Hr. reflexivity.
Qed.

Lemma deliver_all_get m n j :
  get_rep (deliver_all P lru ids m n) j =
  match get_rep n j with Some r => Some (if memb ids j then recv_lmsg (conf_of P lru j) r m else r) | None => None end.
Proof.
  unfold deliver_all. apply (fold_upd_get _ (fun i r => recv_lmsg (conf_of P lru i) r m)); auto.
  - intros n0 i r Hr. simpl. rewrite Hr. exists []. reflexivity.
  - intros n0 i Hr. simpl. rewrite Hr. reflexivity.
Qed.

(* all listed replicas satisfy Q *)
Definition AllSt (n : net) (Q : N -> rstate -> Prop) : Prop := forall i, In i ids -> exists r, get_rep n i = Some r /\ Q i r.

Lemma step_all_St prop n (Q Q' : N -> rstate -> Prop) :
  AllSt n Q -> (forall i r, In i ids -> Q i r -> Q' i (stepf P lru i leader prop r)) -> AllSt (step_all P lru ids leader prop n) Q'.
Proof.
  intros H HQ i Hi. destruct (H i Hi) as [r [Hr Hq]]. rewrite step_all_get, Hr.
  assert (memb ids i = true) as -> by now apply memb_In. eauto.
Qed.
Lemma deliver_all_St m n (Q Q' : N -> rstate -> Prop) :
  AllSt n Q -> (forall i r, In i ids -> Q i r -> Q' i (recv_lmsg (conf_of P lru i) r m)) -> AllSt (deliver_all P lru ids m n) Q'.
Proof.
  intros H HQ i Hi. destruct (H i Hi) as [r [Hr Hq]]. rewrite deliver_all_get, Hr.
  assert (memb ids i = true) as -> by now apply memb_In. eauto.
Qed.

(* ---- the ELECTION votes reach the leader *)
Definition vm_of (i : N) (r : rstate) : vmsg :=
  mkVM i true (mkView (r_root r) (r_round r) Phase_ELECTION_VOTE) 0 0 leader (r_lock r) 0 0.
Definition lfold (look : N -> option rstate) (l : list N) (rl : rstate) : rstate :=
  fold_left (fun rl i => match (if i =? leader then Some rl else look i) with
                         | Some r => recv_vote (conf_of P lru leader) rl (vm_of i r)
                         | None => rl
                         end) l rl.

Lemma vtl_get look : forall l n rl, get_rep n leader = Some rl -> (forall i, i <> leader -> get_rep n i = look i) ->
  forall j, get_rep (votes_to_leader P lru l leader n) j = if j =? leader then Some (lfold look l rl) else look j.
Proof.
  unfold votes_to_leader, lfold. induction l as [|a l IH]; intros n rl Hl Hlook j; simpl.
  - destruct (N.eqb_spec j leader) as [->|Hne]; auto.
  - assert (Hsrc : get_rep n a = if a =? leader then Some rl else look a).
    { destruct (N.eqb_spec a leader) as [->|Hne]; auto. }
    rewrite Hsrc. destruct (if a =? leader then Some rl else look a) as [r|] eqn:Er.
    + simpl. rewrite Hl. apply IH.
      * change (get_rep (upd n leader (recv_vote (conf_of P lru leader) rl (vm_of a r)) []) leader = Some (recv_vote (conf_of P lru leader) rl (vm_of a r))).
        rewrite get_rep_upd, Hl, N.eqb_refl. reflexivity.
      * intros i Hi.
        change (get_rep (upd n leader (recv_vote (conf_of P lru leader) rl (vm_of a r)) []) i = look i).
        rewrite get_rep_upd. rewrite (Hlook i Hi). destruct (look i); [|reflexivity].
        destruct (N.eqb_spec i leader); [contradiction|reflexivity].
    + apply IH; auto.
Qed.

Definition pick (L x : option qc) : option qc :=
  match x with
  | None => L
  | Some h => if (match L with None => true | Some l => view_less (q_view l) (q_view h) end) then Some h else L
  end.

Lemma recv_vote_exact rl src R rd lk :
  r_commit rl = None -> is_validator (conf_of P lru leader) src = true -> R = r_root rl ->
  (forall h, lk = Some h -> high_ok (conf_of P lru leader) h = true) ->
  let rl' := recv_vote (conf_of P lru leader) rl (mkVM src true (mkView R rd Phase_ELECTION_VOTE) 0 0 leader lk 0 0) in
  r_root rl' = r_root rl /\ r_round rl' = r_round rl /\ r_phase rl' = r_phase rl /\ r_props rl' = r_props rl /\
  r_commit rl' = None /\ r_lock rl' = pick (r_lock rl) lk.
Proof.
  intros Hc Hv HR Hh. unfold recv_vote. rewrite Hc. cbv zeta. simpl v_from. rewrite Hv. cbn [negb].
  set (r1 := if r_blk rl =? 0 then rl else touch rl).
  assert (H1 : r_root r1 = r_root rl /\ r_round r1 = r_round rl /\ r_phase r1 = r_phase rl /\ r_props r1 = r_props rl /\
               r_commit r1 = None /\ r_lock r1 = r_lock rl).
  { unfold r1. destruct (r_blk rl =? 0); simpl; repeat split; auto. }
  destruct H1 as [A1 [A2 [A3 [A4 [A5 A6]]]]].
  simpl v_sigok. cbn [negb]. simpl v_view. simpl vw_root. simpl vw_phase. rewrite A1, HR, N.eqb_refl. cbn [negb].
  change (Phase_ELECTION_VOTE =? Phase_ELECTION_VOTE) with true. cbn [negb]. simpl v_high.
  destruct lk as [h|]; [|simpl; repeat split; auto].
  rewrite (Hh h eq_refl). cbn [negb]. rewrite A6. unfold pick.
  destruct (match r_lock rl with Some l => view_less (q_view l) (q_view h) | None => true end) eqn:E.
  - simpl. repeat split; auto.
  - repeat split; auto.
Qed.

Lemma vl_refl a : view_less a a = false.
Proof. apply view_less_false. unfold tle3. lia. Qed.
Lemma vl_trans a b c0 : view_less a b = false -> view_less b c0 = false -> view_less a c0 = false.
Proof. rewrite !view_less_false. unfold tle3. lia. Qed.
Lemma vl_true_false a b : view_less a b = true -> view_less b a = false.
Proof. intros H. apply view_less_spec in H. apply view_less_false. unfold tlt3, tle3 in *. lia. Qed.

Lemma pick_old L x lx : L = Some lx -> exists h, pick L x = Some h /\ view_less (q_view h) (q_view lx) = false.
Proof.
  intros ->. unfold pick. destruct x as [h|]; [|exists lx; split; [reflexivity|apply vl_refl]].
  destruct (view_less (q_view lx) (q_view h)) eqn:E.
  - exists h. split; [reflexivity|now apply vl_true_false].
  - exists lx. split; [reflexivity|apply vl_refl].
Qed.
Lemma pick_new L x lj : x = Some lj -> exists h, pick L x = Some h /\ view_less (q_view h) (q_view lj) = false.
Proof.
  intros ->. unfold pick. destruct L as [l|]; [|exists lj; split; [reflexivity|apply vl_refl]].
  destruct (view_less (q_view l) (q_view lj)) eqn:E.
  - exists lj. split; [reflexivity|apply vl_refl].
  - exists l. split; [reflexivity|exact E].
Qed.
Lemma pick_cases L x : pick L x = L \/ (pick L x = x /\ x <> None).
Proof.
  unfold pick. destruct x as [h|]; [|auto].
  destruct (match L with Some l => view_less (q_view l) (q_view h) | None => true end); [right; split; [reflexivity|discriminate]|auto].
Qed.
Lemma pick_self L : pick L L = L.
Proof. unfold pick. destruct L as [l|]; [|reflexivity]. now rewrite vl_refl. Qed.

Lemma lfold_spec look root l :
  (forall i ri, In i l -> i <> leader -> look i = Some ri ->
     r_root ri = root /\ forall h, r_lock ri = Some h -> high_ok (conf_of P lru leader) h = true) ->
  (forall i, In i l -> is_validator (conf_of P lru leader) i = true) ->
  forall rl, r_commit rl = None -> r_root rl = root ->
  (forall h, r_lock rl = Some h -> high_ok (conf_of P lru leader) h = true) ->
  let rl' := lfold look l rl in
  r_root rl' = r_root rl /\ r_round rl' = r_round rl /\ r_phase rl' = r_phase rl /\ r_props rl' = r_props rl /\
  r_commit rl' = None /\
  (forall h, r_lock rl' = Some h -> high_ok (conf_of P lru leader) h = true) /\
  (forall lx, r_lock rl = Some lx -> exists h, r_lock rl' = Some h /\ view_less (q_view h) (q_view lx) = false) /\
  (forall j rj lj, In j l -> j <> leader -> look j = Some rj -> r_lock rj = Some lj ->
     exists h, r_lock rl' = Some h /\ view_less (q_view h) (q_view lj) = false) /\
  (r_lock rl' = r_lock rl \/
   exists j rj, In j l /\ j <> leader /\ look j = Some rj /\ r_lock rj = r_lock rl' /\ r_lock rl' <> None).
Proof.
  unfold lfold. induction l as [|a l IH]; intros Hlook Hval rl Hc Hr Hok; cbn [fold_left].
  - repeat split; auto.
    + intros lx Hl. exists lx. split; [exact Hl|apply vl_refl].
    + intros j rj lj [].
  - set (src := if a =? leader then Some rl else look a).
    set (rl1 := match src with Some r => recv_vote (conf_of P lru leader) rl (vm_of a r) | None => rl end).
    assert (H1 : r_root rl1 = r_root rl /\ r_round rl1 = r_round rl /\ r_phase rl1 = r_phase rl /\ r_props rl1 = r_props rl /\
                 r_commit rl1 = None /\
                 (forall h, r_lock rl1 = Some h -> high_ok (conf_of P lru leader) h = true) /\
                 (forall lx, r_lock rl = Some lx -> exists h, r_lock rl1 = Some h /\ view_less (q_view h) (q_view lx) = false) /\
                 (a <> leader -> forall rj lj, look a = Some rj -> r_lock rj = Some lj ->
                    exists h, r_lock rl1 = Some h /\ view_less (q_view h) (q_view lj) = false) /\
                 (r_lock rl1 = r_lock rl \/
                  (a <> leader /\ exists rj, look a = Some rj /\ r_lock rj = r_lock rl1 /\ r_lock rl1 <> None))).
    { assert (Hsame : forall x, x = rl -> r_root x = r_root rl /\ r_round x = r_round rl /\ r_phase x = r_phase rl /\ r_props x = r_props rl /\
                 r_commit x = None /\
                 (forall h, r_lock x = Some h -> high_ok (conf_of P lru leader) h = true) /\
                 (forall lx, r_lock rl = Some lx -> exists h, r_lock x = Some h /\ view_less (q_view h) (q_view lx) = false)).
      { intros x ->. repeat split; auto. intros lx Hlx. exists lx. split; [exact Hlx|apply vl_refl]. }
      unfold rl1, src. destruct (N.eqb_spec a leader) as [->|Hne].
      - destruct (recv_vote_exact rl leader (r_root rl) (r_round rl) (r_lock rl) Hc (Hval leader (or_introl eq_refl)) eq_refl Hok)
          as [B1 [B2 [B3 [B4 [B5 B6]]]]].
        unfold vm_of. rewrite pick_self in B6.
        split; [exact B1|]. split; [exact B2|]. split; [exact B3|]. split; [exact B4|]. split; [exact B5|].
        split; [intros h Hh; rewrite B6 in Hh; auto|].
        split; [intros lx Hlx; exists lx; split; [congruence|apply vl_refl]|].
        split; [intros Hc'; contradiction|left; exact B6].
      - destruct (look a) as [ra|] eqn:Ea.
        + destruct (Hlook a ra (or_introl eq_refl) Hne Ea) as [Hra Hoka].
          destruct (recv_vote_exact rl a (r_root ra) (r_round ra) (r_lock ra) Hc (Hval a (or_introl eq_refl)) ltac:(congruence) Hoka)
            as [B1 [B2 [B3 [B4 [B5 B6]]]]].
          unfold vm_of.
          split; [exact B1|]. split; [exact B2|]. split; [exact B3|]. split; [exact B4|]. split; [exact B5|].
          split; [|split; [|split]].
          * intros h Hh. rewrite B6 in Hh. destruct (pick_cases (r_lock rl) (r_lock ra)) as [E|[E _]]; rewrite E in Hh; auto.
          * intros lx Hlx. rewrite B6. now apply pick_old.
          * intros _ rj lj E Hlj. injection E as <-. rewrite B6. now apply pick_new.
          * destruct (pick_cases (r_lock rl) (r_lock ra)) as [E|[E Hn]].
            -- left. congruence.
            -- right. split; [exact Hne|]. exists ra. split; [reflexivity|]. rewrite B6, E. auto.
        + destruct (Hsame rl eq_refl) as [B1 [B2 [B3 [B4 [B5 [B6 B7]]]]]].
          repeat split; auto. intros _ rj lj E. discriminate. }
    destruct H1 as [A1 [A2 [A3 [A4 [A5 [Hok1 [A7 [A8 A9]]]]]]]].
    specialize (IH (fun i ri Hi => Hlook i ri (or_intror Hi)) (fun i Hi => Hval i (or_intror Hi)) rl1 A5 ltac:(congruence) Hok1).
    cbv zeta in IH. destruct IH as [C1 [C2 [C3 [C4 [C5 [C6 [C7 [C8 C9]]]]]]]].
    split; [congruence|]. split; [congruence|]. split; [congruence|]. split; [congruence|]. split; [exact C5|].
    split; [exact C6|]. split; [|split].
    + intros lx Hlx. destruct (A7 lx Hlx) as [h1 [E1 V1]].
      destruct (C7 h1 E1) as [h [E V]]. exists h. split; [exact E|]. eapply vl_trans; eauto.
    + intros j rj lj [->|Hj] Hne Hlk Hlj.
      * destruct (A8 Hne rj lj Hlk Hlj) as [h1 [E1 V1]].
        destruct (C7 h1 E1) as [h [E V]]. exists h. split; [exact E|]. eapply vl_trans; eauto.
      * eapply C8; eauto.
    + destruct C9 as [C9|[j [rj [Hj [Hne [Hlk [El Hnn]]]]]]].
      * destruct A9 as [A9|[Hne [rj [Hlk [El Hnn]]]]].
        -- left. congruence.
        -- right. exists a, rj. rewrite C9. repeat split; auto. now left.
      * right. exists j, rj. repeat split; auto. now right.
Qed.
End NetStages.
