(* FramesProofs.v — the encrypted transport delivers exactly the written stream; whatever is done to the sealed frames, the
   reader gets a prefix of that stream and then an error (property C17). *)
From Coq Require Import NArith List Bool Arith Lia.
From V Require Import Bytes Frames.
Import ListNotations.


(* ---- auxiliary: cut, seal_all, write_all as the sealing of one chunk list *)
Lemma cut_ok : forall fuel maxd data, (0 < maxd)%nat -> (length data < fuel)%nat ->
  concat (cut fuel maxd data) = data /\ Forall (fun c => (length c <= maxd)%nat) (cut fuel maxd data).
Proof.
  induction fuel as [|f IH]; intros maxd data Hm Hf; [lia|].
  cbn [cut]. destruct data as [|b r]; [split; [reflexivity|constructor]|].
  destruct (Nat.ltb_spec (length (b :: r)) maxd) as [E|E].
  - split; [cbn [concat]; apply app_nil_r|]. constructor; [lia|constructor].
  - destruct (IH maxd (skipn maxd (b :: r)) Hm) as [IH1 IH2]. { rewrite skipn_length. lia. }
    split.
    + cbn [concat]. rewrite IH1. apply firstn_skipn.
    + constructor; [rewrite firstn_length; lia|exact IH2].
Qed.

Definition chunks_all (maxd : nat) (ws : list bytes) : list bytes := flat_map (fun w => cut (S (length w)) maxd w) ws.

Lemma chunks_all_ok maxd ws : (0 < maxd)%nat ->
  concat (chunks_all maxd ws) = concat ws /\ Forall (fun c => (length c <= maxd)%nat) (chunks_all maxd ws).
Proof.
  intros Hm. induction ws as [|w r [IH1 IH2]]; [split; [reflexivity|constructor]|].
  unfold chunks_all in *. cbn [flat_map concat].
  destruct (cut_ok (S (length w)) maxd w Hm) as [C1 C2]; [lia|].
  split; [rewrite concat_app, C1, IH1; reflexivity|]. apply Forall_app. split; assumption.
Qed.

Lemma seal_all_app key : forall a n b,
  seal_all key n (a ++ b) = seal_all key n a ++ seal_all key (n + N.of_nat (length a)) b.
Proof.
  induction a as [|c a IH]; intros n b.
  - cbn [app seal_all length]. f_equal. lia.
  - cbn [app seal_all length]. rewrite IH. cbn [app]. do 3 f_equal. lia.
Qed.

Lemma write_all_seal maxd key : forall ws n, write_all maxd key n ws = seal_all key n (chunks_all maxd ws).
Proof.
  induction ws as [|w r IH]; intros n; [reflexivity|].
  cbn [write_all]. unfold write. unfold chunks_all. cbn [flat_map]. rewrite seal_all_app. rewrite IH. reflexivity.
Qed.

Lemma seal_all_data key : forall cs n, map f_data (seal_all key n cs) = cs.
Proof. induction cs as [|c cs IH]; intros n; [reflexivity|]. cbn [seal_all map f_data]. rewrite IH. reflexivity. Qed.

Lemma seal_all_length key : forall cs n, length (seal_all key n cs) = length cs.
Proof. induction cs as [|c cs IH]; intros n; [reflexivity|]. cbn [seal_all length]. rewrite IH. reflexivity. Qed.

Lemma seal_all_nonce key : forall cs n,
  map f_nonce (seal_all key n cs) = map (fun i => (n + N.of_nat i)%N) (seq 0 (length cs)).
Proof.
  induction cs as [|c cs IH]; intros n; [reflexivity|].
  cbn [seal_all map f_nonce length seq]. f_equal; [lia|].
  rewrite IH. rewrite <- seq_shift, map_map. apply map_ext. intros i. lia.
Qed.

Lemma seal_all_forall key maxd : forall cs n, Forall (fun c => (length c <= maxd)%nat) cs ->
  Forall (fun f => f_key f = key /\ f_len f = N.of_nat (length (f_data f)) /\ (length (f_data f) <= maxd)%nat) (seal_all key n cs).
Proof.
  induction cs as [|c cs IH]; intros n H; [constructor|]. inversion H as [|c0 cs0 Hc Hcs]; subst.
  cbn [seal_all]. constructor; [cbn; auto|]. apply IH. exact Hcs.
Qed.

Lemma seal_all_nth key : forall cs n i c, nth_error cs i = Some c ->
  nth_error (seal_all key n cs) i = Some (mkF key (n + N.of_nat i) (N.of_nat (length c)) c).
Proof.
  induction cs as [|c0 cs IH]; intros n i c H; [destruct i; discriminate|].
  destruct i as [|i]; cbn [nth_error seal_all] in *.
  - injection H as ->. do 2 f_equal. lia.
  - rewrite (IH _ _ _ H). do 2 f_equal. lia.
Qed.

Lemma seal_all_in key : forall cs n f, In f (seal_all key n cs) ->
  exists i c, nth_error cs i = Some c /\ f = mkF key (n + N.of_nat i) (N.of_nat (length c)) c.
Proof.
  induction cs as [|c0 cs IH]; intros n f H; [destruct H|].
  cbn [seal_all] in H. destruct H as [H|H].
  - exists 0%nat, c0. split; [reflexivity|]. rewrite <- H. f_equal. lia.
  - destruct (IH _ _ H) as (i & c & Hi & Hf). exists (S i), c. split; [exact Hi|]. rewrite Hf. f_equal. lia.
Qed.

Lemma skipn_nth {A} : forall (l : list A) i x, nth_error l i = Some x -> skipn i l = x :: skipn (S i) l.
Proof.
  induction l as [|y l IH]; intros i x H; [destruct i; discriminate|].
  destruct i as [|i]; cbn [nth_error] in H.
  - injection H as ->. reflexivity.
  - cbn [skipn]. rewrite (IH _ _ H). reflexivity.
Qed.

Lemma firstn_all_len (c : bytes) : firstn (N.to_nat (N.of_nat (length c))) c = c.
Proof. rewrite Nat2N.id. apply firstn_all. Qed.

(* reading the writer's own frame: accepted *)
Lemma read_own maxd key n c r sz : (length c <= maxd)%nat ->
  read maxd key (mkRd n []) (mkF key n (N.of_nat (length c)) c :: r) sz =
  (RData (firstn sz c), mkRd (N.succ n) (skipn sz c), r).
Proof.
  intros Hc. unfold read. cbn [rd_unread rd_nonce f_key f_nonce f_len f_data].
  rewrite !N.eqb_refl. cbn [negb orb]. rewrite Nat2N.id.
  destruct (Nat.ltb_spec maxd (length c)); [lia|]. rewrite firstn_all. reflexivity.
Qed.

Lemma read_unread maxd key n b u wire sz :
  read maxd key (mkRd n (b :: u)) wire sz = (RData (firstn sz (b :: u)), mkRd n (skipn sz (b :: u)), wire).
Proof. reflexivity. Qed.

(* honest wire, any reader state: no error *)
Lemma read_all_ok maxd key : forall szs n u cs, Forall (fun c => (length c <= maxd)%nat) cs ->
  snd (read_all maxd key (mkRd n u) (seal_all key n cs) szs) = true.
Proof.
  induction szs as [|sz szs IH]; intros n u cs Hcs; [reflexivity|].
  cbn [read_all]. destruct u as [|b u].
  - destruct cs as [|c cs]; [reflexivity|]. inversion Hcs as [|c0 cs0 Hc Hcs']; subst.
    cbn [seal_all]. rewrite read_own by exact Hc.
    specialize (IH (N.succ n) (skipn sz c) cs Hcs').
    destruct (read_all maxd key (mkRd (N.succ n) (skipn sz c)) (seal_all key (N.succ n) cs) szs) as [d ok].
    exact IH.
  - rewrite read_unread. specialize (IH n (skipn sz (b :: u)) cs Hcs).
    destruct (read_all maxd key (mkRd n (skipn sz (b :: u))) (seal_all key n cs) szs) as [d ok]. exact IH.
Qed.

(* honest wire, enough reads: everything *)
Lemma read_all_everything maxd key : forall szs n u cs, Forall (fun z => (0 < z)%nat) szs ->
  Forall (fun c => (length c <= maxd)%nat) cs ->
  (length u + length (concat cs) + length cs <= length szs)%nat ->
  fst (read_all maxd key (mkRd n u) (seal_all key n cs) szs) = u ++ concat cs.
Proof.
  induction szs as [|sz szs IH]; intros n u cs Hsz Hcs Hlen.
  - cbn [length] in Hlen. destruct u; [|cbn in Hlen; lia]. destruct cs; [reflexivity|cbn in Hlen; lia].
  - inversion Hsz as [|z zs Hz Hzs]; subst. cbn [read_all length] in *. destruct u as [|b u].
    + destruct cs as [|c cs]; [reflexivity|]. inversion Hcs as [|c0 cs0 Hc Hcs']; subst.
      cbn [seal_all]. rewrite read_own by exact Hc.
      specialize (IH (N.succ n) (skipn sz c) cs Hzs Hcs').
      destruct (read_all maxd key (mkRd (N.succ n) (skipn sz c)) (seal_all key (N.succ n) cs) szs) as [d ok].
      cbn [fst] in *. rewrite IH.
      * cbn [app concat]. rewrite app_assoc, firstn_skipn. reflexivity.
      * cbn [concat length] in Hlen. rewrite app_length in Hlen. rewrite skipn_length. lia.
    + rewrite read_unread. specialize (IH n (skipn sz (b :: u)) cs Hzs Hcs).
      destruct (read_all maxd key (mkRd n (skipn sz (b :: u))) (seal_all key n cs) szs) as [d ok].
      cbn [fst] in *. rewrite IH.
      * rewrite app_assoc, firstn_skipn. reflexivity.
      * rewrite skipn_length. cbn [length] in *. lia.
Qed.

(* one read against an arbitrary wire whose session-key frames are the writer's: error, wait, or the writer's frame number
   rd_nonce *)
Lemma read_cases maxd key cs s wire sz :
  (forall f, In f wire -> f_key f = key -> In f (seal_all key 0 cs)) ->
  match read maxd key s wire sz with
  | (RErr, _, _) => True
  | (RWait, _, _) => rd_unread s = [] /\ wire = []
  | (RData b, s', w') =>
      (rd_unread s <> [] /\ b = firstn sz (rd_unread s) /\ s' = mkRd (rd_nonce s) (skipn sz (rd_unread s)) /\ w' = wire) \/
      (rd_unread s = [] /\ exists c, nth_error cs (N.to_nat (rd_nonce s)) = Some c /\
         wire = mkF key (rd_nonce s) (N.of_nat (length c)) c :: w' /\
         b = firstn sz c /\ s' = mkRd (N.succ (rd_nonce s)) (skipn sz c))
  end.
Proof.
  intros H. destruct s as [n u]. unfold read. cbn [rd_unread rd_nonce]. destruct u as [|b0 u].
  - destruct wire as [|f r]; [split; reflexivity|].
    destruct (N.eqb_spec (f_key f) key) as [Ek|Ek]; cbn [negb orb]; [|exact I].
    destruct (N.eqb_spec (f_nonce f) n) as [En|En]; cbn [negb]; [|exact I].
    destruct (Nat.ltb maxd (N.to_nat (f_len f))); [exact I|].
    right. split; [reflexivity|].
    destruct (seal_all_in key cs 0%N f (H f (or_introl eq_refl) Ek)) as (i & c & Hi & Hf).
    subst f. cbn [f_nonce f_len f_data] in *.
    assert (i = N.to_nat n) by lia. subst i.
    exists c. rewrite firstn_all_len. split; [exact Hi|]. split; [|split; reflexivity].
    do 2 f_equal. lia.
  - left. split; [discriminate|]. repeat split; reflexivity.
Qed.

(* arbitrary wire, any reader state: what is delivered is a prefix of the unread rest followed by the writer's later chunks *)
Lemma read_all_tamper maxd key cs : forall szs s wire,
  (forall f, In f wire -> f_key f = key -> In f (seal_all key 0 cs)) ->
  exists rest, rd_unread s ++ concat (skipn (N.to_nat (rd_nonce s)) cs) = fst (read_all maxd key s wire szs) ++ rest.
Proof.
  induction szs as [|sz szs IH]; intros s wire H; [eexists; reflexivity|].
  cbn [read_all]. pose proof (read_cases maxd key cs s wire sz H) as Hc.
  destruct (read maxd key s wire sz) as [[[b| |] s'] w']; try (eexists; reflexivity).
  destruct Hc as [(Hu & -> & -> & ->)|(Hu & c & Hn & -> & -> & ->)].
  - destruct (IH (mkRd (rd_nonce s) (skipn sz (rd_unread s))) wire H) as [rest Hr].
    destruct (read_all maxd key (mkRd (rd_nonce s) (skipn sz (rd_unread s))) wire szs) as [d ok].
    cbn [fst rd_unread rd_nonce] in *. exists rest.
    rewrite <- app_assoc, <- Hr, app_assoc, firstn_skipn. reflexivity.
  - destruct (IH (mkRd (N.succ (rd_nonce s)) (skipn sz c)) w') as [rest Hr].
    { intros f Hf. apply H. right. exact Hf. }
    destruct (read_all maxd key (mkRd (N.succ (rd_nonce s)) (skipn sz c)) w' szs) as [d ok].
    cbn [fst rd_unread rd_nonce] in *. exists rest.
    rewrite Hu. cbn [app]. rewrite (skipn_nth _ _ _ Hn). cbn [concat].
    rewrite N2Nat.inj_succ in Hr.
    rewrite <- app_assoc, <- Hr, app_assoc, firstn_skipn. reflexivity.
Qed.

(* arbitrary wire, enough reads, no error: the wire is the writer's sequence from the reader's position *)
Lemma read_all_detect maxd key cs : forall szs s wire, Forall (fun z => (0 < z)%nat) szs ->
  (forall f, In f wire -> f_key f = key -> In f (seal_all key 0 cs)) ->
  (length (rd_unread s) + length (concat (map f_data wire)) + length wire <= length szs)%nat ->
  snd (read_all maxd key s wire szs) = true ->
  wire = firstn (length wire) (skipn (N.to_nat (rd_nonce s)) (seal_all key 0 cs)).
Proof.
  induction szs as [|sz szs IH]; intros s wire Hsz H Hlen Hok.
  - destruct wire; [reflexivity|cbn in Hlen; lia].
  - inversion Hsz as [|z zs Hz Hzs]; subst.
    cbn [read_all] in Hok. pose proof (read_cases maxd key cs s wire sz H) as Hc.
    destruct (read maxd key s wire sz) as [[[b| |] s'] w'].
    + destruct Hc as [(Hu & -> & -> & ->)|(Hu & c & Hn & -> & -> & ->)].
      * specialize (IH (mkRd (rd_nonce s) (skipn sz (rd_unread s))) wire Hzs H).
        destruct (read_all maxd key (mkRd (rd_nonce s) (skipn sz (rd_unread s))) wire szs) as [d ok].
        cbn [snd rd_unread rd_nonce] in *. apply IH; [|exact Hok].
        rewrite skipn_length. destruct (rd_unread s); [congruence|]. cbn [length] in *. lia.
      * specialize (IH (mkRd (N.succ (rd_nonce s)) (skipn sz c)) w' Hzs).
        destruct (read_all maxd key (mkRd (N.succ (rd_nonce s)) (skipn sz c)) w' szs) as [d ok].
        cbn [snd rd_unread rd_nonce] in *.
        rewrite (skipn_nth _ _ _ (seal_all_nth key cs 0%N _ _ Hn)).
        cbn [length firstn]. rewrite N2Nat.inj_succ in IH. rewrite <- IH.
        -- do 2 f_equal. lia.
        -- intros f Hf. apply H. right. exact Hf.
        -- cbn [map f_data concat length] in Hlen. rewrite app_length in Hlen. rewrite skipn_length. lia.
        -- exact Hok.
    + discriminate.
    + destruct Hc as [_ ->]. reflexivity.
Qed.

(* the frames of the writer carry, in order, consecutive nonces, and their chunks concatenate to the written stream *)
Theorem write_all_chunks maxd key n ws : (0 < maxd)%nat ->
  concat (map f_data (write_all maxd key n ws)) = concat ws /\
  map f_nonce (write_all maxd key n ws) = map (fun i => (n + N.of_nat i)%N) (seq 0 (length (write_all maxd key n ws))) /\
  Forall (fun f => f_key f = key /\ f_len f = N.of_nat (length (f_data f)) /\ (length (f_data f) <= maxd)%nat) (write_all maxd key n ws).
Proof.
  intros Hm. rewrite write_all_seal. destruct (chunks_all_ok maxd ws Hm) as [C1 C2].
  split; [rewrite seal_all_data; exact C1|]. split.
  - rewrite seal_all_nonce, seal_all_length. reflexivity.
  - apply seal_all_forall. exact C2.
Qed.

(* INTEGRITY: for any writes (any sizes) and any read buffer sizes, no read fails and what is delivered is a prefix of the
   written stream *)
Theorem read_is_prefix maxd key ws szs : (0 < maxd)%nat ->
  let '(d, ok) := read_all maxd key (mkRd 0 []) (write_all maxd key 0 ws) szs in
  ok = true /\ exists rest, concat ws = d ++ rest.
Proof.
  intros Hm. rewrite write_all_seal. destruct (chunks_all_ok maxd ws Hm) as [C1 C2].
  pose proof (read_all_ok maxd key szs 0%N [] _ C2) as Hok.
  destruct (read_all_tamper maxd key (chunks_all maxd ws) szs (mkRd 0 []) (seal_all key 0 (chunks_all maxd ws)))
    as [rest Hr]; [auto|].
  destruct (read_all maxd key (mkRd 0 []) (seal_all key 0 (chunks_all maxd ws)) szs) as [d ok].
  cbn [fst snd rd_unread rd_nonce app] in *. split; [exact Hok|]. exists rest.
  change (N.to_nat 0) with 0%nat in Hr. cbn [skipn] in Hr. rewrite <- C1. exact Hr.
Qed.

(* COMPLETENESS: enough reads with non-empty buffers deliver the whole stream *)
Theorem read_everything maxd key ws szs : (0 < maxd)%nat -> Forall (fun z => (0 < z)%nat) szs ->
  (length (concat ws) + length (write_all maxd key 0 ws) <= length szs)%nat ->
  fst (read_all maxd key (mkRd 0 []) (write_all maxd key 0 ws) szs) = concat ws.
Proof.
  intros Hm Hsz Hlen. rewrite write_all_seal in *. destruct (chunks_all_ok maxd ws Hm) as [C1 C2].
  rewrite read_all_everything; [cbn [app]; exact C1|exact Hsz|exact C2|].
  rewrite seal_all_length in Hlen. rewrite C1. cbn [length]. exact Hlen.
Qed.

(* TAMPERING: the wire is ANY sequence of frames in which every frame sealed under the session key is one the writer produced
   (the adversary can reorder, duplicate, drop, replay, truncate, and insert frames sealed under other keys). The reader gets a
   prefix of the written stream - never a reordered, duplicated or foreign byte. *)
Theorem tamper_prefix maxd key ws wire szs : (0 < maxd)%nat ->
  (forall f, In f wire -> f_key f = key -> In f (write_all maxd key 0 ws)) ->
  exists rest, concat ws = fst (read_all maxd key (mkRd 0 []) wire szs) ++ rest.
Proof.
  intros Hm H. rewrite write_all_seal in H. destruct (chunks_all_ok maxd ws Hm) as [C1 C2].
  destruct (read_all_tamper maxd key (chunks_all maxd ws) szs (mkRd 0 []) wire H) as [rest Hr].
  exists rest. cbn [rd_unread rd_nonce app] in Hr. change (N.to_nat 0) with 0%nat in Hr. cbn [skipn] in Hr.
  rewrite <- C1. exact Hr.
Qed.

(* and any deviation from the writer's sequence is noticed: if the frames the reader consumes are not a prefix of the writer's
   frames, a read fails *)
Theorem tamper_detected maxd key ws wire szs : (0 < maxd)%nat -> Forall (fun z => (0 < z)%nat) szs ->
  (forall f, In f wire -> f_key f = key -> In f (write_all maxd key 0 ws)) ->
  (length (concat (map f_data wire)) + length wire <= length szs)%nat ->       (* enough reads to consume the whole wire *)
  snd (read_all maxd key (mkRd 0 []) wire szs) = true ->
  exists k, wire = firstn k (write_all maxd key 0 ws).
Proof.
  intros Hm Hsz H Hlen Hok. rewrite write_all_seal in *.
  exists (length wire).
  apply (read_all_detect maxd key (chunks_all maxd ws) szs (mkRd 0 []) wire Hsz H); [|exact Hok].
  cbn [rd_unread length]. lia.
Qed.

(* ---- handshake: no man in the middle *)
Section HandshakeProofs.
Variable dh : N -> N -> N.
(* ideal key agreement: two pairs of ephemeral keys give the same secret only if they are the same pair *)
Hypothesis dh_inj : forall a x b y, dh a x = dh b y -> (a = y /\ x = b) \/ (a = b /\ x = y).
(* the sessions the honest identity A has run: its ephemeral key and the ephemeral key it received; A signs only the
   challenges of its own sessions *)
Variable a_sessions : list (N * N).
Definition signed_by_a (c : N) : Prop := exists s, In s a_sessions /\ c = dh (fst s) (snd s).

Theorem no_man_in_the_middle (b : party) (h : hello) (a_id : N) :
  accepts dh b h = true -> h_signer h = a_id -> signed_by_a (h_signed_challenge h) ->
  (forall s, In s a_sessions -> fst s <> pa_eph b) ->          (* ephemeral keys are fresh: A never used B's ephemeral key *)
  In (h_eph h, pa_eph b) a_sessions /\ h_net h = pa_net b /\ h_chain h = pa_chain b.
Proof.
  intros Hacc Hs (s & Hin & Hc) Hfresh. unfold accepts in Hacc.
  rewrite !andb_true_iff in Hacc. destruct Hacc as [[[[H1 H2] H3] H4] _]. rewrite N.eqb_eq in H1, H2, H3, H4.
  rewrite H1 in Hc. apply dh_inj in Hc. destruct Hc as [[Ha Hb]|[Ha Hb]].
  - split; [|split; assumption]. rewrite Ha, Hb. destruct s; exact Hin.
  - exfalso. apply (Hfresh s Hin). symmetry. exact Ha.
Qed.

(* a handshake never ends with the node's own identity as the peer: the reflected proof (the only proof a keyless endpoint can
   show, since both sides sign the same challenge) is refused; before the repair it was accepted *)
Theorem accepted_peer_is_another_identity (b : party) (h : hello) : accepts dh b h = true -> h_signer h <> pa_id b.
Proof.
  unfold accepts. rewrite !andb_true_iff. intros [_ Hn]. apply negb_true_iff, N.eqb_neq in Hn. exact Hn.
Qed.
Theorem reflection_refused (b : party) (e : N) : accepts dh b (reflected dh b e) = false.
Proof.
  unfold accepts, reflected. cbn [h_signer h_signed_challenge h_eph h_meta_signer h_net h_chain].
  rewrite (N.eqb_refl (pa_id b)). cbn [negb]. apply andb_false_r.
Qed.
Theorem old_reflection_accepted (b : party) (e : N) : accepts_old dh b (reflected dh b e) = true.
Proof.
  unfold accepts_old, reflected. cbn [h_signer h_signed_challenge h_eph h_meta_signer h_net h_chain].
  rewrite !N.eqb_refl. reflexivity.
Qed.
End HandshakeProofs.

Example frames_nonvacuous :
  read_all 4 1 (mkRd 0 []) (write_all 4 1 0 [[1;2;3;4;5]%N; []; [6]%N]) [3; 3; 1; 5]%nat = ([1;2;3;4;5;6]%N, true) /\
  snd (read_all 4 1 (mkRd 0 []) (apply_fault (Swap 0) (write_all 4 1 0 [[1;2;3;4;5]%N; [6]%N])) [9; 9; 9]%nat) = false.
Proof.
  split; vm_compute; reflexivity.
Qed.

Print Assumptions tamper_prefix.
Print Assumptions read_is_prefix.
Print Assumptions no_man_in_the_middle.

(* ---- the frame counter inside the nonce is a machine integer.  A counter of width w that is incremented per frame takes the
   same value again only after 2^w frames: two frames of one direction of a connection share a nonce only at that distance.
   With the 64 bits of the implementation no connection lives that long; a counter kept in 32 bits is back at a recorded frame's
   value after 2^32 frames (about four terabytes of traffic) - the harness ages a real connection to that point. *)
From Coq Require Import ZArith Lia ZifyN.
Definition ctr (w s k : N) : N := ((s + k) mod 2 ^ w)%N.
Theorem counter_distinct_within_width (w s i j : N) : (i < j)%N -> (j - i < 2 ^ w)%N -> ctr w s i <> ctr w s j.
Proof.
  unfold ctr. intros Hij Hd Heq.
  assert (Hpos : (0 < 2 ^ w)%N) by (apply N.neq_0_lt_0, N.pow_nonzero; discriminate).
  remember (2 ^ w)%N as M.
  assert (H1 := N.div_mod (s + i) M ltac:(lia)).
  assert (H2 := N.div_mod (s + j) M ltac:(lia)).
  assert (B1 := N.mod_lt (s + i) M ltac:(lia)).
  rewrite Heq in H1.
  assert (Hq : (M * ((s + j) / M) - M * ((s + i) / M) = j - i)%N) by lia.
  assert (Hle : ((s + i) / M <= (s + j) / M)%N) by (apply N.div_le_mono; lia).
  destruct (N.eq_dec ((s + i) / M) ((s + j) / M)) as [E|E]; [rewrite E in Hq; lia|].
  assert (Hlt : ((s + i) / M + 1 <= (s + j) / M)%N) by lia.
  assert (M * ((s + i) / M + 1) <= M * ((s + j) / M))%N by (apply N.mul_le_mono_l; exact Hlt).
  lia.
Qed.
Theorem counter_of_width_32_comes_back (s k : N) : ctr 32 s k = ctr 32 s (k + 2 ^ 32).
Proof.
  unfold ctr. rewrite N.add_assoc. rewrite <- (N.mul_1_l (2 ^ 32)) at 2.
  rewrite N.mod_add by (apply N.pow_nonzero; discriminate). reflexivity.
Qed.
