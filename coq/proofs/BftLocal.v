(* BftLocal.v — every action of the model is a local transition in the sense of BftInv.ltrans. *)
From Coq Require Import NArith List Bool Lia.
From V Require Import U64 Extracted Bft BftNet BftArith BftInv.
Import ListNotations.
Local Open Scope N_scope.

Ltac split_ifs :=
  repeat match goal with
  | |- context [if ?b then _ else _] => let E := fresh "E" in destruct b eqn:E
  | |- context [match ?x with QErr => _ | QPartial => _ | QFull => _ end] => let E := fresh "E" in destruct x eqn:E
  end.

Ltac same :=
  match goal with Hs : forall x : rstate, x = ?r \/ x = ?r1 -> _ |- _ =>
    first [exact (Hs r (or_introl eq_refl)) | exact (Hs r1 (or_intror eq_refl))] end.

Lemma recv_lmsg_spec c r m :
  let r' := recv_lmsg c r m in
  r_root r' = r_root r /\ r_round r' = r_round r /\ r_phase r' = r_phase r /\ r_lock r' = r_lock r /\
  r_commit r' = r_commit r /\
  forall rd ph m0, In (rd, ph, m0) (r_props r') -> In (rd, ph, m0) (r_props r) \/
    (m0 = m /\ qc_check c (m_qc m) = QFull /\ vw_round (q_view (m_qc m)) = rd /\ vw_phase (q_view (m_qc m)) + 1 = ph /\
     forall h, m_high m = Some h -> high_ok c h = true).
Proof.
  unfold recv_lmsg. cbv zeta.
  destruct (r_commit r) eqn:Ec; [repeat split; auto|].
  set (r1 := if r_blk r =? 0 then r else touch r).
  assert (H1 : r_root r1 = r_root r /\ r_round r1 = r_round r /\ r_phase r1 = r_phase r /\ r_lock r1 = r_lock r /\
               r_commit r1 = r_commit r /\ r_props r1 = r_props r).
  { unfold r1. destruct (r_blk r =? 0); simpl; repeat split; auto. }
  destruct H1 as [H1 [H2 [H3 [H4 [H5 H6]]]]].
  assert (Hsame : forall x : rstate, x = r \/ x = r1 ->
    r_root x = r_root r /\ r_round x = r_round r /\ r_phase x = r_phase r /\ r_lock x = r_lock r /\ r_commit x = r_commit r /\
    forall rd ph m0, In (rd, ph, m0) (r_props x) -> In (rd, ph, m0) (r_props r) \/
    (m0 = m /\ qc_check c (m_qc m) = QFull /\ vw_round (q_view (m_qc m)) = rd /\ vw_phase (q_view (m_qc m)) + 1 = ph /\
     forall h, m_high m = Some h -> high_ok c h = true)).
  { intros x [->| ->]; repeat split; auto; try congruence. intros. left. congruence. }
  rewrite <- Ec.
  destruct (negb (is_validator c (m_from m))); [same|].
  destruct (negb (m_sigok m)); [same|].
  destruct (negb ((m_phase m =? Phase_PROPOSE) || (m_phase m =? Phase_PRECOMMIT) || (m_phase m =? Phase_COMMIT))); [same|].
  destruct (negb (vw_root (q_view (m_qc m)) =? r_root r1)); [same|].
  destruct (qc_check c (m_qc m)) eqn:Eq; try (same).
  destruct (match m_high m with Some h => negb (high_ok c h) | None => false end) eqn:Eh; [same|].
  destruct (negb ((vw_round (q_view (m_qc m)) =? m_round m) && (vw_phase (q_view (m_qc m)) + 1 =? m_phase m))) eqn:Eb; [same|].
  apply negb_false_iff, andb_true_iff in Eb. destruct Eb as [Eb1 Eb2]. apply N.eqb_eq in Eb1, Eb2.
  assert (Hput : let x := put_prop m r1 in
    r_root x = r_root r /\ r_round x = r_round r /\ r_phase x = r_phase r /\ r_lock x = r_lock r /\ r_commit x = r_commit r /\
    forall rd ph m0, In (rd, ph, m0) (r_props x) -> In (rd, ph, m0) (r_props r) \/
    (m0 = m /\ QFull = QFull /\ vw_round (q_view (m_qc m)) = rd /\ vw_phase (q_view (m_qc m)) + 1 = ph /\
     forall h, m_high m = Some h -> high_ok c h = true)).
  { simpl. repeat split; auto. intros rd ph m0 [Hin|Hin].
    - injection Hin as <- <- <-. right. repeat split; auto.
      intros h Hh. rewrite Hh in Eh. now apply negb_false_iff in Eh.
    - left. apply filter_In in Hin. rewrite <- H6. apply Hin. }
  destruct (m_phase m =? Phase_PROPOSE).
  - destruct ((q_proposer (m_qc m) =? m_from m) && m_hasprop m); [exact Hput|same].
  - match goal with |- context [if ?b then put_prop m r1 else r1] => destruct b end; [exact Hput|same].
Qed.

(* ---- AddProposal's rule (Bft.keeps): a message sent by the proposer its certificate names is never kept out, and once such a
   message is stored for a (round, phase) no message of another sender replaces it *)
Lemma keeps_consistent r m : q_proposer (m_qc m) = m_from m -> keeps r m = false.
Proof.
  intros H. unfold keeps. destruct (find _ (r_props r)); [|reflexivity].
  rewrite H, N.eqb_refl. apply andb_false_r.
Qed.

Lemma recv_lmsg_leader_message_stays c r m old :
  find (fun e => (fst (fst e) =? m_round m) && (snd (fst e) =? m_phase m)) (r_props r) = Some (m_round m, m_phase m, old) ->
  q_proposer (m_qc old) = m_from old -> q_proposer (m_qc m) <> m_from m ->
  r_props (recv_lmsg c r m) = r_props r.
Proof.
  intros Hfind Hold Hnew. unfold recv_lmsg. cbv zeta.
  destruct (r_commit r) eqn:Ec; [reflexivity|].
  set (r1 := if r_blk r =? 0 then r else touch r).
  assert (H1 : r_props r1 = r_props r) by (unfold r1; destruct (r_blk r =? 0); reflexivity).
  assert (Hk : keeps r1 m = true).
  { unfold keeps. rewrite H1, Hfind. cbn [snd]. rewrite Hold, N.eqb_refl. apply N.eqb_neq in Hnew. rewrite Hnew. reflexivity. }
  apply N.eqb_neq in Hnew. rewrite Hk, Hnew. cbn [negb andb].
  repeat match goal with
  | |- r_props (if ?b then _ else _) = _ => destruct b
  | |- r_props (match ?x with QErr => _ | QPartial => _ | QFull => _ end) = _ => destruct x
  end; first [reflexivity | exact H1].
Qed.


Lemma recv_vote_spec c r v :
  let r' := recv_vote c r v in
  r_root r' = r_root r /\ r_round r' = r_round r /\ r_phase r' = r_phase r /\ r_props r' = r_props r /\
  r_commit r' = r_commit r /\
  (r_lock r' = r_lock r \/
   exists h, v_high v = Some h /\ r_lock r' = Some h /\ high_ok c h = true /\
             forall l, r_lock r = Some l -> view_less (q_view l) (q_view h) = true).
Proof.
  unfold recv_vote. cbv zeta.
  destruct (r_commit r) eqn:Ec; [repeat split; auto|].
  set (r1 := if r_blk r =? 0 then r else touch r).
  assert (H1 : r_root r1 = r_root r /\ r_round r1 = r_round r /\ r_phase r1 = r_phase r /\ r_lock r1 = r_lock r /\
               r_commit r1 = r_commit r /\ r_props r1 = r_props r).
  { unfold r1. destruct (r_blk r =? 0); simpl; repeat split; auto. }
  destruct H1 as [H1 [H2 [H3 [H4 [H5 H6]]]]].
  assert (Hsame : forall x : rstate, x = r \/ x = r1 ->
    r_root x = r_root r /\ r_round x = r_round r /\ r_phase x = r_phase r /\ r_props x = r_props r /\ r_commit x = r_commit r /\
    (r_lock x = r_lock r \/
     exists h, v_high v = Some h /\ r_lock x = Some h /\ high_ok c h = true /\
             forall l, r_lock r = Some l -> view_less (q_view l) (q_view h) = true)).
  { intros x [->| ->]; repeat split; auto. }
  rewrite <- Ec.
  destruct (negb (is_validator c (v_from v))); [same|].
  destruct (negb (v_sigok v)); [same|].
  destruct (negb (vw_root (v_view v) =? r_root r1)); [same|].
  destruct (negb (vw_phase (v_view v) =? Phase_ELECTION_VOTE)); [same|].
  destruct (v_high v) as [h|] eqn:Eh; [|same].
  destruct (negb (high_ok c h)) eqn:Eok; [same|]. apply negb_false_iff in Eok.
  destruct (match r_lock r1 with Some l => view_less (q_view l) (q_view h) | None => true end) eqn:El; [|same].
  simpl. repeat split; auto. right. exists h. repeat split; auto.
  intros l Hl. rewrite H4, Hl in El. exact El.
Qed.

Lemma root_update_spec r root :
  let r' := root_update r root in
  r_lock r' = r_lock r /\ r_commit r' = r_commit r /\
  tle3 (r_root r) (r_round r) (r_phase r) (r_root r') (r_round r') (r_phase r') /\
  (r_props r' = r_props r \/ r_props r' = []).
Proof.
  unfold root_update, tle3. cbv zeta.
  destruct (r_commit r) eqn:Ec; [repeat split; auto; lia|].
  destruct (N.leb_spec root (r_root r)); simpl; repeat split; auto; lia.
Qed.

Lemma get_prop_spec r rd ph m : get_prop r rd ph = Some m ->
  In (rd, ph, m) (r_props r) /\ vw_root (q_view (m_qc m)) = r_root r.
Proof.
  unfold get_prop. destruct (find _ (r_props r)) as [e|] eqn:E; [|discriminate].
  destruct (N.eqb_spec (vw_root (q_view (m_qc (snd e)))) (r_root r)) as [Hr|]; [|discriminate].
  intros H. injection H as <-. apply find_some in E. destruct E as [Hin He].
  apply andb_true_iff in He. destruct He as [H1 H2]. apply N.eqb_eq in H1, H2.
  destruct e as [[a b] m0]. simpl in *. subst. auto.
Qed.

Lemma block_hash_touch r : block_hash (touch r) = block_hash r.
Proof.
  destruct r as [a b c d blk bhc res p props cm]. unfold touch. unfold block_hash. simpl.
  destruct (bhc =? 0) eqn:E1.
  - destruct (blk =? 0) eqn:E2; reflexivity.
  - rewrite E1. reflexivity.
Qed.

Lemma block_hash_fresh a b c d blk res p props cm :
  block_hash (touch (mkR a b c d blk 0 res p props cm)) = blk.
Proof. unfold touch. unfold block_hash. simpl. destruct (blk =? 0); reflexivity. Qed.

Section Local.
Variables (P : list N) (lru : N) (n : net) (i : N).

Ltac quiet := apply LT_quiet; simpl;
  [reflexivity | first [reflexivity|assumption|congruence] | unfold tle3; simpl; lia | intros; left; assumption].

Lemma step_ltrans c r o r' outs : step c r o = (r', outs) -> r_root r <= o_root o ->
  ltrans P lru n i r r' (votes_of i outs).
Proof.
  unfold step. intros H Hroot.
  destruct (r_commit r) eqn:Ec.
  { injection H as <- <-. quiet. }
  cbv zeta in H.
  unfold interrupt, next in H.
  unfold Phase_ELECTION, Phase_ELECTION_VOTE, Phase_PROPOSE, Phase_PROPOSE_VOTE, Phase_PRECOMMIT, Phase_PRECOMMIT_VOTE,
    Phase_COMMIT, Phase_COMMIT_PROCESS, Phase_PACEMAKER in H.
  destruct (N.eqb_spec (r_phase r) 1) as [Hp|Hp1]. { injection H as <- <-. quiet. }
  destruct (N.eqb_spec (r_phase r) 2) as [Hp|Hp2]. { injection H as <- <-. quiet. }
  destruct (N.eqb_spec (r_phase r) 3) as [Hp|Hp3].
  { destruct (o_maj o); injection H as <- <-; quiet. }
  destruct (N.eqb_spec (r_phase r) 4) as [Hp|Hp4].
  { destruct (get_prop r (r_round r) 3) as [m|] eqn:Eg; [|injection H as <- <-; quiet].
    destruct (match r_lock r with Some l => negb (safe_node l m) | None => false end) eqn:Es; [injection H as <- <-; quiet|].
    destruct (m_rcbuild m <? c_lru c); [injection H as <- <-; quiet|].
    destruct (negb (o_valid o)); [injection H as <- <-; quiet|].
    injection H as <- <-. simpl votes_of. rewrite block_hash_fresh. simpl.
    apply get_prop_spec in Eg. destruct Eg as [Hin Hr].
    apply LT_pv; simpl; auto; try lia.
    intros l Hl. rewrite Hl in Es. now apply negb_false_iff in Es. }
  destruct (N.eqb_spec (r_phase r) 5) as [Hp|Hp5].
  { destruct (_ && negb (o_maj o)); injection H as <- <-; quiet. }
  destruct (N.eqb_spec (r_phase r) 6) as [Hp|Hp6].
  { destruct (get_prop r (r_round r) 5) as [m|] eqn:Eg; [|injection H as <- <-; quiet].
    destruct (negb (check_pp r m)) eqn:Ecp; [injection H as <- <-; quiet|].
    apply negb_false_iff in Ecp. unfold check_pp in Ecp.
    apply andb_true_iff in Ecp. destruct Ecp as [Ecp E3]. apply andb_true_iff in Ecp. destruct Ecp as [_ E2].
    apply N.eqb_eq in E2, E3.
    injection H as <- <-. simpl votes_of.
    match goal with |- context [block_hash ?x] => replace (block_hash x) with (block_hash (touch r)) by reflexivity end.
    rewrite block_hash_touch, E2. simpl. rewrite E3.
    apply get_prop_spec in Eg. destruct Eg as [Hin Hr].
    apply LT_cv; simpl; auto; try lia. }
  destruct (N.eqb_spec (r_phase r) 7) as [Hp|Hp7].
  { destruct (_ && negb (o_maj o)); injection H as <- <-; quiet. }
  destruct (N.eqb_spec (r_phase r) 8) as [Hp|Hp8].
  { destruct (get_prop r (r_round r) 7) as [m|] eqn:Eg; [|injection H as <- <-; quiet].
    destruct (negb (check_pp r m)) eqn:Ecp; [injection H as <- <-; quiet|].
    match type of H with (if ?b then _ else _) = _ => destruct b end; injection H as <- <-; [|quiet].
    apply get_prop_spec in Eg. destruct Eg as [Hin Hr].
    simpl. apply (LT_commit P lru n i r _ m); simpl; auto. }
  destruct (N.eqb_spec (r_phase r) 10) as [Hp|Hp10].
  { injection H as <- <-. apply LT_quiet; simpl; [reflexivity|congruence| |intros; left; assumption].
    unfold tle3. simpl. destruct (N.ltb_spec (r_round r + 1) (o_jump o)); lia. }
  injection H as <- <-. quiet.
Qed.

Lemma recv_lmsg_ltrans r m : genuine n (m_qc m) -> genuine_opt n (m_high m) ->
  ltrans P lru n i r (recv_lmsg (conf_of P lru i) r m) [].
Proof.
  intros Hg Hh. destruct (recv_lmsg_spec (conf_of P lru i) r m) as [H1 [H2 [H3 [H4 [H5 H6]]]]].
  apply LT_quiet; auto.
  - unfold tle3. rewrite H1, H2, H3. lia.
  - intros rd ph m0 Hin. destruct (H6 _ _ _ Hin) as [Hold|[-> [Hf [Hrd [Hph Hhi]]]]]; [now left|right].
    split; [exact Hf|]. split; [exact Hg|]. split; [exact Hrd|]. split; [exact Hph|].
    intros h Hh'. specialize (Hhi h Hh'). rewrite high_ok_conf in Hhi.
    destruct (high_ok_full P lru h Hhi) as [Hhf Hhp]. rewrite Hh' in Hh. simpl in Hh. repeat split; auto.
Qed.

Lemma recv_vote_ltrans r v : genuine_opt n (v_high v) ->
  ltrans P lru n i r (recv_vote (conf_of P lru i) r v) [].
Proof.
  intros Hg. destruct (recv_vote_spec (conf_of P lru i) r v) as [H1 [H2 [H3 [H4 [H5 H6]]]]].
  destruct H6 as [H6|[h [Hh [Hl [Hok Hless]]]]].
  - apply LT_quiet; auto.
    + unfold tle3. rewrite H1, H2, H3. lia.
    + intros. left. congruence.
  - rewrite high_ok_conf in Hok. destruct (high_ok_full P lru h Hok) as [Hf Hp].
    rewrite Hh in Hg. simpl in Hg.
    apply (LT_adopt P lru n i r _ h); auto; [repeat split; auto|]. exact (high_ok_lru P lru h Hok).
Qed.

Lemma root_update_ltrans r root : ltrans P lru n i r (root_update r root) [].
Proof.
  destruct (root_update_spec r root) as [H1 [H2 [H3 H4]]].
  apply LT_quiet; auto. intros rd ph m Hin. left. destruct H4 as [H4|H4]; rewrite H4 in Hin; [assumption|contradiction].
Qed.
End Local.
