(* EvidenceCollect.v — the collection of double-sign evidence (Evidence.collect = bft/evidence.go AddDSE) loses nobody: whoever a
   single offered piece accuses is named by the report derived from the collection; de-duplication by the certificates' content
   alone (ignoring who signed) does lose accused validators. *)
From Coq Require Import NArith List Bool Lia.
From V Require Import U64 Extracted Bft BftNet Evidence.
Import ListNotations.
Local Open Scope N_scope.

(* ---- identity of pieces *)
Lemma nlist_eqb_eq x : forall y, nlist_eqb x y = true -> x = y.
Proof.
  induction x as [|u x IH]; intros [|v y] H; cbn [nlist_eqb] in H; try discriminate; auto.
  apply andb_true_iff in H. destruct H as [H1 H2]. apply N.eqb_eq in H1. apply IH in H2. subst. reflexivity.
Qed.
Lemma nlist_eqb_refl x : nlist_eqb x x = true.
Proof. induction x as [|u x IH]; cbn [nlist_eqb]; auto. rewrite N.eqb_refl, IH. reflexivity. Qed.

Theorem qc_same_eq a b : qc_same a b = true -> a = b.
Proof.
  destruct a as [[ar ad ap] ab ars apr asg aok], b as [[br bd bp] bb brs bpr bsg bok].
  unfold qc_same, view_eqb3, payload_eqb.
  cbn [q_view q_block q_results q_proposer q_signers q_sigok vw_root vw_round vw_phase].
  intro H.
  repeat match goal with Hc : (_ && _) = true |- _ => apply andb_true_iff in Hc; destruct Hc end.
  repeat match goal with Hc : (_ =? _) = true |- _ => apply N.eqb_eq in Hc end.
  match goal with Hc : nlist_eqb _ _ = true |- _ => apply nlist_eqb_eq in Hc end.
  match goal with Hc : Bool.eqb _ _ = true |- _ => apply eqb_prop in Hc end.
  subst. reflexivity.
Qed.
Lemma qc_same_refl a : qc_same a a = true.
Proof.
  unfold qc_same, view_eqb3, payload_eqb. rewrite !N.eqb_refl, nlist_eqb_refl, eqb_reflx. reflexivity.
Qed.
Lemma ev_same_eq e f : ev_same e f = true -> e = f.
Proof.
  destruct e as [a b], f as [a' b']. unfold ev_same. cbn [fst snd]. intro H.
  apply andb_true_iff in H. destruct H as [H1 H2]. apply qc_same_eq in H1. apply qc_same_eq in H2. subst. reflexivity.
Qed.
Lemma ev_same_refl e : ev_same e e = true.
Proof. unfold ev_same. rewrite !qc_same_refl. reflexivity. Qed.
Lemma existsb_ev_same_In e acc : existsb (ev_same e) acc = true <-> In e acc.
Proof.
  rewrite existsb_exists. split.
  - intros [f [Hin Hs]]. apply ev_same_eq in Hs. subst. exact Hin.
  - intro Hin. exists e. split; [exact Hin | apply ev_same_refl].
Qed.

(* ---- the fold of add_dse *)
Section Collect.
Variables (c : conf) (m : N) (valid : N -> N -> bool).

Lemma add_dse_mono acc f e : In e acc -> In e (add_dse c m valid acc f).
Proof.
  intro Hin. unfold add_dse. destruct (accuses_somebody c m valid f); [|exact Hin].
  destruct (existsb (ev_same f) acc); [exact Hin|]. apply in_or_app. left. exact Hin.
Qed.
Lemma fold_add_mono es : forall acc e, In e acc -> In e (fold_left (add_dse c m valid) es acc).
Proof.
  induction es as [|f es IH]; intros acc e Hin; cbn [fold_left]; [exact Hin|].
  apply IH. apply add_dse_mono. exact Hin.
Qed.
Lemma add_dse_adds acc e : accuses_somebody c m valid e = true -> In e (add_dse c m valid acc e).
Proof.
  intro Ha. unfold add_dse. rewrite Ha. destruct (existsb (ev_same e) acc) eqn:E.
  - apply existsb_ev_same_In. exact E.
  - apply in_or_app. right. left. reflexivity.
Qed.
Lemma fold_add_keeps es : forall acc e, In e es -> accuses_somebody c m valid e = true ->
  In e (fold_left (add_dse c m valid) es acc).
Proof.
  induction es as [|f es IH]; intros acc e Hin Ha; [destruct Hin|]. cbn [fold_left].
  destruct Hin as [Heq|Hin].
  - subst f. apply fold_add_mono. apply add_dse_adds. exact Ha.
  - apply IH; assumption.
Qed.
Lemma add_dse_inv acc f e : In e (add_dse c m valid acc f) -> In e acc \/ (e = f /\ accuses_somebody c m valid e = true).
Proof.
  unfold add_dse. destruct (accuses_somebody c m valid f) eqn:Ha; [|auto].
  destruct (existsb (ev_same f) acc); [auto|]. intro Hin. apply in_app_or in Hin. destruct Hin as [Hin|[Heq|[]]]; [auto|].
  subst e. right. split; [reflexivity|exact Ha].
Qed.
Lemma fold_add_inv es : forall acc e, In e (fold_left (add_dse c m valid) es acc) ->
  In e acc \/ (In e es /\ accuses_somebody c m valid e = true).
Proof.
  induction es as [|f es IH]; intros acc e Hin; cbn [fold_left] in Hin; [auto|].
  apply IH in Hin. destruct Hin as [Hin|[Hin Ha]].
  - apply add_dse_inv in Hin. destruct Hin as [Hin|[Heq Ha]]; [auto|]. right. split; [left; auto|exact Ha].
  - right. split; [right; exact Hin|exact Ha].
Qed.
Lemma add_dse_nodup acc f : NoDup acc -> NoDup (add_dse c m valid acc f).
Proof.
  intro Hnd. unfold add_dse. destruct (accuses_somebody c m valid f); [|exact Hnd].
  destruct (existsb (ev_same f) acc) eqn:E; [exact Hnd|].
  assert (Hni : ~ In f acc). { intro Hin. apply existsb_ev_same_In in Hin. rewrite Hin in E. discriminate. }
  clear E. induction acc as [|x acc IH]; cbn [app].
  - constructor; [intros []|constructor].
  - inversion Hnd as [|x' acc' Hx Hnd']; subst. constructor.
    + intro Hin. apply in_app_or in Hin. destruct Hin as [Hin|[Heq|[]]]; [exact (Hx Hin)|]. subst. apply Hni. left. reflexivity.
    + apply IH; [exact Hnd'|]. intro Hin. apply Hni. right. exact Hin.
Qed.
Lemma fold_add_nodup es : forall acc, NoDup acc -> NoDup (fold_left (add_dse c m valid) es acc).
Proof.
  induction es as [|f es IH]; intros acc Hnd; cbn [fold_left]; [exact Hnd|]. apply IH. apply add_dse_nodup. exact Hnd.
Qed.

(* ---- what a derived list names *)
Lemma names_add_height k h acc k' h' :
  names (add_height k h acc) k' h' = names acc k' h' || ((k =? k') && (h' =? h)).
Proof.
  unfold names. induction acc as [|[k0 hs] r IH].
  - cbn [add_height existsb fst snd]. rewrite !orb_false_r. reflexivity.
  - cbn [add_height]. destruct (N.eqb_spec k k0) as [Heq|Hne].
    + subst k0. cbn [existsb fst snd]. destruct (N.eqb_spec k k') as [Heq|Hne]; cbn [andb orb].
      * destruct (existsb (N.eqb h) hs) eqn:E.
        -- destruct (N.eqb_spec h' h) as [Heq'|Hne'].
           ++ subst h'. rewrite E. reflexivity.
           ++ rewrite orb_false_r. reflexivity.
        -- rewrite existsb_app. cbn [existsb]. rewrite orb_false_r.
           destruct (existsb (N.eqb h') hs); destruct (h' =? h);
             destruct (existsb (fun d => (fst d =? k') && existsb (N.eqb h') (snd d)) r); reflexivity.
      * rewrite orb_false_r. reflexivity.
    + cbn [existsb fst snd]. rewrite IH.
      destruct (N.eqb_spec k0 k') as [Heq|Hne2].
      * subst k0. destruct (N.eqb_spec k k') as [Heq|_]; [contradiction|]. cbn [andb]. rewrite !orb_false_r. reflexivity.
      * cbn [andb orb]. reflexivity.
Qed.

Definition slashable (h : N) := fun (ac : list (N * list N)) k => if valid k h then add_height k h ac else ac.

Lemma names_fold h cs : forall acc k' h',
  names (fold_left (slashable h) cs acc) k' h' = names acc k' h' || (existsb (N.eqb k') cs && valid k' h && (h' =? h)).
Proof.
  induction cs as [|k cs IH]; intros acc k' h'; cbn [fold_left existsb].
  - cbn [andb]. rewrite orb_false_r. reflexivity.
  - rewrite IH. unfold slashable. rewrite (N.eqb_sym k' k). destruct (N.eqb_spec k k') as [Heq|Hne].
    + subst k'. destruct (valid k h) eqn:Ev.
      * rewrite names_add_height, N.eqb_refl. cbn [andb orb].
        destruct (names acc k h'); destruct (h' =? h); destruct (existsb (N.eqb k) cs); reflexivity.
      * rewrite !andb_false_r. cbn [andb]. reflexivity.
    + cbn [orb]. destruct (valid k h); [|reflexivity]. rewrite names_add_height.
      destruct (N.eqb_spec k k') as [Heq|_]; [contradiction|]. cbn [andb]. rewrite orb_false_r. reflexivity.
Qed.

Lemma existsb_eqb_In k l : existsb (N.eqb k) l = true <-> In k l.
Proof.
  rewrite existsb_exists. split.
  - intros [x [Hin He]]. apply N.eqb_eq in He. subst. exact Hin.
  - intro Hin. exists k. split; [exact Hin|apply N.eqb_refl].
Qed.

Lemma process_dse_names k h es : forall acc r, process_dse c m valid es acc = Some r ->
  (names r k h = true <->
   names acc k h = true \/
   exists a b, In (a, b) es /\ h = vw_root (q_view a) /\ In k (common_signers a b) /\ valid k h = true).
Proof.
  induction es as [|[a b] es IH]; intros acc r Hp; cbn [process_dse] in Hp.
  - inversion Hp; subst. split; [auto|]. intros [Hn|[a [b [[] _]]]]. exact Hn.
  - destruct (ev_check c m a b) eqn:Ec; [|discriminate].
    change (fun ac k0 => if valid k0 (vw_root (q_view a)) then add_height k0 (vw_root (q_view a)) ac else ac)
      with (slashable (vw_root (q_view a))) in Hp.
    apply IH in Hp. rewrite Hp. rewrite names_fold. clear Hp. split.
    + intros [Hn|[a' [b' [Hin Hrest]]]].
      * apply orb_true_iff in Hn. destruct Hn as [Hn|Hn]; [auto|].
        apply andb_true_iff in Hn. destruct Hn as [Hn Hh]. apply andb_true_iff in Hn. destruct Hn as [Hk Hv].
        apply N.eqb_eq in Hh. apply existsb_eqb_In in Hk. subst h.
        right. exists a, b. split; [left; reflexivity|]. auto.
      * right. exists a', b'. split; [right; exact Hin|exact Hrest].
    + intros [Hn|[a' [b' [[Heq|Hin] [Hh [Hk Hv]]]]]].
      * left. rewrite Hn. reflexivity.
      * inversion Heq; subst a' b'. left. apply orb_true_iff. right. subst h.
        rewrite N.eqb_refl, Hv. apply existsb_eqb_In in Hk. rewrite Hk. reflexivity.
      * right. exists a', b'. auto.
Qed.

(* ---- the collection passes the check *)
Lemma accuses_checks e : accuses_somebody c m valid e = true -> ev_check c m (fst e) (snd e) = true.
Proof.
  destruct e as [a b]. unfold accuses_somebody. cbn [process_dse fst snd]. destruct (ev_check c m a b); [reflexivity|discriminate].
Qed.
Lemma process_dse_ok es : (forall e, In e es -> ev_check c m (fst e) (snd e) = true) ->
  forall acc, exists r, process_dse c m valid es acc = Some r.
Proof.
  induction es as [|[a b] es IH]; intros Hall acc; cbn [process_dse].
  - exists acc. reflexivity.
  - pose proof (Hall (a, b) (or_introl eq_refl)) as Hc. cbn [fst snd] in Hc. rewrite Hc. apply IH. intros e Hin. apply Hall. right. exact Hin.
Qed.
End Collect.

Theorem collect_keeps_every_accusing_piece c m valid es e :
  In e es -> accuses_somebody c m valid e = true -> In e (collect c m valid es).
Proof. intros Hin Ha. unfold collect. apply fold_add_keeps; assumption. Qed.

Theorem collect_only_offered c m valid es e :
  In e (collect c m valid es) -> In e es /\ accuses_somebody c m valid e = true.
Proof. intro Hin. unfold collect in Hin. apply fold_add_inv in Hin. destruct Hin as [[]|Hin]. exact Hin. Qed.

Theorem collect_no_duplicates c m valid es : NoDup (collect c m valid es).
Proof. unfold collect. apply fold_add_nodup. constructor. Qed.

Theorem collection_checks c m valid es : exists r, process_dse c m valid (collect c m valid es) [] = Some r.
Proof.
  apply process_dse_ok. intros e Hin. apply collect_only_offered in Hin. destruct Hin as [_ Ha].
  apply accuses_checks with (valid := valid). exact Ha.
Qed.

Theorem collection_names_every_accused c m valid es e l r k h :
  In e es -> process_dse c m valid [e] [] = Some l -> names l k h = true ->
  process_dse c m valid (collect c m valid es) [] = Some r -> names r k h = true.
Proof.
  intros Hin Hl Hn Hr.
  assert (Ha : accuses_somebody c m valid e = true).
  { unfold accuses_somebody. rewrite Hl. destruct l; [discriminate Hn|reflexivity]. }
  pose proof (collect_keeps_every_accusing_piece c m valid es e Hin Ha) as Hkept.
  apply (process_dse_names c m valid k h) in Hl. apply Hl in Hn. clear Hl.
  destruct Hn as [Hn|[a [b [[Heq|[]] Hrest]]]]; [discriminate Hn|].
  apply (process_dse_names c m valid k h) in Hr. apply Hr. right. exists a, b. split; [|exact Hrest].
  rewrite <- Heq. exact Hkept.
Qed.

(* ---- de-duplication by content: the second piece is about the same two payloads under another signer set; it is dropped and
   validator 3, whom it accuses, is lost *)
Definition w_conf : conf := mkConf 0 [100; 100; 100; 100] 0.
Definition w_view : view := mkView 1 0 Phase_PROPOSE_VOTE.
Definition w_piece (s : list N) : qc * qc := (mkQC w_view 1 1 0 s true, mkQC w_view 2 1 0 s true).
Definition w_es : list (qc * qc) := [w_piece [1; 2]; w_piece [2; 3]].

Theorem by_content_loses_an_accused :
  exists c m valid es e l k h,
    In e es /\ process_dse c m valid [e] [] = Some l /\ names l k h = true /\
    exists r, process_dse c m valid (collect_by_content c m valid es) [] = Some r /\ names r k h = false.
Proof.
  exists w_conf, 0, (fun _ _ => true), w_es, (w_piece [2; 3]), [(2, [1]); (3, [1])], 3, 1.
  split; [right; left; reflexivity|]. split; [vm_compute; reflexivity|]. split; [vm_compute; reflexivity|].
  exists [(1, [1]); (2, [1])]. split; vm_compute; reflexivity.
Qed.

Print Assumptions collection_names_every_accused.
