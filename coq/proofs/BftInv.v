(* BftInv.v — the invariants of reachable networks, stated against an abstract description [ltrans] of what one action
   does to one replica; BftLocal.v shows that every action of the model is such a transition. *)
From Coq Require Import NArith List Bool Lia.
From V Require Import U64 Extracted Bft BftNet BftArith.
Import ListNotations.
Local Open Scope N_scope.

(* ---- boolean equality of votes *)
Definition hv_eqb (a b : hvote) : bool :=
  (hv_from a =? hv_from b) && (vw_root (hv_view a) =? vw_root (hv_view b)) && (vw_round (hv_view a) =? vw_round (hv_view b)) &&
  (vw_phase (hv_view a) =? vw_phase (hv_view b)) && (hv_block a =? hv_block b) && (hv_results a =? hv_results b) &&
  (hv_proposer a =? hv_proposer b).
Lemma hv_eqb_eq a b : hv_eqb a b = true <-> a = b.
Proof.
  unfold hv_eqb. rewrite !andb_true_iff, !N.eqb_eq. split.
  - intros [[[[[[H1 H2] H3] H4] H5] H6] H7]. destruct a as [fa [a1 a2 a3] ba sa pa], b as [fb [b1 b2 b3] bb sb pb]. simpl in *. congruence.
  - intros ->. tauto.
Qed.

(* the invariants of agreement do not look at the proposer key a vote carries *)
Definition strip (hv : hvote) : hvote := mkHV (hv_from hv) (hv_view hv) (hv_block hv) (hv_results hv) 0.

(* ---- lexicographic orders on (root, round, phase) and (root, round) *)
Definition tle3 (R rd ph R' rd' ph' : N) : Prop := R < R' \/ (R = R' /\ (rd < rd' \/ (rd = rd' /\ ph <= ph'))).
Definition tlt3 (R rd ph R' rd' ph' : N) : Prop := R < R' \/ (R = R' /\ (rd < rd' \/ (rd = rd' /\ ph < ph'))).
Definition wlt (R rd R' rd' : N) : Prop := R < R' \/ (R = R' /\ rd < rd').

Lemma view_less_wlt a b : view_less a b = true -> vw_phase a = vw_phase b ->
  wlt (vw_root a) (vw_round a) (vw_root b) (vw_round b).
Proof.
  unfold view_less, wlt. intros H Hp.
  destruct (N.ltb_spec (vw_root a) (vw_root b)); [lia|].
  destruct (N.ltb_spec (vw_root b) (vw_root a)); [discriminate|].
  destruct (N.ltb_spec (vw_round a) (vw_round b)); [lia|].
  destruct (N.ltb_spec (vw_round b) (vw_round a)); [discriminate|].
  apply N.ltb_lt in H. lia.
Qed.

(* ---- get_rep / set_rep *)
Definition upd (n : net) (i : N) (r' : rstate) (nv : list hvote) : net := mkNet (set_rep n i r') (nv ++ n_votes n).
Definition ids (n : net) : list N := map fst (n_reps n).

Lemma get_rep_In n i r : get_rep n i = Some r -> In (i, r) (n_reps n).
Proof.
  unfold get_rep. destruct (find (fun e => fst e =? i) (n_reps n)) as [e|] eqn:E; [|discriminate].
  intros H. injection H as <-. apply find_some in E. destruct E as [Hin He]. apply N.eqb_eq in He.
  destruct e as [a b]. simpl in *. now subst.
Qed.

Lemma In_get_rep n i r : NoDup (ids n) -> In (i, r) (n_reps n) -> get_rep n i = Some r.
Proof.
  unfold ids, get_rep. induction (n_reps n) as [|[a b] l IH]; simpl; intros Hnd Hin; [contradiction|].
  inversion Hnd as [|? ? Hni Hnd']; subst.
  destruct Hin as [Heq|Hin].
  - injection Heq as -> ->. now rewrite N.eqb_refl.
  - destruct (N.eqb_spec a i) as [->|Hne].
    + exfalso. apply Hni. apply in_map_iff. exists (i, r). auto.
    + now apply IH.
Qed.

Lemma In_ids_get_rep n k : In k (ids n) -> exists r, get_rep n k = Some r.
Proof.
  unfold ids, get_rep. induction (n_reps n) as [|[a b] l IH]; simpl; intros Hin; [contradiction|].
  destruct (N.eqb_spec a k) as [->|Hne]; [eexists; reflexivity|].
  destruct Hin as [Heq|Hin]; [congruence|]. now apply IH.
Qed.

Lemma get_rep_ids n k r : get_rep n k = Some r -> In k (ids n).
Proof. intros H. apply get_rep_In in H. unfold ids. apply in_map_iff. exists (k, r). auto. Qed.

Lemma ids_upd n i r' nv : ids (upd n i r' nv) = ids n.
Proof.
  unfold ids, upd, set_rep. simpl. rewrite map_map. apply map_ext. intros [a b]. simpl.
  destruct (N.eqb_spec a i); simpl; congruence.
Qed.

Lemma get_rep_upd n i r' nv j :
  get_rep (upd n i r' nv) j = match get_rep n j with Some r0 => Some (if j =? i then r' else r0) | None => None end.
Proof.
  unfold get_rep, upd, set_rep. simpl. induction (n_reps n) as [|[a b] l IH]; simpl; [reflexivity|].
  destruct (N.eqb_spec a i) as [->|Hne]; simpl.
  - destruct (N.eqb_spec i j) as [->|Hne]; simpl; [now rewrite N.eqb_refl|]. exact IH.
  - destruct (N.eqb_spec a j) as [->|Hne2]; simpl; [|exact IH].
    destruct (N.eqb_spec j i); [congruence|reflexivity].
Qed.

Lemma get_rep_upd_cases n i r r' nv k rk :
  get_rep n i = Some r -> get_rep (upd n i r' nv) k = Some rk ->
  (k = i /\ rk = r') \/ (k <> i /\ get_rep n k = Some rk).
Proof.
  intros Hi. rewrite get_rep_upd. destruct (get_rep n k) as [r0|] eqn:E; [|discriminate].
  destruct (N.eqb_spec k i) as [->|Hne]; intros H; injection H as <-; auto.
Qed.

Lemma is_correct_get_rep n i : is_correct n i = match get_rep n i with Some _ => true | None => false end.
Proof.
  unfold is_correct, get_rep. induction (n_reps n) as [|[a b] l IH]; simpl; [reflexivity|].
  destruct (a =? i); simpl; [reflexivity|exact IH].
Qed.

Lemma is_correct_upd n i r' nv j : is_correct (upd n i r' nv) j = is_correct n j.
Proof. rewrite !is_correct_get_rep, get_rep_upd. destruct (get_rep n j); reflexivity. Qed.

Lemma genuine_mono n i r' nv q : genuine n q -> genuine (upd n i r' nv) q.
Proof.
  unfold genuine. intros H Hs Hp s Hin Hc. rewrite is_correct_upd in Hc.
  simpl. apply in_or_app. right. now apply H.
Qed.

Section Inv.
Variables (P : list N) (lru : N) (cids : list N).

Definition cf0 : conf := mkConf 0 P lru.
Definition full (q : qc) : Prop := qc_check cf0 q = QFull.
Definition T : N := maj23 cf0.

Lemma qc_check_conf i q : qc_check (conf_of P lru i) q = qc_check cf0 q.
Proof. reflexivity. Qed.
Lemma high_ok_conf i q : high_ok (conf_of P lru i) q = high_ok cf0 q.
Proof. reflexivity. Qed.

Lemma full_sigok q : full q -> q_sigok q = true.
Proof. unfold full, qc_check. destruct (q_sigok q); [reflexivity|simpl; discriminate]. Qed.

Lemma full_power q : full q -> T <= wsum P (memb (q_signers q)).
Proof.
  unfold full, qc_check, T. intros H.
  destruct (negb (q_sigok q) || negb (forallb (is_validator cf0) (q_signers q))); [discriminate|].
  destruct (N.leb_spec (maj23 cf0) (set_power cf0 (q_signers q))) as [Hle|]; [|discriminate].
  rewrite (set_power_wsum P cf0) in Hle by reflexivity. exact Hle.
Qed.

Lemma high_ok_full h : high_ok cf0 h = true -> full h /\ vw_phase (q_view h) = 4.
Proof.
  unfold high_ok, full. intros H. apply andb_true_iff in H. destruct H as [H H3].
  apply andb_true_iff in H. destruct H as [H1 H2]. apply N.eqb_eq in H3.
  split; [|exact H3]. destruct (qc_check cf0 h); congruence.
Qed.

Lemma high_ok_lru h : high_ok cf0 h = true -> lru <= vw_root (q_view h).
Proof.
  unfold high_ok. intros H. apply andb_true_iff in H. destruct H as [H _].
  apply andb_true_iff in H. destruct H as [_ H]. now apply N.leb_le in H.
Qed.

Definition VIn (n : net) (k R rd ph b s : N) : Prop := In (mkHV k (mkView R rd ph) b s 0) (map strip (n_votes n)).
Lemma VIn_raw n k R rd ph b s : VIn n k R rd ph b s <-> exists pr, In (mkHV k (mkView R rd ph) b s pr) (n_votes n).
Proof.
  unfold VIn. rewrite in_map_iff. split.
  - intros [[f v b0 s0 pr] [He Hin]]. unfold strip in He. simpl in He. injection He as -> -> -> ->. eauto.
  - intros [pr H]. eexists. split; [|exact H]. reflexivity.
Qed.
Definition goodqc (n : net) (q : qc) (ph : N) : Prop := full q /\ vw_phase (q_view q) = ph /\ genuine n q.
Definition goodprop (n : net) (rd ph : N) (m : lmsg) : Prop :=
  full (m_qc m) /\ genuine n (m_qc m) /\ vw_round (q_view (m_qc m)) = rd /\ vw_phase (q_view (m_qc m)) + 1 = ph /\
  forall h, m_high m = Some h -> goodqc n h 4.

Lemma goodqc_mono n i r' nv q ph : goodqc n q ph -> goodqc (upd n i r' nv) q ph.
Proof. intros [H1 [H2 H3]]. repeat split; auto using genuine_mono. Qed.
Lemma goodprop_mono n i r' nv rd ph m : goodprop n rd ph m -> goodprop (upd n i r' nv) rd ph m.
Proof.
  intros [H1 [H2 [H3 [H4 H5]]]]. split; [|split; [|split; [|split]]]; auto using genuine_mono.
  intros h Hh. apply goodqc_mono. auto.
Qed.

Lemma goodqc_vote n q ph k r : (ph = 4 \/ ph = 6) -> goodqc n q ph -> memb (q_signers q) k = true -> get_rep n k = Some r ->
  VIn n k (vw_root (q_view q)) (vw_round (q_view q)) ph (q_block q) (q_results q).
Proof.
  intros Hph [Hf [Hp Hg]] Hm Hk. apply VIn_raw. exists (q_proposer q).
  assert (Hv : q_view q = mkView (vw_root (q_view q)) (vw_round (q_view q)) ph) by (destruct (q_view q); simpl in *; congruence).
  rewrite <- Hv. apply Hg.
  - now apply full_sigok.
  - rewrite Hp. unfold Phase_PROPOSE_VOTE, Phase_PRECOMMIT_VOTE. exact Hph.
  - now apply memb_In.
  - rewrite is_correct_get_rep, Hk. reflexivity.
Qed.

(* ---- "(w, v) can still gather a PRECOMMIT quorum" *)
Definition hasvote (n : net) (k R rd ph b s : N) : bool := existsb (hv_eqb (mkHV k (mkView R rd ph) b s 0)) (map strip (n_votes n)).
Lemma hasvote_In n k R rd ph b s : hasvote n k R rd ph b s = true <-> VIn n k R rd ph b s.
Proof.
  unfold hasvote, VIn. rewrite existsb_exists. split.
  - intros [x [Hx E]]. apply hv_eqb_eq in E. now subst.
  - intros H. eexists. split; [exact H|]. now apply hv_eqb_eq.
Qed.
Definition notpassed (r : rstate) (R rd : N) : bool :=
  (r_root r <? R) || ((r_root r =? R) && ((r_round r <? rd) || ((r_round r =? rd) && (r_phase r <=? 6)))).
Lemma notpassed_spec r R rd : notpassed r R rd = true <-> tle3 (r_root r) (r_round r) (r_phase r) R rd 6.
Proof.
  unfold notpassed, tle3. rewrite !orb_true_iff, !andb_true_iff, !orb_true_iff, !andb_true_iff,
    !N.ltb_lt, !N.eqb_eq, N.leb_le. tauto.
Qed.
Definition pcmem (n : net) (R rd b s : N) (k : N) : bool :=
  match get_rep n k with None => true | Some r => hasvote n k R rd 6 b s || notpassed r R rd end.
Definition PC (n : net) (R rd b s : N) : Prop := T <= wsum P (pcmem n R rd b s).

(* ---- what one action does to the replica it is delivered to *)
Inductive ltrans (n : net) (i : N) (r r' : rstate) : list hvote -> Prop :=
| LT_quiet :
    r_lock r' = r_lock r -> r_commit r' = r_commit r ->
    tle3 (r_root r) (r_round r) (r_phase r) (r_root r') (r_round r') (r_phase r') ->
    (forall rd ph m, In (rd, ph, m) (r_props r') -> In (rd, ph, m) (r_props r) \/ goodprop n rd ph m) ->
    ltrans n i r r' []
| LT_adopt h :
    r_root r' = r_root r -> r_round r' = r_round r -> r_phase r' = r_phase r -> r_props r' = r_props r ->
    r_commit r' = r_commit r -> r_lock r' = Some h -> goodqc n h 4 ->
    (forall l, r_lock r = Some l -> view_less (q_view l) (q_view h) = true) ->
    lru <= vw_root (q_view h) ->
    ltrans n i r r' []
| LT_pv m pr :
    r_root r' = r_root r -> r_round r' = r_round r -> r_phase r = 4 -> r_phase r' = 5 -> r_lock r' = r_lock r ->
    r_props r' = r_props r -> r_commit r' = r_commit r ->
    In (r_round r, 3, m) (r_props r) ->
    (forall l, r_lock r = Some l -> safe_node l m = true) ->
    ltrans n i r r' [mkHV i (mkView (r_root r) (r_round r) 4) (q_block (m_qc m)) (q_results (m_qc m)) pr]
| LT_cv m pr :
    r_root r' = r_root r -> r_round r' = r_round r -> r_phase r = 6 -> r_phase r' = 7 -> r_lock r' = Some (m_qc m) ->
    r_props r' = r_props r -> r_commit r' = r_commit r ->
    In (r_round r, 5, m) (r_props r) -> vw_root (q_view (m_qc m)) = r_root r ->
    ltrans n i r r' [mkHV i (mkView (r_root r) (r_round r) 6) (q_block (m_qc m)) (q_results (m_qc m)) pr]
| LT_commit m :
    r_root r' = r_root r -> r_round r' = r_round r -> r_phase r' = r_phase r -> r_lock r' = r_lock r ->
    r_props r' = r_props r -> In (r_round r, 7, m) (r_props r) ->
    r_commit r' = Some (q_block (m_qc m), q_results (m_qc m)) ->
    ltrans n i r r' [].

Lemma ltrans_tle n i r r' nv : ltrans n i r r' nv ->
  tle3 (r_root r) (r_round r) (r_phase r) (r_root r') (r_round r') (r_phase r').
Proof. unfold tle3. intros H. destruct H; try assumption; lia. Qed.

Lemma ltrans_from n i r r' nv hv : ltrans n i r r' nv -> In hv (map strip nv) -> hv_from hv = i.
Proof. intros H Hin. destruct H; simpl in Hin; try contradiction; destruct Hin as [<-|[]]; reflexivity. Qed.

(* the votes an action adds: at most one, of the replica's current view and phase (4 or 6), and the phase then moves on *)
Lemma ltrans_new n i r r' nv hv : ltrans n i r r' nv -> In hv nv ->
  hv_from hv = i /\ vw_root (hv_view hv) = r_root r /\ vw_round (hv_view hv) = r_round r /\ vw_phase (hv_view hv) = r_phase r /\
  (r_phase r = 4 \/ r_phase r = 6) /\ r_root r' = r_root r /\ r_round r' = r_round r /\ r_phase r < r_phase r' /\
  forall hv', In hv' nv -> hv' = hv.
Proof.
  intros H Hin. destruct H; simpl in Hin; try contradiction; destruct Hin as [<-|[]]; simpl;
    repeat split; auto; try lia; intros hv' [<-|[]]; reflexivity.
Qed.

Lemma ltrans_props n i r r' nv : ltrans n i r r' nv ->
  forall rd ph m, In (rd, ph, m) (r_props r') -> In (rd, ph, m) (r_props r) \/ goodprop n rd ph m.
Proof. intros H. destruct H; try assumption; intros rd ph m0 Hin; left; congruence. Qed.

(* the part of the invariant that needs no assumption on the Byzantine power: stored messages and commits are certified *)
Definition InvL (n : net) : Prop :=
  (forall k r rd ph m, get_rep n k = Some r -> In (rd, ph, m) (r_props r) -> goodprop n rd ph m) /\
  (forall k r b s, get_rep n k = Some r -> r_commit r = Some (b, s) ->
     exists q, goodqc n q 6 /\ q_block q = b /\ q_results q = s) /\
  (* every vote of a correct replica is a PROPOSE or PRECOMMIT vote of a view the replica has left behind *)
  (forall k r hv, get_rep n k = Some r -> In hv (n_votes n) -> hv_from hv = k ->
     (vw_phase (hv_view hv) = 4 \/ vw_phase (hv_view hv) = 6) /\
     tlt3 (vw_root (hv_view hv)) (vw_round (hv_view hv)) (vw_phase (hv_view hv)) (r_root r) (r_round r) (r_phase r)) /\
  (* a correct replica signs at most one payload per view (root, round, phase) *)
  (forall k r hv1 hv2, get_rep n k = Some r -> In hv1 (n_votes n) -> In hv2 (n_votes n) -> hv_from hv1 = k -> hv_from hv2 = k ->
     hv_view hv1 = hv_view hv2 -> hv1 = hv2).

Lemma InvL_step n i r r' nv : InvL n -> get_rep n i = Some r -> ltrans n i r r' nv -> InvL (upd n i r' nv).
Proof.
  intros [HP [H5 [HV HU]]] Hi Ht.
  assert (HV' : forall k rk hv, get_rep (upd n i r' nv) k = Some rk -> In hv (n_votes (upd n i r' nv)) -> hv_from hv = k ->
     (vw_phase (hv_view hv) = 4 \/ vw_phase (hv_view hv) = 6) /\
     tlt3 (vw_root (hv_view hv)) (vw_round (hv_view hv)) (vw_phase (hv_view hv)) (r_root rk) (r_round rk) (r_phase rk)).
  { intros k rk hv Hk Hin Hf. simpl in Hin. apply in_app_iff in Hin.
    pose proof (ltrans_tle _ _ _ _ _ Ht) as Hle.
    destruct (get_rep_upd_cases _ _ _ _ _ _ _ Hi Hk) as [[-> ->]|[Hne Hk']].
    - destruct Hin as [Hin|Hin].
      + destruct (ltrans_new _ _ _ _ _ _ Ht Hin) as [_ [E1 [E2 [E3 [E4 [E5 [E6 [E7 _]]]]]]]].
        rewrite E1, E2, E3. split; [exact E4|]. unfold tlt3. lia.
      + destruct (HV _ _ _ Hi Hin Hf) as [H1 H2]. split; [exact H1|]. unfold tle3, tlt3 in *. lia.
    - destruct Hin as [Hin|Hin]; [|eapply HV; eauto].
      destruct (ltrans_new _ _ _ _ _ _ Ht Hin) as [E0 _]. congruence. }
  split; [|split; [|split; [exact HV'|]]].
  - intros k rk rd ph m Hk Hin. apply goodprop_mono.
    destruct (get_rep_upd_cases _ _ _ _ _ _ _ Hi Hk) as [[-> ->]|[Hne Hk']]; [|eapply HP; eauto].
    destruct (ltrans_props _ _ _ _ _ Ht _ _ _ Hin) as [H|H]; [|exact H]. eapply HP; eauto.
  - intros k rk b s Hk Hc.
    assert (Hold : forall k0 r0, get_rep n k0 = Some r0 -> r_commit r0 = Some (b, s) ->
                   exists q, goodqc (upd n i r' nv) q 6 /\ q_block q = b /\ q_results q = s).
    { intros k0 r0 H0 Hc0. destruct (H5 _ _ _ _ H0 Hc0) as [q [Hq Hr]]. exists q. split; [now apply goodqc_mono|exact Hr]. }
    destruct (get_rep_upd_cases _ _ _ _ _ _ _ Hi Hk) as [[-> ->]|[Hne Hk']]; [|eauto].
    destruct Ht as [_ Hcm _ _|h _ _ _ _ Hcm _ _ _ _|m pr _ _ _ _ _ _ Hcm _ _|m pr _ _ _ _ _ _ Hcm _ _|m _ _ _ _ _ Hin Hcm];
      try (rewrite Hcm in Hc; eauto).
    injection Hc as <- <-.
    destruct (HP _ _ _ _ _ Hi Hin) as [H1 [H2 [H3 [H4 H5']]]].
    exists (m_qc m). split; [|auto]. apply goodqc_mono. repeat split; auto. lia.
  - intros k rk hv1 hv2 Hk Hin1 Hin2 Hf1 Hf2 Hvw. simpl in Hin1, Hin2. apply in_app_iff in Hin1. apply in_app_iff in Hin2.
    assert (Hk0 : exists r0, get_rep n k = Some r0).
    { rewrite get_rep_upd in Hk. destruct (get_rep n k); [eauto|discriminate]. }
    destruct Hk0 as [r0 Hk0].
    assert (Hmix : forall hva hvb, In hva nv -> In hvb (n_votes n) -> hv_from hva = k -> hv_from hvb = k ->
                   hv_view hva = hv_view hvb -> False).
    { intros hva hvb Ha Hb Hfa Hfb Hv.
      destruct (ltrans_new _ _ _ _ _ _ Ht Ha) as [E0 [E1 [E2 [E3 _]]]].
      assert (Hbi : hv_from hvb = i) by congruence.
      destruct (HV _ _ _ Hi Hb Hbi) as [_ Hlt].
      rewrite <- Hv, E1, E2, E3 in Hlt. unfold tlt3 in Hlt. lia. }
    destruct Hin1 as [Hin1|Hin1], Hin2 as [Hin2|Hin2].
    + destruct (ltrans_new _ _ _ _ _ _ Ht Hin1) as [_ [_ [_ [_ [_ [_ [_ [_ Hone]]]]]]]]. symmetry. now apply Hone.
    + exfalso. eapply Hmix; eauto.
    + exfalso. eapply (Hmix hv2 hv1); eauto.
    + eapply HU; eauto.
Qed.

(* root heights and locks never fall below LastRootHeightUpdated (needed for liveness: forwarded locks pass CheckHighQC) *)
Definition InvR (n : net) : Prop :=
  forall k r, get_rep n k = Some r -> lru <= r_root r /\ forall l, r_lock r = Some l -> lru <= vw_root (q_view l).

Lemma InvR_step n i r r' nv : InvR n -> get_rep n i = Some r -> ltrans n i r r' nv -> InvR (upd n i r' nv).
Proof.
  intros HR Hi Ht k rk Hk.
  destruct (get_rep_upd_cases _ _ _ _ _ _ _ Hi Hk) as [[-> ->]|[Hne Hk']]; [|eauto].
  destruct (HR _ _ Hi) as [H1 H2]. pose proof (ltrans_tle _ _ _ _ _ Ht) as Hle.
  split; [unfold tle3 in Hle; lia|].
  intros l Hl.
  destruct Ht as [Hlk _ _ _|h _ _ _ _ _ Hlk _ _ Hlru|m pr _ _ _ _ Hlk _ _ _ _|m pr _ _ _ _ Hlk _ _ _ Hroot|m _ _ _ Hlk _ _ _];
    rewrite Hlk in Hl; try (apply H2; exact Hl).
  - injection Hl as <-. exact Hlru.
  - injection Hl as <-. rewrite Hroot. exact H1.
Qed.

Hypothesis Hwrap : ptotal P < two64.
Hypothesis Hbyz : 3 * byz_power P cids < ptotal P.

Record Inv (n : net) : Prop := {
  I_ids : ids n = cids;
  I_lock : forall k r l, get_rep n k = Some r -> r_lock r = Some l -> goodqc n l 4;
  I_L : InvL n;
  I_L3 : forall k r R rd b s, get_rep n k = Some r -> VIn n k R rd 6 b s ->
         exists l, r_lock r = Some l /\
           (wlt R rd (vw_root (q_view l)) (vw_round (q_view l)) \/
            (R = vw_root (q_view l) /\ rd = vw_round (q_view l) /\ b = q_block l /\ s = q_results l));
  I_L4 : forall k R rd b s, VIn n k R rd 6 b s ->
         exists q, goodqc n q 4 /\ vw_root (q_view q) = R /\ vw_round (q_view q) = rd /\ q_block q = b /\ q_results q = s;
  I_G : forall R rd b s, PC n R rd b s -> forall k r, get_rep n k = Some r -> VIn n k R rd 6 b s ->
        forall R' rd' b' s', VIn n k R' rd' 4 b' s' -> wlt R rd R' rd' -> b' = b /\ s' = s }.

Lemma I_props n : Inv n -> forall k r rd ph m, get_rep n k = Some r -> In (rd, ph, m) (r_props r) -> goodprop n rd ph m.
Proof. intros HI. exact (proj1 (I_L n HI)). Qed.
Lemma I_votes n : Inv n -> forall k r R rd ph b s, get_rep n k = Some r -> VIn n k R rd ph b s ->
  (ph = 4 \/ ph = 6) /\ tlt3 R rd ph (r_root r) (r_round r) (r_phase r).
Proof.
  intros HI k r R rd ph b s Hk Hv. apply VIn_raw in Hv. destruct Hv as [pr Hv].
  exact (proj1 (proj2 (proj2 (I_L n HI))) k r _ Hk Hv eq_refl).
Qed.
Lemma I_U n : Inv n -> forall k r R rd b s b' s', get_rep n k = Some r -> VIn n k R rd 6 b s -> VIn n k R rd 6 b' s' ->
  b = b' /\ s = s'.
Proof.
  intros HI k r R rd b s b' s' Hk Hv1 Hv2. apply VIn_raw in Hv1, Hv2. destruct Hv1 as [p1 Hv1]. destruct Hv2 as [p2 Hv2].
  pose proof (proj2 (proj2 (proj2 (I_L n HI))) k r _ _ Hk Hv1 Hv2 eq_refl eq_refl eq_refl) as E.
  injection E as -> -> _. auto.
Qed.
Lemma I_L5 n : Inv n -> forall k r b s, get_rep n k = Some r -> r_commit r = Some (b, s) ->
  exists q, goodqc n q 6 /\ q_block q = b /\ q_results q = s.
Proof. intros HI. exact (proj1 (proj2 (I_L n HI))). Qed.

(* two quorums share a correct replica *)
Lemma quorum2 n f g : Inv n -> T <= wsum P f -> T <= wsum P g ->
  exists k r, get_rep n k = Some r /\ f k = true /\ g k = true.
Proof.
  intros HI Hf Hg.
  assert (HT : T = 2 * ptotal P / 3 + 1) by (apply maj_exact; [reflexivity|exact Hwrap]).
  destruct (quorum_inter P T f g (fun i => negb (memb cids i)) HT) as [k [Hk [Hfk [Hgk Hbk]]]]; auto.
  - rewrite <- byz_power_wsum. exact Hbyz.
  - apply negb_false_iff in Hbk. apply memb_In in Hbk. rewrite <- (I_ids n HI) in Hbk.
    destruct (In_ids_get_rep n k Hbk) as [r Hr]. exists k, r. auto.
Qed.

(* a PRECOMMIT certificate shows its value can gather a PRECOMMIT quorum *)
Lemma cert6_PC n q : Inv n -> goodqc n q 6 ->
  PC n (vw_root (q_view q)) (vw_round (q_view q)) (q_block q) (q_results q).
Proof.
  intros HI Hq. unfold PC. etransitivity; [apply full_power; apply Hq|].
  apply wsum_le. intros k _ Hk. unfold pcmem. destruct (get_rep n k) as [r|] eqn:E; [|reflexivity].
  apply orb_true_iff. left. apply hasvote_In. eapply goodqc_vote; eauto.
Qed.

(* the key consequence of I_G: while (w, v) can gather a PRECOMMIT quorum, every PROPOSE certificate above w is for v *)
Lemma G_key n R rd b s q : Inv n -> PC n R rd b s -> goodqc n q 4 ->
  wlt R rd (vw_root (q_view q)) (vw_round (q_view q)) -> q_block q = b /\ q_results q = s.
Proof.
  intros HI HPC Hq Hlt.
  destruct (quorum2 n (memb (q_signers q)) (pcmem n R rd b s) HI) as [k [r [Hk [Hs Hm]]]].
  - apply full_power. apply Hq.
  - exact HPC.
  - assert (Hpv := goodqc_vote n q 4 k r (or_introl eq_refl) Hq Hs Hk).
    unfold pcmem in Hm. rewrite Hk in Hm. apply orb_true_iff in Hm. destruct Hm as [Hm|Hm].
    + apply hasvote_In in Hm. eapply (I_G n HI); eauto.
    + exfalso. apply notpassed_spec in Hm.
      destruct (I_votes n HI _ _ _ _ _ _ _ Hk Hpv) as [_ Hv]. unfold tle3, tlt3, wlt in *. lia.
Qed.

Lemma VIn_upd n i r' nv k R rd ph b s :
  VIn (upd n i r' nv) k R rd ph b s <-> In (mkHV k (mkView R rd ph) b s 0) (map strip nv) \/ VIn n k R rd ph b s.
Proof. unfold VIn, upd. simpl. rewrite map_app. apply in_app_iff. Qed.

Lemma PC_mono n i r r' nv R rd b s : get_rep n i = Some r -> ltrans n i r r' nv ->
  PC (upd n i r' nv) R rd b s -> PC n R rd b s.
Proof.
  intros Hi Ht. unfold PC. intros H. etransitivity; [exact H|].
  apply wsum_le. intros k _. unfold pcmem. rewrite get_rep_upd.
  destruct (get_rep n k) as [r0|] eqn:Ek; [|auto].
  intros Hm. apply orb_true_iff in Hm. apply orb_true_iff.
  destruct (N.eqb_spec k i) as [->|Hne].
  - rewrite Hi in Ek. injection Ek as <-.
    destruct Hm as [Hm|Hm].
    + apply hasvote_In, VIn_upd in Hm. destruct Hm as [Hm|Hm]; [|left; now apply hasvote_In].
      right. apply notpassed_spec. unfold tle3.
      destruct Ht; simpl in Hm; try contradiction; destruct Hm as [Hm|[]]; try discriminate; injection Hm; intros; lia.
    + right. apply notpassed_spec in Hm. apply notpassed_spec.
      pose proof (ltrans_tle _ _ _ _ _ Ht). unfold tle3 in *. lia.
  - destruct Hm as [Hm|Hm]; [|now right].
    apply hasvote_In, VIn_upd in Hm. destruct Hm as [Hm|Hm]; [|left; now apply hasvote_In].
    apply (ltrans_from _ _ _ _ _ _ Ht) in Hm. simpl in Hm. congruence.
Qed.

(* ---- preservation *)
Section Step.
Variables (n : net) (i : N) (r r' : rstate) (nv : list hvote).
Hypothesis HI : Inv n.
Hypothesis Hi : get_rep n i = Some r.
Hypothesis Ht : ltrans n i r r' nv.
Let n' := upd n i r' nv.

Lemma step_lock k rk l : get_rep n' k = Some rk -> r_lock rk = Some l -> goodqc n' l 4.
Proof.
  intros Hk Hl. apply goodqc_mono.
  destruct (get_rep_upd_cases _ _ _ _ _ _ _ Hi Hk) as [[-> ->]|[Hne Hk']]; [|eapply (I_lock n HI); eauto].
  destruct Ht as [Hlk _ _ _|h _ _ _ _ _ Hlk Hg _ _|m pr _ _ _ _ Hlk _ _ _ _|m pr _ _ _ _ Hlk _ _ Hin _|m _ _ _ Hlk _ _ _].
  - rewrite Hlk in Hl. eapply (I_lock n HI); eauto.
  - rewrite Hlk in Hl. injection Hl as <-. exact Hg.
  - rewrite Hlk in Hl. eapply (I_lock n HI); eauto.
  - rewrite Hlk in Hl. injection Hl as <-.
    destruct (I_props n HI _ _ _ _ _ Hi Hin) as [H1 [H2 [H3 [H4 H5]]]]. repeat split; auto. lia.
  - rewrite Hlk in Hl. eapply (I_lock n HI); eauto.
Qed.

Lemma step_L3 k rk R rd b s : get_rep n' k = Some rk -> VIn n' k R rd 6 b s ->
  exists l, r_lock rk = Some l /\
    (wlt R rd (vw_root (q_view l)) (vw_round (q_view l)) \/
     (R = vw_root (q_view l) /\ rd = vw_round (q_view l) /\ b = q_block l /\ s = q_results l)).
Proof.
  intros Hk Hv. apply VIn_upd in Hv.
  destruct (get_rep_upd_cases _ _ _ _ _ _ _ Hi Hk) as [[-> ->]|[Hne Hk']].
  - destruct Ht as [Hlk _ _ _|h _ _ _ _ _ Hlk Hg Hless _|m pr _ _ _ _ Hlk _ _ _ _|m pr _ _ Hph _ Hlk _ _ Hin Hroot|m _ _ _ Hlk _ _ _].
    + destruct Hv as [[]|Hv]. rewrite Hlk. eapply (I_L3 n HI); eauto.
    + destruct Hv as [[]|Hv]. destruct (I_L3 n HI _ _ _ _ _ _ Hi Hv) as [l [Hl Hc]].
      exists h. split; [exact Hlk|]. left.
      pose proof (I_lock n HI _ _ _ Hi Hl) as [_ [Hpl _]]. destruct Hg as [_ [Hph _]].
      pose proof (view_less_wlt _ _ (Hless l Hl) ltac:(congruence)) as Hw. unfold wlt in *.
      destruct Hc as [Hc|[-> [-> _]]]; lia.
    + destruct Hv as [Hv|Hv]; [destruct Hv as [Hv|[]]; discriminate|]. rewrite Hlk. eapply (I_L3 n HI); eauto.
    + destruct (I_props n HI _ _ _ _ _ Hi Hin) as [_ [_ [Hrd _]]].
      exists (m_qc m). split; [exact Hlk|]. destruct Hv as [Hv|Hv].
      * destruct Hv as [Hv|[]]. injection Hv; intros. right. subst. rewrite Hroot, Hrd. auto.
      * left. destruct (I_votes n HI _ _ _ _ _ _ _ Hi Hv) as [_ Hlt]. rewrite Hroot, Hrd. unfold tlt3, wlt in *. lia.
    + destruct Hv as [[]|Hv]. rewrite Hlk. eapply (I_L3 n HI); eauto.
  - destruct Hv as [Hv|Hv].
    + apply (ltrans_from _ _ _ _ _ _ Ht) in Hv. simpl in Hv. congruence.
    + eapply (I_L3 n HI); eauto.
Qed.

Lemma step_L4 k R rd b s : VIn n' k R rd 6 b s ->
  exists q, goodqc n' q 4 /\ vw_root (q_view q) = R /\ vw_round (q_view q) = rd /\ q_block q = b /\ q_results q = s.
Proof.
  intros Hv. apply VIn_upd in Hv. destruct Hv as [Hv|Hv].
  - destruct Ht as [| |m pr|m pr _ _ _ _ _ _ _ Hin Hroot|m]; simpl in Hv; try contradiction; destruct Hv as [Hv|[]]; try discriminate.
    injection Hv; intros. subst.
    destruct (I_props n HI _ _ _ _ _ Hi Hin) as [H1 [H2 [H3 [H4 H5]]]].
    exists (m_qc m). split; [|auto]. apply goodqc_mono. repeat split; auto. lia.
  - destruct (I_L4 n HI _ _ _ _ _ Hv) as [q [Hq Hr]]. exists q. split; [now apply goodqc_mono|exact Hr].
Qed.

Lemma step_G R rd b s : PC n' R rd b s -> forall k rk, get_rep n' k = Some rk -> VIn n' k R rd 6 b s ->
  forall R' rd' b' s', VIn n' k R' rd' 4 b' s' -> wlt R rd R' rd' -> b' = b /\ s' = s.
Proof.
  intros HPC k rk Hk Hcv R' rd' b' s' Hpv Hlt.
  apply (PC_mono n i r r' nv R rd b s Hi Ht) in HPC.
  apply VIn_upd in Hcv. apply VIn_upd in Hpv.
  assert (Hk0 : exists r0, get_rep n k = Some r0).
  { unfold n' in Hk. rewrite get_rep_upd in Hk. destruct (get_rep n k); [eauto|discriminate]. }
  destruct Hk0 as [r0 Hk0].
  destruct Hcv as [Hcv|Hcv], Hpv as [Hpv|Hpv].
  - exfalso. destruct Ht; simpl in Hcv, Hpv; try contradiction; destruct Hcv as [Hcv|[]], Hpv as [Hpv|[]]; discriminate.
  - (* new PRECOMMIT vote, older PROPOSE vote at a higher view: impossible *)
    exfalso. assert (k = i) by (apply (ltrans_from _ _ _ _ _ _ Ht) in Hcv; simpl in Hcv; congruence). subst k.
    destruct (I_votes n HI _ _ _ _ _ _ _ Hi Hpv) as [_ Hv].
    destruct Ht; simpl in Hcv; try contradiction; destruct Hcv as [Hcv|[]]; try discriminate.
    injection Hcv; intros. subst. unfold tlt3, wlt in *. lia.
  - (* new PROPOSE vote above an old PRECOMMIT vote: SafeNode *)
    assert (k = i) by (apply (ltrans_from _ _ _ _ _ _ Ht) in Hpv; simpl in Hpv; congruence). subst k.
    destruct Ht as [| |m pr _ _ _ _ _ _ _ Hin Hsafe|m pr|m]; simpl in Hpv; try contradiction; destruct Hpv as [Hpv|[]]; try discriminate.
    injection Hpv; intros; subst R' rd' b' s'.
    destruct (I_L3 n HI _ _ _ _ _ _ Hi Hcv) as [l [Hl Hc]].
    pose proof (I_lock n HI _ _ _ Hi Hl) as Hgl.
    specialize (Hsafe l Hl). unfold safe_node in Hsafe.
    destruct (m_high m) as [h|] eqn:Eh; [|discriminate].
    destruct (I_props n HI _ _ _ _ _ Hi Hin) as [_ [_ [_ [_ Hh]]]]. specialize (Hh h Eh).
    apply andb_true_iff in Hsafe. destruct Hsafe as [Hsafe Hor].
    apply andb_true_iff in Hsafe. destruct Hsafe as [Hb Hs]. apply N.eqb_eq in Hb, Hs. rewrite Hb, Hs.
    apply orb_true_iff in Hor. destruct Hor as [Hsame|Hless].
    + apply andb_true_iff in Hsame. destruct Hsame as [Hb2 Hs2]. apply N.eqb_eq in Hb2, Hs2. rewrite <- Hb2, <- Hs2.
      destruct Hc as [Hc|[_ [_ [-> ->]]]]; [|auto].
      apply (G_key n R rd b s l HI HPC Hgl Hc).
    + apply (G_key n R rd b s h HI HPC Hh).
      destruct Hgl as [_ [Hpl _]]. destruct Hh as [_ [Hph _]].
      pose proof (view_less_wlt _ _ Hless ltac:(congruence)) as Hw. unfold wlt in *.
      destruct Hc as [Hc|[-> [-> _]]]; lia.
  - eapply (I_G n HI); eauto.
Qed.

Lemma Inv_step : Inv n'.
Proof.
  constructor.
  - unfold n'. rewrite ids_upd. apply (I_ids n HI).
  - intros. eapply step_lock; eauto.
  - unfold n'. eapply InvL_step; eauto. apply (I_L n HI).
  - intros. eapply step_L3; eauto.
  - intros. eapply step_L4; eauto.
  - intros. eapply step_G; eauto.
Qed.
End Step.

(* two genuine full certificates of one view and phase carry the same value *)
Lemma cert_unique n q1 q2 ph : Inv n -> (ph = 4 \/ ph = 6) -> goodqc n q1 ph -> goodqc n q2 ph ->
  vw_root (q_view q1) = vw_root (q_view q2) -> vw_round (q_view q1) = vw_round (q_view q2) ->
  q_block q1 = q_block q2 /\ q_results q1 = q_results q2.
Proof.
  intros HI Hph H1 H2 Hr Hrd.
  destruct (quorum2 n (memb (q_signers q1)) (memb (q_signers q2)) HI) as [k [rk [Hk [Hm1 Hm2]]]].
  - apply full_power. apply H1.
  - apply full_power. apply H2.
  - pose proof (goodqc_vote n q1 ph k rk Hph H1 Hm1 Hk) as Hv1.
    pose proof (goodqc_vote n q2 ph k rk Hph H2 Hm2 Hk) as Hv2.
    apply VIn_raw in Hv1, Hv2. destruct Hv1 as [p1 Hv1]. destruct Hv2 as [p2 Hv2].
    rewrite Hr, Hrd in Hv1.
    pose proof (proj2 (proj2 (proj2 (I_L n HI))) k rk _ _ Hk Hv1 Hv2 eq_refl eq_refl eq_refl) as E.
    injection E as -> -> _. auto.
Qed.

(* ---- the final argument *)
Lemma Inv_agree n i ri j rj v1 v2 : Inv n -> get_rep n i = Some ri -> get_rep n j = Some rj ->
  r_commit ri = Some v1 -> r_commit rj = Some v2 -> v1 = v2.
Proof.
  intros HI Hi Hj Hc1 Hc2. destruct v1 as [b1 s1], v2 as [b2 s2].
  destruct (I_L5 n HI _ _ _ _ Hi Hc1) as [q1 [Hq1 [Hb1 Hs1]]].
  destruct (I_L5 n HI _ _ _ _ Hj Hc2) as [q2 [Hq2 [Hb2 Hs2]]].
  pose proof (cert6_PC n q1 HI Hq1) as HP1. pose proof (cert6_PC n q2 HI Hq2) as HP2.
  assert (Hfar : forall qa qb, goodqc n qa 6 -> goodqc n qb 6 ->
            wlt (vw_root (q_view qa)) (vw_round (q_view qa)) (vw_root (q_view qb)) (vw_round (q_view qb)) ->
            q_block qb = q_block qa /\ q_results qb = q_results qa).
  { intros qa qb Ha Hb Hlt.
    destruct (quorum2 n (memb (q_signers qb)) (memb (q_signers qb)) HI) as [k [rk [Hk [Hm _]]]];
      try (apply full_power; apply Hb).
    pose proof (goodqc_vote n qb 6 k rk (or_intror eq_refl) Hb Hm Hk) as Hcv.
    destruct (I_L4 n HI _ _ _ _ _ Hcv) as [q [Hq [Hr [Hrd [Hbq Hsq]]]]].
    rewrite <- Hbq, <- Hsq.
    apply (G_key n _ _ _ _ q HI (cert6_PC n qa HI Ha) Hq). rewrite Hr, Hrd. exact Hlt. }
  assert (Htri : wlt (vw_root (q_view q1)) (vw_round (q_view q1)) (vw_root (q_view q2)) (vw_round (q_view q2)) \/
                 wlt (vw_root (q_view q2)) (vw_round (q_view q2)) (vw_root (q_view q1)) (vw_round (q_view q1)) \/
                 (vw_root (q_view q1) = vw_root (q_view q2) /\ vw_round (q_view q1) = vw_round (q_view q2)))
    by (unfold wlt; lia).
  destruct Htri as [Hlt|[Hlt|[Hr Hrd]]].
  - destruct (Hfar q1 q2 Hq1 Hq2 Hlt). congruence.
  - destruct (Hfar q2 q1 Hq2 Hq1 Hlt). congruence.
  - destruct (quorum2 n (memb (q_signers q1)) (memb (q_signers q2)) HI) as [k [rk [Hk [Hm1 Hm2]]]];
      try (apply full_power; [apply Hq1|apply Hq2]).
    + apply full_power. apply Hq1.
    + apply full_power. apply Hq2.
    + pose proof (goodqc_vote n q1 6 k rk (or_intror eq_refl) Hq1 Hm1 Hk) as Hv1.
      pose proof (goodqc_vote n q2 6 k rk (or_intror eq_refl) Hq2 Hm2 Hk) as Hv2.
      rewrite Hr, Hrd in Hv1. destruct (I_U n HI _ _ _ _ _ _ _ _ Hk Hv1 Hv2). congruence.
Qed.
End Inv.
