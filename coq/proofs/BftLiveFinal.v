(* BftLiveFinal.v — the liveness statements of record for C15: BftLiveness.v's round theorems with the hypothesis on locks
   discharged from the validation side condition (ValidateProposal never accepts a proposal without a block or results). *)
From Coq Require Import NArith List Bool.
From V Require Import U64 Extracted Bft BftNet BftLive BftSafety BftLiveness.
Import ListNotations.
Local Open Scope N_scope.

Theorem sync_round_commits_final powers lru (correct : list (N * N)) acts leader fresh root round :
  NoDup (map fst correct) ->
  Forall (fun e => fst e < N.of_nat (length powers)) correct ->
  total powers < two64 ->
  3 * byz_power powers (map fst correct) < total powers ->
  Forall (fun e => lru <= snd e) correct ->
  run_ok powers lru (init_net correct) acts ->
  run_valid_sane powers lru (init_net correct) acts ->
  let n := run powers lru (init_net correct) acts in
  let ids := map fst correct in
  aligned n ids root round -> In leader ids -> fst fresh <> 0 -> snd fresh <> 0 ->
  maj23 (mkConf leader powers lru) <= set_power (mkConf leader powers lru) ids ->
  exists v, forall i, In i ids -> In (i, v) (commits (sync_round powers lru ids leader fresh n)).
Proof.
  intros Hnd HF Hw Hb Hlru Hok Hs n ids Hal Hlead Hf1 Hf2 Hq.
  apply (sync_round_commits_votes powers lru correct acts leader fresh root round Hnd HF Hw Hb Hlru Hok Hal Hlead Hf1 Hf2 Hq).
  exact (votes_nonzero_reachable powers lru correct acts Hw Hb Hok Hs).
Qed.

Theorem sync_round_commits_highest_lock_final powers lru (correct : list (N * N)) acts leader fresh root round i r l :
  NoDup (map fst correct) ->
  Forall (fun e => fst e < N.of_nat (length powers)) correct ->
  total powers < two64 ->
  3 * byz_power powers (map fst correct) < total powers ->
  Forall (fun e => lru <= snd e) correct ->
  run_ok powers lru (init_net correct) acts ->
  run_valid_sane powers lru (init_net correct) acts ->
  let n := run powers lru (init_net correct) acts in
  let ids := map fst correct in
  aligned n ids root round -> In leader ids -> fst fresh <> 0 -> snd fresh <> 0 ->
  maj23 (mkConf leader powers lru) <= set_power (mkConf leader powers lru) ids ->
  In i ids -> get_rep n i = Some r -> r_lock r = Some l ->
  (forall j rj lj, In j ids -> get_rep n j = Some rj -> r_lock rj = Some lj -> view_less (q_view l) (q_view lj) = false) ->
  forall k, In k ids -> In (k, (q_block l, q_results l)) (commits (sync_round powers lru ids leader fresh n)).
Proof.
  intros Hnd HF Hw Hb Hlru Hok Hs n ids Hal Hlead Hf1 Hf2 Hq Hi Hr Hl Hmax.
  apply (sync_round_commits_highest_lock_votes powers lru correct acts leader fresh root round i r l Hnd HF Hw Hb Hlru Hok Hal Hlead Hf1 Hf2 Hq Hi Hr Hl Hmax).
  exact (votes_nonzero_reachable powers lru correct acts Hw Hb Hok Hs).
Qed.
