(* LedgerEscrowFits.v — paying an escrowed amount out can never overflow the receiver's balance (C20 / C04).
   CloseOrder() pre-checks that crediting the buyer with the order's escrowed amount does not overflow uint64 before it moves
   anything.  On every state satisfying the ledger invariant that check can never fire: the escrowed amount is part of the
   recorded total, which is below 2^64, and so is every account balance. *)
From Coq Require Import NArith List Bool Lia.
From V Require Import U64 Extracted Ledger LedgerCheck.
From V Require LedgerConservation LedgerStaking LedgerHistory.
Import ListNotations.
Local Open Scope N_scope.

Module LC := LedgerConservation.
Module LS := LedgerStaking.
Module LH := LedgerHistory.

(* an open order's amount is part of the escrow sum of its chain *)
Lemma amount_le_escrow_fold id o (m : list (N * order)) :
  aget id m = Some o ->
  o_amount o <= fold_right (fun e acc => if o_chain (snd e) =? o_chain o then o_amount (snd e) + acc else acc) 0 m.
Proof.
  induction m as [|[k v] r IH]; cbn [aget fold_right snd]; intros H.
  - discriminate.
  - destruct (id =? k).
    + injection H as ->. rewrite N.eqb_refl. lia.
    + specialize (IH H). destruct (o_chain v =? o_chain o); lia.
Qed.

(* any account balance plus the amount of any open sell order fits into 64 bits *)
Theorem escrow_credit_fits s id o buyer :
  LH.LInv s -> aget id (l_orders s) = Some o -> nget buyer (l_accounts s) + o_amount o < two64.
Proof.
  intros (_ & [Hc Ht] & _ & _ & He & Hb & _) Ho.
  pose proof (Hb _ _ Ho) as Hch.
  pose proof (He _ Hch) as Hp. unfold LC.escrow_sum in Hp.
  pose proof (amount_le_escrow_fold _ _ _ Ho) as Ha.
  rewrite <- Hp in Ha.
  pose proof (LC.nget_le_sum (add64 (o_chain o) EscrowPoolAddend) (l_pools s)) as H1.
  pose proof (LC.nget_le_sum buyer (l_accounts s)) as H2.
  lia.
Qed.

(* the same for any pool balance paid out to an account (rewards, refunds): balance + pool amount fits *)
Theorem pool_credit_fits s p a :
  LH.LInv s -> nget a (l_accounts s) + nget p (l_pools s) < two64.
Proof.
  intros (_ & [Hc Ht] & _).
  pose proof (LC.nget_le_sum p (l_pools s)) as H1.
  pose proof (LC.nget_le_sum a (l_accounts s)) as H2.
  lia.
Qed.

Print Assumptions escrow_credit_fits.
Print Assumptions pool_credit_fits.
