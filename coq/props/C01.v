(* C01 — BFT agreement: no two correct nodes commit different blocks at a height.  Statement of record. *)
From Coq Require Import NArith List Bool.
From V Require Import U64 Extracted Bft BftNet BftSafety BftOldVariants BftGen.
Import ListNotations.
Local Open Scope N_scope.

(* For every committee (any number of validators, any stake distribution), every set of correct replicas whose complement
   (the Byzantine validators) holds less than one third of the power, and EVERY execution - any order, loss, duplication and
   delay of messages (the adversary delivers whatever it wants, whenever it wants, to whomever it wants), any timeout
   interleaving, any root-chain notifications (advancing, duplicated, late), any election outcome, any leader behaviour, any
   certificates the adversary can assemble from votes that were really cast (equivocation, withholding, replay of old
   certificates) - all correct replicas that commit commit the same (block, results). *)
Theorem C01_agreement : forall powers lru (correct : list (N * N)) acts,
  NoDup (map fst correct) ->
  Forall (fun e => fst e < N.of_nat (length powers)) correct ->
  total powers < two64 ->
  3 * byz_power powers (map fst correct) < total powers ->
  run_ok powers lru (init_net correct) acts ->
  forall i j v1 v2, In (i, v1) (commits (run powers lru (init_net correct) acts)) ->
                    In (j, v2) (commits (run powers lru (init_net correct) acts)) -> v1 = v2.
Proof. exact agreement. Qed.
Print Assumptions C01_agreement.

(* a commit is final, and it is backed by +2/3 PRECOMMIT votes of which every correct signer really voted *)
Theorem C01_commit_stable : forall powers lru n a i v, In (i, v) (commits n) -> NoDup (map fst (n_reps n)) ->
  In (i, v) (commits (net_step powers lru n a)).
Proof. exact commit_stable. Qed.
Theorem C01_commit_certified : forall powers lru (correct : list (N * N)) acts,
  NoDup (map fst correct) -> run_ok powers lru (init_net correct) acts ->
  forall i b s, In (i, (b, s)) (commits (run powers lru (init_net correct) acts)) ->
  exists root round proposer signers,
    maj23 (mkConf i powers lru) <= set_power (mkConf i powers lru) signers /\
    forall k, In k signers -> existsb (N.eqb k) (map fst correct) = true ->
      In (mkHV k (mkView root round Phase_PRECOMMIT_VOTE) b s proposer) (n_votes (run powers lru (init_net correct) acts)).
Proof. exact commit_certified. Qed.
Print Assumptions C01_commit_certified.

(* The theorem is about the code AFTER the fixes recorded in KNOWN_FINDINGS.txt.  Two of the repaired defects as theorems about
   the OLD behaviour (the model with the fix switched off): an admissible execution with one Byzantine validator of four in
   which two correct replicas commit different values. *)
Theorem C01_old_block_hash_cache_forks :
  vrun_ok true false false dP 0 dI d1_acts /\
  commits (vrun true false false dP 0 dI d1_acts) = [(0, (7, 8)); (2, (9, 8))] /\
  3 * byz_power dP [0; 1; 2] < fold_right N.add 0 dP.
Proof. exact old_cache_forks. Qed.
Theorem C01_old_stale_stored_message_forks :
  vrun_ok false true true dP 0 dI d2_acts /\
  commits (vrun false true true dP 0 dI d2_acts) = [(0, (7, 9)); (2, (11, 12))] /\
  3 * byz_power dP [0; 1; 2] < fold_right N.add 0 dP.
Proof. exact old_stale_message_forks. Qed.

(* ---- the two decision functions the agreement argument turns on are tied to the source by THEOREM: gen/Extracted.v holds
   lib.View.Less and bft.BFT.SafeNode translated statement by statement from the working tree on every run (field paths
   flattened into parameters, nil tests into booleans, hashes compared by id); they are the functions the replica model uses. *)
Theorem C01_source_view_order_is_the_model : forall h a b,
  View_Less false h (vw_phase a) (vw_root a) (vw_round a) false h (vw_phase b) (vw_root b) (vw_round b) = view_less a b.
Proof. exact src_view_less. Qed.
Print Assumptions C01_source_view_order_is_the_model.
Theorem C01_source_safe_node_is_the_model : forall h l m, src_safe_node h l m = safe_node l m.
Proof. exact src_safe_node_is_model. Qed.
Print Assumptions C01_source_safe_node_is_the_model.
Theorem C01_source_safe_node_unlocks_only_under_a_higher_view : forall h l m hq,
  m_high m = Some hq -> src_safe_node h l m = true ->
  (q_block l = q_block hq /\ q_results l = q_results hq) \/ view_less (q_view l) (q_view hq) = true.
Proof. exact src_safe_node_unlock_needs_higher_view. Qed.
Theorem C01_source_view_order_is_a_strict_order :
  (forall h p r o, View_Less false h p r o false h p r o = false) /\
  (forall h1 p1 r1 o1 h2 p2 r2 o2 h3 p3 r3 o3,
     View_Less false h1 p1 r1 o1 false h2 p2 r2 o2 = true -> View_Less false h2 p2 r2 o2 false h3 p3 r3 o3 = true ->
     View_Less false h1 p1 r1 o1 false h3 p3 r3 o3 = true) /\
  (forall h1 p1 r1 o1 h2 p2 r2 o2,
     View_Less false h1 p1 r1 o1 false h2 p2 r2 o2 = false -> View_Less false h2 p2 r2 o2 false h1 p1 r1 o1 = false ->
     h1 = h2 /\ p1 = p2 /\ r1 = r2 /\ o1 = o2).
Proof. split; [exact src_view_less_irrefl | split; [exact src_view_less_trans | exact src_view_less_total]]. Qed.
Print Assumptions C01_source_view_order_is_a_strict_order.

(* non-vacuity: a full round with a Byzantine leader in which the three correct replicas commit *)
Example C01_nonvacuous :
  run_ok ex_powers 0 (init_net [(0, 5); (1, 5); (2, 5)]) ex_acts /\
  commits (run ex_powers 0 (init_net [(0, 5); (1, 5); (2, 5)]) ex_acts) = [(0, (7, 8)); (1, (7, 8)); (2, (7, 8))] /\
  3 * byz_power ex_powers [0; 1; 2] < total ex_powers.
Proof. exact agreement_nonvacuous. Qed.
