(* C01 — BFT agreement: no two correct nodes commit different blocks at a height.  Statement of record. *)
From Coq Require Import NArith List Bool.
From V Require Import U64 Extracted Bft BftNet BftSafety BftOldVariants.
Import ListNotations.
Local Open Scope N_scope.

(* For every committee (any number of validators, any stake distribution), every set of correct replicas whose complement
   (the Byzantine validators) holds less than one third of the power, and EVERY execution - any order, loss, duplication and
   delay of messages (the adversary delivers whatever it wants, whenever it wants, to whomever it wants), any timeout
   interleaving, any root-chain notifications (advancing, duplicated, late), any election outcome, any leader behaviour, any
   certificates the adversary can assemble from votes that were really cast (equivocation, withholding, replay of old
   certificates) - all correct replicas that commit commit the same (block, results). *)
Theorem C01_agreement : forall powers lru (correct : list (N * N)) acts,
  NoDup (map fst correct) ->
  Forall (fun e => fst e < N.of_nat (length powers)) correct ->
  total powers < two64 ->
  3 * byz_power powers (map fst correct) < total powers ->
  run_ok powers lru (init_net correct) acts ->
  forall i j v1 v2, In (i, v1) (commits (run powers lru (init_net correct) acts)) ->
                    In (j, v2) (commits (run powers lru (init_net correct) acts)) -> v1 = v2.
Proof. exact agreement. Qed.
Print Assumptions C01_agreement.

(* a commit is final, and it is backed by +2/3 PRECOMMIT votes of which every correct signer really voted *)
Theorem C01_commit_stable : forall powers lru n a i v, In (i, v) (commits n) -> NoDup (map fst (n_reps n)) ->
  In (i, v) (commits (net_step powers lru n a)).
Proof. exact commit_stable. Qed.
Theorem C01_commit_certified : forall powers lru (correct : list (N * N)) acts,
  NoDup (map fst correct) -> run_ok powers lru (init_net correct) acts ->
  forall i b s, In (i, (b, s)) (commits (run powers lru (init_net correct) acts)) ->
  exists root round proposer signers,
    maj23 (mkConf i powers lru) <= set_power (mkConf i powers lru) signers /\
    forall k, In k signers -> existsb (N.eqb k) (map fst correct) = true ->
      In (mkHV k (mkView root round Phase_PRECOMMIT_VOTE) b s proposer) (n_votes (run powers lru (init_net correct) acts)).
Proof. exact commit_certified. Qed.
Print Assumptions C01_commit_certified.

(* The theorem is about the code AFTER the fixes recorded in KNOWN_FINDINGS.txt.  Two of the repaired defects as theorems about
   the OLD behaviour (the model with the fix switched off): an admissible execution with one Byzantine validator of four in
   which two correct replicas commit different values. *)
Theorem C01_old_block_hash_cache_forks :
  vrun_ok true false false dP 0 dI d1_acts /\
  commits (vrun true false false dP 0 dI d1_acts) = [(0, (7, 8)); (2, (9, 8))] /\
  3 * byz_power dP [0; 1; 2] < fold_right N.add 0 dP.
Proof. exact old_cache_forks. Qed.
Theorem C01_old_stale_stored_message_forks :
  vrun_ok false true true dP 0 dI d2_acts /\
  commits (vrun false true true dP 0 dI d2_acts) = [(0, (7, 9)); (2, (11, 12))] /\
  3 * byz_power dP [0; 1; 2] < fold_right N.add 0 dP.
Proof. exact old_stale_message_forks. Qed.

(* non-vacuity: a full round with a Byzantine leader in which the three correct replicas commit *)
Example C01_nonvacuous :
  run_ok ex_powers 0 (init_net [(0, 5); (1, 5); (2, 5)]) ex_acts /\
  commits (run ex_powers 0 (init_net [(0, 5); (1, 5); (2, 5)]) ex_acts) = [(0, (7, 8)); (1, (7, 8)); (2, (7, 8))] /\
  3 * byz_power ex_powers [0; 1; 2] < total ex_powers.
Proof. exact agreement_nonvacuous. Qed.
