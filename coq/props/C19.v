(* C19 — Unambiguous signed digests and store keys; untrusted bytes never crash a node.
   Statement of record for the key part (this file) — the sign-bytes part is in the second half once Proto.v is in place.
   The "never panics or hangs" clause is about Go run-time behaviour and is exercised by the harness (direct violations). *)
From Coq Require Import NArith List Bool.
From V Require Import U64 Bytes Extracted Keys KeysProofs ExtractedKeys KeysGen.
Import ListNotations.
Local Open Scope N_scope.

(* JoinLenPrefix is injective and decodable when every component is shorter than 256 bytes *)
Theorem C19_join_roundtrip : forall l, Forall short l -> decode (join l) = Some l.
Proof. exact decode_join. Qed.
Print Assumptions C19_join_roundtrip.

Theorem C19_join_injective : forall a b, Forall short a -> Forall short b -> join a = join b -> a = b.
Proof. exact join_injective. Qed.
Print Assumptions C19_join_injective.

(* a composite key falls into another key's byte-prefix range exactly when its component list extends the other's *)
Theorem C19_join_prefix_iff : forall a b, Forall short a -> Forall short b ->
  (is_prefix (join a) (join b) <-> exists c, b = a ++ c).
Proof.
  intros a b Ha Hb. split; [now apply join_prefix|]. intros [c ->]. apply join_prefix_conv.
Qed.
Print Assumptions C19_join_prefix_iff.

(* prefix iteration bounds select exactly the keys under the prefix *)
Theorem C19_range_iff_prefix : forall p k, wf_bytes p -> wf_bytes k -> (length k <= length p + 256)%nat ->
  (in_range p k = true <-> is_prefix p k).
Proof. exact range_iff_prefix. Qed.
Print Assumptions C19_range_iff_prefix.

(* the state key schema of fsm/key.go (family prefixes regenerated from the source): keys built from different components
   never collide, and no stored key lies in the prefix range of another stored key *)
Theorem C19_schema_injective : forall k1 k2, skey_wf k1 -> skey_wf k2 -> encode_key k1 = encode_key k2 -> k1 = k2.
Proof. exact schema_injective. Qed.
Print Assumptions C19_schema_injective.

Theorem C19_schema_prefix_free : forall k1 k2, skey_wf k1 -> skey_wf k2 -> is_prefix (encode_key k1) (encode_key k2) -> k1 = k2.
Proof. exact schema_prefix_free. Qed.
Print Assumptions C19_schema_prefix_free.

Theorem C19_partitions_disjoint : forall i j p q, nth_error partitions i = Some p -> nth_error partitions j = Some q ->
  i <> j -> ~ is_prefix p q.
Proof. exact partitions_disjoint. Qed.

(* the version suffix orders newer versions first and preserves numeric order of heights / ids *)
Theorem C19_be64_order : forall x y, x < 18446744073709551616 -> y < 18446744073709551616 ->
  lex_lt (be64 x) (be64 y) = (x <? y).
Proof. exact be64_order. Qed.
Theorem C19_versioned_order : forall k v1 v2, v1 < 18446744073709551616 -> v2 < 18446744073709551616 ->
  lex_lt (versioned_key k v1) (versioned_key k v2) = (v2 <? v1).
Proof. exact versioned_order. Qed.

(* the precondition is enforced where a component is attacker-chosen: an order id accepted by the message checks (edit-order,
   delete-order, the order instructions of certificate results) gives a well-formed key that decodes to its segments *)
Theorem C19_accepted_order_id_wf : forall chain id, u64 chain -> order_id_ok id = true -> skey_wf (KOrder chain id).
Proof. exact accepted_order_id_wf. Qed.
Theorem C19_accepted_order_key_decodes : forall chain id, u64 chain -> order_id_ok id = true ->
  decode (encode_key (KOrder chain id)) = Some (segs_of (KOrder chain id)).
Proof. exact accepted_order_key_decodes. Qed.
Print Assumptions C19_accepted_order_key_decodes.

(* outside the precondition (a component of 256 bytes or more) the length byte wraps: keys collide and stop decoding.
   It was reachable from untrusted input (order ids of edit/delete-order; repaired, KNOWN_FINDINGS.txt): the harness plays such transactions through the real state machine. *)
Theorem C19_join_truncation_refuted : exists a b : list bytes, a <> b /\ join a = join b.
Proof. exact join_truncation_refuted. Qed.
Theorem C19_join_truncation_decode_refuted : exists s : bytes, decode (join [[13]; s]) = None.
Proof. exact join_truncation_decode_refuted. Qed.

(* ---- the tie to the source for the key schema is a THEOREM, not only a differential run: gen/ExtractedKeys.v holds the bodies of
   the constructors of fsm/key.go translated node by node on every run (JoinLenPrefix -> join, append -> ++, formatUint64 -> be64);
   [src_key] dispatches to them.  The source's constructors are the schema, hence injective and prefix-free; the source's
   iteration prefixes select exactly their own family and component; the source's order-id check is [order_id_ok]. *)
Theorem C19_source_constructors_are_the_schema : forall k, src_key k = encode_key k.
Proof. exact src_key_is_schema. Qed.
Print Assumptions C19_source_constructors_are_the_schema.
Theorem C19_source_keys_injective : forall k1 k2, skey_wf k1 -> skey_wf k2 -> src_key k1 = src_key k2 -> k1 = k2.
Proof. exact src_keys_injective. Qed.
Print Assumptions C19_source_keys_injective.
Theorem C19_source_keys_prefix_free : forall k1 k2, skey_wf k1 -> skey_wf k2 -> is_prefix (src_key k1) (src_key k2) -> k1 = k2.
Proof. exact src_keys_prefix_free. Qed.
Print Assumptions C19_source_keys_prefix_free.
Theorem C19_source_committee_prefix_selects_its_chain : forall c k, u64 c -> skey_wf k ->
  is_prefix (CommitteePrefix c) (src_key k) -> exists s a, k = KCommittee c s a.
Proof. exact src_committee_prefix_exact. Qed.
Print Assumptions C19_source_committee_prefix_selects_its_chain.
Theorem C19_source_committee_prefix_complete : forall c a s, is_prefix (CommitteePrefix c) (KeyForCommittee c a s).
Proof. exact src_committee_prefix. Qed.
Theorem C19_source_order_id_check : forall id, checkOrderId (N.of_nat (length id)) = order_id_ok id.
Proof. exact src_checkOrderId. Qed.
Print Assumptions C19_source_order_id_check.
Example ex_src_key : KeyForCommittee 2 [9;9] 5 = [1;4; 8;0;0;0;0;0;0;0;2; 8;0;0;0;0;0;0;0;5; 2;9;9].
Proof. vm_compute. reflexivity. Qed.

(* non-vacuity *)
Example ex_key : encode_key (KUnstaking 7 [1;2;3]) = [1;5; 8;0;0;0;0;0;0;0;7; 3;1;2;3].
Proof. vm_compute. reflexivity. Qed.
Example ex_wf : skey_wf (KUnstaking 7 [1;2;3]).
Proof. unfold skey_wf, u64, short. simpl. split; [reflexivity|]. repeat constructor. Qed.
