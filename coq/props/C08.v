(* C08 — State root is a pure, collision-free function of the state.  Statement of record. *)
From Coq Require Import NArith List Bool Permutation.
From V Require Import Trie TrieProofs.
Import ListNotations.

(* Any two histories of writes, overwrites, deletes (incl. insert-then-delete and deletes of absent keys), in any batching,
   that end in the same key/value set end in the SAME TREE, hence the same root. *)
Theorem C08_root_history_independent : forall w t os os', rooted w t -> Forall (op_ok w) os -> Forall (op_ok w) os' ->
  (forall k, length k = w -> lookup k (apply_ops t os) = lookup k (apply_ops t os')) ->
  apply_ops t os = apply_ops t os'.
Proof. exact history_independent. Qed.
Print Assumptions C08_root_history_independent.

(* The content after a history is the plain fold of map updates: the tree implements a finite map. *)
Theorem C08_tree_is_a_map : forall w t os k, rooted w t -> Forall (op_ok w) os -> length k = w ->
  lookup k (apply_ops t os) = fold_left upd os (fun k => lookup k t) k.
Proof. exact apply_ops_lookup. Qed.
Print Assumptions C08_tree_is_a_map.

(* Canonical shape: two canonical trees with the same leaves are the same tree. *)
Theorem C08_canonical_unique : forall w t t', canonical w t -> canonical w t' -> leaves t = leaves t' -> t = t'.
Proof. exact canonical_unique. Qed.
Print Assumptions C08_canonical_unique.

(* The batch commit (sort, then apply left to right) equals applying the operations one by one in any order. *)
Theorem C08_batch_is_fold : forall w t os, rooted w t -> Forall (op_ok w) os -> NoDup (map op_key os) ->
  commit t os = apply_ops t os.
Proof. exact commit_is_fold. Qed.

(* The 8-way parallel commit with synthetic borders equals the sequential commit for EVERY schedule of the workers;
   the borders are removed without trace. *)
Theorem C08_parallel_eq_sequential : forall w bv t os sched, rooted w t -> Forall (op_ok w) os -> NoDup (map op_key os) ->
  (forall b, In b (borders w) -> lookup b t = None /\ ~ In b (map op_key os)) ->
  Permutation os sched -> commit_parallel w bv t sched = commit t os.
Proof. exact parallel_eq_sequential. Qed.
Print Assumptions C08_parallel_eq_sequential.
Theorem C08_borders_leave_no_trace : forall w bv t, rooted w t -> (forall b, In b (borders w) -> lookup b t = None) ->
  remove_borders w (add_borders w bv t) = t.
Proof. exact borders_identity. Qed.

(* Different states yield different roots (ideal hash: the digest is a term over child keys and child digests). *)
Theorem C08_root_injective : forall w t t', rooted w t -> rooted w t' -> root_digest t = root_digest t' -> leaves t = leaves t'.
Proof. exact root_injective. Qed.
Print Assumptions C08_root_injective.

(* The root equals the canonical Merkle commitment of the key/value set: the digest of the tree built from the empty tree by
   inserting the pairs in any order. *)
Theorem C08_root_is_spec : forall w vmin vmax os l, (3 < w)%nat -> Forall (op_ok w) os ->
  Forall (fun kv => user_key w (fst kv)) l -> NoDup (map fst l) ->
  (forall k, length k = w -> lookup k (apply_ops (empty_tree w vmin vmax) os) = lookup k (of_list w vmin vmax l)) ->
  root_digest (apply_ops (empty_tree w vmin vmax) os) = root_digest (of_list w vmin vmax l).
Proof. exact root_is_spec. Qed.
Print Assumptions C08_root_is_spec.

(* non-vacuity: a rooted tree, an insert-then-delete history and a direct history with the same content *)
Definition k1 : bits := [false;true;false;true;true;false;false;true].
Definition k2 : bits := [false;true;false;false;true;false;false;true].
Definition k3 : bits := [true;true;false;false;true;false;true;true].
Example ex_histories :
  apply_ops (empty_tree 8 0 255) [OSet k1 1; OSet k2 2; OSet k3 3; ODel k2; OSet k1 7] =
  apply_ops (empty_tree 8 0 255) [OSet k3 3; OSet k1 7].
Proof. vm_compute. reflexivity. Qed.
Example ex_rooted : rooted 8 (empty_tree 8 0 255).
Proof. apply empty_rooted. repeat constructor. Qed.
