(* C15 — Liveness after partial synchrony: from whatever state an adversarial period leaves behind, a round that the correct
   replicas run together under a correct leader ends with all of them committing.  Statement of record. *)
From Coq Require Import NArith List Bool.
From V Require Import U64 Extracted Bft BftNet BftLive BftSafety BftLiveness BftLiveFinal.
Import ListNotations.
Local Open Scope N_scope.

(* [run powers lru (init_net correct) acts] is ANY state reachable under the adversary of C01 (network, timers, root-chain
   notifications, election, leaders, a Byzantine set below one third): arbitrary rounds, locks on different blocks, stored
   leader messages.  [aligned n ids root round]: the correct replicas have reached the start of one round at one root height
   (what the pacemaker and the growing round time-outs bring about: validated on the implementation by the virtual-time run
   of the harness, not proved here).  [sync_round]: that round with every message of the correct replicas delivered and a
   correct leader (the 12 stages ELECTION .. COMMIT_PROCESS).  Then every correct replica commits, and all commit one value.
   [run_valid_sane]: proposal validation is an oracle of the model; the one thing assumed of it is what ValidateProposal does
   in the implementation: it never accepts a proposal without a block or without results (hash id 0).  Without it the model
   has a stalling execution (C15_needs_sane_validation below). *)
Theorem C15_synchronous_round_commits :
  forall powers lru (correct : list (N * N)) acts leader fresh root round,
  NoDup (map fst correct) ->
  Forall (fun e => fst e < N.of_nat (length powers)) correct ->
  total powers < two64 ->
  3 * byz_power powers (map fst correct) < total powers ->
  Forall (fun e => lru <= snd e) correct ->
  run_ok powers lru (init_net correct) acts ->
  run_valid_sane powers lru (init_net correct) acts ->
  let n := run powers lru (init_net correct) acts in
  let ids := map fst correct in
  aligned n ids root round -> In leader ids -> fst fresh <> 0 -> snd fresh <> 0 ->
  maj23 (mkConf leader powers lru) <= set_power (mkConf leader powers lru) ids ->
  exists v, forall i, In i ids -> In (i, v) (commits (sync_round powers lru ids leader fresh n)).
Proof. exact sync_round_commits_final. Qed.
Print Assumptions C15_synchronous_round_commits.

(* What is committed is the value of the highest lock any correct replica holds (a value some replica may already have
   committed is never abandoned: with C01 this is why recovery cannot fork), or the leader's fresh proposal if nobody is locked. *)
Theorem C15_commits_the_highest_lock :
  forall powers lru (correct : list (N * N)) acts leader fresh root round i r l,
  NoDup (map fst correct) ->
  Forall (fun e => fst e < N.of_nat (length powers)) correct ->
  total powers < two64 ->
  3 * byz_power powers (map fst correct) < total powers ->
  Forall (fun e => lru <= snd e) correct ->
  run_ok powers lru (init_net correct) acts ->
  run_valid_sane powers lru (init_net correct) acts ->
  let n := run powers lru (init_net correct) acts in
  let ids := map fst correct in
  aligned n ids root round -> In leader ids -> fst fresh <> 0 -> snd fresh <> 0 ->
  maj23 (mkConf leader powers lru) <= set_power (mkConf leader powers lru) ids ->
  In i ids -> get_rep n i = Some r -> r_lock r = Some l ->
  (forall j rj lj, In j ids -> get_rep n j = Some rj -> r_lock rj = Some lj -> view_less (q_view l) (q_view lj) = false) ->
  forall k, In k ids -> In (k, (q_block l, q_results l)) (commits (sync_round powers lru ids leader fresh n)).
Proof. exact sync_round_commits_highest_lock_final. Qed.
Print Assumptions C15_commits_the_highest_lock.

(* non-vacuity: a reachable state in which two correct replicas are locked on DIFFERENT blocks (rounds 0 and 1), aligned at
   round 2; the synchronous round makes all three commit *)
Example C15_nonvacuous :
  let powers := [100; 100; 100; 100] in
  let correct := [(0, 5); (1, 5); (2, 5)] in
  exists acts root round, run_ok powers 0 (init_net correct) acts /\
    aligned (run powers 0 (init_net correct) acts) [0; 1; 2] root round /\
    (exists r1 l1 r2 l2, get_rep (run powers 0 (init_net correct) acts) 1 = Some r1 /\ r_lock r1 = Some l1 /\
                         get_rep (run powers 0 (init_net correct) acts) 2 = Some r2 /\ r_lock r2 = Some l2 /\ q_block l1 <> q_block l2) /\
    length (commits (sync_round powers 0 [0; 1; 2] 0 (21, 22) (run powers 0 (init_net correct) acts))) = 3%nat.
Proof. exact sync_round_nonvacuous. Qed.

(* and the side condition on validation cannot be dropped in the model: if replicas vote for a nil block, one of them can end up
   locked on it, and the round stalls (every replica refuses a PRECOMMIT message for a block it does not hold) *)
Example C15_needs_sane_validation :
  let n := run lvP 0 (init_net lvC) cex_acts in
  run_ok lvP 0 (init_net lvC) cex_acts /\ aligned n [0; 1; 2] 5 1 /\
  (exists r, get_rep n 1 = Some r /\ r_lock r = Some cex_q) /\
  total lvP < two64 /\ 3 * byz_power lvP [0; 1; 2] < total lvP /\
  maj23 (mkConf 0 lvP 0) <= set_power (mkConf 0 lvP 0) [0; 1; 2] /\
  commits (sync_round lvP 0 [0; 1; 2] 0 (21, 22) n) = [].
Proof. exact sync_round_needs_nonzero_locks. Qed.
