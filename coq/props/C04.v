(* C04 — Token supply conservation.  Statement of record (ledger model: 11 message kinds, slashes, deferred end-block actions). *)
From Coq Require Import NArith List Bool.
From V Require Import U64 Extracted Ledger LedgerCheck LedgerHistory LedgerBlock.
From V Require LedgerConservation LedgerStaking LedgerBlockProofs.
Import ListNotations.
Local Open Scope N_scope.
Module LC := LedgerConservation.
Module LS := LedgerStaking.
Module LB := LedgerBlockProofs.

(* Every state reachable by any history of transactions (applied, or failed and therefore without effect), slashes, the two
   deferred end-block actions and height changes satisfies: recorded total = accounts + pools + stakes, below 2^64 (no
   balance wraps: every primitive is checked or proved not to overflow under the invariant). *)
Theorem C04_conserved_on_every_reachable_state : forall ops s s', LInv s -> hist_ok ops s -> lrun ops s = LOk s' ->
  LC.Conserved s' /\ conservation_ok s' = true.
Proof.
  intros ops s s' HI HO HR. pose proof (history_invariant ops s s' HI HO HR) as H.
  split; [apply H | apply (LInv_predicates s' H)].
Qed.
Print Assumptions C04_conserved_on_every_reachable_state.

(* One transaction: the total changes exactly by the governance-approved DAO mint it carries (0 for every other message);
   a failing transaction changes nothing. *)
Theorem C04_tx_moves_or_mints : forall sender fee m s, LC.wf s -> LC.Conserved s -> LC.msg_bounded m -> fee < two64 ->
  LC.total s + LC.mint_of m < two64 ->
  let '(ok, s') := apply_tx sender fee m s in
  LC.wf s' /\ LC.Conserved s' /\ LC.total s' = (if ok then LC.total s + LC.mint_of m else LC.total s) /\ (ok = false -> s' = s).
Proof. exact LC.apply_tx_conserves. Qed.
Print Assumptions C04_tx_moves_or_mints.

(* A block's transactions: the total moves by exactly the applied mints. *)
Theorem C04_block_total : forall txs s s', LInv s ->
  hist_ok (map (fun t => let '(sd, fee, m) := t in OpTx sd fee m) txs) s ->
  lrun (map (fun t => let '(sd, fee, m) := t in OpTx sd fee m) txs) s = LOk s' ->
  LC.total s' = (LC.total s + snd (LC.apply_txs txs s))%N.
Proof. exact history_total_tx_only. Qed.

(* A slash is an explicit burn: the total drops by exactly what the validator loses. *)
Theorem C04_slash_burns_exactly : forall a chain percent already s s', LC.wf s -> LC.Conserved s ->
  slash_validator a chain percent already s = LOk s' ->
  LC.wf s' /\ LC.Conserved s' /\ LC.total s' <= LC.total s /\
  LC.total s - LC.total s' = (match aget a (l_vals s) with Some v => v_stake v | None => 0 end) -
                             (match aget a (l_vals s') with Some v => v_stake v | None => 0 end).
Proof. exact LC.slash_conserves. Qed.
Print Assumptions C04_slash_burns_exactly.

(* The deferred end-block actions only move tokens. *)
Theorem C04_finish_unstaking_moves : forall s s', LC.wf s -> LC.Conserved s -> delete_finished_unstaking s = LOk s' ->
  LC.wf s' /\ LC.Conserved s' /\ LC.total s' = LC.total s.
Proof. exact LC.finish_unstaking_conserves. Qed.
Theorem C04_force_unstake_moves : forall s s', LC.wf s -> LC.Conserved s -> force_unstake_max_paused s = LOk s' ->
  LC.wf s' /\ LC.Conserved s' /\ LC.total s' = LC.total s.
Proof. exact LC.force_unstake_conserves. Qed.

(* non-vacuity: a concrete invariant state and an admissible history with every kind of operation *)
Example C04_nonvacuous :
  LInv ex_state /\ hist_ok ex_ops ex_state /\
  exists s', lrun ex_ops ex_state = LOk s' /\ conservation_ok s' = true /\ staking_ok s' = true /\
             aget 30 (l_vals s') = None /\ aget 9 (l_orders s') = None.
Proof. exact history_nonvacuous. Qed.

(* ---- whole blocks: the two block-level actions that create and destroy tokens (model/LedgerBlock.v).
   BeginBlock mint (FundCommitteeRewardPools): the invariant is kept, nothing is destroyed, and never more than the amount
   scheduled for the block is created (the DAO cut plus the per-committee amounts; truncation is simply not minted). *)
Theorem C04_mint_bounded : forall total dao_pct chains s s',
  LInv s -> LB.chains_ok chains -> LC.total s + total < two64 -> dao_pct < two64 ->
  fund_pools total dao_pct chains s = LOk s' ->
  LInv s' /\ LC.total s <= LC.total s' /\ LC.total s' <= LC.total s + total.
Proof. exact LB.fund_invariant. Qed.
Print Assumptions C04_mint_bounded.
Theorem C04_mint_split_bounded : forall total dao_pct count, total < two64 -> dao_pct < two64 -> 0 < count ->
  fst (mint_split total dao_pct count) + count * snd (mint_split total dao_pct count) <= total.
Proof. exact LB.mint_split_bounded. Qed.
(* EndBlock reward distribution of a committee (DistributeCommitteeRewards): credits to accounts, to compounding stakes and to
   output accounts come out of the committee's pool; what is not paid (rounding, early-withdrawal penalty) is burned from the
   recorded total; nothing is created; the pool ends empty. *)
Theorem C04_rewards_conserve : forall chain stubs samples penalty s s',
  LInv s -> LS.heights_ok s -> stubs_ok stubs samples -> penalty < two64 -> chain <= MaxChainId ->
  distribute_committee chain stubs samples penalty s = LOk s' -> LInv s'.
Proof. exact LB.distribute_invariant. Qed.
Print Assumptions C04_rewards_conserve.
Theorem C04_rewards_burn_the_rest : forall chain stubs samples penalty s s',
  LInv s -> LS.heights_ok s -> stubs_ok stubs samples -> penalty < two64 -> chain <= MaxChainId ->
  distribute_committee chain stubs samples penalty s = LOk s' ->
  LC.total s' <= LC.total s /\ LC.total s - LC.total s' <= nget chain (l_pools s) /\
  (stubs <> [] -> nget chain (l_pools s') = 0).
Proof. exact LB.distribute_burns. Qed.
(* every state reachable by histories of transactions, slashes, deferred actions, height changes, mints and reward
   distributions satisfies the invariant (conservation included) *)
Theorem C04_conserved_on_every_reachable_state_of_whole_blocks : forall ops s s',
  LInv s -> LB.bhist_ok ops s -> LB.brun ops s = LOk s' -> LInv s'.
Proof. exact LB.block_history_invariant. Qed.
Print Assumptions C04_conserved_on_every_reachable_state_of_whole_blocks.
Theorem C04_whole_blocks_predicates : forall ops s s', LInv s -> LB.pools_nz s -> LB.bhist_ok ops s -> LB.brun ops s = LOk s' ->
  conservation_ok s' = true /\ staking_ok s' = true /\ escrow_ok s' = true.
Proof. exact LB.block_history_predicates. Qed.
Example C04_whole_blocks_nonvacuous : exists s ops s',
  LInv s /\ LB.bhist_ok ops s /\ LB.brun ops s = LOk s' /\ LC.total s' < LC.total s + 1000 /\ LC.total s < LC.total s' /\
  conservation_ok s' = true.
Proof. exact LB.block_history_nonvacuous. Qed.
