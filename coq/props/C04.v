(* C04 — Token supply conservation.  Statement of record (ledger model: 11 message kinds, slashes, deferred end-block actions). *)
From Coq Require Import NArith List Bool.
From V Require Import U64 Extracted Ledger LedgerCheck LedgerHistory.
From V Require LedgerConservation LedgerStaking.
Import ListNotations.
Local Open Scope N_scope.
Module LC := LedgerConservation.
Module LS := LedgerStaking.

(* Every state reachable by any history of transactions (applied, or failed and therefore without effect), slashes, the two
   deferred end-block actions and height changes satisfies: recorded total = accounts + pools + stakes, below 2^64 (no
   balance wraps: every primitive is checked or proved not to overflow under the invariant). *)
Theorem C04_conserved_on_every_reachable_state : forall ops s s', LInv s -> hist_ok ops s -> lrun ops s = LOk s' ->
  LC.Conserved s' /\ conservation_ok s' = true.
Proof.
  intros ops s s' HI HO HR. pose proof (history_invariant ops s s' HI HO HR) as H.
  split; [apply H | apply (LInv_predicates s' H)].
Qed.
Print Assumptions C04_conserved_on_every_reachable_state.

(* One transaction: the total changes exactly by the governance-approved DAO mint it carries (0 for every other message);
   a failing transaction changes nothing. *)
Theorem C04_tx_moves_or_mints : forall sender fee m s, LC.wf s -> LC.Conserved s -> LC.msg_bounded m -> fee < two64 ->
  LC.total s + LC.mint_of m < two64 ->
  let '(ok, s') := apply_tx sender fee m s in
  LC.wf s' /\ LC.Conserved s' /\ LC.total s' = (if ok then LC.total s + LC.mint_of m else LC.total s) /\ (ok = false -> s' = s).
Proof. exact LC.apply_tx_conserves. Qed.
Print Assumptions C04_tx_moves_or_mints.

(* A block's transactions: the total moves by exactly the applied mints. *)
Theorem C04_block_total : forall txs s s', LInv s ->
  hist_ok (map (fun t => let '(sd, fee, m) := t in OpTx sd fee m) txs) s ->
  lrun (map (fun t => let '(sd, fee, m) := t in OpTx sd fee m) txs) s = LOk s' ->
  LC.total s' = (LC.total s + snd (LC.apply_txs txs s))%N.
Proof. exact history_total_tx_only. Qed.

(* A slash is an explicit burn: the total drops by exactly what the validator loses. *)
Theorem C04_slash_burns_exactly : forall a chain percent already s s', LC.wf s -> LC.Conserved s ->
  slash_validator a chain percent already s = LOk s' ->
  LC.wf s' /\ LC.Conserved s' /\ LC.total s' <= LC.total s /\
  LC.total s - LC.total s' = (match aget a (l_vals s) with Some v => v_stake v | None => 0 end) -
                             (match aget a (l_vals s') with Some v => v_stake v | None => 0 end).
Proof. exact LC.slash_conserves. Qed.
Print Assumptions C04_slash_burns_exactly.

(* The deferred end-block actions only move tokens. *)
Theorem C04_finish_unstaking_moves : forall s s', LC.wf s -> LC.Conserved s -> delete_finished_unstaking s = LOk s' ->
  LC.wf s' /\ LC.Conserved s' /\ LC.total s' = LC.total s.
Proof. exact LC.finish_unstaking_conserves. Qed.
Theorem C04_force_unstake_moves : forall s s', LC.wf s -> LC.Conserved s -> force_unstake_max_paused s = LOk s' ->
  LC.wf s' /\ LC.Conserved s' /\ LC.total s' = LC.total s.
Proof. exact LC.force_unstake_conserves. Qed.

(* non-vacuity: a concrete invariant state and an admissible history with every kind of operation *)
Example C04_nonvacuous :
  LInv ex_state /\ hist_ok ex_ops ex_state /\
  exists s', lrun ex_ops ex_state = LOk s' /\ conservation_ok s' = true /\ staking_ok s' = true /\
             aget 30 (l_vals s') = None /\ aget 9 (l_orders s') = None.
Proof. exact history_nonvacuous. Qed.
