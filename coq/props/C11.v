(* C11 — Block portability: honest proposals and served blocks validate everywhere.  Statement of record (encoding part; the
   system-level clauses are decided by the multi-path differential run, see DESIGN.md). *)
From Coq Require Import NArith List Bool Permutation.
From V Require Import Bytes Proto ProtoProofs PortabilityProofs Trie TrieProofs.
Import ListNotations.

(* What a node accepts is canonically encoded, and re-marshalling what it decoded reproduces the bytes it received: the block a
   node serves from its archive (header + re-marshalled transactions) is byte-identical to the block it committed. *)
Theorem C11_remarshal_is_identity : forall b, Proto.canonical b = true -> exists t, decode_tx b = Some t /\ encode_tx t = b.
Proof. exact remarshal_is_identity. Qed.
Print Assumptions C11_remarshal_is_identity.
Theorem C11_block_remarshal_is_identity : forall txs, Forall (fun b => Proto.canonical b = true) txs ->
  map (fun b => match decode_tx b with Some t => encode_tx t | None => [] end) txs = txs.
Proof. exact block_remarshal_is_identity. Qed.
(* the defect repaired by c4187b5 as a theorem: a byte string that is NOT canonical is re-marshalled to different bytes - a block
   containing it could not be served back (the fresh node computed another transaction root) *)
Theorem C11_noncanonical_changes_under_remarshal : forall b t, decode_tx b = Some t -> Proto.canonical b = false -> encode_tx t <> b.
Proof. exact noncanonical_changes_under_remarshal. Qed.

(* every node that holds the same state and applies the same operations commits the same tree, whatever the order in which its
   maps are iterated and its eight workers are scheduled (from C08 / C03) *)
Theorem C11_commit_is_schedule_independent : forall w bv t os sched, rooted w t -> Forall (op_ok w) os -> NoDup (map op_key os) ->
  (forall b, In b (borders w) -> lookup b t = None /\ ~ In b (map op_key os)) ->
  Permutation os sched -> commit_parallel w bv t sched = commit t os.
Proof. exact parallel_eq_sequential. Qed.

Example C11_nonvacuous : Proto.canonical (encode_tx ex_tx) = true /\ Proto.canonical (encode_tx ex_tx ++ [58; 0]%N) = false.
Proof. exact portability_nonvacuous. Qed.
