(* C18 — Multiplexed peer messaging delivers whole messages on the right topic.  Statement of record. *)
From Coq Require Import NArith List Bool Arith.
From V Require Import Bytes Mux MuxProofs MuxSend.
Import ListNotations.

(* Any number of topics, any messages within the size limit, and ANY schedule of the sending goroutine (any interleaving of
   the per-topic packet queues that keeps each queue's order): the connection stays up and every topic's inbox receives
   exactly the messages sent on it - whole, unmodified, in order; nothing on any other topic. *)
Theorem C18_whole_messages_on_the_right_topic : forall lim maxmsg (qs : list (N * list bytes)) wire,
  (0 < lim)%nat -> NoDup (map fst qs) ->
  Forall (fun q => Forall (fun m => (length m <= maxmsg)%nat) (snd q)) qs ->
  interleave (map (fun q => queue_of lim (fst q) (snd q)) qs) wire ->
  snd (receive maxmsg [] wire) = true /\
  forall q, In q qs -> on_topic (fst q) (fst (receive maxmsg [] wire)) = snd q.
Proof. exact mux_delivers. Qed.
Print Assumptions C18_whole_messages_on_the_right_topic.
Theorem C18_no_stray_delivery : forall lim maxmsg (qs : list (N * list bytes)) wire t,
  (0 < lim)%nat -> NoDup (map fst qs) ->
  Forall (fun q => Forall (fun m => (length m <= maxmsg)%nat) (snd q)) qs ->
  interleave (map (fun q => queue_of lim (fst q) (snd q)) qs) wire ->
  ~ In t (map fst qs) -> on_topic t (fst (receive maxmsg [] wire)) = [].
Proof. exact mux_no_stray. Qed.

(* packetisation loses nothing and respects the packet size *)
Theorem C18_split : forall lim buf, (0 < lim)%nat ->
  concat (split lim buf) = buf /\ Forall (fun c => (length c <= lim)%nat) (split lim buf).
Proof. exact split_concat. Qed.

(* an over-limit message closes the connection without delivering any part of it *)
Theorem C18_oversize_closes : forall lim maxmsg t msg, (0 < lim)%nat -> (maxmsg < length msg)%nat ->
  receive maxmsg [] (packets_of lim t msg) = ([], false).
Proof. exact oversize_closes. Qed.
Print Assumptions C18_oversize_closes.

(* The sending side, for every history of the topic's bounded send queue (sends that are accepted, sends that time out because the
   queue stays full, the send service draining any number of packets in between): what has left the queue followed by what is still
   in it is exactly the packets of the ACCEPTED messages, whole and in order - a message is queued whole or not at all... *)
Theorem C18_send_queue_whole_messages : forall lim cap t ops, Forall (small lim cap t) ops ->
  let s := srun (qsend lim cap t) ops in ss_wire s ++ ss_queue s = queue_of lim t (ss_accepted s).
Proof. exact sender_whole. Qed.
Print Assumptions C18_send_queue_whole_messages.
(* ... so that, once drained, the receiver has delivered exactly the accepted messages and the connection is up *)
Theorem C18_send_queue_to_inbox : forall lim cap maxmsg t ops, (0 < lim)%nat -> Forall (small lim cap t) ops ->
  let s := srun (qsend lim cap t) ops in
  ss_queue s = [] -> Forall (fun m => (length m <= maxmsg)%nat) (ss_accepted s) ->
  snd (receive maxmsg [] (ss_wire s)) = true /\ on_topic t (fst (receive maxmsg [] (ss_wire s))) = ss_accepted s.
Proof. exact sender_receiver. Qed.
Print Assumptions C18_send_queue_to_inbox.
(* the queueing before the repair recorded in KNOWN_FINDINGS.txt (packet by packet, each with its own time-out): a send that failed
   after its first packet left that packet queued, and the receiver delivered a message nobody sent *)
Example C18_old_partial_send_merges :
  let s := srun (qsend_old 2 3 5%N) old_ops in
  ss_accepted s = [[1]; [2]; [9]]%N /\ on_topic 5%N (fst (receive 100 [] (ss_wire s))) = [[1]; [2]; [3;4;9]]%N.
Proof. exact old_partial_send_merges. Qed.
Example C18_send_queue_nonvacuous : Forall (small 2 3 5%N) old_ops /\ ss_queue (srun (qsend 2 3 5%N) old_ops) = [].
Proof. exact sender_nonvacuous. Qed.

(* why all packets of a message must enter the topic queue back to back (the stream mutex in queueSends): a message whose
   packets are only partly on the wire is merged with the next one *)
Example C18_partial_enqueue_merges :
  receive 100 [] (firstn 1 (packets_of 2 5%N [1;2;3]%N) ++ packets_of 2 5%N [9]%N) = ([(5%N, [1;2;9]%N)], true).
Proof. exact partial_enqueue_merges. Qed.

Example C18_nonvacuous :
  interleave [queue_of 2 1%N [[1;2;3]%N; []]; queue_of 2 2%N [[7;8]%N]]
             [mkPk 1%N false [1;2]%N; mkPk 2%N true [7;8]%N; mkPk 1%N true [3]%N; mkPk 1%N true []] /\
  receive 10 [] [mkPk 1%N false [1;2]%N; mkPk 2%N true [7;8]%N; mkPk 1%N true [3]%N; mkPk 1%N true []] =
    ([(2%N, [7;8]%N); (1%N, [1;2;3]%N); (1%N, [])], true).
Proof. exact mux_nonvacuous. Qed.
