(* C18 — Multiplexed peer messaging delivers whole messages on the right topic.  Statement of record. *)
From Coq Require Import NArith List Bool Arith.
From V Require Import Bytes Mux MuxProofs.
Import ListNotations.

(* Any number of topics, any messages within the size limit, and ANY schedule of the sending goroutine (any interleaving of
   the per-topic packet queues that keeps each queue's order): the connection stays up and every topic's inbox receives
   exactly the messages sent on it - whole, unmodified, in order; nothing on any other topic. *)
Theorem C18_whole_messages_on_the_right_topic : forall lim maxmsg (qs : list (N * list bytes)) wire,
  (0 < lim)%nat -> NoDup (map fst qs) ->
  Forall (fun q => Forall (fun m => (length m <= maxmsg)%nat) (snd q)) qs ->
  interleave (map (fun q => queue_of lim (fst q) (snd q)) qs) wire ->
  snd (receive maxmsg [] wire) = true /\
  forall q, In q qs -> on_topic (fst q) (fst (receive maxmsg [] wire)) = snd q.
Proof. exact mux_delivers. Qed.
Print Assumptions C18_whole_messages_on_the_right_topic.
Theorem C18_no_stray_delivery : forall lim maxmsg (qs : list (N * list bytes)) wire t,
  (0 < lim)%nat -> NoDup (map fst qs) ->
  Forall (fun q => Forall (fun m => (length m <= maxmsg)%nat) (snd q)) qs ->
  interleave (map (fun q => queue_of lim (fst q) (snd q)) qs) wire ->
  ~ In t (map fst qs) -> on_topic t (fst (receive maxmsg [] wire)) = [].
Proof. exact mux_no_stray. Qed.

(* packetisation loses nothing and respects the packet size *)
Theorem C18_split : forall lim buf, (0 < lim)%nat ->
  concat (split lim buf) = buf /\ Forall (fun c => (length c <= lim)%nat) (split lim buf).
Proof. exact split_concat. Qed.

(* an over-limit message closes the connection without delivering any part of it *)
Theorem C18_oversize_closes : forall lim maxmsg t msg, (0 < lim)%nat -> (maxmsg < length msg)%nat ->
  receive maxmsg [] (packets_of lim t msg) = ([], false).
Proof. exact oversize_closes. Qed.
Print Assumptions C18_oversize_closes.

(* why all packets of a message must enter the topic queue back to back (the stream mutex in queueSends): a message whose
   packets are only partly on the wire is merged with the next one *)
Example C18_partial_enqueue_merges :
  receive 100 [] (firstn 1 (packets_of 2 5%N [1;2;3]%N) ++ packets_of 2 5%N [9]%N) = ([(5%N, [1;2;9]%N)], true).
Proof. exact partial_enqueue_merges. Qed.

Example C18_nonvacuous :
  interleave [queue_of 2 1%N [[1;2;3]%N; []]; queue_of 2 2%N [[7;8]%N]]
             [mkPk 1%N false [1;2]%N; mkPk 2%N true [7;8]%N; mkPk 1%N true [3]%N; mkPk 1%N true []] /\
  receive 10 [] [mkPk 1%N false [1;2]%N; mkPk 2%N true [7;8]%N; mkPk 1%N true [3]%N; mkPk 1%N true []] =
    ([(2%N, [7;8]%N); (1%N, [1;2;3]%N); (1%N, [])], true).
Proof. exact mux_nonvacuous. Qed.
