(* C13 — Committee derivation and voting power.  Statement of record: only theorem statements closed by
   [exact lemma], their assumptions, and non-vacuity examples. *)
From Coq Require Import NArith List Bool Sorting Permutation.
From V Require Import U64 Extracted Committee CommitteeProofs.
Import ListNotations.
Local Open Scope N_scope.

(* The derived committee (resp. delegate set, dlg = true) is exactly the eligible validators — registered for the
   chain, not paused, not unstaking, delegate flag as requested — that are among the top [cap] (0 = unlimited)
   by (stake desc, address desc), listed in that order. *)
Theorem C13_committee_is_top_cap : forall cap chain dlg vals,
  NoDup (addrs vals) -> is_committee cap chain dlg vals (committee_list cap chain dlg vals).
Proof. exact model_is_committee. Qed.
Print Assumptions C13_committee_is_top_cap.

(* ... and nothing else satisfies that description: the tie-break leaves no freedom. *)
Theorem C13_committee_unique : forall cap chain dlg vals ms,
  NoDup (addrs vals) -> is_committee cap chain dlg vals ms -> ms = committee_list cap chain dlg vals.
Proof. exact committee_unique. Qed.
Print Assumptions C13_committee_unique.

(* Every node resolves it identically: the result does not depend on the order in which validator
   records are scanned or cached. *)
Theorem C13_scan_order_irrelevant : forall cap chain dlg vals vals',
  NoDup (addrs vals) -> Permutation vals vals' ->
  get_validator_set cap chain dlg vals = get_validator_set cap chain dlg vals'.
Proof. exact committee_perm_invariant. Qed.
Print Assumptions C13_scan_order_irrelevant.

(* Each member's voting power is its stake. *)
Theorem C13_power_is_stake : forall cap chain dlg vals vs,
  get_validator_set cap chain dlg vals = Some vs ->
  members vs = map (fun v => (v_addr v, v_stake v)) (committee_list cap chain dlg vals).
Proof. exact members_power. Qed.
Print Assumptions C13_power_is_stake.

(* The threshold is floor(2T/3)+1 of the exact total, for every total that fits in 64 bits. Proved over the
   *generated* Extracted.minimumMaj23 (lib/consensus.go). Before the repair recorded in KNOWN_FINDINGS.txt the Go
   expression was (2*T)/3+1 and wrapped for T >= 2^63 (minimumMaj23 2^63 evaluated to 1). *)
Theorem C13_threshold : forall cap chain dlg vals vs,
  get_validator_set cap chain dlg vals = Some vs ->
  sum_exact (committee_list cap chain dlg vals) < two64 ->
  total vs = sum_exact (committee_list cap chain dlg vals) /\
  maj23 vs = 2 * total vs / 3 + 1 /\ total vs <> 0 /\
  num vs = N.of_nat (length (committee_list cap chain dlg vals)).
Proof. exact threshold_spec. Qed.
Print Assumptions C13_threshold.

(* The executable model (wrapping sum, generated threshold) coincides with the specification reading used by the
   violation search (exact sum, floor(2T/3)+1). *)
Theorem C13_model_is_spec : forall cap chain dlg vals,
  sum_exact (committee_list cap chain dlg vals) < two64 ->
  get_validator_set cap chain dlg vals = spec_validator_set cap chain dlg vals.
Proof. exact model_eq_spec. Qed.
Print Assumptions C13_model_is_spec.

Theorem C13_error_iff_no_power : forall cap chain dlg vals,
  sum_exact (committee_list cap chain dlg vals) < two64 ->
  (get_validator_set cap chain dlg vals = None <-> sum_exact (committee_list cap chain dlg vals) = 0).
Proof. exact none_iff_zero_power. Qed.
Print Assumptions C13_error_iff_no_power.

Theorem C13_threshold_exact_at_2_63 : minimumMaj23 9223372036854775808 = 2 * 9223372036854775808 / 3 + 1.
Proof. exact minimumMaj23_at_2_63. Qed.

(* ---- non-vacuity: a population with a tie at the cap boundary, a paused, an unstaking, a delegate and a
   foreign-chain validator *)
Definition ex_vals : list validator :=
  [ mkVal 5 100 [1;2] 0 0 false; mkVal 9 100 [1] 0 0 false; mkVal 7 100 [1] 0 0 false;
    mkVal 3 500 [1] 0 0 false;   mkVal 4 900 [1] 7 0 false;  mkVal 6 900 [1] 0 11 false;
    mkVal 8 900 [1] 0 0 true;    mkVal 2 900 [2] 0 0 false ].
Example ex_nodup : NoDup (addrs ex_vals).
Proof. repeat constructor; simpl; intuition discriminate. Qed.
Example ex_committee :
  get_validator_set 3 1 false ex_vals = Some (mkVset [(3,500);(9,100);(7,100)] 700 467 3).
Proof. vm_compute. reflexivity. Qed.
Example ex_delegates : get_validator_set 0 1 true ex_vals = Some (mkVset [(8,900)] 900 601 1).
Proof. vm_compute. reflexivity. Qed.
