(* C03 — Deterministic replicated execution: the part that is a theorem about the commit algorithm (scheduling- and
   order-independence of the tree commit).  The execution-path part (propose / validate / commit-cached / commit-replay /
   restart produce the identical header) is a multi-path differential on the real node (harness c03), see DESIGN.md. *)
From Coq Require Import NArith List Bool Permutation.
From V Require Import Trie TrieProofs CommitCache CommitCacheProofs.
Import ListNotations.

(* Go map iteration order of the pending-operation map is an arbitrary permutation of the batch: irrelevant. *)
Theorem C03_map_iteration_order_irrelevant : forall w t os os', rooted w t -> Forall (op_ok w) os -> NoDup (map op_key os) ->
  Permutation os os' -> commit t os = commit t os'.
Proof. exact commit_perm_invariant. Qed.
Print Assumptions C03_map_iteration_order_irrelevant.

(* Goroutine scheduling of the 8 subtree workers: every interleaving of their operations yields the sequential result. *)
Theorem C03_worker_schedule_irrelevant : forall w bv t os sched, rooted w t -> Forall (op_ok w) os -> NoDup (map op_key os) ->
  (forall b, In b (borders w) -> lookup b t = None /\ ~ In b (map op_key os)) ->
  Permutation os sched -> commit_parallel w bv t sched = commit t os.
Proof. exact parallel_eq_sequential. Qed.
Print Assumptions C03_worker_schedule_irrelevant.

(* Operations on different keys commute. *)
Theorem C03_ops_commute : forall w t a b, rooted w t -> op_ok w a -> op_ok w b -> op_key a <> op_key b ->
  apply_op (apply_op t a) b = apply_op (apply_op t b) a.
Proof. exact ops_commute. Qed.

(* An earlier, discarded speculative computation cannot influence the result: the root is a function of (tree, batch). *)
Theorem C03_speculative_root_pure : forall (t : tree) (os discarded : list op),
  let _speculative := commit t discarded in commit t os = commit t os.
Proof. intros. reflexivity. Qed.

(* The commit paths: a replica commits a peer block either by applying it or - when it has validated exactly that block in the
   current round - by committing the state the validation left behind.  For EVERY history of validations, proposals the replica
   builds itself, round changes, round interrupts and peer blocks (the state machine and its blocks abstract: any [apply]), every
   commit is the application of the committed block to the previously committed state.  Holds because a new round drops the
   cached result (bft.NewRound; before the repair recorded in KNOWN_FINDINGS.txt it did not: C03_old_commits_without_applying). *)
Theorem C03_commit_is_apply : forall (S B : Type) (apply : S -> B -> S) (beq : B -> B -> bool),
  (forall a b, beq a b = true <-> a = b) ->
  forall ops s, crun apply beq true (mkRep s s None false) ops.
Proof. exact commit_is_apply_from_start. Qed.
Print Assumptions C03_commit_is_apply.
Example C03_old_commits_without_applying :
  committed (fold_left (cstep app_l Nat.eqb false) stale_history (mkRep [1] [1] None false)) = [1].
Proof. exact old_commits_without_applying. Qed.
Example C03_new_commits_the_block :
  committed (fold_left (cstep app_l Nat.eqb true) stale_history (mkRep [1] [1] None false)) = [1; 7].
Proof. exact new_commits_the_block. Qed.
