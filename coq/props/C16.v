(* C16 — Merkle proofs: complete for true statements, unforgeable for false ones.  Statement of record, over the verifier
   as repaired by this task's "fix:" commits (see KNOWN_FINDINGS.txt: before the repair the soundness theorems were false
   of the code; the witnesses are kept in corpus/C16). Crash-freedom on malformed proofs is a property of the Go function
   and is exercised by the harness (mutated proofs under recover). *)
From Coq Require Import NArith List Bool.
From V Require Import Trie TrieProofs Proof ProofProofs.
Import ListNotations.

(* the store's own proof verifies, for present keys (membership) ... *)
Theorem C16_complete_member : forall w t k v, rooted w t -> user_key w k -> lookup k t = Some v ->
  verify k v true (root_digest t) (get_proof t k) = Some true.
Proof. exact complete_member. Qed.
Print Assumptions C16_complete_member.
(* ... and for absent keys (non-membership) *)
Theorem C16_complete_nonmember : forall w t k v, rooted w t -> user_key w k -> lookup k t = None ->
  verify k v false (root_digest t) (get_proof t k) = Some true.
Proof. exact complete_nonmember. Qed.
Print Assumptions C16_complete_nonmember.

(* whatever list of proof nodes an adversary presents (ideal hash), an accepted membership claim is true of the state ... *)
Theorem C16_sound_member : forall w t k v proof, rooted w t -> length k = w ->
  verify k v true (root_digest t) proof = Some true -> lookup k t = Some v.
Proof. exact sound_member. Qed.
Print Assumptions C16_sound_member.
(* ... and so is an accepted non-membership claim *)
Theorem C16_sound_nonmember : forall w t k v proof, rooted w t -> length k = w ->
  verify k v false (root_digest t) proof = Some true -> lookup k t = None.
Proof. exact sound_nonmember. Qed.
Print Assumptions C16_sound_nonmember.

(* in particular an honest proof for key A is never evidence of the absence of a present key B *)
Theorem C16_other_key_rejected : forall w t k k' v, rooted w t -> user_key w k -> user_key w k' -> k <> k' ->
  lookup k' t <> None -> verify k' v false (root_digest t) (get_proof t k) <> Some true.
Proof. exact other_key_rejected. Qed.
Print Assumptions C16_other_key_rejected.

(* non-vacuity *)
Definition ka : bits := [false;true;false;true;true;false;false;true].
Definition kb_ : bits := [false;true;false;false;true;false;false;true].
Definition kc : bits := [true;true;false;false;true;false;true;true].
Definition ex_t := apply_ops (empty_tree 8 0 255) [OSet ka 1; OSet kb_ 2].
Example ex_member : verify ka 1 true (root_digest ex_t) (get_proof ex_t ka) = Some true.
Proof. vm_compute. reflexivity. Qed.
Example ex_absent : verify kc 9 false (root_digest ex_t) (get_proof ex_t kc) = Some true.
Proof. vm_compute. reflexivity. Qed.
Example ex_cross : verify kb_ 2 false (root_digest ex_t) (get_proof ex_t ka) = Some false.
Proof. vm_compute. reflexivity. Qed.
