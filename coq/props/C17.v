(* C17 — Encrypted transport: integrity, authentication, no man-in-the-middle.  Statement of record. *)
From Coq Require Import NArith List Bool Arith.
From V Require Import Bytes Frames FramesProofs.
Import ListNotations.

(* For any writes (any sizes) and any read buffer sizes: no read fails and what is delivered is a prefix of the written stream;
   enough reads with non-empty buffers deliver all of it. *)
Theorem C17_stream_integrity : forall maxd key ws szs, (0 < maxd)%nat ->
  let '(d, ok) := read_all maxd key (mkRd 0 []) (write_all maxd key 0 ws) szs in
  ok = true /\ exists rest, concat ws = d ++ rest.
Proof. exact read_is_prefix. Qed.
Print Assumptions C17_stream_integrity.
Theorem C17_stream_complete : forall maxd key ws szs, (0 < maxd)%nat -> Forall (fun z => (0 < z)%nat) szs ->
  (length (concat ws) + length (write_all maxd key 0 ws) <= length szs)%nat ->
  fst (read_all maxd key (mkRd 0 []) (write_all maxd key 0 ws) szs) = concat ws.
Proof. exact read_everything. Qed.

(* Whatever an adversary on the wire does with the sealed frames - modify, reorder, duplicate, replay, drop, truncate, insert
   frames sealed under other keys - the reader only ever gets a prefix of the written stream ... *)
Theorem C17_tampering_never_delivers_other_bytes : forall maxd key ws wire szs, (0 < maxd)%nat ->
  (forall f, In f wire -> f_key f = key -> In f (write_all maxd key 0 ws)) ->
  exists rest, concat ws = fst (read_all maxd key (mkRd 0 []) wire szs) ++ rest.
Proof. exact tamper_prefix. Qed.
Print Assumptions C17_tampering_never_delivers_other_bytes.
(* ... and every deviation from the writer's frame sequence is reported as a read error *)
Theorem C17_tampering_is_detected : forall maxd key ws wire szs, (0 < maxd)%nat -> Forall (fun z => (0 < z)%nat) szs ->
  (forall f, In f wire -> f_key f = key -> In f (write_all maxd key 0 ws)) ->
  (length (concat (map f_data wire)) + length wire <= length szs)%nat ->
  snd (read_all maxd key (mkRd 0 []) wire szs) = true ->
  exists k, wire = firstn k (write_all maxd key 0 ws).
Proof. exact tamper_detected. Qed.

(* The handshake (symbolic: ideal key agreement, unforgeable signatures): if an endpoint accepts a session as coming from the
   honest identity A, then A itself ran a session whose peer ephemeral key is this endpoint's ephemeral key - nobody sits in
   the middle with substituted keys - and the peer is on the same network and chain. *)
Theorem C17_no_man_in_the_middle : forall (dh : N -> N -> N),
  (forall a x b y, dh a x = dh b y -> (a = y /\ x = b) \/ (a = b /\ x = y)) ->
  forall (a_sessions : list (N * N)) (b : party) (h : hello) (a_id : N),
  accepts dh b h = true -> h_signer h = a_id -> signed_by_a dh a_sessions (h_signed_challenge h) ->
  (forall s, In s a_sessions -> fst s <> pa_eph b) ->
  In (h_eph h, pa_eph b) a_sessions /\ h_net h = pa_net b /\ h_chain h = pa_chain b.
Proof. exact no_man_in_the_middle. Qed.
Print Assumptions C17_no_man_in_the_middle.

(* No handshake ends with the node's OWN identity as the authenticated peer.  Both sides sign the same, direction-less challenge,
   so an endpoint that holds no key at all can send the node's own identity proof and signed meta straight back; that reflected
   hello is refused (before the repair recorded in KNOWN_FINDINGS.txt it was accepted: C17_old_reflection_accepted). *)
Theorem C17_accepted_peer_is_another_identity : forall (dh : N -> N -> N) (b : party) (h : hello),
  accepts dh b h = true -> h_signer h <> pa_id b.
Proof. exact accepted_peer_is_another_identity. Qed.
Theorem C17_reflection_refused : forall (dh : N -> N -> N) (b : party) (e : N), accepts dh b (reflected dh b e) = false.
Proof. exact reflection_refused. Qed.
Print Assumptions C17_reflection_refused.
Theorem C17_old_reflection_accepted : forall (dh : N -> N -> N) (b : party) (e : N), accepts_old dh b (reflected dh b e) = true.
Proof. exact old_reflection_accepted. Qed.

(* The frame counter inside the nonce is a machine integer of width w: two frames of one direction share a counter value only at
   a distance of 2^w frames - never, for the 64 bits of the implementation, in the life of a connection; a counter kept in 32 bits
   is back at a recorded frame's value after 2^32 frames (C17_counter_of_width_32_comes_back; the harness ages a real connection to
   that point through a hook and replays the first data frame there). *)
Theorem C17_counter_distinct_within_width : forall w s i j : N, (i < j)%N -> (j - i < 2 ^ w)%N -> ctr w s i <> ctr w s j.
Proof. exact counter_distinct_within_width. Qed.
Print Assumptions C17_counter_distinct_within_width.
Theorem C17_counter_of_width_32_comes_back : forall s k : N, ctr 32 s k = ctr 32 s (k + 2 ^ 32).
Proof. exact counter_of_width_32_comes_back. Qed.

Example C17_nonvacuous :
  read_all 4 1 (mkRd 0 []) (write_all 4 1 0 [[1;2;3;4;5]%N; []; [6]%N]) [3; 3; 1; 5]%nat = ([1;2;3;4;5;6]%N, true) /\
  snd (read_all 4 1 (mkRd 0 []) (apply_fault (Swap 0) (write_all 4 1 0 [[1;2;3;4;5]%N; [6]%N])) [9; 9; 9]%nat) = false.
Proof. exact frames_nonvacuous. Qed.
