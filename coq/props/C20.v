(* C20 — Escrow, order-book and AMM accounting is exact.  Statement of record for the AMM arithmetic and the
   liquidity-point bookkeeping (the escrow / order-book identities are stated over the ledger model, see C04). *)
From Coq Require Import NArith List Bool.
From V Require Import U64 Extracted Dex DexProofs.
From V Require Ledger LedgerConservation LedgerHistory DexBatch DexBatchProofs LedgerEscrowFits.
Import ListNotations.
Local Open Scope N_scope.

(* a swap never pays out the reserve (let alone more), for every reserve and amount below 2^64; proved over the
   SafeComputeDY regenerated from fsm/dex.go *)
Theorem C20_swap_below_reserve : forall x y dX, u64 x -> u64 y -> u64 dX -> 0 < x -> 0 < y -> SafeComputeDY x y dX < y.
Proof. exact dy_lt_reserve. Qed.
Print Assumptions C20_swap_below_reserve.

(* ... nor lowers the product of the reserves *)
Theorem C20_product_nondecreasing : forall x y dX, u64 x -> u64 y -> u64 dX -> 0 < x -> 0 < y ->
  x * y <= (x + dX) * (y - SafeComputeDY x y dX).
Proof. exact product_nondecreasing. Qed.
Print Assumptions C20_product_nondecreasing.

(* a whole batch of limit orders, of any length, in any order, with any settlement budget: reserves stay positive, the
   product never decreases, the reserve is debited by exactly the receipts, every filled order got at least what it asked *)
Theorem C20_batch_orders : forall os x y x' y' rs, u64 x -> u64 y -> Forall (fun o => u64 (o_amount o)) os ->
  handle_orders x y os = Some (x', y', rs) ->
  0 < y' /\ x * y <= x' * y' /\ y' + sum_receipts rs = y /\ sum_receipts rs < y /\ length rs = length os.
Proof. exact handle_orders_inv. Qed.
Print Assumptions C20_batch_orders.

Theorem C20_order_step : forall x y o x' y' r, u64 x -> u64 y -> u64 (o_amount o) -> 0 < x -> 0 < y ->
  swap1 x y o = Some (x', y', r) ->
  u64 x' /\ u64 y' /\ 0 < x' /\ 0 < y' /\ x * y <= x' * y' /\ y' + r = y /\
  (r = 0 \/ o_requested o <= r) /\ (r = 0 -> x' = x) /\ (r <> 0 -> x' = x + o_amount o).
Proof. exact swap1_inv. Qed.

(* liquidity-provider points always sum to the pool total; withdrawals debit the reserves by exactly what is paid, never
   wrap, and no request receives more than its share (points burned / total points) of either reserve — including
   batches that name the same provider several times *)
Theorem C20_withdrawals : forall p x y ws p' x' y' outs, pool_ok p -> pct_ok ws -> u64 x -> u64 y ->
  handle_withdraw p x y ws = WDone p' x' y' outs ->
  pool_ok p' /\ x' + sum_x outs = x /\ y' + sum_y outs = y /\
  p_total p' + sum_burned outs = p_total p /\
  Forall (fun o => let '(a, pts, xs, ys) := o in ys * p_total p <= y * pts /\ xs * p_total p <= x * pts) outs.
Proof. exact withdraw_inv. Qed.
Print Assumptions C20_withdrawals.

Theorem C20_withdraw_noop : forall p x y ws p', pool_ok p -> handle_withdraw p x y ws = WUnchanged p' ->
  pool_ok p' /\ p_total p' = p_total p.
Proof. exact withdraw_unchanged_ok. Qed.

(* deposits mint points (pro-rata shares plus rounding dust to the dead address) that keep the sum invariant *)
Theorem C20_deposits : forall dead p x y ds p' x', pool_ok p -> u64 x -> u64 y ->
  handle_deposit dead p x y ds = Some (p', x') ->
  pool_ok p' /\ (x' = x \/ x' = x + sum_amounts ds) /\ p_total p <= p_total p'.
Proof. exact deposit_inv. Qed.
Print Assumptions C20_deposits.

(* ---- sell-order escrow identity (ledger model): on every state reachable by any history of transactions, slashes and
   end-block actions, the escrow pool of each chain holds exactly the sum of that chain's open sell orders *)
Theorem C20_escrow_on_every_reachable_state : forall ops s s', V.LedgerHistory.LInv s -> V.LedgerHistory.hist_ok ops s ->
  V.LedgerHistory.lrun ops s = V.Ledger.LOk s' -> V.LedgerConservation.Escrow s'.
Proof. intros ops s s' HI HO HR. apply (V.LedgerHistory.history_invariant ops s s' HI HO HR). Qed.
Print Assumptions C20_escrow_on_every_reachable_state.
(* one message: create / edit / delete order move exactly the order amount in or out of the chain's escrow pool; a subsidy
   cannot target an escrow pool (fix 90b2bfa: MessageSubsidy.Check bounds the chain id) *)
Theorem C20_escrow_step : forall m s s', V.LedgerConservation.wf s -> V.LedgerConservation.Conserved s -> V.LedgerConservation.Escrow s ->
  V.LedgerConservation.msg_bounded m -> V.LedgerConservation.msg_chain_ok m ->
  (forall id o, V.Ledger.aget id (V.Ledger.l_orders s) = Some o -> (V.Ledger.o_chain o <= MaxChainId)%N) ->
  (V.Ledger.l_chain s <= MaxChainId)%N ->
  V.LedgerConservation.msg_fresh m s ->
  V.Ledger.handle m s = V.Ledger.LOk s' -> V.LedgerConservation.Escrow s'.
Proof. exact V.LedgerConservation.handle_escrow. Qed.

(* ---- batch pipeline, same-block merge (IncludeSameBlockDex): operations queued while a batch was being locked are moved
   into it up to the per-batch caps; nothing is lost, duplicated or reordered - each list of (locked', next') concatenates
   to the concatenation before, whether the next batch is written back or deleted - and the caps are respected *)
Theorem C20_same_block_merge_preserves : forall mo md mw L Nx L' N', V.DexBatch.include_same_block mo md mw L Nx = (L', N') ->
  V.DexBatch.db_orders L' ++ V.DexBatch.db_orders N' = V.DexBatch.db_orders L ++ V.DexBatch.db_orders Nx /\
  V.DexBatch.db_deposits L' ++ V.DexBatch.db_deposits N' = V.DexBatch.db_deposits L ++ V.DexBatch.db_deposits Nx /\
  V.DexBatch.db_withdrawals L' ++ V.DexBatch.db_withdrawals N' = V.DexBatch.db_withdrawals L ++ V.DexBatch.db_withdrawals Nx.
Proof. exact V.DexBatchProofs.merge_preserves. Qed.
Print Assumptions C20_same_block_merge_preserves.
Theorem C20_same_block_merge_caps : forall mo md mw L Nx L' N', V.DexBatch.include_same_block mo md mw L Nx = (L', N') ->
  (length (V.DexBatch.db_orders L) <= mo -> length (V.DexBatch.db_orders L') <= mo)%nat /\
  (length (V.DexBatch.db_deposits L) <= md -> length (V.DexBatch.db_deposits L') <= md)%nat /\
  (length (V.DexBatch.db_withdrawals L) <= mw -> length (V.DexBatch.db_withdrawals L') <= mw)%nat.
Proof. exact V.DexBatchProofs.merge_caps. Qed.
Example ex_merge_truncated_deposits :
  V.DexBatch.include_same_block 4 3 3 (V.DexBatch.mkDB [1] [11; 12] []) (V.DexBatch.mkDB [2; 3] [13; 14; 15] [21]) =
  (V.DexBatch.mkDB [1; 2; 3] [11; 12; 13] [21], V.DexBatch.mkDB [] [14; 15] []).
Proof. vm_compute. reflexivity. Qed.

(* non-vacuity *)
Example ex_swap : handle_orders 1000000 2000000 [mkOrder 1000 0; mkOrder 5000 20000; mkOrder 7 0] =
  Some (1001007, 1998009, [1978; 0; 13]).
Proof. vm_compute. reflexivity. Qed.
Example ex_withdraw :
  handle_withdraw (mkPool [(1, 50); (2, 30); (3, 20)] 100) 1000 500 [(2, 50); (2, 100); (9, 100)] =
  WDone (mkPool [(1, 50); (3, 20)] 70) 700 350 [(2, 15, 150, 75); (2, 15, 150, 75)].
Proof. vm_compute. reflexivity. Qed.

(* Paying an escrowed amount (closing an order) or a pool balance (rewards, refunds) out to an account can never overflow the
   receiver's balance on a state satisfying the ledger invariant: the amount is part of the recorded total, which is below 2^64.
   (CloseOrder's overflow pre-check is therefore unreachable; a change to it cannot be observed on reachable states.) *)
Theorem C20_escrow_credit_fits : forall s id o buyer,
  LedgerHistory.LInv s -> Ledger.aget id (Ledger.l_orders s) = Some o ->
  Ledger.nget buyer (Ledger.l_accounts s) + Ledger.o_amount o < two64.
Proof. exact LedgerEscrowFits.escrow_credit_fits. Qed.
Print Assumptions C20_escrow_credit_fits.
Theorem C20_pool_credit_fits : forall s p a,
  LedgerHistory.LInv s -> Ledger.nget a (Ledger.l_accounts s) + Ledger.nget p (Ledger.l_pools s) < two64.
Proof. exact LedgerEscrowFits.pool_credit_fits. Qed.
