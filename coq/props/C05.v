(* C05 — Authorization: only authorized signers can move funds or alter validators / orders.  Statement of record (ledger model). *)
From Coq Require Import NArith List Bool.
From V Require Import U64 Extracted Ledger LedgerCheck Auth AuthProofs.
From V Require LedgerConservation.
From V Require BlockAuth BlockAuthProofs.
Import ListNotations.
Local Open Scope N_scope.
Module LC := LedgerConservation.

(* [apply_signed signer fee m s]: the transaction carries a signature that verifies, over exactly its content, under the key with
   address [signer] (0 = under no key: forged, tampered with after signing, garbage).  For EVERY message and state: *)

(* a transaction not signed by a key the message's rules authorize changes nothing *)
Theorem C05_unauthorized_changes_nothing : forall signer fee m s, check_auth signer m s = false -> apply_signed signer fee m s = (false, s).
Proof. exact unauthorized_changes_nothing. Qed.

(* if it takes effect, its signer was authorized for it, and no account other than the signer's own is debited *)
Theorem C05_only_the_signer_pays : forall signer fee m s s', LC.wf s ->
  apply_signed signer fee m s = (true, s') ->
  In signer (authorized m s) /\ forall a, a <> signer -> nget a (l_accounts s) <= nget a (l_accounts s').
Proof. exact only_the_signer_pays. Qed.
Print Assumptions C05_only_the_signer_pays.

(* a validator record changes only at the hands of its operator or its (current) output address *)
Theorem C05_validators_change_only_by_their_keys : forall signer fee m s s' a, LC.wf s ->
  apply_signed signer fee m s = (true, s') -> aget a (l_vals s') <> aget a (l_vals s) ->
  match aget a (l_vals s) with
  | Some v => signer = a \/ signer = v_output v
  | None => exists v', aget a (l_vals s') = Some v' /\ (signer = a \/ signer = v_output v')
  end.
Proof. exact validators_change_only_by_their_keys. Qed.
Print Assumptions C05_validators_change_only_by_their_keys.

(* an order changes only at the hands of its seller (order ids are transaction hashes: a new order never takes the id of an
   open one - without that premise the model lets MCreateOrder overwrite an order, see DESIGN.md) *)
Theorem C05_orders_change_only_by_their_seller : forall signer fee m s s' id, LC.wf s -> LC.msg_fresh m s ->
  apply_signed signer fee m s = (true, s') -> aget id (l_orders s') <> aget id (l_orders s) ->
  match aget id (l_orders s) with
  | Some o => signer = o_seller o
  | None => exists o', aget id (l_orders s') = Some o' /\ signer = o_seller o'
  end.
Proof. exact orders_change_only_by_their_seller. Qed.

(* escrow leaves a chain's escrow pool only towards the seller of an order of that chain, on the seller's own request *)
Theorem C05_escrow_released_only_to_the_seller : forall signer fee m s s' c, LC.wf s -> c <= MaxChainId -> l_chain s <= MaxChainId ->
  msg_chain_u64 m ->
  nget (add64 c EscrowPoolAddend) (l_pools s) + nget signer (l_accounts s) < two64 ->
  apply_signed signer fee m s = (true, s') ->
  nget (add64 c EscrowPoolAddend) (l_pools s') < nget (add64 c EscrowPoolAddend) (l_pools s) ->
  exists id o, aget id (l_orders s) = Some o /\ o_chain o = c /\ signer = o_seller o /\
               (m = MDeleteOrder id c \/ exists x, m = MEditOrder id c x).
Proof. exact escrow_released_only_to_the_seller. Qed.
Print Assumptions C05_escrow_released_only_to_the_seller.

Example C05_nonvacuous :
  let s := mkL [(10, 50); (11, 30)] [(1, 0); (65536, 5)] [(20, mkVal 100 21 [1] 0 0 false false)]
               (mkSupply 185 100 0 [(1, 100)] []) [] [] [(9, mkOrder 1 5 10 false)] (mkParams 2 2 3 10 10 1 50) 5 1 in
  fst (apply_signed 10 1 (MSend 10 11 5) s) = true /\ apply_signed 11 1 (MSend 10 11 5) s = (false, s) /\
  fst (apply_signed 21 0 (MUnstake 20) s) = true /\ apply_signed 10 0 (MUnstake 20) s = (false, s) /\
  fst (apply_signed 10 0 (MDeleteOrder 9 1) s) = true /\ apply_signed 11 0 (MDeleteOrder 9 1) s = (false, s) /\
  apply_signed 0 0 (MSend 10 11 5) s = (false, s).
Proof. exact auth_nonvacuous. Qed.

(* ---- the block level.  ApplyTransactions looks at signatures only in its FIRST pass (CheckTx of every transaction against the
   state at the start of the block, signature jobs handed to a batch verifier whose positions are mapped back to transaction
   indices); the second pass executes with a no-op verifier.  That only authorized transactions execute is therefore a non-local
   invariant of the two passes: for EVERY block, a transaction reaches the second pass exactly when its CheckTx passed and all its
   signature jobs verify - no transaction slips through unchecked, none is failed for another transaction's bad signature. *)
Module BA := BlockAuth.
Theorem C05_block_only_authorized_transactions_execute : forall (txs : list BA.tx) (stateful_ok : nat -> bool) (i : nat),
  In i (BA.executed txs stateful_ok) -> (i < length txs)%nat /\ BA.authorized (nth i txs BA.no_tx) = true.
Proof. exact BlockAuthProofs.executed_authorized. Qed.
Print Assumptions C05_block_only_authorized_transactions_execute.
Theorem C05_block_second_pass_iff_authorized : forall (txs : list BA.tx) (i : nat), (i < length txs)%nat ->
  (BA.reaches_pass2 txs i = true <-> BA.authorized (nth i txs BA.no_tx) = true).
Proof. exact BlockAuthProofs.reaches_pass2_iff. Qed.
Print Assumptions C05_block_second_pass_iff_authorized.
(* the two seeded changes of this kind, as refuted variants: batch positions mapped to the neighbouring transaction; a first-pass
   failure forgotten because "an earlier transaction of the block may create what this one needs" *)
Theorem C05_shifted_slots_let_a_forgery_through :
  exists txs i, (i < length txs)%nat /\ BA.authorized (nth i txs BA.no_tx) = false /\
                existsb (Nat.eqb i) (BA.failed_set_shifted txs) = false.
Proof. exact BlockAuthProofs.shifted_lets_a_forgery_through. Qed.
Theorem C05_forgotten_first_pass_failure_lets_an_unchecked_transaction_through :
  exists forget txs i, (i < length txs)%nat /\ BA.t_ok (nth i txs BA.no_tx) = false /\
                existsb (Nat.eqb i) (BA.failed_set_forgetful forget txs) = false.
Proof. exact BlockAuthProofs.forgetful_lets_an_unchecked_transaction_through. Qed.
Example C05_block_nonvacuous :
  BA.executed [BA.mkTx true [true]; BA.mkTx true [false]; BA.mkTx false []; BA.mkTx true [true; true]; BA.mkTx false [true]; BA.mkTx true [true; false]] (fun _ => true) = [0%nat; 3%nat].
Proof. vm_compute. reflexivity. Qed.
