(* C14 — Slashing accountability: only provable equivocation, once, within caps.  Statement of record. *)
From Coq Require Import NArith List Bool.
From V Require Import U64 Extracted Bft BftNet Evidence EvidenceProofs EvidenceCollect.
Import ListNotations.
Local Open Scope N_scope.

(* In every reachable network - any schedule, any Byzantine behaviour - and for ANY evidence assembled from signatures that really
   exist (re-ordered, re-paired, cross-view, partial, replayed certificates), a correct replica is never among the double signers
   of evidence that passes the check: it signs at most one payload per view.  (No bound on the Byzantine power is needed.) *)
Theorem C14_no_false_accusation : forall powers lru (correct : list (N * N)) acts,
  NoDup (map fst correct) -> run_ok powers lru (init_net correct) acts ->
  let n := run powers lru (init_net correct) acts in
  forall c min_height a b k, genuine_any n a -> genuine_any n b ->
    ev_check c min_height a b = true -> In k (common_signers a b) -> is_correct n k = false.
Proof. exact no_false_accusation. Qed.
Print Assumptions C14_no_false_accusation.
Theorem C14_honest_never_reported : forall powers lru (correct : list (N * N)) acts,
  NoDup (map fst correct) -> run_ok powers lru (init_net correct) acts ->
  let n := run powers lru (init_net correct) acts in
  forall c min_height valid es l k hs, Forall (fun e => genuine_any n (fst e) /\ genuine_any n (snd e)) es ->
    process_dse c min_height valid es [] = Some l -> In (k, hs) l -> hs <> [] -> is_correct n k = false.
Proof. exact honest_never_reported. Qed.
Print Assumptions C14_honest_never_reported.

(* what is reported is exactly justified: a pair that passed the check, a signer of both certificates, the pair's root height *)
Theorem C14_reports_are_justified : forall c min_height valid es l k hs h,
  process_dse c min_height valid es [] = Some l -> In (k, hs) l -> In h hs ->
  exists a b, In (a, b) es /\ ev_check c min_height a b = true /\ In k (common_signers a b) /\ h = vw_root (q_view a) /\ valid k h = true.
Proof. exact process_dse_sound. Qed.
Theorem C14_expired_or_early_evidence_refused : forall c min_height a b,
  vw_root (q_view a) < min_height \/ vw_phase (q_view a) <= Phase_PROPOSE -> ev_check c min_height a b = false.
Proof. exact expired_or_early_evidence_refused. Qed.

(* once: a slashed (validator, height) pair is indexed; a later block naming it - or a block naming a pair twice - is rejected *)
Theorem C14_slashed_pairs_are_indexed : forall ds index index' out k hs h,
  handle_double_signers ds index [] = Some (index', out) -> In (k, hs) ds -> In h hs ->
  In (k, h) index' /\ ~ In (k, h) index.
Proof. exact slashed_pairs_are_indexed. Qed.
Theorem C14_slashed_at_most_once : forall ds index index' out ds2 k hs hs2 h,
  handle_double_signers ds index [] = Some (index', out) -> In (k, hs) ds -> In h hs ->
  In (k, hs2) ds2 -> In h hs2 -> handle_double_signers ds2 index' [] = None.
Proof. exact slashed_at_most_once. Qed.
Theorem C14_one_slash_per_pair : forall ds index index' out,
  handle_double_signers ds index [] = Some (index', out) ->
  length out = length (flat_map snd ds) /\ forall k, In k out -> exists hs, In (k, hs) ds.
Proof. exact one_slash_per_pair. Qed.

(* within caps: in one block a committee never slashes a validator by more than the cap, whatever the list of requests *)
Theorem C14_slash_budget : forall cap reqs k, slashed_total k (slash_block cap [] reqs) <= cap.
Proof. exact slash_budget. Qed.
Print Assumptions C14_slash_budget.

Example C14_nonvacuous :
  let qa := mkQC (mkView 5 0 Phase_PRECOMMIT_VOTE) 7 8 3 [0; 1; 3] true in
  let qb := mkQC (mkView 5 0 Phase_PRECOMMIT_VOTE) 9 8 3 [2; 3] true in
  process_dse (mkConf 0 [100; 100; 100; 100] 0) 0 (fun _ _ => true) [(qa, qb)] [] = Some [(3, [5])] /\
  handle_double_signers [(3, [5])] [] [] = Some ([(3, 5)], [3]) /\
  handle_double_signers [(3, [5])] [(3, 5)] [] = None /\
  slash_block 15 [] [(3, 10); (3, 10); (3, 10)] = [(3, 10); (3, 5); (3, 0)].
Proof. exact evidence_nonvacuous. Qed.

(* The chain's OWN certificate (its slash list is executed by the begin-block of the next height and can no longer be refused): a
   well-formed list is never refused whatever has been indexed in the meantime, it slashes exactly the pairs that were not indexed yet,
   each once.  (Before the repair recorded in KNOWN_FINDINGS.txt the raw list went through handle_double_signers and a pair indexed
   by a transaction of the same block halted the chain: C14_old_own_certificate_halts.) *)
Theorem C14_own_certificate_never_refused : forall ds index,
  (forall d, In d ds -> snd d <> []) -> NoDup (pairs ds) ->
  exists index' out, handle_own_double_signers ds index = Some (index', out).
Proof. exact own_never_refused. Qed.
Print Assumptions C14_own_certificate_never_refused.
Theorem C14_own_certificate_slashes_only_new_pairs : forall ds index index' out,
  handle_own_double_signers ds index = Some (index', out) ->
  length out = length (filter (fun e => negb (known index (fst e) (snd e))) (pairs ds)).
Proof. exact own_one_slash_per_new_pair. Qed.
Example C14_old_own_certificate_halts :
  handle_double_signers [(3, [5])] [(3, 5)] [] = None /\ handle_own_double_signers [(3, [5]); (4, [5])] [(3, 5)] = Some ([(4, 5); (3, 5)], [4]).
Proof. exact old_own_certificate_halts. Qed.

(* The COLLECTION of evidence (AddDSE: what a leader gathers from ELECTION votes and its own partial certificates before it proposes a
   slash list) loses nobody: a piece is dropped only when it is IDENTICAL to a kept one, so whoever any single offered piece accuses is
   named by the report derived from the whole collection, and the collection always checks.  De-duplicating by the certificates'
   content alone (view and payloads, ignoring who signed) does lose accused validators: C14_dedupe_by_content_loses_an_accused. *)
Theorem C14_collection_names_every_accused : forall c m valid es e l r k h,
  In e es -> process_dse c m valid [e] [] = Some l -> names l k h = true ->
  process_dse c m valid (collect c m valid es) [] = Some r -> names r k h = true.
Proof. exact collection_names_every_accused. Qed.
Print Assumptions C14_collection_names_every_accused.
Theorem C14_collection_checks : forall c m valid es, exists r, process_dse c m valid (collect c m valid es) [] = Some r.
Proof. exact collection_checks. Qed.
Theorem C14_collection_keeps_no_duplicates : forall c m valid es, NoDup (collect c m valid es).
Proof. exact collect_no_duplicates. Qed.
Theorem C14_collection_only_offered_pieces : forall c m valid es e,
  In e (collect c m valid es) -> In e es /\ accuses_somebody c m valid e = true.
Proof. exact collect_only_offered. Qed.
Theorem C14_dedupe_by_content_loses_an_accused :
  exists c m valid es e l k h,
    In e es /\ process_dse c m valid [e] [] = Some l /\ names l k h = true /\
    exists r, process_dse c m valid (collect_by_content c m valid es) [] = Some r /\ names r k h = false.
Proof. exact by_content_loses_an_accused. Qed.
Print Assumptions C14_dedupe_by_content_loses_an_accused.
