(* C06 — Replay protection: a signed transaction takes effect at most once.  Statement of record. *)
From Coq Require Import NArith List Bool.
From V Require Import Bytes Proto Replay ProtoProofs ReplayProofs Nonce NonceProofs.
Import ListNotations.
Local Open Scope N_scope.

(* Along ANY chain of blocks, whatever byte strings are offered and re-offered at whatever heights - identical bytes,
   re-encodings (field order, repeated fields, explicit defaults, non-minimal varints), other representations of the public
   key - no signed content (sign bytes, signer key, signature) is executed twice.  [verify], [pk_canon], [key_of] are the
   crypto primitives; the only assumption is that a key has one canonical byte representation. *)
Theorem C06_no_signed_content_executes_twice :
  forall (verify : bytes -> bytes -> bytes -> bool) (pk_canon : bytes -> bool) (key_of : bytes -> N),
  (forall a b, pk_canon a = true -> pk_canon b = true -> key_of a = key_of b -> a = b) ->
  forall cf blocks,
  NoDup (map (fun e => signed_content key_of (snd e)) (exec_chain verify pk_canon cf 1 [] blocks)) /\
  Forall (fun e => signed_content key_of (snd e) <> None) (exec_chain verify pk_canon cf 1 [] blocks).
Proof. exact no_signed_content_executes_twice. Qed.
Print Assumptions C06_no_signed_content_executes_twice.

(* An executed transaction was signed for this network and this chain and, from height 2 on, created inside the window. *)
Theorem C06_executed_here_and_now :
  forall (verify : bytes -> bytes -> bytes -> bool) (pk_canon : bytes -> bool) (key_of : bytes -> N),
  (forall a b, pk_canon a = true -> pk_canon b = true -> key_of a = key_of b -> a = b) ->
  forall cf blocks h b,
  In (h, b) (exec_chain verify pk_canon cf 1 [] blocks) ->
  exists t, decode_tx b = Some t /\ t_net t = rc_net cf /\ t_chain t = rc_chain cf /\
            (2 <= h -> t_created t <= h + rc_range cf /\ h <= t_created t + rc_range cf).
Proof. exact executed_here_and_now. Qed.

(* The encoding facts this rests on: of all byte strings decoding to one transaction exactly the canonical one is accepted,
   and the canonical encoding is a bijection (C11: what a node re-marshals is what it received; C19: sign bytes determine
   the signed content). *)
Theorem C06_canonical_unique : forall b1 b2, canonical b1 = true -> canonical b2 = true -> decode_tx b1 = decode_tx b2 -> b1 = b2.
Proof. exact canonical_unique. Qed.
Theorem C06_decode_encode : forall t, tx_wf t -> decode_tx (encode_tx t) = Some t.
Proof. exact decode_encode. Qed.
Print Assumptions C06_decode_encode.
Theorem C06_sign_bytes_injective : forall t1 t2, tx_wf t1 -> tx_wf t2 -> sign_bytes t1 = sign_bytes t2 -> unsigned t1 = unsigned t2.
Proof. exact sign_bytes_injective. Qed.

(* non-vacuity, and the defect repaired by c4187b5 as a theorem: byte strings other than the canonical one decode to the same
   transaction (they used to be executed again under another hash) *)
Example C06_variants_decode_alike :
  tx_wf ex_tx /\ canonical (encode_tx ex_tx) = true /\
  decode_tx (encode_tx ex_tx ++ [58; 0]) = Some ex_tx /\ canonical (encode_tx ex_tx ++ [58; 0]) = false /\
  decode_tx (encode_tx ex_tx ++ [48; 144; 206; 0]) = Some ex_tx /\ canonical (encode_tx ex_tx ++ [48; 144; 206; 0]) = false.
Proof. exact ex_variants. Qed.

(* ---- nonce-based (Ethereum-wrapped, memo RLP.V2) transactions.  The height window does not apply to them; the account nonce
   floor alone must make every signed content (sender, nonce, payload) execute at most once - also when the same bytes come
   back arbitrarily late and whatever else is offered in between.  The transaction index is not consulted by these theorems. *)
Theorem C06_nonce_no_replay :
  forall f ts l1 a l2, snd (offer_all f ts) = l1 ++ a :: l2 -> forall b, In b l2 -> same_content a b = false.
Proof. exact nonce_no_replay. Qed.
Print Assumptions C06_nonce_no_replay.
Theorem C06_nonce_executed_stays_rejected :
  forall f ts a more b, In a (snd (offer_all f ts)) -> same_content a b = true ->
  accept (fst (offer_all (fst (offer_all f ts)) more)) b = false.
Proof. exact nonce_executed_stays_rejected. Qed.
(* below the floor, the reserved maximal nonce, or a wrapper that is not the conversion of the signed transaction: no effect *)
Theorem C06_nonce_rejected_no_effect :
  forall f t, (n_nonce t < floor_of f (n_sender t) \/ n_nonce t = max_u64 \/ n_wrapper_ok t = false) -> exec f t = (f, false).
Proof. exact nonce_rejected_no_effect. Qed.
Theorem C06_nonce_gap_closes :
  forall f t, accept f t = true -> forall u, n_sender u = n_sender t -> n_nonce u <= n_nonce t -> accept (fst (exec f t)) u = false.
Proof. exact nonce_gap_closes. Qed.
Example C06_nonce_nonvacuous :
  snd (offer_all [] [mkNTx 1 2 7 true; mkNTx 1 2 7 true; mkNTx 1 1 8 true; mkNTx 1 5 9 true; mkNTx 2 0 7 true; mkNTx 1 5 9 false])
  = [mkNTx 1 2 7 true; mkNTx 1 5 9 true; mkNTx 2 0 7 true].
Proof. exact nonce_nonvacuous. Qed.
