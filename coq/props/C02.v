(* C02 — Finality gate: only a +2/3-certified, correctly bound block is ever committed.  Statement of record (non-sync
   path; fast-sync checks certificates only at checkpoint heights, which the property exempts). *)
From Coq Require Import NArith List Bool.
From V Require Import U64 Extracted Cert CertProofs.
Import ListNotations.
Local Open Scope N_scope.

(* a commit implies: the certificate names exactly this block hash and results hash, for this network, chain and the node's
   next height, is in the commit-justifying phase, every committee member named by the bitmap really signed exactly this
   payload, and those members hold at least floor(2T/3)+1 of the voting power in force *)
Theorem C02_commit_gate_sound : forall cfg cm c, committee_wf cm -> handle_peer_block cfg cm c = Commit ->
  exists b rh, c_block c = Some b /\ c_results c = Some rh /\
    b_header_hash b = c_block_hash c /\ b_bytes_hash b = c_block_hash c /\ rh = c_results_hash c /\
    v_net (c_view c) = n_net cfg /\ v_chain (c_view c) = n_chain cfg /\
    v_height (c_view c) = n_height cfg /\ b_height b = n_height cfg /\ b_net b = n_net cfg /\
    v_phase (c_view c) = Phase_PRECOMMIT_VOTE /\
    c_sigs c = map (fun i => (i, sign_payload c)) (signers cm c) /\
    2 * total_exact cm / 3 + 1 <= power_of cm (signers cm c) /\
    b_applies b = true /\ n_last_root cfg <= v_root (c_view c).
Proof. exact commit_gate_sound. Qed.
Print Assumptions C02_commit_gate_sound.

Theorem C02_partial_never_commits : forall cfg cm c, committee_wf cm ->
  power_of cm (signers cm c) < 2 * total_exact cm / 3 + 1 -> handle_peer_block cfg cm c = Reject.
Proof. exact partial_never_commits. Qed.
Print Assumptions C02_partial_never_commits.

Theorem C02_forged_never_commits : forall cfg cm c i, In i (signers cm c) -> ~ In (i, sign_payload c) (c_sigs c) ->
  handle_peer_block cfg cm c = Reject.
Proof. exact forged_never_commits. Qed.
Print Assumptions C02_forged_never_commits.

(* re-targeted to another block / results / height / root height (committee) / round / phase / chain / network / proposer *)
Theorem C02_retarget_never_commits : forall cfg cm c p, signers cm c <> [] ->
  Forall (fun e => snd e = p) (c_sigs c) -> p <> sign_payload c -> handle_peer_block cfg cm c = Reject.
Proof. exact retarget_never_commits. Qed.
Print Assumptions C02_retarget_never_commits.

Theorem C02_wrong_phase_never_commits : forall cfg cm c, v_phase (c_view c) <> Phase_PRECOMMIT_VOTE -> handle_peer_block cfg cm c = Reject.
Proof. exact wrong_phase_never_commits. Qed.
Theorem C02_wrong_target_never_commits : forall cfg cm c,
  v_net (c_view c) <> n_net cfg \/ v_chain (c_view c) <> n_chain cfg \/ v_height (c_view c) <> n_height cfg ->
  handle_peer_block cfg cm c = Reject.
Proof. exact wrong_target_never_commits. Qed.

(* "voting power in force at the certificate's root height" is a guarantee only for a root height the node's own state vouches for:
   a certificate naming a root height older than the last one recorded (validators that have since unstaked were +2/3 then) never
   commits, whatever it is signed by.  (The gate had no such bound before the repair recorded in KNOWN_FINDINGS.txt.) *)
Theorem C02_historical_committee_never_commits : forall cfg cm c,
  v_root (c_view c) < n_last_root cfg -> handle_peer_block cfg cm c = Reject.
Proof. exact historical_committee_never_commits. Qed.
Print Assumptions C02_historical_committee_never_commits.

(* padding bits neither add power nor change the verdict *)
Theorem C02_padding_irrelevant : forall cfg cm c bits',
  firstn (length (cm_power cm)) bits' = firstn (length (cm_power cm)) (c_bitmap c) ->
  handle_peer_block cfg cm (mkCert (c_view c) (c_block_hash c) (c_results_hash c) (c_proposer c) (c_hash_sizes_ok c)
                                   (c_results c) (c_block c) (c_bitmap_len_ok c) bits' (c_sigs c))
  = handle_peer_block cfg cm c.
Proof. exact padding_irrelevant. Qed.
Print Assumptions C02_padding_irrelevant.

(* the decidable predicate evaluated on implementation observations holds whenever the model commits *)
Theorem C02_commit_implies_ok : forall cfg cm c, committee_wf cm -> handle_peer_block cfg cm c = Commit ->
  c02_ok (mkC02 cfg cm c true) = true.
Proof. exact commit_implies_ok. Qed.

(* non-vacuity: a well-formed +2/3 certificate for the right block IS accepted *)
Theorem C02_commit_gate_complete : forall cfg cm c b rh, committee_wf cm ->
  c_hash_sizes_ok c = true -> c_bitmap_len_ok c = true -> c_block c = Some b -> c_results c = Some rh ->
  rh = c_results_hash c -> b_bytes_hash b = c_block_hash c -> b_header_hash b = c_block_hash c ->
  v_net (c_view c) = n_net cfg -> v_chain (c_view c) = n_chain cfg -> b_txs_size b <= n_max_block cfg ->
  b_wellformed b = true -> b_net b = n_net cfg -> v_height (c_view c) = b_height b -> b_height b = n_height cfg ->
  v_phase (c_view c) = Phase_PRECOMMIT_VOTE -> b_applies b = true ->
  c_sigs c = map (fun i => (i, sign_payload c)) (signers cm c) ->
  2 * total_exact cm / 3 + 1 <= power_of cm (signers cm c) ->
  n_last_root cfg <= v_root (c_view c) ->
  handle_peer_block cfg cm c = Commit.
Proof. exact commit_gate_complete. Qed.
Definition ex_view := mkView 1 1 5 5 0 6.
Definition ex_cert := mkCert ex_view 11 22 33 true (Some 22) (Some (mkBlock 11 11 5 1 true 100 true)) true
  [true; true; true; false; true; true; false; false]
  [(0%nat, mkPayload ex_view 11 22 33); (1%nat, mkPayload ex_view 11 22 33); (2%nat, mkPayload ex_view 11 22 33)].
Example ex_commit : handle_peer_block (mkCfg 1 1 5 1000000 3) (mkCommittee [10; 10; 10; 10] 40 27) ex_cert = Commit.
Proof. vm_compute. reflexivity. Qed.
