(* C10 — Store read semantics and immutability of committed history.  Statement of record. *)
From Coq Require Import NArith List Bool Permutation.
From V Require Import Bytes Keys VStore Txn StoreModel VStoreProofs TxnProofs StoreRefine.
Import ListNotations.
Local Open Scope N_scope.

(* The store state machine (write-set stack over the latest-state and historical partitions, read through the real merge
   iterator and the real versioned iterator with its four strategies) returns, for EVERY well-formed program of
   set / delete / get / iterate / reverse-iterate / nest / flush / discard / commit / reset / read-at-version /
   iterate-at-version / rollback, exactly what the simple versioned map returns. *)
Theorem C10_store_is_a_versioned_map : forall K ops, keyfam_ok K -> ops_ok K 0 1 ops -> run s_init ops = arun a_init ops.
Proof. exact store_refines. Qed.
Print Assumptions C10_store_is_a_versioned_map.

(* What a reader observes as of a committed version v never changes, whatever is written, deleted, committed, reset or
   rolled back (to a version >= v) afterwards. *)
Theorem C10_committed_get_immutable : forall K ops1 ops2 v k,
  keyfam_ok K -> ops_ok K 0 1 (ops1 ++ ops2 ++ [PGetAt v k]) -> v <= ver_after 0 1 ops1 -> In k K ->
  no_rollback_below v ops2 ->
  last (run s_init (ops1 ++ ops2 ++ [PGetAt v k])) OErr = last (run s_init (ops1 ++ [PGetAt v k])) OErr.
Proof. exact committed_get_immutable. Qed.
Print Assumptions C10_committed_get_immutable.
Theorem C10_committed_iter_immutable : forall K ops1 ops2 v p rv,
  keyfam_ok K -> ops_ok K 0 1 (ops1 ++ ops2 ++ [PIterAt v p rv]) -> v <= ver_after 0 1 ops1 ->
  wf_bytes p -> (length p <= 248)%nat ->
  no_rollback_below v ops2 ->
  last (run s_init (ops1 ++ ops2 ++ [PIterAt v p rv])) OErr = last (run s_init (ops1 ++ [PIterAt v p rv])) OErr.
Proof. exact committed_iter_immutable. Qed.
Print Assumptions C10_committed_iter_immutable.

(* The versioned iterator alone: on any well-formed database, at any version, for any prefix, forward or reverse, seeking or
   walking linearly, the result is the specification's: complete, ordered, duplicate-free, deletes hide. *)
Theorem C10_versioned_iterator : forall db ver prefix reverse seek,
  db_wf db -> wf_bytes prefix -> (length prefix <= 248)%nat -> u64v ver ->
  viter db ver prefix reverse seek = spec_iter db ver prefix reverse.
Proof. exact viter_refines. Qed.
Print Assumptions C10_versioned_iterator.
Theorem C10_versioned_get : forall db ver k, db_wf db -> prefix_free (k :: keys_of db) -> wf_bytes k -> k <> [] -> (length k <= 248)%nat ->
  u64v ver -> vget db ver k = spec_get db ver k.
Proof. exact vget_refines. Qed.

(* The prefix-free key family is necessary: without it the seeking iterator returns a wrong result (witness). *)
Theorem C10_prefix_free_needed : exists db ver prefix reverse seek,
  sorted_raw db = true /\ viter db ver prefix reverse seek <> spec_iter db ver prefix reverse.
Proof. exact iter_without_prefix_free_refuted. Qed.

(* non-vacuity *)
Example C10_nonvacuous :
  let k1 := [1;1;1;5] in let k2 := [1;1;1;6] in let k3 := [1;2;1;5] in
  let ops := [PSet k1 [7]; PSet k2 [8]; PCommit; PNest; PDel k1; PSet k3 [9]; PIter [1;1] false; PFlush; PCommit;
              PGetAt 1 k1; PIterAt 1 [] true; PSet k1 [4]; PCommit; PRollback 2; PGet k1; PIter [] true] in
  ops_ok [k1; k2; k3] 0 1 ops /\ run s_init ops = arun a_init ops /\
  In (OIter [(k3, [9]); (k2, [8])]) (run s_init ops).
Proof. exact store_refines_nonvacuous. Qed.
