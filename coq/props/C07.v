(* C07 — Transaction atomicity.  Statement of record (ledger model; block / proposal rejection is decided by the harness). *)
From Coq Require Import NArith List Bool.
From V Require Import U64 Extracted Ledger LedgerCheck.
From V Require LedgerConservation.
Import ListNotations.
Local Open Scope N_scope.
Module LC := LedgerConservation.

(* A transaction that fails at ANY step - fee deduction, the fee credit, or any primitive inside its handler, at any depth -
   leaves the ledger exactly as it was: by construction of apply_tx (the model of ApplyTransaction's nested store
   transaction, which is discarded on error), for every message, sender, fee and state. *)
Theorem C07_failed_tx_leaves_no_trace : forall sender fee m s, fst (apply_tx sender fee m s) = false -> snd (apply_tx sender fee m s) = s.
Proof.
  intros sender fee m s. unfold apply_tx.
  destruct (bind (account_sub sender fee s) _) as [s'|]; cbn; [discriminate | reflexivity].
Qed.
Print Assumptions C07_failed_tx_leaves_no_trace.

(* Hence the state after a block's transactions is the sequential application of exactly its successful ones. *)
Fixpoint apply_all (txs : list (N * N * lmsg)) (s : lstate) : lstate :=
  match txs with [] => s | (sd, fee, m) :: r => apply_all r (snd (apply_tx sd fee m s)) end.
Fixpoint successful (txs : list (N * N * lmsg)) (s : lstate) : list (N * N * lmsg) :=
  match txs with
  | [] => []
  | (sd, fee, m) :: r => let '(ok, s') := apply_tx sd fee m s in if ok then (sd, fee, m) :: successful r s' else successful r s'
  end.
Theorem C07_block_is_its_successful_txs : forall txs s, apply_all txs s = apply_all (successful txs s) s.
Proof.
  induction txs as [|[[sd fee] m] r IH]; intros s; cbn [apply_all successful]; [reflexivity|].
  destruct (apply_tx sd fee m s) as [ok s'] eqn:E. destruct ok.
  - cbn [apply_all]. rewrite E. cbn [snd]. apply IH.
  - assert (s' = s) as -> by (pose proof (C07_failed_tx_leaves_no_trace sd fee m s) as H; rewrite E in H; cbn in H; apply H; reflexivity).
    cbn [snd]. apply IH.
Qed.
Print Assumptions C07_block_is_its_successful_txs.

(* and every successful transaction of the block really is successful when replayed in that position *)
Theorem C07_successful_all_succeed : forall txs s,
  (fix all_ok (l : list (N * N * lmsg)) (st : lstate) : bool :=
     match l with [] => true | (sd, fee, m) :: r => fst (apply_tx sd fee m st) && all_ok r (snd (apply_tx sd fee m st)) end)
    (successful txs s) s = true.
Proof.
  induction txs as [|[[sd fee] m] r IH]; intros s; cbn [successful]; [reflexivity|].
  destruct (apply_tx sd fee m s) as [ok s'] eqn:E. destruct ok.
  - rewrite E. cbn [fst snd andb]. apply IH.
  - assert (s' = s) as -> by (pose proof (C07_failed_tx_leaves_no_trace sd fee m s) as H; rewrite E in H; cbn in H; apply H; reflexivity).
    apply IH.
Qed.

(* non-vacuity: a transfer exceeding the balance fails after its fee was taken inside the transaction, and leaves no trace *)
Example C07_nonvacuous :
  let s := mkL [(10, 50); (11, 30)] [(1, 0)] [] (mkSupply 80 0 0 [] []) [] [] [] (mkParams 2 2 3 10 10 1 50) 5 1 in
  apply_tx 11 1 (MSend 11 10 1000) s = (false, s) /\ fst (apply_tx 10 1 (MSend 10 11 5) s) = true.
Proof. vm_compute. split; reflexivity. Qed.
