(* C12 — Staking bookkeeping stays consistent and the chain never wedges itself.  Statement of record (ledger model). *)
From Coq Require Import NArith List Bool.
From V Require Import U64 Extracted Ledger LedgerCheck LedgerHistory LedgerBlock.
From V Require LedgerConservation LedgerStaking LedgerBlockProofs.
From V Require Evidence EvidenceProofs.
Import ListNotations.
Local Open Scope N_scope.
Module LC := LedgerConservation.
Module LS := LedgerStaking.
Module LB := LedgerBlockProofs.

(* On every reachable state the staking records agree with each other: total / delegated / per-committee tallies equal the
   sums over validator records, and every unstaking or paused marker names an existing validator in exactly that status and
   vice versa; no validator is paused and unstaking at once. *)
Theorem C12_consistent_on_every_reachable_state : forall ops s s', LInv s -> hist_ok ops s -> lrun ops s = LOk s' ->
  LS.Consistent s' /\ LS.exclusive s' /\ staking_ok s' = true.
Proof.
  intros ops s s' HI HO HR. pose proof (history_invariant ops s s' HI HO HR) as H.
  split; [apply H|]. split; [apply H | apply (LInv_predicates s' H)].
Qed.
Print Assumptions C12_consistent_on_every_reachable_state.

(* The chain never wedges: from an invariant state NO admissible history can fail - in particular the deferred end-block
   actions (finish unstaking, force-unstake after max pause) and slashes always succeed, at every future height. *)
Theorem C12_never_wedges : forall ops s, LInv s -> hist_ok ops s -> exists s', lrun ops s = LOk s'.
Proof. exact history_never_fails. Qed.
Print Assumptions C12_never_wedges.
Theorem C12_finish_unstaking_total : forall s, LS.wf s -> LS.Consistent s -> LS.Solvent s -> exists s', delete_finished_unstaking s = LOk s'.
Proof. exact LS.finish_unstaking_never_fails. Qed.
Theorem C12_force_unstake_total : forall s, LS.wf s -> LS.Consistent s -> exists s', force_unstake_max_paused s = LOk s'.
Proof. exact LS.force_unstake_never_fails. Qed.

(* one-step forms *)
Theorem C12_tx_consistent : forall sender fee m s, LS.wf s -> LS.Consistent s -> LS.msg_wf m -> LS.heights_ok s ->
  let '(_, s') := apply_tx sender fee m s in LS.wf s' /\ LS.Consistent s'.
Proof. exact LS.apply_tx_consistent. Qed.
Theorem C12_slash_consistent : forall a chain percent already s s', LS.wf s -> LS.Consistent s -> LS.heights_ok s ->
  slash_validator a chain percent already s = LOk s' -> LS.wf s' /\ LS.Consistent s'.
Proof. exact LS.slash_consistent. Qed.

(* The defect repaired by fix 2eb8372, as a theorem about the OLD DeleteValidator: a consistent state is reachable from
   which finish-unstaking fails (the wedge). *)
Theorem C12_old_delete_validator_wedges : exists s a v s1, LS.wf s /\ LS.Consistent s /\ aget a (l_vals s) = Some v /\ v_unstaking v = l_height s /\
  LS.delete_validator_old a v s = LOk s1 /\ delete_finished_unstaking s1 = LErr.
Proof. exact LS.old_delete_wedges. Qed.

(* ---- whole blocks: the scheduled mint and the reward distribution never fail on a reachable state (the unchecked uint64
   subtraction rewardPool.Amount - totalDistributed cannot wrap: the shares add up to at most the pool), and histories that
   include them never wedge *)
Theorem C12_mint_never_fails : forall total dao_pct chains s,
  LInv s -> LB.chains_ok chains -> LC.total s + total < two64 -> dao_pct < two64 ->
  exists s', fund_pools total dao_pct chains s = LOk s'.
Proof. exact LB.fund_never_fails. Qed.
Theorem C12_rewards_never_fail : forall chain stubs samples penalty s,
  LInv s -> LS.heights_ok s -> stubs_ok stubs samples -> penalty < two64 -> chain <= MaxChainId ->
  exists s', distribute_committee chain stubs samples penalty s = LOk s'.
Proof. exact LB.distribute_never_fails. Qed.
Print Assumptions C12_rewards_never_fail.
Theorem C12_whole_blocks_never_wedge : forall ops s, LInv s -> LB.bhist_ok ops s -> exists s', LB.brun ops s = LOk s'.
Proof. exact LB.block_history_never_fails. Qed.
Print Assumptions C12_whole_blocks_never_wedge.

(* "The chain never wedges itself", the begin-block part: the double-signer list of the chain's own last certificate is executed from
   the committed block and is never refused, whatever a transaction of that block has indexed in the meantime (see C14). *)
Theorem C12_own_certificate_never_wedges : forall (ds : list (N * list N)) (index : list (N * N)),
  (forall d, In d ds -> snd d <> []) -> NoDup (EvidenceProofs.pairs ds) ->
  exists index' out, Evidence.handle_own_double_signers ds index = Some (index', out).
Proof. exact EvidenceProofs.own_never_refused. Qed.
