(* C12 — Staking bookkeeping stays consistent and the chain never wedges itself.  Statement of record (ledger model). *)
From Coq Require Import NArith List Bool.
From V Require Import U64 Extracted Ledger LedgerCheck LedgerHistory.
From V Require LedgerConservation LedgerStaking.
Import ListNotations.
Local Open Scope N_scope.
Module LC := LedgerConservation.
Module LS := LedgerStaking.

(* On every reachable state the staking records agree with each other: total / delegated / per-committee tallies equal the
   sums over validator records, and every unstaking or paused marker names an existing validator in exactly that status and
   vice versa; no validator is paused and unstaking at once. *)
Theorem C12_consistent_on_every_reachable_state : forall ops s s', LInv s -> hist_ok ops s -> lrun ops s = LOk s' ->
  LS.Consistent s' /\ LS.exclusive s' /\ staking_ok s' = true.
Proof.
  intros ops s s' HI HO HR. pose proof (history_invariant ops s s' HI HO HR) as H.
  split; [apply H|]. split; [apply H | apply (LInv_predicates s' H)].
Qed.
Print Assumptions C12_consistent_on_every_reachable_state.

(* The chain never wedges: from an invariant state NO admissible history can fail - in particular the deferred end-block
   actions (finish unstaking, force-unstake after max pause) and slashes always succeed, at every future height. *)
Theorem C12_never_wedges : forall ops s, LInv s -> hist_ok ops s -> exists s', lrun ops s = LOk s'.
Proof. exact history_never_fails. Qed.
Print Assumptions C12_never_wedges.
Theorem C12_finish_unstaking_total : forall s, LS.wf s -> LS.Consistent s -> LS.Solvent s -> exists s', delete_finished_unstaking s = LOk s'.
Proof. exact LS.finish_unstaking_never_fails. Qed.
Theorem C12_force_unstake_total : forall s, LS.wf s -> LS.Consistent s -> exists s', force_unstake_max_paused s = LOk s'.
Proof. exact LS.force_unstake_never_fails. Qed.

(* one-step forms *)
Theorem C12_tx_consistent : forall sender fee m s, LS.wf s -> LS.Consistent s -> LS.msg_wf m -> LS.heights_ok s ->
  let '(_, s') := apply_tx sender fee m s in LS.wf s' /\ LS.Consistent s'.
Proof. exact LS.apply_tx_consistent. Qed.
Theorem C12_slash_consistent : forall a chain percent already s s', LS.wf s -> LS.Consistent s -> LS.heights_ok s ->
  (forall v, aget a (l_vals s) = Some v -> v_delegate v = false) ->
  slash_validator a chain percent already s = LOk s' -> LS.wf s' /\ LS.Consistent s'.
Proof. exact LS.slash_consistent. Qed.

(* The defect repaired by fix 2eb8372, as a theorem about the OLD DeleteValidator: a consistent state is reachable from
   which finish-unstaking fails (the wedge). *)
Theorem C12_old_delete_validator_wedges : exists s a v s1, LS.wf s /\ LS.Consistent s /\ aget a (l_vals s) = Some v /\ v_unstaking v = l_height s /\
  LS.delete_validator_old a v s = LOk s1 /\ delete_finished_unstaking s1 = LErr.
Proof. exact LS.old_delete_wedges. Qed.
