(* C09 — Crash-consistent, all-or-nothing block commit.  Statement of record. *)
From Coq Require Import NArith List Bool.
From V Require Import Commit CommitProofs.
Import ListNotations.
Local Open Scope N_scope.

(* One batch per block and a log of which a crash keeps a prefix of whole records (pebble's contract): whatever survives is
   the log of the first h blocks, for some h ... *)
Theorem C09_crash_is_a_prefix : forall bs k,
  exists h, (h <= length bs)%nat /\ recover (log_of 1 bs) k = recover (log_of 1 bs) h /\ h = Nat.min k (length bs).
Proof. exact crash_is_a_prefix. Qed.
(* ... and after those h records EVERY component reflects exactly height h: the version, the latest state (deleted keys gone,
   everything else at its last written value), the recorded root and the index entry of every height up to h, nothing of any
   later height. *)
Theorem C09_all_or_nothing : forall bs h, (h <= length bs)%nat ->
  let d := recover (log_of 1 bs) h in
  version_of d = N.of_nat h /\
  (forall key, latest_of d key = ref_state bs h key) /\
  (forall v, (1 <= v <= h)%nat -> root_of d (N.of_nat v) = Some (b_root (nth (v - 1) bs (mkBlk [] [] 0 0))) /\
                                   index_of d (N.of_nat v) = Some (b_index (nth (v - 1) bs (mkBlk [] [] 0 0)))) /\
  (forall v, N.of_nat h < v -> root_of d v = None /\ index_of d v = None).
Proof. exact crash_all_or_nothing. Qed.
Print Assumptions C09_all_or_nothing.
(* the restarted node continues exactly as a node that never crashed *)
Theorem C09_continue_after_restart : forall bs b,
  apply_batch (recover (log_of 1 bs) (length bs)) (commit_batch (N.of_nat (length bs) + 1) b) = recover (log_of 1 (bs ++ [b])) (S (length bs)).
Proof. exact continue_after_restart. Qed.
(* why it must be ONE batch: if the latest-state deletes of a block reach the log as their own record, there is a crash point at
   which the node re-opens at a height whose state it does not have *)
Theorem C09_split_commit_refuted : exists bs k key,
  let d := recover (log_split 1 bs) k in latest_of d key <> ref_state bs (N.to_nat (version_of d)) key.
Proof. exact split_commit_refuted. Qed.
Print Assumptions C09_split_commit_refuted.

Example C09_nonvacuous :
  let bs := [mkBlk [(1, 10); (2, 20)] [] 100 7; mkBlk [(1, 11)] [2] 101 8; mkBlk [(3, 30)] [] 102 9] in
  let d := recover (log_of 1 bs) 2 in
  version_of d = 2 /\ latest_of d 1 = Some 11 /\ latest_of d 2 = None /\ latest_of d 3 = None /\ root_of d 2 = Some 8 /\ root_of d 3 = None /\
  ref_state bs 2 1 = Some 11 /\ ref_state bs 2 2 = None /\ ref_state bs 3 3 = Some 30.
Proof. exact commit_nonvacuous. Qed.
