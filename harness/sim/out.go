package sim

import (
	"encoding/json"
	"fmt"
	"os"
	"path/filepath"
	"strings"
)

// CaseWriter implements the harness side of the driver protocol: cases_<shard>.v (Coq literals: inputs +
// implementation observations, with M = model/implementation mismatches and V = property-predicate violations
// evaluated inside Coq), meta_<shard>.jsonl (one JSON object per case for replay files) and stats.json.
type CaseWriter struct {
	OutDir   string
	Name     string // shard name prefix, e.g. "c13"
	Imports  string // e.g. "From V Require Import Committee."
	CaseType string // Coq type of one case
	MFun     string // Coq function : list CaseType -> list N  (mismatches)
	VFun     string // Coq function : list CaseType -> list N  (violations); may be ""
	PerShard int
	Prelude  string // extra Coq text before the case list

	lits  []string
	metas []map[string]any
	shard int
	Total int
}

func (w *CaseWriter) Add(lit string, meta map[string]any) {
	if w.PerShard == 0 {
		w.PerShard = 250
	}
	w.lits = append(w.lits, lit)
	w.metas = append(w.metas, meta)
	w.Total++
	if len(w.lits) >= w.PerShard {
		w.flush()
	}
}

func (w *CaseWriter) flush() {
	if len(w.lits) == 0 {
		return
	}
	shard := fmt.Sprintf("%s_%03d", w.Name, w.shard)
	var f strings.Builder
	f.WriteString("From Coq Require Import NArith ZArith List Bool String.\n" + w.Imports + "\nImport ListNotations.\nLocal Open Scope N_scope.\n")
	f.WriteString(w.Prelude + "\n")
	f.WriteString("Definition cases : list (" + w.CaseType + ") := [\n  " + strings.Join(w.lits, ";\n  ") + "\n].\n")
	f.WriteString("Definition M := Eval vm_compute in " + w.MFun + " cases.\nPrint M.\n")
	if w.VFun != "" {
		f.WriteString("Definition V := Eval vm_compute in " + w.VFun + " cases.\nPrint V.\n")
	}
	must(os.WriteFile(filepath.Join(w.OutDir, "cases_"+shard+".v"), []byte(f.String()), 0o644))
	var m strings.Builder
	for i, meta := range w.metas {
		if meta == nil {
			meta = map[string]any{}
		}
		meta["idx"] = i
		j, _ := json.Marshal(meta)
		m.Write(j)
		m.WriteString("\n")
	}
	must(os.WriteFile(filepath.Join(w.OutDir, "meta_"+shard+".jsonl"), []byte(m.String()), 0o644))
	w.lits, w.metas = nil, nil
	w.shard++
}

func (w *CaseWriter) Close(stats any) {
	w.flush()
	j, _ := json.MarshalIndent(stats, "", " ")
	must(os.WriteFile(filepath.Join(w.OutDir, "stats.json"), j, 0o644))
}

// Direct records a violation observed directly on the implementation (panic, hang, ...).
func Direct(outDir string, v map[string]any) {
	f, err := os.OpenFile(filepath.Join(outDir, "direct.jsonl"), os.O_APPEND|os.O_CREATE|os.O_WRONLY, 0o644)
	must(err)
	j, _ := json.Marshal(v)
	f.Write(append(j, '\n'))
	f.Close()
}

func must(err error) {
	if err != nil {
		panic(err)
	}
}
