package sim

import (
	"encoding/json"
	"fmt"
	"os"
	"path/filepath"
	"time"

	"github.com/cockroachdb/pebble/v2/vfs"

	"github.com/canopy-network/canopy/bft"
	"github.com/canopy-network/canopy/controller"
	"github.com/canopy-network/canopy/fsm"
	"github.com/canopy-network/canopy/lib"
	"github.com/canopy-network/canopy/lib/crypto"
	"github.com/canopy-network/canopy/store"
)

// ---------------------------------------------------------------- genesis helpers

// GenesisSpec describes a generated genesis in harness terms.
type GenesisSpec struct {
	Validators []*fsm.Validator
	Accounts   []*fsm.Account
	Pools      []*fsm.Pool
	Params     *fsm.Params
	OrderBooks *lib.OrderBooks
}

func (g *GenesisSpec) State() *fsm.GenesisState {
	p := g.Params
	if p == nil {
		p = fsm.DefaultParams()
	}
	return &fsm.GenesisState{Time: 1, Validators: g.Validators, Accounts: g.Accounts, Pools: g.Pools, Params: p, OrderBooks: g.OrderBooks}
}

// StdValidator returns a (non-delegate) validator record for BLS key i.
func StdValidator(i int, stake uint64, committees ...uint64) *fsm.Validator {
	k := BLSKey(i)
	if len(committees) == 0 {
		committees = []uint64{1}
	}
	return &fsm.Validator{Address: k.Addr, PublicKey: k.Pub, NetAddress: fmt.Sprintf("tcp://v%d", i), StakedAmount: stake,
		Committees: committees, Output: k.Addr, Compound: true}
}

// ---------------------------------------------------------------- controller node with a self-root RCManager

// SelfRC answers root-chain queries from the node's own FSM (the chain is its own root).
type SelfRC struct{ N *CNode }

func (r *SelfRC) Publish(uint64, *lib.RootChainInfo) {}
func (r *SelfRC) ChainIds() []uint64                 { return nil }
func (r *SelfRC) GetHeight(uint64) uint64            { return r.N.C.FSM.Height() }
func (r *SelfRC) GetRootChainInfo(rootChainId, chainId uint64) (*lib.RootChainInfo, lib.ErrorI) {
	return r.N.C.FSM.LoadRootChainInfo(chainId, 0)
}
func (r *SelfRC) GetValidatorSet(rootChainId, id, rootHeight uint64) (lib.ValidatorSet, lib.ErrorI) {
	return r.N.C.FSM.LoadCommittee(id, rootHeight)
}
func (r *SelfRC) GetLotteryWinner(rootChainId, height, id uint64) (*lib.LotteryWinner, lib.ErrorI) {
	sm, err := r.N.C.FSM.TimeMachine(height)
	if err != nil {
		return nil, err
	}
	defer sm.Discard()
	return sm.LotteryWinner(id)
}
func (r *SelfRC) GetOrders(rootChainId, rootHeight, id uint64) (*lib.OrderBook, lib.ErrorI) {
	sm, err := r.N.C.FSM.TimeMachine(rootHeight)
	if err != nil {
		return nil, err
	}
	defer sm.Discard()
	return sm.GetOrderBook(id)
}
func (r *SelfRC) GetOrder(rootChainId, height uint64, orderId string, chainId uint64) (*lib.SellOrder, lib.ErrorI) {
	sm, err := r.N.C.FSM.TimeMachine(height)
	if err != nil {
		return nil, err
	}
	defer sm.Discard()
	id, e := lib.StringToBytes(orderId)
	if e != nil {
		return nil, lib.ErrInvalidArgument()
	}
	return sm.GetOrder(id, chainId)
}
func (r *SelfRC) GetDexBatch(rootChainId, height, committee uint64, withPoints bool) (*lib.DexBatch, lib.ErrorI) {
	return nil, nil
}
func (r *SelfRC) IsValidDoubleSigner(rootChainId, height uint64, address string) (*bool, lib.ErrorI) {
	a, e := lib.StringToBytes(address)
	if e != nil {
		return nil, lib.ErrInvalidArgument()
	}
	ok, err := r.N.C.FSM.Store().(lib.StoreI).IsValidDoubleSigner(a, height)
	return &ok, err
}
func (r *SelfRC) GetMinimumEvidenceHeight(rootChainId, rootHeight uint64) (*uint64, lib.ErrorI) {
	sm, err := r.N.C.FSM.TimeMachine(rootHeight)
	if err != nil {
		return nil, err
	}
	defer sm.Discard()
	h, err := sm.LoadMinimumEvidenceHeight()
	return &h, err
}
func (r *SelfRC) GetCheckpoint(rootChainId, height, id uint64) (lib.HexBytes, lib.ErrorI) {
	return nil, nil
}
func (r *SelfRC) Transaction(rootChainId uint64, tx lib.TransactionI) (*string, lib.ErrorI) {
	bz, err := lib.Marshal(tx)
	if err != nil {
		return nil, err
	}
	r.N.SelfTxs = append(r.N.SelfTxs, bz)
	h := crypto.HashString(bz)
	return &h, nil
}

// Logger is silent unless VERIF_LOG is set.
func Logger() lib.LoggerI {
	if os.Getenv("VERIF_LOG") != "" {
		return lib.NewLogger(lib.LoggerConfig{Level: lib.DebugLevel, Out: os.Stderr})
	}
	return lib.NewNullLogger()
}

// CNode is a real controller.Controller over a real in-memory store.
type CNode struct {
	FS      vfs.FS // pebble file system held by the harness (nil: store.NewStoreInMemory)
	Genesis *fsm.GenesisState
	Tweak   func(*lib.Config)
	BC      *store.VerifBlockCache // this node's "process-wide" block cache (each node simulates its own process)
	Dir     string
	KeyIdx  int
	C       *controller.Controller
	Store   *store.Store
	SelfTxs [][]byte // transactions the node tried to submit to its root chain (certificate results)
}

// NewCNodeFS is NewCNode over a harness-held in-memory pebble FS, so the node can be stopped and started again.
func NewCNodeFS(g *fsm.GenesisState, keyIdx int, tweak func(*lib.Config), fs vfs.FS) (*CNode, error) {
	n, err := newCNode(g, keyIdx, tweak, fs, "")
	return n, err
}

func NewCNode(g *fsm.GenesisState, keyIdx int, tweak func(*lib.Config)) (*CNode, error) {
	return newCNode(g, keyIdx, tweak, nil, "")
}

// RestartProcess stops the node (closing its database) and starts it again from the same file system with fresh
// in-memory state (new block cache, new FSM, new controller, new mempool), as a process restart does.
func (n *CNode) RestartProcess() error {
	if n.FS == nil {
		return fmt.Errorf("node has no re-openable file system")
	}
	func() {
		defer func() { _ = recover() }()
		n.C.Mempool.FSM.Discard()
		n.C.FSM.Discard()
	}()
	if err := n.Store.Close(); err != nil {
		return fmt.Errorf("close: %v", err)
	}
	m, err := newCNode(n.Genesis, n.KeyIdx, n.Tweak, n.FS, n.Dir)
	if err != nil {
		return err
	}
	*n = *m
	return nil
}

func newCNode(g *fsm.GenesisState, keyIdx int, tweak func(*lib.Config), fs vfs.FS, dir string) (*CNode, error) {
	if dir == "" {
		dir = ScratchDir("cnode")
	}
	c := DefaultConfig(dir)
	c.RunVDF = false
	c.LazyMempoolCheckFrequencyS = 0
	if tweak != nil {
		tweak(&c)
	}
	bz, err := json.Marshal(g)
	if err != nil {
		return nil, err
	}
	if err := os.WriteFile(filepath.Join(dir, lib.GenesisFilePath), bz, 0o644); err != nil {
		return nil, err
	}
	log := Logger()
	bc := store.VerifNewBlockCache()
	store.VerifSwapBlockCache(bc)
	var st lib.StoreI
	var e lib.ErrorI
	if fs != nil {
		st, e = store.VerifOpenStoreOnFS(fs, "db", c, log)
	} else {
		st, e = store.NewStoreInMemory(log, c)
	}
	if e != nil {
		return nil, e
	}
	sm, e := fsm.New(c, st, nil, nil, log)
	if e != nil {
		return nil, fmt.Errorf("fsm.New: %v", e)
	}
	ctl, e := controller.New(sm, c, BLSKey(keyIdx).Priv, nil, log)
	if e != nil {
		return nil, fmt.Errorf("controller.New: %v", e)
	}
	n := &CNode{FS: fs, Genesis: g, Tweak: tweak, BC: bc, Dir: dir, KeyIdx: keyIdx, C: ctl, Store: st.(*store.Store)}
	ctl.RCManager = &SelfRC{N: n}
	// what Controller.Start() does once the root-chain info is available: build the first cached proposal
	reset := ctl.SetFSMInConsensusModeForProposals()
	if err := ctl.Mempool.CheckMempool(); err != nil {
		reset()
		return nil, fmt.Errorf("initial CheckMempool: %v", err)
	}
	reset()
	return n, nil
}

func (n *CNode) Close() {
	func() {
		defer func() { _ = recover() }()
		n.C.Mempool.FSM.Discard()
		n.C.FSM.Discard()
		n.Store.Close()
	}()
	os.RemoveAll(n.Dir)
}

// ---------------------------------------------------------------- proposing, certifying, committing

// Proposal is what a leader hands to the replicas.
type Proposal struct {
	RCBuildHeight uint64
	Block         []byte
	Results       *lib.CertificateResult
	Height        uint64
}

func NoEvidence() *bft.ByzantineEvidence {
	return &bft.ByzantineEvidence{DSE: bft.DoubleSignEvidences{}}
}

// Enter makes this node the "current process": installs its block cache. Every harness must call it
// (directly or through Propose/Deliver/Validate) before touching the node.
func (n *CNode) Enter() { store.VerifSwapBlockCache(n.BC) }

// Restart simulates a process restart of the node's in-memory caches (block cache purge).
func (n *CNode) Restart() { n.BC = store.VerifNewBlockCache(); n.Enter() }

// Validate runs the real replica-side proposal validation.
// ApproveGov puts every governance transaction (parameter change, DAO transfer) of txs on the node's approve list
// (proposals.json in its data directory) and opens the proposal-vote window, as an operator who votes yes would.
func (n *CNode) ApproveGov(txs [][]byte) {
	props := make(fsm.GovProposals)
	_ = props.NewFromFile(n.C.Config.DataDirPath)
	for _, bz := range txs {
		tx := new(lib.Transaction)
		if lib.Unmarshal(bz, tx) != nil {
			continue
		}
		if tx.MessageType != fsm.MessageChangeParameterName && tx.MessageType != fsm.MessageDAOTransferName {
			continue
		}
		js, err := json.Marshal(tx)
		if err != nil {
			continue
		}
		_ = props.Add(js, true)
	}
	_ = props.SaveToFile(n.C.Config.DataDirPath)
	n.C.Consensus.VerifSetProposalVoteDeadline(time.Now().Add(time.Hour).UnixMilli())
}

// CloseVoteWindow: the proposal-vote deadline of this height has passed (every node then rejects governance proposals)
func (n *CNode) CloseVoteWindow() {
	n.C.Consensus.VerifSetProposalVoteDeadline(time.Now().Add(-time.Hour).UnixMilli())
}

func (n *CNode) Validate(p *Proposal, qc *lib.QuorumCertificate) lib.ErrorI {
	n.Enter()
	_, err := n.C.ValidateProposal(p.RCBuildHeight, qc, NoEvidence())
	return err
}

// Propose adds txs to the node's mempool and produces a proposal through the real ProduceProposal path.
func (n *CNode) Propose(txs [][]byte) (*Proposal, lib.ErrorI) {
	n.Enter()
	if len(txs) > 0 {
		if err := n.C.Mempool.HandleTransactions(txs...); err != nil {
			return nil, err
		}
	}
	rc, blk, res, err := n.C.ProduceProposal(NoEvidence(), nil)
	if err != nil {
		return nil, err
	}
	return &Proposal{RCBuildHeight: rc, Block: blk, Results: res, Height: n.C.FSM.Height()}, nil
}

// MakeQC builds a certificate for the proposal signed (really, BLS) by the committee members whose
// indices into the committee list are given. keyOf maps a committee public key to its private key.
func MakeQC(vs lib.ValidatorSet, view *lib.View, proposerKey []byte, p *Proposal, signers []int) (*lib.QuorumCertificate, error) {
	blk := new(lib.Block)
	hash, e := blk.BytesToBlockHash(p.Block)
	if e != nil {
		return nil, e
	}
	resBz, e := lib.Marshal(p.Results)
	if e != nil {
		return nil, e
	}
	qc := &lib.QuorumCertificate{
		Header:      view,
		Results:     p.Results,
		ResultsHash: crypto.Hash(resBz),
		Block:       p.Block,
		BlockHash:   hash,
		ProposerKey: proposerKey,
	}
	sig, err := AggregateSign(vs, qc.SignBytes(), signers)
	if err != nil {
		return nil, err
	}
	qc.Signature = sig
	return qc, nil
}

var privByPub = map[string]crypto.PrivateKeyI{}

func RegisterKeys(n int) {
	for i := 0; i < n; i++ {
		k := BLSKey(i)
		privByPub[string(k.Pub)] = k.Priv
	}
}

// AggregateSign produces a real aggregate BLS signature over msg by the given committee indices.
func AggregateSign(vs lib.ValidatorSet, msg []byte, signers []int) (*lib.AggregateSignature, error) {
	mk := vs.MultiKey.Copy()
	for _, idx := range signers {
		pub := vs.ValidatorSet.ValidatorSet[idx].PublicKey
		priv, ok := privByPub[string(pub)]
		if !ok {
			return nil, fmt.Errorf("no private key for committee member %d", idx)
		}
		if err := mk.AddSigner(priv.Sign(msg), idx); err != nil {
			return nil, err
		}
	}
	agg, err := mk.AggregateSignatures()
	if err != nil {
		return nil, err
	}
	return &lib.AggregateSignature{Signature: agg, Bitmap: mk.Bitmap()}, nil
}

// SignersForPower returns committee indices (in list order) whose summed power first reaches `need`.
func SignersForPower(vs lib.ValidatorSet, need uint64) []int {
	var out []int
	var sum uint64
	for i, v := range vs.ValidatorSet.ValidatorSet {
		if sum >= need {
			break
		}
		out = append(out, i)
		sum += v.VotingPower
	}
	return out
}

func AllSigners(vs lib.ValidatorSet) []int {
	out := make([]int, len(vs.ValidatorSet.ValidatorSet))
	for i := range out {
		out[i] = i
	}
	return out
}

// CommitView is the view an honest quorum certifies a block with at this node's height.
func (n *CNode) CommitView() *lib.View {
	return &lib.View{NetworkId: n.C.Config.NetworkID, ChainId: n.C.Config.ChainId, Height: n.C.FSM.Height(),
		RootHeight: n.C.FSM.Height(), Round: 0, Phase: lib.Phase_PRECOMMIT_VOTE}
}

// Committee returns the validator set in force for certificates at rootHeight.
func (n *CNode) Committee(rootHeight uint64) (lib.ValidatorSet, lib.ErrorI) {
	return n.C.LoadCommittee(n.C.LoadRootChainId(n.C.FSM.Height()), rootHeight)
}

// Deliver hands a certified block to the node through the real peer-block path.
func (n *CNode) Deliver(qc *lib.QuorumCertificate, syncing bool) lib.ErrorI {
	n.Enter()
	msg := &lib.BlockMessage{ChainId: n.C.Config.ChainId, BlockAndCertificate: qc, Time: 1}
	_, err := n.C.HandlePeerBlock(msg, syncing)
	return err
}

// Chain drives several nodes over the same genesis.
type Chain struct {
	Nodes []*CNode
	NVals int
}

func NewChain(g *GenesisSpec, nNodes int, tweak func(*lib.Config)) (*Chain, error) {
	RegisterKeys(len(g.Validators) + 8)
	ch := &Chain{NVals: len(g.Validators)}
	for i := 0; i < nNodes; i++ {
		n, err := NewCNode(g.State(), i, tweak)
		if err != nil {
			ch.Close()
			return nil, err
		}
		ch.Nodes = append(ch.Nodes, n)
	}
	return ch, nil
}

func (ch *Chain) Close() {
	for _, n := range ch.Nodes {
		n.Close()
	}
}

// Step: node `leader` proposes a block containing what survives of txs; every node validates and commits.
func (ch *Chain) Step(leader int, txs [][]byte) (*lib.QuorumCertificate, error) {
	ld := ch.Nodes[leader]
	p, err := ld.Propose(txs)
	if err != nil {
		return nil, fmt.Errorf("propose: %v", err)
	}
	view := ld.CommitView()
	vs, err := ld.Committee(view.RootHeight)
	if err != nil {
		return nil, fmt.Errorf("committee: %v", err)
	}
	qc, e := MakeQC(vs, view, BLSKey(ld.KeyIdx).Pub, p, AllSigners(vs))
	if e != nil {
		return nil, e
	}
	for i, n := range ch.Nodes {
		if err := n.Validate(p, CloneQC(qc)); err != nil {
			return nil, fmt.Errorf("node %d validate: %v", i, err)
		}
		if err := n.Deliver(CloneQC(qc), false); err != nil {
			return nil, fmt.Errorf("node %d deliver: %v", i, err)
		}
	}
	return qc, nil
}

func CloneQC(qc *lib.QuorumCertificate) *lib.QuorumCertificate {
	bz, err := lib.Marshal(qc)
	if err != nil {
		panic(err)
	}
	out := new(lib.QuorumCertificate)
	if err := lib.Unmarshal(bz, out); err != nil {
		panic(err)
	}
	return out
}
