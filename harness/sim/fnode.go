package sim

import (
	"context"
	"encoding/json"
	"fmt"
	"os"
	"path/filepath"

	"github.com/canopy-network/canopy/fsm"
	"github.com/canopy-network/canopy/lib"
	"github.com/canopy-network/canopy/lib/crypto"
	"github.com/canopy-network/canopy/store"
)

// FNode is the mini-node of DESIGN.md §4/C04: the real fsm.StateMachine on the real store, driven through the same call
// sequence as Controller.CommitCertificate (ApplyBlock, IndexQC, IndexBlock, Commit, fsm.New) but with harness-built
// certificates (bitmap of who signed chosen by the harness; no BLS verification happens at this layer) and the default
// AcceptAllProposals governance configuration, so that parameter changes, slashes and reward results can be scripted.
type FNode struct {
	BC     *store.VerifBlockCache
	Dir    string
	Config lib.Config
	Store  *store.Store
	FSM    *fsm.StateMachine
	Time   uint64
}

func NewFNode(g *fsm.GenesisState, tweak func(*lib.Config)) (*FNode, error) {
	dir := ScratchDir("fnode")
	c := DefaultConfig(dir)
	if tweak != nil {
		tweak(&c)
	}
	bz, err := json.Marshal(g)
	if err != nil {
		return nil, err
	}
	if err := os.WriteFile(filepath.Join(dir, lib.GenesisFilePath), bz, 0o644); err != nil {
		return nil, err
	}
	bc := store.VerifNewBlockCache()
	store.VerifSwapBlockCache(bc)
	log := Logger()
	st, e := store.NewStoreInMemory(log, c)
	if e != nil {
		return nil, e
	}
	sm, e := fsm.New(c, st, nil, nil, log)
	if e != nil {
		return nil, fmt.Errorf("fsm.New: %v", e)
	}
	return &FNode{BC: bc, Dir: dir, Config: c, Store: st.(*store.Store), FSM: sm, Time: 1000}, nil
}

func (n *FNode) Enter() { store.VerifSwapBlockCache(n.BC) }

func (n *FNode) Close() {
	func() {
		defer func() { _ = recover() }()
		n.FSM.Discard()
		n.Store.Close()
	}()
	os.RemoveAll(n.Dir)
}

// BlockSpec is one scripted block.
type BlockSpec struct {
	Txs        [][]byte
	Proposer   []byte                 // proposer address (20 bytes); default: BLS key 0
	NonSigners map[string]bool        // public keys (as string) of committee members that did NOT sign this block's certificate
	Results    *lib.CertificateResult // certificate results of THIS block (processed by the next block's BeginBlock); nil = 100% to proposer
}

// BlockOutcome is what applying a block produced.
type BlockOutcome struct {
	Header  *lib.BlockHeader
	Results *lib.ApplyBlockResults
	Err     lib.ErrorI // ApplyBlock error: the block could not be produced at all
}

// Apply builds and commits the next block. Failed transactions are dropped exactly as the proposer path does
// (ApplyBlock with allowOversize=true substitutes the successful ones).
func (n *FNode) Apply(b *BlockSpec) *BlockOutcome {
	n.Enter()
	h := n.FSM.Height()
	proposer := b.Proposer
	if proposer == nil {
		proposer = BLSKey(0).Addr
	}
	n.Time += 1000
	hdr := &lib.BlockHeader{Time: n.Time, ProposerAddress: proposer}
	if h > 1 {
		lastQC, err := n.FSM.LoadCertificateHashesOnly(h - 1)
		if err != nil {
			return &BlockOutcome{Err: err}
		}
		hdr.LastQuorumCertificate = lastQC
	}
	blk := &lib.Block{BlockHeader: hdr, Transactions: b.Txs}
	n.FSM.Reset()
	header, res, err := n.FSM.ApplyBlock(context.Background(), blk, true)
	if err != nil {
		n.FSM.Reset()
		return &BlockOutcome{Err: err}
	}
	blk.BlockHeader = header
	// the certificate for this block
	results := b.Results
	if results == nil {
		results = &lib.CertificateResult{RewardRecipients: &lib.RewardRecipients{PaymentPercents: []*lib.PaymentPercents{{Address: proposer, Percent: 100, ChainId: n.Config.ChainId}}}}
	}
	resBz, err := lib.Marshal(results)
	if err != nil {
		return &BlockOutcome{Err: err}
	}
	vs, err := n.FSM.LoadCommittee(n.Config.ChainId, h)
	bitmap := []byte{0}
	if err == nil && vs.MultiKey != nil {
		mk := vs.MultiKey.Copy()
		for i, v := range vs.ValidatorSet.ValidatorSet {
			if b.NonSigners == nil || !b.NonSigners[string(v.PublicKey)] {
				_ = mk.AddSigner(make([]byte, crypto.BLS12381SignatureSize), i)
			}
		}
		bitmap = mk.Bitmap()
	}
	var proposerKey []byte
	for i := 0; i < 64; i++ {
		if string(BLSKey(i).Addr) == string(proposer) {
			proposerKey = BLSKey(i).Pub
			break
		}
	}
	if proposerKey == nil {
		proposerKey = BLSKey(0).Pub
	}
	qc := &lib.QuorumCertificate{
		Header:      &lib.View{NetworkId: n.Config.NetworkID, ChainId: n.Config.ChainId, Height: h, RootHeight: h, Phase: lib.Phase_PRECOMMIT_VOTE},
		Results:     results,
		ResultsHash: crypto.Hash(resBz),
		BlockHash:   header.Hash,
		ProposerKey: proposerKey,
		Signature:   &lib.AggregateSignature{Signature: make([]byte, crypto.BLS12381SignatureSize), Bitmap: bitmap},
	}
	if err = n.Store.IndexQC(qc); err != nil {
		return &BlockOutcome{Err: err}
	}
	if err = n.Store.IndexBlock(&lib.BlockResult{BlockHeader: header, Transactions: res.Results, Events: res.Events}); err != nil {
		return &BlockOutcome{Err: err}
	}
	if _, err = n.Store.Commit(); err != nil {
		return &BlockOutcome{Err: err}
	}
	sm, err := fsm.New(n.Config, n.Store, nil, nil, Logger())
	if err != nil {
		return &BlockOutcome{Err: err}
	}
	n.FSM = sm
	return &BlockOutcome{Header: header, Results: res}
}

// TxBytes marshals a transaction built by the fsm.New*Tx helpers.
func TxBytes(tx lib.TransactionI, err lib.ErrorI) []byte {
	if err != nil {
		panic(err)
	}
	bz, e := lib.Marshal(tx)
	if e != nil {
		panic(e)
	}
	return bz
}
