package sim

import (
	"fmt"

	"github.com/canopy-network/canopy/fsm"
	"github.com/canopy-network/canopy/lib"
	"github.com/canopy-network/canopy/lib/crypto"
)

// TxGen is a stateful generator of mostly-valid transactions of many message types, driven by the current state of a real
// FSM (so that stake/unstake/pause/order transactions usually apply), with a separate stream of invalid ones.
type TxGen struct {
	R       *Rng
	NKeys   int            // keys 0..NKeys-1 may act
	Orders  map[string]int // order id (hex) -> seller key index
	Counts  map[string]int // message kinds generated
	Invalid int
	Fee     uint64
	Stable  int // keys 0..Stable-1 never unstake or pause (keeps a committee alive)
	memoCtr int
	queue   []func(sm *fsm.StateMachine) ([]byte, string) // follow-ups that must come right after a transaction
}

func NewTxGen(r *Rng, nKeys int) *TxGen {
	return &TxGen{R: r, NKeys: nKeys, Orders: map[string]int{}, Counts: map[string]int{}, Fee: 10000}
}

func (g *TxGen) memo() string { g.memoCtr++; return fmt.Sprintf("m%d", g.memoCtr) }

func (g *TxGen) amount(bal uint64) uint64 {
	switch g.R.Intn(8) {
	case 0:
		return 0
	case 1:
		return 1
	case 2:
		return bal // everything (fee then fails or exactly drains)
	case 3:
		if bal > g.Fee {
			return bal - g.Fee // exactly drains after the fee
		}
		return 1
	default:
		if bal == 0 {
			return 1
		}
		return 1 + g.R.U64()%(bal/4+1)
	}
}

// Next returns one transaction (bytes) and a short description.
func (g *TxGen) Next(sm *fsm.StateMachine) ([]byte, string) {
	if len(g.queue) > 0 {
		f := g.queue[0]
		g.queue = g.queue[1:]
		return f(sm)
	}
	h := sm.Height()
	i := g.R.Intn(g.NKeys)
	k := BLSKey(i)
	addr := crypto.NewAddress(k.Addr)
	bal, _ := sm.GetAccountBalance(addr)
	val, _ := sm.GetValidator(addr)
	exists := val != nil && len(val.Address) != 0
	kind := g.R.Intn(100)
	mk := func(name string) func(tx lib.TransactionI, err lib.ErrorI) ([]byte, string) {
		return func(tx lib.TransactionI, err lib.ErrorI) ([]byte, string) {
			g.Counts[name]++
			return TxBytes(tx, err), fmt.Sprintf("%s by key %d", name, i)
		}
	}
	switch {
	case kind < 30:
		to := BLSKey(g.R.Intn(g.NKeys + 3))
		return mk("send")(fsm.NewSendTransaction(k.Priv, crypto.NewAddress(to.Addr), g.amount(bal), 1, 1, g.Fee, h, g.memo()))
	case kind < 40:
		if !exists {
			amt := g.R.Pick(1, 1000, 1000, 5000, 100000)
			out := BLSKey(g.R.Intn(g.NKeys))
			dlg := g.R.Chance(25)
			netAddr := "tcp://n"
			if dlg && g.R.Chance(85) {
				netAddr = "" // delegates carry no net address (CheckNetAddress)
			}
			return mk("stake")(fsm.NewStakeTx(k.Priv, k.Pub, crypto.NewAddress(out.Addr), netAddr, []uint64{1}, amt, 1, 1, g.Fee, h, dlg, g.R.Chance(40), g.memo()))
		}
		fallthrough
	case kind < 50:
		if exists && val.UnstakingHeight == 0 {
			return mk("edit-stake")(fsm.NewEditStakeTx(k.Priv, addr, crypto.NewAddress(val.Output), val.NetAddress, val.Committees, editAmount(g.R, val.StakedAmount), 1, 1, g.Fee, h, g.R.Bool(), g.memo()))
		}
		fallthrough
	case kind < 57:
		if exists && i >= g.Stable {
			return mk("unstake")(fsm.NewUnstakeTx(k.Priv, addr, 1, 1, g.Fee, h, g.memo()))
		}
		fallthrough
	case kind < 64:
		if exists && !val.Delegate && i >= g.Stable {
			if val.MaxPausedHeight == 0 {
				return mk("pause")(fsm.NewPauseTx(k.Priv, addr, 1, 1, g.Fee, h, g.memo()))
			}
			return mk("unpause")(fsm.NewUnpauseTx(k.Priv, addr, 1, 1, g.Fee, h, g.memo()))
		}
		fallthrough
	case kind < 70:
		return mk("subsidy")(fsm.NewSubsidyTx(k.Priv, g.amount(bal), g.R.Pick(1, 1, 2, 2, 1+fsm.EscrowPoolAddend, 1+fsm.HoldingPoolAddend, 2+fsm.LiquidityPoolAddend, fsm.MaxChainId+1), nil, 1, 1, g.Fee, h, g.memo()))
	case kind < 76:
		return mk("dao-transfer")(fsm.NewDAOTransferTx(k.Priv, g.R.Pick(1, 100, 5000, 1<<40), h, h+3, 1, 1, g.Fee, h, g.R.Chance(50), g.memo()))
	case kind < 82:
		amt := g.R.Pick(1000000000, 1000000001, 2000000000, 5)
		tx, err := fsm.NewCreateOrderTx(k.Priv, amt, g.R.Pick(1, 100, 1000), g.R.Pick(1, 2), nil, k.Addr, 1, 1, g.Fee, h, g.memo())
		if err == nil {
			if hash, e := tx.(*lib.Transaction).GetHash(); e == nil {
				g.Orders[Hex(hash[:20])] = i
			}
		}
		return mk("create-order")(tx, err)
	case kind < 88:
		for id, seller := range g.Orders {
			sk := BLSKey(seller)
			if g.R.Bool() {
				return mk("edit-order")(fsm.NewEditOrderTx(sk.Priv, id, g.R.Pick(1000000000, 1500000000, 3000000000), g.R.Pick(1, 77), g.R.Pick(1, 2), nil, sk.Addr, 1, 1, g.Fee, h, g.memo()))
			}
			delete(g.Orders, id)
			return mk("delete-order")(fsm.NewDeleteOrderTx(sk.Priv, id, g.R.Pick(1, 2), 1, 1, g.Fee, h, g.memo()))
		}
		fallthrough
	case kind < 93:
		p := []struct {
			space, key string
			vals       []uint64
		}{
			{fsm.ParamSpaceFee, fsm.ParamSendFee, []uint64{10000, 20000, 1}},
			{fsm.ParamSpaceVal, fsm.ParamUnstakingBlocks, []uint64{1, 2, 5, 0}},               // 0 is rejected by Check()
			{fsm.ParamSpaceVal, fsm.ParamMaxSlashPerCommittee, []uint64{15, 60, 100, 0, 101}}, // 0 and 101 are rejected
			{fsm.ParamSpaceVal, fsm.ParamMaxPauseBlocks, []uint64{3, 5, 0}},
			{fsm.ParamSpaceVal, fsm.ParamMaxCommitteeSize, []uint64{2, 3, 100}},
			{fsm.ParamSpaceVal, fsm.ParamMinimumStakeForValidators, []uint64{0, 500, 2000}},
			{fsm.ParamSpaceGov, fsm.ParamDAORewardPercentage, []uint64{0, 5, 50}},
			{fsm.ParamSpaceCons, fsm.ParamBlockSize, []uint64{1000000, 2000000, 1, 100}}, // 1 and 100 are rejected (below the header size) after the field was set
			{fsm.ParamSpaceVal, fsm.ParamMaxCommittees, []uint64{1, 2, 2, 15}},           // lowering it re-conforms every validator above the limit
		}[g.R.Intn(9)]
		v := p.vals[g.R.Intn(len(p.vals))]
		if g.R.Chance(30) { // the rejected-after-mutation combination, see below
			p.space, p.key, v = fsm.ParamSpaceVal, fsm.ParamUnstakingBlocks, 0
			if g.R.Bool() {
				p.key = fsm.ParamMaxPauseBlocks
			}
		}
		if v == 0 && p.space == fsm.ParamSpaceVal && (p.key == fsm.ParamUnstakingBlocks || p.key == fsm.ParamMaxPauseBlocks) {
			// a parameter change that is rejected by Check(): right behind it, a transaction whose effect depends on that
			// parameter (the rejected value must not be visible to it)
			pause := p.key == fsm.ParamMaxPauseBlocks
			g.queue = append(g.queue, func(sm *fsm.StateMachine) ([]byte, string) {
				for j := g.Stable; j < g.NKeys; j++ {
					kj := BLSKey(j)
					vj, _ := sm.GetValidator(crypto.NewAddress(kj.Addr))
					if vj == nil || len(vj.Address) == 0 || vj.UnstakingHeight != 0 || vj.MaxPausedHeight != 0 || (pause && vj.Delegate) {
						continue
					}
					g.Counts["follow-up-after-rejected-param"]++
					if pause {
						return TxBytes(fsm.NewPauseTx(kj.Priv, crypto.NewAddress(kj.Addr), 1, 1, g.Fee, sm.Height(), g.memo())), fmt.Sprintf("pause right after rejected maxPauseBlocks=0 by key %d", j)
					}
					return TxBytes(fsm.NewUnstakeTx(kj.Priv, crypto.NewAddress(kj.Addr), 1, 1, g.Fee, sm.Height(), g.memo())), fmt.Sprintf("unstake right after rejected unstakingBlocks=0 by key %d", j)
				}
				return g.Next(sm)
			})
		}
		return mk("change-param")(fsm.NewChangeParamTxUint64(k.Priv, p.space, p.key, v, h, h+5, 1, 1, g.Fee, h, g.memo()))
	default:
		// the invalid stream: signed by the wrong key, wrong chain, stale height, someone else's validator
		g.Invalid++
		other := BLSKey((i + 1) % g.NKeys)
		switch g.R.Intn(5) {
		case 0:
			return mk("invalid:unstake-foreign-validator")(fsm.NewUnstakeTx(k.Priv, crypto.NewAddress(other.Addr), 1, 1, g.Fee, h, g.memo()))
		case 1:
			return mk("invalid:wrong-chain")(fsm.NewSendTransaction(k.Priv, crypto.NewAddress(other.Addr), 1, 1, 2, g.Fee, h, g.memo()))
		case 2:
			return mk("invalid:far-future-height")(fsm.NewSendTransaction(k.Priv, crypto.NewAddress(other.Addr), 1, 1, 1, g.Fee, h+100000, g.memo()))
		case 3:
			return mk("invalid:low-fee")(fsm.NewSendTransaction(k.Priv, crypto.NewAddress(other.Addr), 1, 1, 1, 1, h, g.memo()))
		default:
			tx, err := fsm.NewSendTransaction(k.Priv, crypto.NewAddress(other.Addr), 7, 1, 1, g.Fee, h, g.memo())
			if err == nil {
				tx.(*lib.Transaction).Fee += 1 // tamper after signing
			}
			return mk("invalid:tampered-after-signing")(tx, err)
		}
	}
}

// editAmount: the amount of an edit-stake: the current stake, more, or LESS (accepted by the handler - "to avoid race conditions
// due to auto-compounding" - as an edit that adds nothing: the stake must stay what it is)
func editAmount(r *Rng, stake uint64) uint64 {
	switch r.Intn(6) {
	case 0:
		if stake > 1 {
			return stake - 1 - uint64(r.Intn(int(min64u(stake-1, 1000))))
		}
	case 1:
		if stake > 2 {
			return stake / 2
		}
	}
	return stake + r.Pick(0, 0, 1, 500, 5000)
}

func min64u(a, b uint64) uint64 {
	if a < b {
		return a
	}
	return b
}
