package sim

import (
	"encoding/binary"
	"fmt"
	"sort"

	"google.golang.org/protobuf/proto"

	"github.com/canopy-network/canopy/fsm"
	"github.com/canopy-network/canopy/lib"
)

// Scan is a full scan of the ledger-relevant state through the FSM's own getters (works on committed and on pending state).
type Scan struct {
	Accounts   []*fsm.Account
	Pools      []*fsm.Pool
	Validators []*fsm.Validator
	Supply     *fsm.Supply
	Unstaking  [][2]any // (height, address)
	Paused     [][2]any
	Orders     []*lib.SellOrder
	Params     *fsm.ValidatorParams
	Height     uint64
	Chain      uint64
}

func markers(sm *fsm.StateMachine, prefixByte byte) ([][2]any, lib.ErrorI) {
	var out [][2]any
	err := sm.IterateAndExecute(lib.JoinLenPrefix([]byte{prefixByte}), func(k, _ []byte) lib.ErrorI {
		segs := safeDecode(k)
		if len(segs) != 3 || len(segs[1]) != 8 {
			out = append(out, [2]any{uint64(0), k})
			return nil
		}
		out = append(out, [2]any{binary.BigEndian.Uint64(segs[1]), segs[2]})
		return nil
	})
	return out, err
}

func safeDecode(k []byte) (segs [][]byte) {
	defer func() { _ = recover() }()
	return lib.DecodeLengthPrefixed(k)
}

func ScanState(sm *fsm.StateMachine) (*Scan, lib.ErrorI) {
	var err lib.ErrorI
	sc := &Scan{Height: sm.Height(), Chain: sm.Config.ChainId}
	if sc.Accounts, err = sm.GetAccounts(); err != nil {
		return nil, err
	}
	if sc.Pools, err = sm.GetPools(); err != nil {
		return nil, err
	}
	if sc.Validators, err = sm.GetValidators(); err != nil {
		return nil, err
	}
	if sc.Supply, err = sm.GetSupply(); err != nil {
		return nil, err
	}
	if sc.Unstaking, err = markers(sm, 5); err != nil {
		return nil, err
	}
	if sc.Paused, err = markers(sm, 6); err != nil {
		return nil, err
	}
	obs, err := sm.GetOrderBooks()
	if err != nil {
		return nil, err
	}
	if obs != nil {
		for _, ob := range obs.OrderBooks {
			sc.Orders = append(sc.Orders, ob.Orders...)
		}
	}
	pv, err := sm.GetParamsVal()
	if err != nil {
		return nil, err
	}
	// GetParamsVal returns the FSM's cached object, which handlers mutate in place: keep a private copy
	sc.Params = proto.Clone(pv).(*fsm.ValidatorParams)
	return sc, nil
}

func pairList(m map[string]string) string { // keys are fixed-width hex so string order = numeric order
	ks := make([]string, 0, len(m))
	for k := range m {
		ks = append(ks, k)
	}
	sort.Strings(ks)
	out := make([]string, len(ks))
	for i, k := range ks {
		out[i] = m[k]
	}
	return CoqList(out)
}

func poolList(ps []*fsm.Pool) string {
	sort.Slice(ps, func(i, j int) bool { return ps[i].Id < ps[j].Id })
	var out []string
	for _, p := range ps {
		if p.Amount != 0 {
			out = append(out, fmt.Sprintf("(%s, %s)", CoqN(p.Id), CoqN(p.Amount)))
		}
	}
	return CoqList(out)
}

// Lit renders the scan as a Coq [lstate] literal (model/Ledger.v).
func (sc *Scan) Lit() string {
	acc := map[string]string{}
	for _, a := range sc.Accounts {
		if a.Amount != 0 {
			acc[Hex(a.Address)] = fmt.Sprintf("(%s, %s)", AddrN(a.Address), CoqN(a.Amount))
		}
	}
	vals := map[string]string{}
	for _, v := range sc.Validators {
		vals[Hex(v.Address)] = fmt.Sprintf("(%s, mkVal %s %s %s %s %s %s %s)", AddrN(v.Address), CoqN(v.StakedAmount), AddrN(v.Output), CoqNList(v.Committees),
			CoqN(v.MaxPausedHeight), CoqN(v.UnstakingHeight), CoqBool(v.Delegate), CoqBool(v.Compound))
	}
	mk := func(ms [][2]any) string {
		m := map[string]string{}
		for _, e := range ms {
			h := e[0].(uint64)
			a := e[1].([]byte)
			m[fmt.Sprintf("%016x%s", h, Hex(a))] = fmt.Sprintf("(%s, %s)", CoqN(h), AddrN(a))
		}
		return pairList(m)
	}
	ords := map[string]string{}
	for _, o := range sc.Orders {
		ords[Hex(o.Id)] = fmt.Sprintf("(%s, mkOrder %s %s %s %s)", AddrN(o.Id), CoqN(o.Committee), CoqN(o.AmountForSale), AddrN(o.SellersSendAddress), CoqBool(o.BuyerReceiveAddress != nil))
	}
	sup := fmt.Sprintf("(mkSupply %s %s %s %s %s)", CoqN(sc.Supply.Total), CoqN(sc.Supply.Staked), CoqN(sc.Supply.DelegatedOnly), poolList(sc.Supply.CommitteeStaked), poolList(sc.Supply.CommitteeDelegatedOnly))
	p := sc.Params
	prm := fmt.Sprintf("(mkParams %s %s %s %s %s %s %s)", CoqN(p.UnstakingBlocks), CoqN(p.DelegateUnstakingBlocks), CoqN(p.MaxPauseBlocks), CoqN(p.MinimumStakeForValidators),
		CoqN(p.MinimumStakeForDelegates), CoqN(p.MinimumOrderSize), CoqN(p.MaxSlashPerCommittee))
	return fmt.Sprintf("(mkL %s %s %s %s %s %s %s %s %s %s)", pairList(acc), poolList(sc.Pools), pairList(vals), sup, mk(sc.Unstaking), mk(sc.Paused), pairList(ords), prm, CoqN(sc.Height), CoqN(sc.Chain))
}

// ParamsView is what the state machine's own getters (and therefore whatever caches stand in front of the store) report for the
// four parameter spaces, as hex of the deterministic encoding. It is compared before / after work that must leave no trace.
func ParamsView(sm *fsm.StateMachine) string {
	p, err := sm.GetParams()
	if err != nil {
		return "error: " + err.Error()
	}
	bz, e := lib.Marshal(p)
	if e != nil {
		return "error: " + e.Error()
	}
	return Hex(bz)
}
