// Package sim is the shared base of the correspondence harnesses: deterministic keys, a PRNG, a
// mini-node (real fsm.StateMachine on a real in-memory store built from a generated genesis file),
// and printers for Coq literals.
package sim

import (
	"crypto/sha256"
	"encoding/binary"
	"encoding/hex"
	"encoding/json"
	"fmt"
	"os"
	"path/filepath"
	"sort"
	"strings"

	"github.com/canopy-network/canopy/fsm"
	"github.com/canopy-network/canopy/lib"
	"github.com/canopy-network/canopy/lib/crypto"
	"github.com/canopy-network/canopy/store"
)

// ---------------------------------------------------------------- PRNG (splitmix64; one state => exact replay)

type Rng struct{ s uint64 }

func NewRng(seed uint64) *Rng { return &Rng{s: seed*0x9E3779B97F4A7C15 + 0x1234567} }
func (r *Rng) U64() uint64 {
	r.s += 0x9E3779B97F4A7C15
	z := r.s
	z = (z ^ (z >> 30)) * 0xBF58476D1CE4E5B9
	z = (z ^ (z >> 27)) * 0x94D049BB133111EB
	return z ^ (z >> 31)
}
func (r *Rng) Intn(n int) int {
	if n <= 0 {
		return 0
	}
	return int(r.U64() % uint64(n))
}
func (r *Rng) Bool() bool        { return r.U64()&1 == 1 }
func (r *Rng) Chance(p int) bool { return r.Intn(100) < p }
func (r *Rng) Pick(xs ...uint64) uint64 {
	return xs[r.Intn(len(xs))]
}
func (r *Rng) Bytes(n int) []byte {
	b := make([]byte, n)
	for i := range b {
		b[i] = byte(r.U64())
	}
	return b
}
func (r *Rng) Fork() *Rng { return NewRng(r.U64()) }

func SeedFromEnv() uint64 {
	var s uint64 = 1
	if v := os.Getenv("VERIF_SEED"); v != "" {
		fmt.Sscanf(v, "%d", &s)
	}
	return s
}

// ---------------------------------------------------------------- deterministic keys

type Key struct {
	Priv crypto.PrivateKeyI
	Pub  []byte
	Addr []byte
}

var keyCache = map[int]*Key{}

// BLSKey returns the i-th deterministic BLS key (the same on every run and in every harness).
func BLSKey(i int) *Key {
	if k, ok := keyCache[i]; ok {
		return k
	}
	for ctr := 0; ; ctr++ {
		h := sha256.Sum256([]byte(fmt.Sprintf("verif-bls-%d-%d", i, ctr)))
		h[0] &= 0x3f // keep below the group order
		pk, err := crypto.BytesToBLS12381PrivateKey(h[:])
		if err != nil {
			continue
		}
		k := &Key{Priv: pk, Pub: pk.PublicKey().Bytes(), Addr: pk.PublicKey().Address().Bytes()}
		keyCache[i] = k
		return k
	}
}

// ---------------------------------------------------------------- mini node

type Node struct {
	Dir    string
	Config lib.Config
	Store  *store.Store
	FSM    *fsm.StateMachine
	Log    lib.LoggerI
}

// ScratchDir creates a scratch directory under /verif/.scratch (never /tmp).
func ScratchDir(tag string) string {
	base := os.Getenv("VERIF_SCRATCH")
	if base == "" {
		base = "/verif/.scratch"
	}
	_ = os.MkdirAll(base, 0o755)
	d, err := os.MkdirTemp(base, tag+"-")
	if err != nil {
		panic(err)
	}
	return d
}

func DefaultConfig(dir string) lib.Config {
	c := lib.DefaultConfig()
	c.DataDirPath = dir
	c.StoreConfig.InMemory = true
	c.ChainId = 1
	c.P2PConfig.NetworkID = 1
	return c
}

// NewNode builds a real FSM over a real in-memory store from the given genesis.
func NewNode(g *fsm.GenesisState, tweak func(*lib.Config)) (*Node, error) {
	dir := ScratchDir("node")
	c := DefaultConfig(dir)
	if tweak != nil {
		tweak(&c)
	}
	bz, err := json.Marshal(g)
	if err != nil {
		return nil, err
	}
	if err := os.WriteFile(filepath.Join(dir, lib.GenesisFilePath), bz, 0o644); err != nil {
		return nil, err
	}
	log := lib.NewNullLogger()
	st, e := store.NewStoreInMemory(log, c)
	if e != nil {
		return nil, e
	}
	sm, e := fsm.New(c, st, nil, nil, log)
	if e != nil {
		return nil, fmt.Errorf("fsm.New: %v", e)
	}
	return &Node{Dir: dir, Config: c, Store: st.(*store.Store), FSM: sm, Log: log}, nil
}

func (n *Node) Close() {
	if n.FSM != nil {
		n.FSM.Discard()
	}
	if n.Store != nil {
		n.Store.Close()
	}
	os.RemoveAll(n.Dir)
}

// ---------------------------------------------------------------- Coq literal printers

func CoqN(x uint64) string { return fmt.Sprintf("%d%%N", x) }
func CoqBool(b bool) string {
	if b {
		return "true"
	}
	return "false"
}
func CoqBytes(b []byte) string {
	var sb strings.Builder
	sb.WriteString("[")
	for i, x := range b {
		if i > 0 {
			sb.WriteString(";")
		}
		fmt.Fprintf(&sb, "%d", x)
	}
	sb.WriteString("]%N")
	return sb.String()
}
func CoqList(xs []string) string { return "[" + strings.Join(xs, "; ") + "]" }
func CoqNList(xs []uint64) string {
	ss := make([]string, len(xs))
	for i, x := range xs {
		ss[i] = fmt.Sprintf("%d", x)
	}
	return "[" + strings.Join(ss, ";") + "]%N"
}
func Hex(b []byte) string { return hex.EncodeToString(b) }

// AddrN maps a 20-byte address to the pair (hi 32 bits.. ) - we use the full big-endian value as an N.
func AddrN(a []byte) string {
	// big-endian natural number of the address bytes (order-preserving for equal lengths)
	var sb strings.Builder
	sb.WriteString("0x")
	sb.WriteString(hex.EncodeToString(a))
	if len(a) == 0 {
		return "0%N"
	}
	return sb.String() + "%N"
}

func U64BE(x uint64) []byte {
	b := make([]byte, 8)
	binary.BigEndian.PutUint64(b, x)
	return b
}

func SortedKeys[V any](m map[string]V) []string {
	ks := make([]string, 0, len(m))
	for k := range m {
		ks = append(ks, k)
	}
	sort.Strings(ks)
	return ks
}
