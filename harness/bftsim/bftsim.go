// Package bftsim runs several REAL bft.BFT replicas against each other in one process. Every replica has a mock
// bft.Controller (the only interface the consensus code talks to); messages are signed with real BLS keys, travel through
// a bag the harness (the network adversary) controls, and are handed to the real HandleMessage / HandlePhase. Nothing in
// package bft is stubbed: election (VRF sortition), vote aggregation, certificate checks, SafeNode, locks, the pacemaker
// and the NEW_COMMITTEE reset are the implementation's.
package bftsim

import (
	"bytes"
	"fmt"
	"sync"
	"sync/atomic"
	"time"

	"github.com/canopy-network/canopy/bft"
	"github.com/canopy-network/canopy/lib"
	"github.com/canopy-network/canopy/lib/crypto"
	"verifharness/sim"
)

const (
	NetworkID = 1
	ChainID   = 2 // a nested chain: its root chain (id 1) advances independently of its own height
	RootChain = 1
	Height    = 1
)

// Env is one message in flight
type Env struct {
	Seq      int
	From, To int
	Bytes    []byte // the marshalled, signed bft.Message (as on the wire)
	Kind     string // human-readable: phase / vote / pacemaker
	Round    uint64
	Phase    lib.Phase
	Replica  bool // replica (vote) message
}

type Commit struct {
	Replica     int
	Height      uint64
	BlockHash   []byte
	ResultsHash []byte
	Round       uint64
	RootHeight  uint64
}

type Net struct {
	N        int
	Keys     []*sim.Key
	VS       lib.ValidatorSet
	Reps     []*Rep
	Bag      []*Env
	seq      int
	mu       sync.Mutex
	Commits  []Commit
	Trace    []string
	Verbose  bool
	Rewrite  func(e *Env) // the adversary may rewrite the unsigned parts of a message in flight to a Byzantine validator
	blockCtr int
}

type Rep struct {
	Idx       int
	B         *bft.BFT
	Ctl       *Ctl
	Committed *Commit
	Rejected  []string // commit attempts refused by the commit gate
}

// Ctl is the mock controller of one replica
type Ctl struct {
	net               *Net
	rep               *Rep
	mu                sync.Mutex
	rootHeight        uint64
	syncing           atomic.Bool
	lastRootUpdated   uint64
	Sent              []*bft.Message  // every message this replica signed and sent since the harness last cleared it
	MinEvidenceHeight uint64          // scripted: LoadMinimumEvidenceHeight (when UnstakingBlocks is 0)
	UnstakingBlocks   uint64          // when > 0 the answer is computed as the root chain does: (root height asked for) - unstaking blocks
	AlreadySlashed    map[string]bool // scripted: "<address hex>@<root height>" pairs for which IsValidDoubleSigner answers false
}

func (n *Net) logf(f string, a ...any) {
	s := fmt.Sprintf(f, a...)
	n.Trace = append(n.Trace, s)
	if n.Verbose {
		fmt.Println(s)
	}
}

// New builds n replicas with the given voting powers at chain height 1 and the given root height
func New(powers []uint64, rootHeight uint64) (*Net, error) {
	n := &Net{N: len(powers)}
	cv := &lib.ConsensusValidators{}
	for i, p := range powers {
		k := sim.BLSKey(i)
		n.Keys = append(n.Keys, k)
		cv.ValidatorSet = append(cv.ValidatorSet, &lib.ConsensusValidator{PublicKey: k.Pub, VotingPower: p, NetAddress: fmt.Sprintf("tcp://n%d", i)})
	}
	vs, err := lib.NewValidatorSet(cv)
	if err != nil {
		return nil, err
	}
	n.VS = vs
	for i := range powers {
		r := &Rep{Idx: i}
		c := &Ctl{net: n, rep: r, rootHeight: rootHeight}
		r.Ctl = c
		cfg := lib.DefaultConfig()
		cfg.ChainId = ChainID
		cfg.P2PConfig.NetworkID = NetworkID
		cfg.RunVDF = false
		cfg.CommitTimeoutMS = 1
		b, e := bft.New(cfg, n.Keys[i].Priv, rootHeight, Height, c, false, nil, lib.NewNullLogger())
		if e != nil {
			return nil, e
		}
		r.B = b
		// what Start() does before its loop
		b.ValidatorSet, _ = c.LoadCommittee(RootChain, rootHeight)
		b.CommitteeData, _ = c.LoadCommitteeData()
		n.Reps = append(n.Reps, r)
	}
	return n, nil
}

func (n *Net) IndexOf(pub []byte) int {
	for i, k := range n.Keys {
		if bytes.Equal(k.Pub, pub) {
			return i
		}
	}
	return -1
}

// ---------------------------------------------------------------- bft.Controller

func (c *Ctl) Lock()                   { c.mu.Lock() }
func (c *Ctl) Unlock()                 { c.mu.Unlock() }
func (c *Ctl) ChainHeight() uint64     { return Height }
func (c *Ctl) RootChainHeight() uint64 { return c.rootHeight }
func (c *Ctl) RootHeightNow() uint64   { return c.rootHeight }
// SetLastRootUpdated sets CommitteeData.LastRootHeightUpdated as this replica's controller reports it (the root height at which the
// committee last changed: a proposal built before it is refused)
func (c *Ctl) SetLastRootUpdated(h uint64) { c.lastRootUpdated = h }

func (c *Ctl) SetRoot(h uint64) {
	if h > c.rootHeight {
		c.rootHeight = h
	}
}

// MakeProposal builds a distinct valid block and certificate results
func (n *Net) MakeProposal(proposer int, tag uint64) ([]byte, *lib.CertificateResult) {
	n.blockCtr++
	h32 := func(b byte) []byte { return bytes.Repeat([]byte{b}, 32) }
	blk := &lib.Block{BlockHeader: &lib.BlockHeader{
		Height: Height, NetworkId: NetworkID, Time: 1_000_000 + tag, ProposerAddress: n.Keys[proposer].Addr,
		StateRoot: h32(1), TransactionRoot: h32(2), ValidatorRoot: h32(3), NextValidatorRoot: h32(4), LastBlockHash: h32(5),
		NumTxs: tag, // makes blocks with different tags different
	}}
	if _, err := blk.Hash(); err != nil {
		panic(err)
	}
	bz, err := lib.Marshal(blk)
	if err != nil {
		panic(err)
	}
	res := &lib.CertificateResult{RewardRecipients: &lib.RewardRecipients{PaymentPercents: []*lib.PaymentPercents{
		{Address: n.Keys[proposer].Addr, Percent: 100, ChainId: ChainID}}}}
	return bz, res
}

func (c *Ctl) ProduceProposal(be *bft.ByzantineEvidence, vdf *crypto.VDF) (uint64, []byte, *lib.CertificateResult, lib.ErrorI) {
	blk, res := c.net.MakeProposal(c.rep.Idx, uint64(c.net.blockCtr+1)*1000+c.rep.B.Round)
	return c.rootHeight, blk, res, nil
}
func (c *Ctl) ValidateProposal(rcBuildHeight uint64, qc *lib.QuorumCertificate, evidence *bft.ByzantineEvidence) (*lib.BlockResult, lib.ErrorI) {
	block, err := qc.CheckProposalBasic(Height-1+0, NetworkID, ChainID)
	_ = block
	if err != nil {
		// CheckProposalBasic compares with the FSM height (the height being decided); try that form
		block, err = qc.CheckProposalBasic(Height, NetworkID, ChainID)
		if err != nil {
			return nil, err
		}
	}
	return &lib.BlockResult{BlockHeader: block.BlockHeader}, nil
}
func (c *Ctl) LoadCertificate(height uint64) (*lib.QuorumCertificate, lib.ErrorI) { return nil, nil }
func (c *Ctl) CommitCertificate(qc *lib.QuorumCertificate, block *lib.Block, blockResult *lib.BlockResult, ts uint64) lib.ErrorI {
	return nil
}
func (c *Ctl) GossipBlock(certificate *lib.QuorumCertificate, sender []byte, timestamp uint64) {}
func (c *Ctl) GossipConsensus(message *bft.Message, senderPubExclude []byte)                   {}

// SelfSendBlock is where a replica commits: the commit gate of controller.HandlePeerBlock (non-syncing) is reproduced
func (c *Ctl) SelfSendBlock(qc *lib.QuorumCertificate, timestamp uint64) {
	n := c.net
	n.mu.Lock()
	defer n.mu.Unlock()
	reject := func(e lib.ErrorI) {
		c.rep.Rejected = append(c.rep.Rejected, e.Error())
		n.logf("  replica %d: commit REFUSED by the gate: %s", c.rep.Idx, e.Error())
	}
	if err := qc.CheckBasic(); err != nil {
		reject(err)
		return
	}
	vs, _ := c.LoadCommittee(RootChain, qc.Header.RootHeight)
	partial, err := qc.Check(vs, c.LoadMaxBlockSize(), &lib.View{NetworkId: NetworkID, ChainId: ChainID}, false)
	if err != nil {
		reject(err)
		return
	}
	if partial {
		reject(lib.ErrNoMaj23())
		return
	}
	_, err = qc.CheckProposalBasic(Height, NetworkID, ChainID)
	if err == nil && qc.Header.Phase != lib.Phase_PRECOMMIT_VOTE {
		reject(lib.ErrWrongPhase())
		return
	}
	if err != nil {
		reject(err)
		return
	}
	if c.rep.Committed != nil {
		return
	}
	cm := Commit{Replica: c.rep.Idx, Height: qc.Header.Height, BlockHash: bytes.Clone(qc.BlockHash), ResultsHash: bytes.Clone(qc.ResultsHash),
		Round: qc.Header.Round, RootHeight: qc.Header.RootHeight}
	c.rep.Committed = &cm
	n.Commits = append(n.Commits, cm)
	n.logf("  replica %d COMMITS block %s (qc view rootHeight=%d round=%d)", c.rep.Idx, lib.BytesToTruncatedString(qc.BlockHash), qc.Header.RootHeight, qc.Header.Round)
}

func (c *Ctl) enqueue(to int, m *bft.Message) {
	bz, err := lib.Marshal(m)
	if err != nil {
		panic(err)
	}
	n := c.net
	e := &Env{Seq: n.seq, From: c.rep.Idx, To: to, Bytes: bz}
	n.seq++
	switch {
	case m.IsPacemakerMessage():
		e.Kind, e.Round, e.Phase, e.Replica = "PACEMAKER", m.Qc.Header.Round, m.Qc.Header.Phase, true
	case m.IsReplicaMessage():
		e.Kind, e.Round, e.Phase, e.Replica = "VOTE:"+m.Qc.Header.Phase.String(), m.Qc.Header.Round, m.Qc.Header.Phase, true
	default:
		e.Kind, e.Round, e.Phase = m.Header.Phase.String(), m.Header.Round, m.Header.Phase
	}
	n.Bag = append(n.Bag, e)
}

func (c *Ctl) SendToReplicas(replicas lib.ValidatorSet, msg lib.Signable) {
	if err := msg.Sign(c.net.Keys[c.rep.Idx].Priv); err != nil {
		panic(err)
	}
	m := msg.(*bft.Message)
	c.Sent = append(c.Sent, m)
	for _, v := range replicas.ValidatorSet.ValidatorSet {
		if to := c.net.IndexOf(v.PublicKey); to >= 0 {
			c.enqueue(to, m)
		}
	}
}
func (c *Ctl) SendToProposer(msg lib.Signable) {
	if err := msg.Sign(c.net.Keys[c.rep.Idx].Priv); err != nil {
		panic(err)
	}
	c.Sent = append(c.Sent, msg.(*bft.Message))
	if to := c.net.IndexOf(c.rep.B.ProposerKey); to >= 0 {
		c.enqueue(to, msg.(*bft.Message))
	}
}
func (c *Ctl) LoadRootChainId(height uint64) uint64                        { return RootChain }
func (c *Ctl) LoadIsOwnRoot() bool                                         { return false }
func (c *Ctl) Syncing() *atomic.Bool                                       { return &c.syncing }
func (c *Ctl) ResetFSM()                                                   {}
func (c *Ctl) SendCertificateResultsTx(certificate *lib.QuorumCertificate) {}
func (c *Ctl) LoadCommittee(rootChainId, rootHeight uint64) (lib.ValidatorSet, lib.ErrorI) {
	return c.net.VS, nil // committee-preserving root-chain updates: the same set at every root height
}
func (c *Ctl) LoadCommitteeData() (*lib.CommitteeData, lib.ErrorI) {
	return &lib.CommitteeData{ChainId: ChainID, LastRootHeightUpdated: c.lastRootUpdated, LastChainHeightUpdated: 0}, nil
}
func (c *Ctl) LoadLastProposers(rootHeight uint64) (*lib.Proposers, lib.ErrorI) {
	return &lib.Proposers{Addresses: [][]byte{{}, {}, {}, {}, {}}}, nil
}
func (c *Ctl) LoadMinimumEvidenceHeight(rootChainId, rootHeight uint64) (*uint64, lib.ErrorI) {
	z := c.MinEvidenceHeight
	if c.UnstakingBlocks > 0 {
		// what fsm.LoadMinimumEvidenceHeight answers on the root chain's state AS OF the height it is asked about
		z = 0
		if rootHeight > c.UnstakingBlocks {
			z = rootHeight - c.UnstakingBlocks
		}
	}
	return &z, nil
}
func (c *Ctl) IsValidDoubleSigner(rootChainId, rootHeight uint64, address []byte) bool {
	return !c.AlreadySlashed[fmt.Sprintf("%x@%d", address, rootHeight)]
}
func (c *Ctl) LoadMaxBlockSize() int { return 1 << 20 }

// ---------------------------------------------------------------- driving

// Step fires the phase timer of replica i (HandlePhase under the controller lock, as Start() does)
func (n *Net) Step(i int) {
	r := n.Reps[i]
	if r.Committed != nil {
		return
	}
	wasCommitProcess := r.B.Phase == bft.CommitProcess
	r.Ctl.Lock()
	r.B.HandlePhase()
	r.Ctl.Unlock()
	if wasCommitProcess {
		// the commit runs in a goroutine (SelfSendBlock then GossipBlock): wait for it
		for k := 0; k < 200; k++ {
			n.mu.Lock()
			done := r.Committed != nil || len(r.Rejected) > 0 || r.B.Phase != bft.CommitProcess
			n.mu.Unlock()
			if done {
				break
			}
			time.Sleep(time.Millisecond)
		}
		time.Sleep(3 * time.Millisecond)
	}
}

// RootUpdate delivers a root-chain block to replica i: the NEW_COMMITTEE branch of Start()
func (n *Net) RootUpdate(i int, rootHeight uint64) {
	r := n.Reps[i]
	if r.Committed != nil {
		return
	}
	r.Ctl.SetRoot(rootHeight)
	r.Ctl.Lock()
	r.B.NewHeight(true)
	r.Ctl.Unlock()
}

// Deliver hands the message to the recipient's HandleMessage (a fresh unmarshalled copy, as from the wire)
func (n *Net) Deliver(e *Env) lib.ErrorI {
	r := n.Reps[e.To]
	if r.Committed != nil {
		return nil
	}
	m := new(bft.Message)
	if err := lib.Unmarshal(e.Bytes, m); err != nil {
		return err
	}
	return r.B.HandleMessage(m)
}

// Flush delivers (keep==true) or drops every message in the bag, in order
func (n *Net) Flush(keep func(e *Env) bool) {
	bag := n.Bag
	n.Bag = nil
	for _, e := range bag {
		if keep == nil || keep(e) {
			if n.Rewrite != nil {
				n.Rewrite(e)
			}
			if err := n.Deliver(e); err != nil && n.Verbose {
				n.logf("    deliver %d->%d %s r%d: %s", e.From, e.To, e.Kind, e.Round, err.Error())
			}
		}
	}
}

// Decode returns the message of an envelope
func (e *Env) Decode() *bft.Message {
	m := new(bft.Message)
	if err := lib.Unmarshal(e.Bytes, m); err != nil {
		panic(err)
	}
	return m
}

// Inject signs a hand-made message with replica from's key and puts it in the bag for every recipient in to
func (n *Net) Inject(from int, m *bft.Message, to ...int) {
	if err := m.Sign(n.Keys[from].Priv); err != nil {
		panic(err)
	}
	for _, t := range to {
		n.Reps[from].Ctl.enqueue(t, m)
	}
}

// LockOf describes the lock of replica i
func (n *Net) LockOf(i int) string {
	h := n.Reps[i].B.HighQC
	if h == nil {
		return "none"
	}
	return fmt.Sprintf("%s@(rootHeight %d, round %d)", lib.BytesToTruncatedString(h.BlockHash), h.Header.RootHeight, h.Header.Round)
}

// Disagreement returns two commits of different blocks / results at the same height among the given correct replicas
func (n *Net) Disagreement(correct []int) (a, b *Commit) {
	isCorrect := map[int]bool{}
	for _, i := range correct {
		isCorrect[i] = true
	}
	for i := range n.Commits {
		for j := i + 1; j < len(n.Commits); j++ {
			x, y := &n.Commits[i], &n.Commits[j]
			if !isCorrect[x.Replica] || !isCorrect[y.Replica] || x.Height != y.Height {
				continue
			}
			if !bytes.Equal(x.BlockHash, y.BlockHash) || !bytes.Equal(x.ResultsHash, y.ResultsHash) {
				return x, y
			}
		}
	}
	return nil, nil
}
