module verifharness

go 1.26.0

require (
	github.com/canopy-network/canopy v0.0.0
	github.com/cockroachdb/pebble/v2 v2.1.6
	github.com/drand/kyber v1.3.2
	github.com/ethereum/go-ethereum v1.17.4
	google.golang.org/protobuf v1.36.11
)

require (
	filippo.io/edwards25519 v1.2.0 // indirect
	github.com/DataDog/zstd v1.5.7 // indirect
	github.com/RaduBerinde/axisds v0.1.0 // indirect
	github.com/RaduBerinde/btreemap v0.0.0-20260105202824-d3184786f603 // indirect
	github.com/alecthomas/units v0.0.0-20240927000941-0f3dac36c52b // indirect
	github.com/allegro/bigcache/v3 v3.1.0 // indirect
	github.com/beorn7/perks v1.0.1 // indirect
	github.com/bits-and-blooms/bitset v1.24.5 // indirect
	github.com/cenkalti/backoff/v4 v4.3.0 // indirect
	github.com/cespare/xxhash/v2 v2.3.0 // indirect
	github.com/cockroachdb/crlib v0.0.0-20251122031428-fe658a2dbda1 // indirect
	github.com/cockroachdb/errors v1.14.0 // indirect
	github.com/cockroachdb/logtags v0.0.0-20241215232642-bb51bb14a506 // indirect
	github.com/cockroachdb/redact v1.1.8 // indirect
	github.com/cockroachdb/swiss v0.0.0-20251224182025-b0f6560f979b // indirect
	github.com/cockroachdb/tokenbucket v0.0.0-20250429170803-42689b6311bb // indirect
	github.com/consensys/gnark-crypto v0.20.1 // indirect
	github.com/crate-crypto/go-eth-kzg v1.5.0 // indirect
	github.com/drand/kyber-bls12381 v0.3.4 // indirect
	github.com/fatih/color v1.19.0 // indirect
	github.com/getsentry/sentry-go v0.47.0 // indirect
	github.com/gogo/protobuf v1.3.2 // indirect
	github.com/golang/snappy v1.0.0 // indirect
	github.com/google/btree v1.1.3 // indirect
	github.com/hashicorp/golang-lru/v2 v2.0.7 // indirect
	github.com/holiman/uint256 v1.3.2 // indirect
	github.com/kilic/bls12-381 v0.1.0 // indirect
	github.com/klauspost/compress v1.19.0 // indirect
	github.com/kr/pretty v0.3.1 // indirect
	github.com/kr/text v0.2.0 // indirect
	github.com/libp2p/go-buffer-pool v0.1.0 // indirect
	github.com/mattn/go-colorable v0.1.15 // indirect
	github.com/mattn/go-isatty v0.0.22 // indirect
	github.com/minio/minlz v1.1.1 // indirect
	github.com/munnerz/goautoneg v0.0.0-20191010083416-a7dc8b61c822 // indirect
	github.com/mxk/go-flowrate v0.0.0-20140419014527-cca7078d478f // indirect
	github.com/oasisprotocol/curve25519-voi v0.0.0-20251114093237-2ab5a27a1729 // indirect
	github.com/phuslu/iploc v1.0.20260701 // indirect
	github.com/pkg/errors v0.9.1 // indirect
	github.com/prometheus/client_golang v1.23.2 // indirect
	github.com/prometheus/client_model v0.6.2 // indirect
	github.com/prometheus/common v0.69.0 // indirect
	github.com/prometheus/procfs v0.21.1 // indirect
	github.com/rogpeppe/go-internal v1.15.0 // indirect
	golang.org/x/crypto v0.53.0 // indirect
	golang.org/x/exp v0.0.0-20260611194520-c48552f49976 // indirect
	golang.org/x/mod v0.37.0 // indirect
	golang.org/x/net v0.56.0 // indirect
	golang.org/x/sync v0.21.0 // indirect
	golang.org/x/sys v0.46.0 // indirect
	golang.org/x/text v0.38.0 // indirect
	gopkg.in/natefinch/lumberjack.v2 v2.2.1 // indirect
)

replace github.com/canopy-network/canopy => /repo
