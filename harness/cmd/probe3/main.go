package main

import (
	"fmt"

	"github.com/canopy-network/canopy/fsm"
	"github.com/canopy-network/canopy/lib"
	"github.com/canopy-network/canopy/lib/crypto"
	"verifharness/sim"
)

func main() {
	g := &sim.GenesisSpec{}
	p := fsm.DefaultParams()
	p.Validator.UnstakingBlocks = 2
	g.Params = p
	for i := 0; i < 4; i++ {
		g.Validators = append(g.Validators, sim.StdValidator(i, 1000000+uint64(i)))
	}
	for i := 0; i < 10; i++ {
		g.Accounts = append(g.Accounts, &fsm.Account{Address: sim.BLSKey(i).Addr, Amount: 5_000_000_000})
	}
	sim.RegisterKeys(16)
	a, err := sim.NewCNode(g.State(), 0, nil)
	if err != nil {
		panic(err)
	}
	b, err := sim.NewCNode(g.State(), 1, nil)
	if err != nil {
		panic(err)
	}
	a.Enter()
	h := a.C.FSM.Height()
	k0, k3 := sim.BLSKey(0), sim.BLSKey(3)
	txs := [][]byte{
		sim.TxBytes(fsm.NewChangeParamTxUint64(k0.Priv, fsm.ParamSpaceVal, fsm.ParamUnstakingBlocks, 0, h, h+5, 1, 1, 10000, h, "p")),
		sim.TxBytes(fsm.NewUnstakeTx(k3.Priv, crypto.NewAddress(k3.Addr), 1, 1, 10000, h, "u")),
	}
	a.ApproveGov(txs)
	b.ApproveGov(txs)
	prop, perr := a.Propose(txs)
	fmt.Println("propose err:", perr)
	blk := new(lib.Block)
	_ = lib.Unmarshal(prop.Block, blk)
	fmt.Println("included txs:", len(blk.Transactions), "state root", lib.BytesToTruncatedString(blk.BlockHeader.StateRoot))
	view := a.CommitView()
	vs, _ := a.Committee(view.RootHeight)
	qc, _ := sim.MakeQC(vs, view, k0.Pub, prop, sim.AllSigners(vs))
	fmt.Println("validate on b:", b.Validate(prop, qc))
}
