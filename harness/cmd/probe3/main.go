package main

import (
	"fmt"
	"runtime/debug"
	"strings"

	"github.com/canopy-network/canopy/lib"
	"github.com/canopy-network/canopy/store"
)

func main() {
	for _, w := range []int{8, 16, 160} {
		v, _ := store.VerifNewSMT(w, lib.NewNullLogger())
		var keys [][]byte
		var ops []store.VerifOp
		for i := 0; i < 12; i++ {
			k := []byte(fmt.Sprintf("key-%d", i))
			keys = append(keys, k)
			ops = append(ops, store.VerifOp{Key: k, Value: []byte{byte(i), 1}})
		}
		root, err := v.Commit(ops, false)
		if err != nil {
			panic(err)
		}
		stat := map[string]int{}
		first := map[string]string{}
		for i, a := range keys {
			pa, e := v.Proof(a)
			if e != nil {
				stat["proof-err"]++
				continue
			}
			for j, b := range keys {
				for _, mem := range []bool{true, false} {
					func() {
						defer func() {
							if p := recover(); p != nil {
								k := fmt.Sprintf("panic mem=%v same=%v", mem, i == j)
								stat[k]++
								if first[k] == "" {
									st := string(debug.Stack())
									idx := strings.Index(st, "store/smt.go")
									first[k] = fmt.Sprint(p) + " @ " + st[idx:idx+60]
								}
							}
						}()
						ok, e := v.Verify(b, []byte{byte(j), 1}, mem, root, pa)
						stat[fmt.Sprintf("mem=%v same=%v ok=%v err=%v", mem, i == j, ok, e != nil)]++
					}()
				}
			}
			// absent key
			abs := []byte(fmt.Sprintf("absent-%d", i))
			pb, _ := v.Proof(abs)
			ok, e := v.Verify(abs, nil, false, root, pb)
			stat[fmt.Sprintf("absent honest nonmember ok=%v err=%v", ok, e != nil)]++
			ok, e = v.Verify(abs, []byte{1}, true, root, pb)
			stat[fmt.Sprintf("absent claimed member ok=%v err=%v", ok, e != nil)]++
		}
		fmt.Println("width", w)
		for k, n := range stat {
			fmt.Printf("   %-50s %d   %s\n", k, n, first[k])
		}
		v.Close()
	}
}
