package main

import (
	"encoding/binary"
	"sync"
	"time"

	"github.com/canopy-network/canopy/lib"
	"github.com/canopy-network/canopy/p2p"
	"verifharness/sim"
)

// interleaveStress: one topic, several goroutines sending single-packet messages as fast as they can while others send two-packet
// messages: the packets of a message must stay together on the topic's queue whatever the other senders do. Every delivered message
// must be one of the messages sent (small ones carry their sender and a counter; big ones are a tag byte repeated, with the length
// naming the message).
func interleaveStress(outDir string, smallSenders, smallEach, bigSenders, bigEach int) {
	chunk := p2p.VerifMaxDataChunkSize
	a, b, cleanup := pair()
	defer cleanup()
	conn := a.VerifConn(b.pub)
	if conn == nil {
		return
	}
	topic := lib.Topic_TX
	var wg sync.WaitGroup
	for s := 0; s < smallSenders; s++ {
		wg.Add(1)
		go func(s int) {
			defer wg.Done()
			for i := 0; i < smallEach; i++ {
				m := make([]byte, 9)
				m[0] = byte(0xA0 + s)
				binary.BigEndian.PutUint64(m[1:], uint64(i))
				if !conn.Send(topic, m) {
					return
				}
			}
		}(s)
	}
	for s := 0; s < bigSenders; s++ {
		wg.Add(1)
		go func(s int) {
			defer wg.Done()
			for i := 0; i < bigEach; i++ {
				m := make([]byte, chunk+1+i)
				for j := range m {
					m[j] = byte(0xB0 + s)
				}
				if !conn.Send(topic, m) {
					return
				}
			}
		}(s)
	}
	done := make(chan struct{})
	go func() { wg.Wait(); close(done) }()
	want := smallSenders*smallEach + bigSenders*bigEach
	got, invented := 0, 0
	idle := time.Now()
	for got < want && time.Since(idle) < 5*time.Second {
		select {
		case m := <-b.Inbox(topic):
			idle = time.Now()
			got++
			ok := false
			switch {
			case len(m.Message) == 9 && m.Message[0] >= 0xA0 && int(m.Message[0]) < 0xA0+smallSenders:
				ok = binary.BigEndian.Uint64(m.Message[1:]) < uint64(smallEach)
			case len(m.Message) > chunk && len(m.Message) <= chunk+bigEach:
				tag := m.Message[0]
				ok = tag >= 0xB0 && int(tag) < 0xB0+bigSenders
				for _, x := range m.Message {
					if x != tag {
						ok = false
						break
					}
				}
			}
			if !ok {
				invented++
				if invented == 1 {
					sim.Direct(outDir, map[string]any{"finding": "message-nobody-sent-delivered", "kind": "under concurrent single-packet and multi-packet senders on one topic a message was delivered that no sender sent (merged or truncated)",
						"length": len(m.Message), "first_byte": m.Message[0]})
				}
			}
		case <-time.After(100 * time.Millisecond):
		}
	}
	st.Cases++
	st.Kinds["interleave-stress"]++
	st.Sent += want
	st.Recv += got
}
