package main

import (
	"bytes"
	"fmt"
	"time"

	"github.com/canopy-network/canopy/lib"
	"github.com/canopy-network/canopy/p2p"
	"verifharness/sim"
)

// stopCases: Stop() runs on another goroutine (the send service on a write error, the heartbeat on a time-out, AddPeer replacing a
// duplicate) while the receive service is between two packets of a message; the packet it has already read off the socket is
// still handled. Whatever reaches the inbox afterwards must be a message that was sent - the tail of one is not.
func stopCases(r *sim.Rng, n int, outDir string) {
	for i := 0; i < n; i++ {
		topic := lib.Topic(r.Intn(3))
		v := p2p.VerifNewStream(topic, 4)
		head := bytes.Repeat([]byte{'H'}, 1+r.Intn(40))
		tail := bytes.Repeat([]byte{'T'}, 1+r.Intn(10))
		whole := append(append([]byte{}, head...), tail...)
		d1, _, e1 := v.HandlePacket(topic, false, head)
		v.Cleanup()
		d2, _, e2 := v.HandlePacket(topic, true, tail)
		st.Cases++
		st.Kinds["stop-between-packets"]++
		for _, m := range append(d1, d2...) {
			if !bytes.Equal(m, whole) {
				sim.Direct(outDir, map[string]any{"finding": "truncated-message-delivered-after-stop", "kind": "a message that was never sent (the tail of one) reached the inbox after the connection was stopped between two of its packets",
					"sent_len": len(whole), "delivered_len": len(m), "errors": fmt.Sprint(e1, e2)})
			}
		}
	}
}

// heartbeatCases: the heartbeat queue is full (a peer that floods pings and never reads); the receive goroutine is answering a ping
// and the heartbeat goroutine is sending one when a blocked write times out and Stop() cleans the streams up. Nothing may panic:
// a panic in a connection goroutine ends the process.
func heartbeatCases(n int, outDir string) {
	for i := 0; i < n; i++ {
		hb := p2p.VerifNewHeartbeatConn(1)
		hb.SendHeartbeat() // fills the queue
		res := make(chan string, 2)
		guarded := func(f func()) {
			go func() {
				defer func() {
					if p := recover(); p != nil {
						res <- fmt.Sprint(p)
						return
					}
					res <- ""
				}()
				f()
			}()
		}
		guarded(hb.Pong)
		guarded(hb.SendHeartbeat)
		time.Sleep(200 * time.Millisecond)
		hb.Cleanup()
		st.Cases++
		st.Kinds["heartbeat-vs-stop"]++
		deadline := time.After(p2p.VerifQueueSendTimeout + 3*time.Second)
		for k := 0; k < 2; k++ {
			select {
			case p := <-res:
				if p != "" {
					sim.Direct(outDir, map[string]any{"finding": "heartbeat-panics-on-stopped-connection", "kind": "a heartbeat goroutine panicked when the connection was stopped while the heartbeat queue was full", "panic": p})
				}
			case <-deadline:
				sim.Direct(outDir, map[string]any{"finding": "heartbeat-hangs-on-stopped-connection", "kind": "a heartbeat goroutine did not return after the connection was stopped"})
				k = 2
			}
		}
	}
}
