// c18: correspondence harness for property C18 (multiplexed peer messaging).
//
//	split      : the real packetisation (p2p.split through VerifSplit) on buffer lengths around the chunk limit, for small limits
//	             and for the real limit (maxDataChunkSize), compared with Mux.split.
//	assembler  : random packet sequences over several topics through real Stream.handlePacket instances (VerifStream), compared
//	             with Mux.handle_packet packet by packet.
//	concurrent : two real P2P nodes connected over net.Pipe (real handshake, real encrypted frames, real send / receive services);
//	             several goroutines call MultiConn.Send concurrently, on different topics AND on the same topic, with messages
//	             of 0, 1, chunk-1, chunk, chunk+1, several chunks and random sizes; the receiver's inboxes are drained and every
//	             delivered message is matched against the sent ones by topic, length and content; Coq judges the id lists.
package main

import (
	"bytes"
	"crypto/sha256"
	"flag"
	"fmt"
	"net"
	"sync"
	"time"

	"github.com/canopy-network/canopy/lib"
	"github.com/canopy-network/canopy/lib/crypto"
	"github.com/canopy-network/canopy/p2p"
	"verifharness/sim"
)

type stats struct {
	Cases    int            `json:"cases"`
	Distinct int            `json:"distinct_nontrivial"`
	Kinds    map[string]int `json:"kinds"`
	Sent     int            `json:"messages_sent"`
	Recv     int            `json:"messages_delivered"`
	Bytes    int            `json:"bytes_sent"`
	Samples  []string       `json:"samples"`
}

var st = &stats{Kinds: map[string]int{}}

var outDirG = "."

func splitCases(r *sim.Rng, n int, cw *sim.CaseWriter) {
	add := func(lim, ln int) {
		buf := bytes.Repeat([]byte{7}, ln)
		cs := p2p.VerifSplit(buf, lim)
		var sizes []uint64
		for _, c := range cs {
			sizes = append(sizes, uint64(len(c)))
		}
		cw.Add(fmt.Sprintf("mkSC %s %s %s", sim.CoqN(uint64(lim)), sim.CoqN(uint64(ln)), sim.CoqNList(sizes)), map[string]any{"lim": lim, "len": ln})
		st.Cases++
		st.Distinct++
		st.Kinds["split"]++
	}
	for i := 0; i < n; i++ {
		lim := int(r.Pick(1, 2, 3, 7, 64, 1000))
		ln := int(r.Pick(0, 1, uint64(lim-1), uint64(lim), uint64(lim+1), uint64(2*lim-1), uint64(2*lim), uint64(2*lim+1), uint64(r.Intn(6*lim+3))))
		add(lim, ln)
	}
	real := p2p.VerifMaxDataChunkSize
	for _, ln := range []int{real - 1, real, real + 1} {
		add(real, ln)
	}
}

// overflowCase: the consumer of a topic has fallen behind: the inbox of the topic is full, further messages are dropped ("or not
// at all"). After the consumer has caught up, the next message must arrive alone and whole - nothing of the dropped ones in it.
func overflowCase(r *sim.Rng, nd node, outDir string) {
	streams := nd.VerifNewStreams()
	topic := lib.Topic(r.Intn(3))
	s := streams[topic]
	if s == nil {
		return
	}
	s.Drain()
	capacity := s.InboxCap()
	extra := 1 + r.Intn(3)
	for i := 0; i < capacity+extra; i++ {
		msg := []byte(fmt.Sprintf("m%06d", i))
		if r.Chance(20) { // two packets
			_, _ = s.HandlePacketNoDrain(topic, false, msg[:3])
			_, _ = s.HandlePacketNoDrain(topic, true, msg[3:])
		} else {
			_, _ = s.HandlePacketNoDrain(topic, true, msg)
		}
	}
	got := s.Drain()
	bad := len(got) > capacity
	for i, g := range got {
		if string(g) != fmt.Sprintf("m%06d", i) {
			bad = true
		}
	}
	want := []byte("the-message-after-the-consumer-caught-up")
	_, _ = s.HandlePacketNoDrain(topic, false, want[:10])
	_, _ = s.HandlePacketNoDrain(topic, true, want[10:])
	after := s.Drain()
	if bad || len(after) != 1 || string(after[0]) != string(want) {
		var show string
		if len(after) > 0 {
			show = string(after[0])
			if len(show) > 120 {
				show = show[:120]
			}
		}
		sim.Direct(outDir, map[string]any{"finding": "message-merged-after-inbox-overflow", "kind": "after dropped messages the next message on the topic is not delivered alone and whole",
			"topic": int(topic), "inbox_capacity": capacity, "dropped": extra, "delivered_after": len(after), "first_delivered": show})
	}
	st.Cases++
	st.Distinct++
	st.Kinds["inbox-overflow"]++
}

func asmCases(r *sim.Rng, n int, cw *sim.CaseWriter) {
	nd := newNode()
	for k := 0; k < 1+n/40; k++ {
		overflowCase(r, nd, outDirG)
	}
	for i := 0; i < n; i++ {
		// the streams of a connection as the node itself builds them (NewStreams), or stand-alone ones
		streams := map[lib.Topic]*p2p.VerifStream{}
		realSet := i%2 == 0
		if realSet {
			streams = nd.VerifNewStreams()
		}
		var packets, obs []string
		for k := 0; k < 4+r.Intn(20); k++ {
			topic := lib.Topic(r.Intn(4))
			s, ok := streams[topic]
			if !ok {
				s = p2p.VerifNewStream(topic, 64)
				streams[topic] = s
			}
			eof := r.Chance(40)
			bz := r.Bytes(r.Intn(6))
			for j := range bz {
				bz[j] %= 100
			}
			delivered, _, err := s.HandlePacket(topic, eof, bz)
			packets = append(packets, fmt.Sprintf("(%s, %s, %s)", sim.CoqN(uint64(topic)), sim.CoqBool(eof), sim.CoqBytes(bz)))
			switch {
			case err != nil:
				obs = append(obs, "None")
			case len(delivered) == 1:
				obs = append(obs, "(Some (Some "+sim.CoqBytes(delivered[0])+"))")
			default:
				obs = append(obs, "(Some None)")
			}
		}
		cw.Add(fmt.Sprintf("mkAC %s %s %s", sim.CoqN(uint64(p2p.VerifMaxMessageSize)), sim.CoqList(packets), sim.CoqList(obs)), map[string]any{"packets": len(packets), "streams_from_NewStreams": realSet})
		st.Cases++
		st.Distinct++
		st.Kinds["assembler"]++
	}
}

type node struct {
	*p2p.P2P
	pub []byte
}

func newNode() node {
	priv, err := crypto.NewBLS12381PrivateKey()
	if err != nil {
		panic(err)
	}
	c := lib.DefaultConfig()
	c.ChainId = lib.CanopyChainId
	c.ListenAddress = ":0"
	c.DataDirPath = sim.ScratchDir("p2p")
	return node{P2P: p2p.New(priv, 1, nil, c, lib.NewNullLogger()), pub: priv.PublicKey().Bytes()}
}

// gated wraps a connection: while the gate is shut, writes block (a peer that stops reading: back-pressure)
type gated struct {
	net.Conn
	mu   sync.Mutex
	cond *sync.Cond
	shut bool
}

func newGated(c net.Conn) *gated {
	g := &gated{Conn: c}
	g.cond = sync.NewCond(&g.mu)
	return g
}
func (g *gated) Shut() { g.mu.Lock(); g.shut = true; g.mu.Unlock() }
func (g *gated) Open() { g.mu.Lock(); g.shut = false; g.mu.Unlock(); g.cond.Broadcast() }
func (g *gated) Write(b []byte) (int, error) {
	g.mu.Lock()
	for g.shut {
		g.cond.Wait()
	}
	g.mu.Unlock()
	return g.Conn.Write(b)
}

func pair() (a, b node, cleanup func()) {
	a, b, _, cleanup = pairGated()
	return
}

func pairGated() (a, b node, gate *gated, cleanup func()) {
	a, b = newNode(), newNode()
	c1, raw := net.Pipe()
	gate = newGated(raw)
	var c2 net.Conn = gate
	var wg sync.WaitGroup
	wg.Add(1)
	var e1 lib.ErrorI
	go func() {
		e1 = a.AddPeer(c2, &lib.PeerInfo{Address: &lib.PeerAddress{PublicKey: b.pub, NetAddress: "pipe", PeerMeta: &lib.PeerMeta{}}}, false, true)
		wg.Done()
	}()
	e2 := b.AddPeer(c1, &lib.PeerInfo{Address: &lib.PeerAddress{PublicKey: a.pub, NetAddress: "pipe", PeerMeta: &lib.PeerMeta{}}}, false, true)
	wg.Wait()
	if e1 != nil || e2 != nil {
		panic(fmt.Sprint("handshake: ", e1, e2))
	}
	return a, b, gate, func() { gate.Open(); a.Stop(); b.Stop() }
}

type sentMsg struct {
	id    uint64
	topic lib.Topic
	sum   [32]byte
	ln    int
}

func concCases(r *sim.Rng, n int, cw *sim.CaseWriter, direct string) {
	chunk := p2p.VerifMaxDataChunkSize
	topics := []lib.Topic{lib.Topic_CONSENSUS, lib.Topic_BLOCK, lib.Topic_TX, lib.Topic_BLOCK_REQUEST}
	for i := 0; i < n; i++ {
		a, b, cleanup := pair()
		conn := a.VerifConn(b.pub)
		if conn == nil {
			panic("no connection")
		}
		nSenders := 2 + r.Intn(4)
		var mu sync.Mutex
		byKey := map[string]*sentMsg{} // topic|len|sha -> message
		sentLists := map[lib.Topic][][]uint64{}
		var wg sync.WaitGroup
		nextID := uint64(1)
		total := 0
		for s := 0; s < nSenders; s++ {
			// same-topic contention is the interesting case: half of the senders share one topic
			topic := topics[r.Intn(len(topics))]
			if s%2 == 0 {
				topic = topics[0]
			}
			nMsgs := 2 + r.Intn(5)
			var msgs [][]byte
			var ids []uint64
			for m := 0; m < nMsgs; m++ {
				ln := int(r.Pick(0, 1, 31, uint64(chunk-1), uint64(chunk), uint64(chunk+1), uint64(2*chunk+17), uint64(3*chunk), uint64(r.Intn(3*chunk)), uint64(r.Intn(2000))))
				bz := make([]byte, ln)
				seed := r.U64()
				for j := range bz {
					seed = seed*6364136223846793005 + 1442695040888963407
					bz[j] = byte(seed >> 56)
				}
				// make every message unique even at length 0/1 collisions: the id is carried in the first bytes when there is room
				sm := &sentMsg{id: nextID, topic: topic, sum: sha256.Sum256(bz), ln: ln}
				key := fmt.Sprintf("%d|%d|%x", topic, ln, sm.sum)
				if _, dup := byKey[key]; dup {
					continue
				}
				byKey[key] = sm
				nextID++
				msgs = append(msgs, bz)
				ids = append(ids, sm.id)
				total += ln
			}
			sentLists[topic] = append(sentLists[topic], ids)
			wg.Add(1)
			go func(topic lib.Topic, msgs [][]byte) {
				defer wg.Done()
				for _, m := range msgs {
					if !conn.Send(topic, m) {
						return
					}
				}
			}(topic, msgs)
		}
		// drain the receiver's inboxes until everything arrived or nothing arrives for a while
		delivered := map[lib.Topic][]uint64{}
		invented := 0
		done := make(chan struct{})
		go func() { wg.Wait(); close(done) }()
		deadline := time.Now().Add(20 * time.Second)
		idle := 0
		count := func() (n int) {
			for _, ids := range delivered {
				n += len(ids)
			}
			return
		}
		for idle < 400 && time.Now().Before(deadline) && count() < int(nextID-1) {
			got := false
			for _, t := range topics {
				select {
				case m := <-b.Inbox(t):
					got = true
					sum := sha256.Sum256(m.Message)
					mu.Lock()
					sm, ok := byKey[fmt.Sprintf("%d|%d|%x", t, len(m.Message), sum)]
					mu.Unlock()
					if ok {
						delivered[t] = append(delivered[t], sm.id)
					} else {
						invented++
						delivered[t] = append(delivered[t], 1000000+uint64(invented)) // a message nobody sent on this topic
					}
				default:
				}
			}
			if got {
				idle = 0
				continue
			}
			select {
			case <-done:
				idle++
				time.Sleep(5 * time.Millisecond)
			default:
				time.Sleep(5 * time.Millisecond)
			}
		}
		cleanup()
		var sentLit, delLit []string
		nd := 0
		for _, t := range topics {
			var ss []string
			for _, ids := range sentLists[t] {
				ss = append(ss, sim.CoqNList(ids))
			}
			sentLit = append(sentLit, fmt.Sprintf("(%s, %s)", sim.CoqN(uint64(t)), sim.CoqList(ss)))
			delLit = append(delLit, fmt.Sprintf("(%s, %s)", sim.CoqN(uint64(t)), sim.CoqNList(delivered[t])))
			nd += len(delivered[t])
		}
		cw.Add(fmt.Sprintf("mkCC %s %s", sim.CoqList(sentLit), sim.CoqList(delLit)), map[string]any{"senders": nSenders, "sent": nextID - 1, "delivered": nd, "invented": invented, "bytes": total})
		st.Cases++
		st.Distinct++
		st.Kinds["concurrent"]++
		st.Sent += int(nextID - 1)
		st.Recv += nd
		st.Bytes += total
	}
}

// backpressureCases: the remote stops reading, the topic's send queue fills up to two free slots, a 5-packet message starts
// queueing (and blocks half-way, holding the stream mutex), a 1-packet message is sent on the same topic, then the remote
// reads again. Every delivered message must be one that was sent.
func backpressureCases(r *sim.Rng, n int, cw *sim.CaseWriter) {
	chunk := p2p.VerifMaxDataChunkSize
	for i := 0; i < n; i++ {
		a, b, gate, cleanup := pairGated()
		conn := a.VerifConn(b.pub)
		topic := lib.Topic_CONSENSUS
		byKey := map[string]uint64{}
		var ids []uint64
		reg := func(bz []byte) {
			id := uint64(len(byKey) + 1)
			byKey[fmt.Sprintf("%d|%x", len(bz), sha256.Sum256(bz))] = id
			ids = append(ids, id)
		}
		gate.Shut()
		for k := 0; k < 999; k++ {
			bz := []byte{byte(k), byte(k >> 8), 0xAB}
			reg(bz)
			if !conn.Send(topic, bz) {
				panic("filler send failed")
			}
		}
		big := make([]byte, 4*chunk+777+r.Intn(1000))
		for j := range big {
			big[j] = byte(j*7 + i)
		}
		small := []byte(fmt.Sprintf("small message %d", i))
		var wg sync.WaitGroup
		wg.Add(2)
		reg(big)
		go func() { defer wg.Done(); conn.Send(topic, big) }()
		time.Sleep(150 * time.Millisecond)
		idSmallSender := uint64(len(byKey) + 1)
		byKey[fmt.Sprintf("%d|%x", len(small), sha256.Sum256(small))] = idSmallSender
		go func() { defer wg.Done(); conn.Send(topic, small) }()
		time.Sleep(150 * time.Millisecond)
		gate.Open()
		var delivered []uint64
		invented := 0
		deadline := time.Now().Add(20 * time.Second)
		for len(delivered) < len(byKey) && time.Now().Before(deadline) {
			select {
			case m := <-b.Inbox(topic):
				if id, ok := byKey[fmt.Sprintf("%d|%x", len(m.Message), sha256.Sum256(m.Message))]; ok {
					delivered = append(delivered, id)
				} else {
					invented++
					delivered = append(delivered, 1000000+uint64(invented))
				}
			case <-time.After(2 * time.Second):
				deadline = time.Now()
			}
		}
		wg.Wait()
		cleanup()
		cw.Add(fmt.Sprintf("mkCC [(%s, [%s; %s])] [(%s, %s)]", sim.CoqN(uint64(topic)), sim.CoqNList(ids), sim.CoqNList([]uint64{idSmallSender}), sim.CoqN(uint64(topic)), sim.CoqNList(delivered)),
			map[string]any{"kind": "back-pressure", "sent": len(byKey), "delivered": len(delivered), "invented": invented})
		st.Cases++
		st.Distinct++
		st.Kinds["back-pressure"]++
		st.Sent += len(byKey)
		st.Recv += len(delivered)
	}
}

func main() {
	nSplit := flag.Int("split", 60, "split cases")
	nAsm := flag.Int("asm", 80, "assembler cases")
	nConc := flag.Int("conc", 6, "concurrent connection-pair cases")
	nStress := flag.Int("stress", 1, "rounds of the single-packet / multi-packet interleaving stress on one topic")
	nSend := flag.Int("sendq", 12, "send-queue histories (run concurrently; each waits out at most two 10 s queue time-outs)")
	nBack := flag.Int("backpressure", 2, "back-pressure cases (a full send queue, a large and a small message on one topic)")
	outDir := flag.String("outdir", ".", "output directory")
	_ = flag.String("replay", "", "replay file (cases regenerate deterministically from the seed)")
	flag.Parse()
	outDirG = *outDir
	r := sim.NewRng(sim.SeedFromEnv())
	imp := "From V Require Import Bytes Mux."
	w1 := &sim.CaseWriter{OutDir: *outDir, Name: "c18split", Imports: imp, CaseType: "split_case", MFun: "split_mismatches", VFun: "", PerShard: 40}
	splitCases(r.Fork(), *nSplit, w1)
	w1.Close(st)
	w2 := &sim.CaseWriter{OutDir: *outDir, Name: "c18asm", Imports: imp, CaseType: "asm_case", MFun: "asm_mismatches", VFun: "", PerShard: 100}
	asmCases(r.Fork(), *nAsm, w2)
	w2.Close(st)
	w3 := &sim.CaseWriter{OutDir: *outDir, Name: "c18conc", Imports: imp, CaseType: "conc_case", MFun: "conc_mismatches", VFun: "conc_violations", PerShard: 50}
	concCases(r.Fork(), *nConc, w3, *outDir)
	backpressureCases(r.Fork(), *nBack, w3)
	w3.Close(st)
	w4 := &sim.CaseWriter{OutDir: *outDir, Name: "c18send", Imports: imp, CaseType: "send_case", MFun: "send_mismatches", VFun: "send_violations", PerShard: 50}
	sendQueueCases(r.Fork(), *nSend, w4)
	w4.Close(st)
	gossipBackToBack(r.Fork(), *outDir, 3)
	for k := 0; k < *nStress; k++ {
		interleaveStress(*outDir, 8, 6000, 4, 100)
	}
	stopCases(r.Fork(), 20, *outDir)
	heartbeatCases(3, *outDir)
	fmt.Printf("c18: %d cases %v; concurrent: %d messages sent, %d delivered, %d bytes\n", st.Cases, st.Kinds, st.Sent, st.Recv, st.Bytes)
}
