package main

import (
	"crypto/sha256"
	"time"

	"github.com/canopy-network/canopy/lib"
	"github.com/canopy-network/canopy/p2p"
	"verifharness/sim"
)

// gossipBackToBack: the gossip path itself (PeerSet.SendToPeers: marshal once, hand the bytes to every peer's connection, which
// queues them as packets and sends asynchronously): several messages of one and a half packets handed over back to back on two
// topics. Every message that reaches the remote inbox of a topic must be exactly one of the messages handed over on that topic
// (whatever buffers the sender reuses between two calls, the bytes still queued belong to the earlier message).
func gossipBackToBack(r *sim.Rng, outDir string, rounds int) {
	chunk := p2p.VerifMaxDataChunkSize
	a, b, cleanup := pair()
	defer cleanup()
	topics := []lib.Topic{lib.Topic_TX, lib.Topic_BLOCK}
	for round := 0; round < rounds; round++ {
		want := map[lib.Topic]map[[32]byte]int{}
		total := 0
		for _, t := range topics {
			want[t] = map[[32]byte]int{}
			for k := 0; k < 3; k++ {
				payload := r.Bytes(chunk + chunk/2 + r.Intn(64))
				msg := &lib.TxMessage{ChainId: uint64(round*10 + k + 1), Txs: [][]byte{payload}}
				bz, err := lib.Marshal(msg)
				if err != nil {
					panic(err)
				}
				want[t][sha256.Sum256(bz)]++
				total++
				if e := a.SendToPeers(t, msg); e != nil {
					return
				}
			}
		}
		got, invented := 0, 0
		deadline := time.Now().Add(60 * time.Second)
		for got+invented < total && time.Now().Before(deadline) {
			for _, t := range topics {
				select {
				case m := <-b.Inbox(t):
					h := sha256.Sum256(m.Message)
					if want[t][h] > 0 {
						want[t][h]--
						got++
					} else {
						invented++
						if invented == 1 {
							sim.Direct(outDir, map[string]any{"finding": "message-nobody-sent-delivered", "kind": "a message gossiped with SendToPeers reached the remote inbox with other bytes than were handed over (or on another topic)",
								"topic": t.String(), "length": len(m.Message), "round": round})
						}
					}
				case <-time.After(20 * time.Millisecond):
				}
			}
		}
		st.Cases++
		st.Kinds["gossip-back-to-back"]++
		st.Sent += total
		st.Recv += got
	}
	_ = b
}
