package main

import (
	"fmt"
	"strings"
	"sync"

	"github.com/canopy-network/canopy/lib"
	"github.com/canopy-network/canopy/p2p"
	"verifharness/sim"
)

// sendQueueCases: the topic's bounded send queue on its own (real Stream.queueSends through the send-side hook, no send service):
// random histories of sends - messages of one to four packets - and drains over a queue of a few slots. A send that does not fit
// waits for the queue time-out (10 s) and must then leave NOTHING in the queue; whatever is taken from the queue, fed to the model
// receiver, must be the accepted messages. The cases run concurrently (their time-outs overlap); each has at most two failing sends.
func sendQueueCases(r *sim.Rng, n int, cw *sim.CaseWriter) {
	type result struct {
		lit  string
		meta map[string]any
	}
	results := make([]result, n)
	var wg sync.WaitGroup
	for i := 0; i < n; i++ {
		rr := r.Fork()
		wg.Add(1)
		go func(i int, r *sim.Rng) {
			defer wg.Done()
			lim := 2 + r.Intn(4)
			capQ := 3 + r.Intn(4)
			topic := lib.Topic(r.Intn(3))
			s := p2p.VerifNewSendStream(topic, capQ)
			qlen, failing := 0, 0
			var ops, obs []string
			accepted, refused := 0, 0
			for k := 0; k < 6+r.Intn(8); k++ {
				if r.Chance(35) && qlen > 0 {
					take := 1 + r.Intn(capQ)
					ps := s.Drain(take)
					qlen -= len(ps)
					var items []string
					for _, p := range ps {
						items = append(items, fmt.Sprintf("(%s, %s)", sim.CoqBool(p.Eof), sim.CoqBytes(p.Bytes)))
					}
					ops = append(ops, fmt.Sprintf("ODrain %d", take))
					obs = append(obs, fmt.Sprintf("STaken %s", sim.CoqList(items)))
					continue
				}
				npk := 1 + r.Intn(4)
				size := (npk-1)*lim + 1 + r.Intn(lim)
				if r.Chance(10) {
					size = 0
				}
				need := (size + lim - 1) / lim
				if size == 0 {
					need = 1
				}
				if need > capQ {
					continue // more packets than the queue can ever hold: cannot occur with the real sizes
				}
				if qlen+need > capQ {
					if failing >= 2 {
						continue
					}
					failing++
				}
				msg := make([]byte, size)
				for j := range msg {
					msg[j] = byte(i*31 + k*7 + j)
				}
				ok := s.Send(msg, lim)
				if ok {
					qlen += need
					accepted++
				} else {
					refused++
					// whatever a refused send left behind is in the queue now (the harness's own account of the length follows the real queue)
				}
				ops = append(ops, fmt.Sprintf("OSend %s", sim.CoqBytes(msg)))
				obs = append(obs, fmt.Sprintf("SAcc %s", sim.CoqBool(ok)))
			}
			// drain the rest
			ps := s.Drain(capQ + 1)
			var items []string
			for _, p := range ps {
				items = append(items, fmt.Sprintf("(%s, %s)", sim.CoqBool(p.Eof), sim.CoqBytes(p.Bytes)))
			}
			ops = append(ops, fmt.Sprintf("ODrain %d", capQ+1))
			obs = append(obs, fmt.Sprintf("STaken %s", sim.CoqList(items)))
			par := func(xs []string) string {
				out := make([]string, len(xs))
				for i, x := range xs {
					out[i] = "(" + x + ")"
				}
				return "[" + strings.Join(out, "; ") + "]"
			}
			results[i] = result{fmt.Sprintf("mkSnd %d %d %d %s %s", lim, capQ, int(topic), par(ops), par(obs)),
				map[string]any{"kind": "send-queue", "chunk": lim, "queue_capacity": capQ, "accepted": accepted, "timed_out": refused}}
		}(i, rr)
	}
	wg.Wait()
	for _, res := range results {
		cw.Add(res.lit, res.meta)
		st.Cases++
		st.Distinct++
		st.Kinds["send-queue"]++
		if res.meta["timed_out"].(int) > 0 {
			st.Kinds["send-queue:with-timed-out-send"]++
		}
	}
}
