// c08: correspondence harness for properties C08 / C03 (state root is a pure, collision-free function of the state;
// parallel = sequential; independent of batching and operation order).
// Drives the real SMT (store.VerifSMT: a fresh SMT object per batch over one transaction, as Store.Root() does) with key
// widths 8, 16 and 160, chosen hashed keys (for the small widths raw keys are found by search so that any bit pattern can
// be targeted: long shared prefixes, keys adjacent to the synthetic subtree borders, insert-then-delete), batches below
// and above the 16-operation parallel threshold, sequential and parallel commits; dumps the persisted tree and
//
//	(a) writes it with the history into cases_*.v  (Coq: model tree = implementation tree; canonical; leaves = final map),
//	(b) checks in Go, with the real SHA-256, that every stored parent value is the hash of its children as stored and that
//	    the returned root is the root node's value (a stale or skipped rehash is a direct violation),
//	(c) replays a re-batched / re-ordered history with the same final content and compares roots (direct violation if different).
package main

import (
	"bytes"
	"crypto/sha256"
	"flag"
	"fmt"
	"math/big"
	"strings"

	"github.com/canopy-network/canopy/lib"
	"github.com/canopy-network/canopy/lib/crypto"
	"github.com/canopy-network/canopy/store"
	"verifharness/sim"
)

type stats struct {
	Cases     int            `json:"cases"`
	Distinct  int            `json:"distinct_nontrivial"`
	ByWidth   map[string]int `json:"by_width"`
	Batches   map[string]int `json:"batch_size_classes"`
	Parallel  int            `json:"parallel_batches"`
	Seq       int            `json:"sequential_batches"`
	Ops       map[string]int `json:"ops"`
	Rebatched int            `json:"rebatched_history_comparisons"`
	HashNodes int            `json:"parent_hashes_rechecked"`
	Samples   []string       `json:"samples"`
}

var st = stats{ByWidth: map[string]int{}, Batches: map[string]int{}, Ops: map[string]int{}}

// raw key search for small widths: pattern (as bit string) -> raw key
var rawFor = map[int]map[string][]byte{}

func buildRaw(w int, v *store.VerifSMT) {
	if rawFor[w] != nil {
		return
	}
	m := map[string][]byte{}
	need := 1 << uint(w)
	for i := 0; len(m) < need && i < 40*need; i++ {
		raw := []byte(fmt.Sprintf("k%d-%d", w, i))
		b := v.HashedKeyBits(raw)
		if _, ok := m[b]; !ok {
			m[b] = raw
		}
	}
	rawFor[w] = m
}

func bitsToN(b string) string {
	if b == "" {
		return "0"
	}
	n := new(big.Int)
	n.SetString(b, 2)
	return n.String()
}

type hop struct {
	raw  []byte
	bits string
	val  []byte
	del  bool
}

func reserved(w int, b string) bool {
	if strings.Count(b, "0") == w || strings.Count(b, "1") == w {
		return true
	}
	// synthetic borders: prefix + all zeros / all ones
	rest := b[3:]
	return strings.Count(rest, "0") == len(rest) || strings.Count(rest, "1") == len(rest)
}

// pickPattern chooses a w-bit key with structure: clusters with long shared prefixes, border-adjacent keys, uniform keys
func pickPattern(r *sim.Rng, w int, pool []string) string {
	for {
		var b []byte
		switch r.Intn(6) {
		case 0, 1: // uniform
			b = make([]byte, w)
			for i := range b {
				b[i] = byte('0' + r.Intn(2))
			}
		case 2: // neighbour of an existing key: flip one of the last bits (long shared prefix)
			if len(pool) == 0 {
				continue
			}
			b = []byte(pool[r.Intn(len(pool))])
			i := w - 1 - r.Intn(min(4, w))
			b[i] ^= 1
		case 3: // adjacent to a subtree border: prefix + 0..01 or 1..10
			b = make([]byte, w)
			for i := 0; i < 3; i++ {
				b[i] = byte('0' + r.Intn(2))
			}
			fill := byte('0' + r.Intn(2))
			for i := 3; i < w; i++ {
				b[i] = fill
			}
			b[w-1-r.Intn(2)] ^= 1
		case 4: // an existing key (overwrite / delete)
			if len(pool) == 0 {
				continue
			}
			b = []byte(pool[r.Intn(len(pool))])
		case 5: // same 3-bit prefix as another key but different remainder
			if len(pool) == 0 {
				continue
			}
			b = []byte(pool[r.Intn(len(pool))])
			for i := 3; i < w; i++ {
				b[i] = byte('0' + r.Intn(2))
			}
		}
		s := string(b)
		if !reserved(w, s) {
			return s
		}
	}
}

func genHistory(r *sim.Rng, w int, v *store.VerifSMT) [][]hop {
	nb := 1 + r.Intn(4)
	var hist [][]hop
	var pool []string
	live := map[string]bool{}
	ctr := 0
	for bi := 0; bi < nb; bi++ {
		var size int
		switch r.Intn(5) {
		case 0:
			size = 1 + r.Intn(3)
		case 1:
			size = 14 + r.Intn(5) // around the 16-op parallel threshold
		case 2:
			size = 20 + r.Intn(40)
		default:
			size = 2 + r.Intn(12)
		}
		if w == 160 && size > 40 {
			size = 40
		}
		used := map[string]bool{}
		var batch []hop
		for len(batch) < size {
			var h hop
			if w <= 16 {
				p := pickPattern(r, w, pool)
				if used[p] {
					if len(used) >= (1<<uint(w))-20 {
						break
					}
					continue
				}
				raw, ok := rawFor[w][p]
				if !ok {
					continue
				}
				h = hop{raw: raw, bits: p}
			} else {
				ctr++
				var raw []byte
				if len(pool) > 0 && r.Chance(35) {
					p := pool[r.Intn(len(pool))]
					raw = []byte(p) // for width 160 the pool holds raw keys
				} else {
					raw = []byte(fmt.Sprintf("w160-%d-%d", r.U64(), ctr))
				}
				h = hop{raw: raw, bits: v.HashedKeyBits(raw)}
				if used[h.bits] {
					continue
				}
			}
			used[h.bits] = true
			if live[h.bits] && r.Chance(45) {
				h.del = true
			} else if !live[h.bits] && r.Chance(8) {
				h.del = true // delete of an absent key: a no-op
			} else {
				h.val = r.Bytes(1 + r.Intn(5))
			}
			batch = append(batch, h)
		}
		for _, h := range batch {
			if h.del {
				delete(live, h.bits)
				st.Ops["delete"]++
			} else {
				if live[h.bits] {
					st.Ops["overwrite"]++
				} else {
					st.Ops["insert"]++
				}
				live[h.bits] = true
				if w <= 16 {
					pool = append(pool, h.bits)
				} else {
					pool = append(pool, string(h.raw))
				}
			}
		}
		hist = append(hist, batch)
	}
	return hist
}

func toOps(b []hop) []store.VerifOp {
	out := make([]store.VerifOp, len(b))
	for i, h := range b {
		out[i] = store.VerifOp{Key: h.raw, Value: h.val, Delete: h.del}
	}
	return out
}

func treeLit(nodes []store.VerifNode, pos *int, w int) string {
	n := nodes[*pos]
	*pos++
	if n.Leaf {
		return fmt.Sprintf("(Leaf (kb %d %s) %s)", w, bitsToN(n.Bits), "0x"+sim.Hex(n.Value)+"%N")
	}
	l := treeLit(nodes, pos, w)
	r := treeLit(nodes, pos, w)
	return fmt.Sprintf("(Node (kb %d %s) %s %s)", len(n.Bits), bitsToN(n.Bits), l, r)
}

// checkHashes recomputes every parent value from the dump with the real hash
func checkHashes(nodes []store.VerifNode, root []byte) string {
	byKey := map[string]store.VerifNode{}
	for _, n := range nodes {
		byKey[string(n.Key)] = n
	}
	for i, n := range nodes {
		if n.Leaf {
			continue
		}
		l, ok1 := byKey[string(n.Left)]
		r, ok2 := byKey[string(n.Right)]
		if !ok1 || !ok2 {
			return fmt.Sprintf("node %x has a dangling child", n.Key)
		}
		var in []byte
		in = append(in, l.Key...)
		in = append(in, l.Value...)
		in = append(in, r.Key...)
		in = append(in, r.Value...)
		if !bytes.Equal(crypto.Hash(in), n.Value) {
			return fmt.Sprintf("stale hash at node %x (bits %q)", n.Key, n.Bits)
		}
		st.HashNodes++
		if i == 0 && !bytes.Equal(n.Value, root) {
			return "returned root differs from the stored root node value"
		}
	}
	return ""
}

func sizeClass(n int) string {
	switch {
	case n < 16:
		return "<16 (sequential fallback)"
	case n < 20:
		return "16-19"
	default:
		return ">=20"
	}
}

func runHistory(w int, hist [][]hop, par []bool) (nodes []store.VerifNode, root []byte, err error) {
	v, e := store.VerifNewSMT(w, lib.NewNullLogger())
	if e != nil {
		return nil, nil, e
	}
	defer v.Close()
	for i, b := range hist {
		root, e = v.Commit(toOps(b), par[i])
		if e != nil {
			return nil, nil, fmt.Errorf("commit: %v", e)
		}
	}
	if len(hist) == 0 {
		root = v.Root()
	}
	nodes, e = v.Dump()
	if e != nil {
		return nil, nil, e
	}
	return nodes, root, nil
}

// rebatch produces a different history with the same final content: only the last operation per key, re-split into
// batches of other sizes, in another order, with the other commit mode
func rebatch(r *sim.Rng, hist [][]hop) ([][]hop, []bool) {
	last := map[string]hop{}
	var order []string
	for _, b := range hist {
		for _, h := range b {
			if _, ok := last[h.bits]; !ok {
				order = append(order, h.bits)
			}
			last[h.bits] = h
		}
	}
	for i := len(order) - 1; i > 0; i-- {
		j := r.Intn(i + 1)
		order[i], order[j] = order[j], order[i]
	}
	var out [][]hop
	var par []bool
	for len(order) > 0 {
		n := 1 + r.Intn(len(order))
		var b []hop
		for _, k := range order[:n] {
			b = append(b, last[k])
		}
		order = order[n:]
		out = append(out, b)
		par = append(par, r.Bool())
	}
	return out, par
}

// storeHistories drives the real Store (Set/Delete, speculative Root() followed by Reset() as proposal validation does,
// Commit) over several blocks; after every commit the persisted tree is dumped and must equal the model tree of the COMMITTED
// batches only, with every stored hash recomputed - a speculative, discarded computation must leave no trace.
func storeHistories(r *sim.Rng, n int, cw *sim.CaseWriter, outDir string) {
	helper, e := store.VerifNewSMT(160, lib.NewNullLogger())
	if e != nil {
		panic(e)
	}
	defer helper.Close()
	mk := func(i uint64) []byte { return lib.JoinLenPrefix([]byte{1}, []byte(fmt.Sprintf("acct-%06d", i))) }
	for c := 0; c < n; c++ {
		sti, err := store.NewStoreInMemory(lib.NewNullLogger())
		if err != nil {
			panic(err)
		}
		s := sti.(*store.Store)
		var committed [][]hop
		live := map[string]bool{}
		var pool []uint64
		nb := 2 + r.Intn(4)
		bad := false
		for b := 0; b < nb && !bad; b++ {
			write := func(count int, record bool) []hop {
				var batch []hop
				used := map[uint64]bool{}
				for len(batch) < count {
					var id uint64
					if len(pool) > 0 && r.Chance(40) {
						id = pool[r.Intn(len(pool))]
					} else {
						id = r.U64() % 100000
					}
					if used[id] {
						continue
					}
					used[id] = true
					raw := mk(id)
					h := hop{raw: raw, bits: helper.HashedKeyBits(raw)}
					if live[h.bits] && r.Chance(40) {
						h.del = true
						if err := s.Delete(raw); err != nil {
							panic(err)
						}
					} else {
						h.val = r.Bytes(1 + r.Intn(6))
						if r.Chance(18) {
							// a value of exactly the size of a hash (and, half of the time, the hash of a value this key held before or
							// may hold later): what the tree commits to must still be the hash of the value, not the value
							w := []byte(fmt.Sprintf("w-%06d-%026d", id%7, id%5))[:32]
							if r.Bool() {
								hw := sha256.Sum256(w)
								w = hw[:]
							}
							h.val = w
						} else if r.Chance(22) {
							// a key with an EMPTY value (the state machine stores such keys: committee / delegate membership entries)
							h.val = []byte{}
							if r.Bool() {
								h.val = nil
							}
						}
						if err := s.Set(raw, h.val); err != nil {
							panic(err)
						}
					}
					batch = append(batch, h)
					if record {
						if h.del {
							delete(live, h.bits)
						} else {
							live[h.bits] = true
							pool = append(pool, id)
						}
					}
				}
				return batch
			}
			size := func() int {
				if r.Chance(50) {
					return 1 + r.Intn(12)
				}
				return 16 + r.Intn(30)
			}
			// speculative execution(s) that are discarded: proposal validation computes a root and resets
			for k := r.Intn(3); k > 0; k-- {
				write(size(), false)
				if _, err := s.Root(); err != nil {
					panic(err)
				}
				s.Reset()
				st.Ops["speculative-root-then-reset"]++
			}
			// sometimes the store is rolled back to an earlier height first: the abandoned blocks must leave no trace in the tree
			// (the history the model sees is the surviving prefix plus what is committed afterwards)
			if len(committed) >= 2 && r.Chance(30) {
				target := 1 + r.Intn(len(committed)-1)
				if err := s.Rollback(uint64(target)); err != nil {
					panic(err)
				}
				committed = committed[:target]
				live, pool = map[string]bool{}, nil
				for _, bb := range committed {
					for _, h := range bb {
						if h.del {
							delete(live, h.bits)
						} else {
							live[h.bits] = true
						}
					}
				}
				st.Ops["rollback-then-commit"]++
			}
			batch := write(size(), true)
			root, err := s.Commit()
			if err != nil {
				panic(err)
			}
			committed = append(committed, batch)
			st.Batches[sizeClass(len(batch))]++
			nodes, err := store.VerifStoreTreeDump(s)
			if err != nil {
				panic(err)
			}
			par := make([]bool, len(committed))
			if msg := checkHashes(nodes, root); msg != "" {
				sim.Direct(outDir, map[string]any{"finding": "store-stale-hash", "kind": "stale-hash", "detail": msg, "history": histJSON(committed, par)})
				bad = true
			}
			if b == nb-1 || r.Chance(30) {
				var bs []string
				for _, bb := range committed {
					var os []string
					for _, h := range bb {
						if h.del {
							os = append(os, fmt.Sprintf("ODel (kb 160 %s)", bitsToN(h.bits)))
						} else {
							os = append(os, fmt.Sprintf("OSet (kb 160 %s) 0x%s%%N", bitsToN(h.bits), sim.Hex(crypto.Hash(h.val))))
						}
					}
					bs = append(bs, sim.CoqList(os))
				}
				pos := 0
				obs := treeLit(nodes, &pos, 160)
				lit := fmt.Sprintf("mkTrie 160 0%%N 0x%s%%N %s %s", strings.Repeat("ff", 20), sim.CoqList(bs), obs)
				cw.Add(lit, map[string]any{"kind": "store-history", "width": 160, "blocks": len(committed), "history": histJSON(committed, par)})
				st.Cases++
				st.ByWidth["160-store"]++
				st.Distinct++
			}
		}
		s.Close()
	}
}

func main() {
	nStore := flag.Int("store", 25, "multi-block histories on the real Store (speculative Root()+Reset() between blocks)")
	n8 := flag.Int("w8", 120, "histories with 8-bit keys")
	n16 := flag.Int("w16", 120, "histories with 16-bit keys")
	n160 := flag.Int("w160", 40, "histories with 160-bit keys")
	outDir := flag.String("outdir", ".", "output directory")
	_ = flag.String("replay", "", "replay file (cases regenerate deterministically from the seed)")
	flag.Parse()
	r := sim.NewRng(sim.SeedFromEnv())
	cw := &sim.CaseWriter{OutDir: *outDir, Name: "c08", Imports: "From V Require Import Trie TrieCheck.", CaseType: "trie_case", MFun: "trie_mismatches", VFun: "trie_violations", PerShard: 40}
	seen := map[string]bool{}
	for _, cfg := range []struct{ w, n int }{{8, *n8}, {16, *n16}, {160, *n160}} {
		v, e := store.VerifNewSMT(cfg.w, lib.NewNullLogger())
		if e != nil {
			panic(e)
		}
		if cfg.w <= 16 {
			buildRaw(cfg.w, v)
		}
		for c := 0; c < cfg.n; c++ {
			hist := genHistory(r, cfg.w, v)
			par := make([]bool, len(hist))
			for i := range par {
				par[i] = r.Bool()
				if par[i] {
					st.Parallel++
				} else {
					st.Seq++
				}
				st.Batches[sizeClass(len(hist[i]))]++
			}
			nodes, root, err := runHistory(cfg.w, hist, par)
			if err != nil {
				sim.Direct(*outDir, map[string]any{"finding": "smt-commit-error", "kind": "commit-error", "width": cfg.w, "error": err.Error()})
				continue
			}
			if msg := checkHashes(nodes, root); msg != "" {
				sim.Direct(*outDir, map[string]any{"finding": "smt-stale-hash", "kind": "stale-hash", "width": cfg.w, "detail": msg, "history": histJSON(hist, par)})
			}
			// same final content through a different history
			h2, p2 := rebatch(r, hist)
			_, root2, err2 := runHistory(cfg.w, h2, p2)
			st.Rebatched++
			if err2 != nil || !bytes.Equal(root, root2) {
				sim.Direct(*outDir, map[string]any{"finding": "smt-history-dependent-root", "kind": "history-dependent-root", "width": cfg.w,
					"root_a": sim.Hex(root), "root_b": sim.Hex(root2), "history_a": histJSON(hist, par), "history_b": histJSON(h2, p2)})
			}
			// Coq case
			var bs []string
			for _, b := range hist {
				var os []string
				for _, h := range b {
					if h.del {
						os = append(os, fmt.Sprintf("ODel (kb %d %s)", cfg.w, bitsToN(h.bits)))
					} else {
						os = append(os, fmt.Sprintf("OSet (kb %d %s) 0x%s%%N", cfg.w, bitsToN(h.bits), sim.Hex(crypto.Hash(h.val))))
					}
				}
				bs = append(bs, sim.CoqList(os))
			}
			pos := 0
			// the root node is dumped with empty bits: it is the node with the empty prefix
			obs := treeLit(nodes, &pos, cfg.w)
			vmin := "0%N"
			vmax := "0x" + strings.Repeat("ff", 20) + "%N"
			lit := fmt.Sprintf("mkTrie %d %s %s %s %s", cfg.w, vmin, vmax, sim.CoqList(bs), obs)
			cw.Add(lit, map[string]any{"kind": "history", "width": cfg.w, "history": histJSON(hist, par)})
			st.Cases++
			st.ByWidth[fmt.Sprint(cfg.w)]++
			tot := 0
			for _, b := range hist {
				tot += len(b)
			}
			if tot >= 2 && !seen[lit] {
				seen[lit] = true
				st.Distinct++
			}
			if len(st.Samples) < 2 && tot < 8 {
				st.Samples = append(st.Samples, lit)
			}
		}
		v.Close()
	}
	storeHistories(r.Fork(), *nStore, cw, *outDir)
	cw.Close(st)
	fmt.Printf("c08: %d histories (%d distinct non-trivial), %d parent hashes rechecked, %d rebatched comparisons\n", st.Cases, st.Distinct, st.HashNodes, st.Rebatched)
}

func histJSON(hist [][]hop, par []bool) any {
	var out []any
	for i, b := range hist {
		var ops []string
		for _, h := range b {
			if h.del {
				ops = append(ops, "del "+h.bits)
			} else {
				ops = append(ops, "set "+h.bits+"="+sim.Hex(h.val))
			}
		}
		out = append(out, map[string]any{"parallel": par[i], "ops": ops})
	}
	return out
}
