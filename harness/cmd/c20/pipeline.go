package main

import (
	"fmt"

	"github.com/canopy-network/canopy/fsm"
	"github.com/canopy-network/canopy/lib"
	"github.com/canopy-network/canopy/lib/crypto"
	"verifharness/sim"
)

// The cross-chain DEX pipeline on two REAL state machines (chain 1 and chain 2, each holding a liquidity pool for the other):
// limit orders, liquidity deposits and withdrawals enter the next batch through the real message handlers; every step each chain
// receives the other's locked batch (HandleRemoteDexBatch: receipts for its own locked batch, execution of the remote batch,
// rotation), sometimes only one direction, sometimes none (a chain falls behind), sometimes the nested side runs the liveness
// fallback instead. After every step the holding pools, the pending orders and deposits, the liquidity points and the combined
// supply are read off both chains and judged in Coq (model/DexBatch.v pipe_ok).
type pipeChain struct {
	n       *sim.FNode
	id, cid uint64 // own chain id, counter chain id
	users   [][]byte
}

func newPipeChain(r *sim.Rng, id, cid uint64) *pipeChain {
	g := &sim.GenesisSpec{}
	for i := 0; i < 4; i++ {
		g.Validators = append(g.Validators, sim.StdValidator(i, 1000000, id))
	}
	var users [][]byte
	for i := 0; i < 8; i++ {
		g.Accounts = append(g.Accounts, &fsm.Account{Address: sim.BLSKey(i).Addr, Amount: 10_000 + uint64(r.Intn(10_000))})
		users = append(users, sim.BLSKey(i).Addr)
	}
	n, err := sim.NewFNode(g.State(), func(c *lib.Config) { c.ChainId = id })
	if err != nil {
		panic(err)
	}
	n.Enter()
	seed := r.Pick(50_000, 50_000, 1_000, 7, 3_000_000)
	must(n.FSM.SetPool(&fsm.Pool{Id: cid + fsm.LiquidityPoolAddend, Amount: seed}))
	must(n.FSM.SetDexBatch(fsm.KeyForNextBatch(cid), &lib.DexBatch{Committee: cid, PoolSize: seed, CounterPoolSize: seed}))
	must(n.FSM.SetDexBatch(fsm.KeyForLockedBatch(cid), &lib.DexBatch{}))
	return &pipeChain{n: n, id: id, cid: cid, users: users}
}

func must(e lib.ErrorI) {
	if e != nil {
		panic(e)
	}
}

func (c *pipeChain) supply() uint64 {
	c.n.Enter()
	sc, e := sim.ScanState(c.n.FSM)
	must(e)
	var t uint64
	for _, a := range sc.Accounts {
		t += a.Amount
	}
	for _, p := range sc.Pools {
		t += p.Amount
	}
	return t
}

func (c *pipeChain) side() string {
	c.n.Enter()
	hold, e := c.n.FSM.GetPoolBalance(c.cid + fsm.HoldingPoolAddend)
	must(e)
	var pending []uint64
	for _, locked := range []bool{false, true} {
		b, e := c.n.FSM.GetDexBatch(c.cid, locked)
		must(e)
		for _, o := range b.Orders {
			pending = append(pending, o.AmountForSale)
		}
		for _, d := range b.Deposits {
			pending = append(pending, d.Amount)
		}
	}
	p, e := c.n.FSM.GetPool(c.cid + fsm.LiquidityPoolAddend)
	must(e)
	var pts []uint64
	for _, x := range p.Points {
		pts = append(pts, x.Points)
	}
	return fmt.Sprintf("(mkSide %s %s %s %s)", sim.CoqN(hold), sim.CoqNList(pending), sim.CoqNList(pts), sim.CoqN(p.TotalPoolPoints))
}

func (c *pipeChain) ops(r *sim.Rng) (orders, deposits, withdrawals, refused int) {
	c.n.Enter()
	for i := 0; i < r.Intn(12); i++ {
		u := c.users[r.Intn(len(c.users))]
		acc, e := c.n.FSM.GetAccount(crypto.NewAddress(u))
		must(e)
		id := r.Bytes(crypto.HashSize)
		var err lib.ErrorI
		switch r.Intn(3) {
		case 0:
			if acc.Amount == 0 {
				continue
			}
			amt := 1 + uint64(r.Intn(int(min64(acc.Amount, 500))))
			err = c.n.FSM.HandleMessageDexLimitOrder(&fsm.MessageDexLimitOrder{ChainId: c.cid, AmountForSale: amt, RequestedAmount: uint64(r.Intn(int(amt + 1))), Address: u, OrderId: id})
			orders++
		case 1:
			if acc.Amount == 0 {
				continue
			}
			amt := 1 + uint64(r.Intn(int(min64(acc.Amount, 400))))
			err = c.n.FSM.HandleMessageDexLiquidityDeposit(&fsm.MessageDexLiquidityDeposit{ChainId: c.cid, Amount: amt, Address: u, OrderId: id})
			deposits++
		default:
			err = c.n.FSM.HandleMessageDexLiquidityWithdraw(&fsm.MessageDexLiquidityWithdraw{ChainId: c.cid, Percent: 1 + uint64(r.Intn(100)), Address: u, OrderId: id})
			withdrawals++
		}
		if err != nil {
			refused++
		}
	}
	return
}

func min64(a, b uint64) uint64 {
	if a < b {
		return a
	}
	return b
}

// deliver hands the remote chain's locked batch to the local chain
func deliver(local, remote *pipeChain, fallback bool) lib.ErrorI {
	remote.n.Enter()
	rb, e := remote.n.FSM.GetDexBatch(local.id, true)
	must(e)
	if rb == nil {
		return nil
	}
	local.n.Enter()
	if fallback {
		lb, e := local.n.FSM.GetDexBatch(remote.id, true)
		must(e)
		cp := new(lib.DexBatch)
		bz, _ := lib.Marshal(rb)
		_ = lib.Unmarshal(bz, cp)
		cp.LivenessFallback = true
		if err := local.n.FSM.HandleLivenessFallback(remote.id, lb, cp); err != nil {
			return err
		}
		return local.n.FSM.HandleRemoteDexBatch(cp, remote.id)
	}
	return local.n.FSM.HandleRemoteDexBatch(rb, remote.id)
}

func pipelineCases(r *sim.Rng, runs, steps int, cw *sim.CaseWriter, outDir string) {
	for k := 0; k < runs; k++ {
		x, y := newPipeChain(r, 1, 2), newPipeChain(r, 2, 1)
		s0 := x.supply() + y.supply()
		for step := 0; step < steps; step++ {
			ox, dx, wx, rx := x.ops(r)
			oy, dy, wy, ry := y.ops(r)
			kind := "both-directions"
			var e1, e2 lib.ErrorI
			switch c := r.Intn(10); {
			case c < 6:
				e1, e2 = deliver(x, y, false), deliver(y, x, false)
			case c < 8:
				kind = "one-direction"
				if r.Bool() {
					e1 = deliver(x, y, false)
				} else {
					e2 = deliver(y, x, false)
				}
			case c < 9:
				kind = "no-delivery"
			default:
				kind = "liveness-fallback-on-the-nested-side"
				e2 = deliver(y, x, true)
			}
			if e1 != nil || e2 != nil {
				sim.Direct(outDir, map[string]any{"finding": "dex-pipeline-error", "kind": "the remote batch could not be processed", "step": step, "delivery": kind, "error": fmt.Sprint(e1, e2)})
				break
			}
			x.n.Enter()
			x.n.FSM.VerifSetHeight(x.n.FSM.Height() + 1)
			y.n.Enter()
			y.n.FSM.VerifSetHeight(y.n.FSM.Height() + 1)
			cw.Add(fmt.Sprintf("mkPipe %s %s %s %s", x.side(), y.side(), sim.CoqN(s0), sim.CoqN(x.supply()+y.supply())),
				map[string]any{"kind": "dex-pipeline-step", "run": k, "step": step, "delivery": kind, "orders": ox + oy, "deposits": dx + dy, "withdrawals": wx + wy, "refused": rx + ry})
			st.Cases++
			st.Distinct++
			st.Outcomes["pipeline:"+kind]++
		}
		x.n.Close()
		y.n.Close()
	}
}
