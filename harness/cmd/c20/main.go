// c20: correspondence harness for property C20 (AMM arithmetic and liquidity-point bookkeeping).
// Runs the real exported functions (fsm.SafeComputeDY, lib.SafeMulDiv, lib.SqrtProductUint64, percent helpers) and the
// real handlers on a real FSM (HandleDexBatchOrders, HandleBatchWithdraw, HandleBatchDeposit) over generated reserves,
// order batches, point tables and requests (amounts in {1, small, 2^32, 2^63, 2^64-k}, duplicate addresses, ghost entries,
// batches beyond the settlement cap) and writes cases_*.v with inputs and observations.
package main

import (
	"flag"
	"fmt"
	"sort"
	"strings"

	"github.com/canopy-network/canopy/fsm"
	"github.com/canopy-network/canopy/lib"
	"github.com/canopy-network/canopy/lib/crypto"
	"verifharness/certsim"
	"verifharness/sim"
)

type stats struct {
	Cases    int            `json:"cases"`
	Distinct int            `json:"distinct_nontrivial"`
	ByKind   map[string]int `json:"by_kind"`
	Outcomes map[string]int `json:"outcomes"`
	Samples  []string       `json:"samples"`
}

var st = stats{ByKind: map[string]int{}, Outcomes: map[string]int{}}
var seen = map[string]bool{}

func note(kind, lit string, nontrivial bool) {
	st.Cases++
	st.ByKind[kind]++
	if nontrivial && !seen[lit] {
		seen[lit] = true
		st.Distinct++
	}
	if len(st.Samples) < 3 && nontrivial && len(lit) < 700 {
		st.Samples = append(st.Samples, lit)
	}
}

func amount(r *sim.Rng) uint64 {
	switch r.Intn(10) {
	case 0:
		return 0
	case 1:
		return 1
	case 2:
		return uint64(2 + r.Intn(100))
	case 3:
		return 1 << 32
	case 4:
		return 1 << 63
	case 5:
		return ^uint64(0) - uint64(r.Intn(5))
	case 6:
		return r.U64()
	default:
		return r.U64() % 1_000_000_000_000
	}
}

const chain = 2

var liqPool = chain + fsm.LiquidityPoolAddend
var holdPool = chain + fsm.HoldingPoolAddend

func addr(i int) []byte { return sim.BLSKey(i).Addr }

func fnCases(r *sim.Rng, n int, w *sim.CaseWriter) {
	for i := 0; i < n; i++ {
		a, b, c := amount(r), amount(r), amount(r)
		var lit string
		switch r.Intn(7) {
		case 0, 1:
			if a == 0 && c == 0 {
				continue // big.Int division by zero panics in Go; callers guard x != 0 (ErrInvalidLiquidityPool)
			}
			lit = fmt.Sprintf("FnDY %s %s %s %s", sim.CoqN(a), sim.CoqN(b), sim.CoqN(c), sim.CoqN(fsm.SafeComputeDY(a, b, c)))
		case 2:
			lit = fmt.Sprintf("FnMulDiv %s %s %s %s", sim.CoqN(a), sim.CoqN(b), sim.CoqN(c), sim.CoqN(lib.SafeMulDiv(a, b, c)))
		case 3:
			lit = fmt.Sprintf("FnSqrt %s %s %s", sim.CoqN(a), sim.CoqN(b), sim.CoqN(lib.SqrtProductUint64(a, b)))
		case 4:
			p := r.Pick(0, 1, 33, 50, 99, 100, 101, b)
			lit = fmt.Sprintf("FnPct %s %s %s", sim.CoqN(a), sim.CoqN(p), sim.CoqN(lib.Uint64Percentage(a, p)))
		case 5:
			p := r.Pick(0, 1, 33, 50, 99, 100, 101, b)
			lit = fmt.Sprintf("FnReduce %s %s %s", sim.CoqN(a), sim.CoqN(p), sim.CoqN(lib.Uint64ReducePercentage(a, p)))
		case 6:
			lit = fmt.Sprintf("FnPctDiv %s %s %s", sim.CoqN(a), sim.CoqN(b), sim.CoqN(lib.Uint64PercentageDiv(a, b)))
		}
		w.Add(lit, map[string]any{"kind": "fn", "case": lit})
		note("fn", lit, true)
	}
}

func reserve(r *sim.Rng) uint64 {
	switch r.Intn(8) {
	case 0:
		return 1
	case 1:
		return uint64(2 + r.Intn(1000))
	case 2:
		return 1 << 32
	case 3:
		return 1 << 62
	case 4:
		return ^uint64(0) - uint64(r.Intn(1000))
	default:
		return 1_000_000 + r.U64()%1_000_000_000_000
	}
}

func swapCases(r *sim.Rng, n *sim.FNode, count int, w *sim.CaseWriter) {
	for c := 0; c < count; c++ {
		n.FSM.Reset()
		x, y := reserve(r), reserve(r)
		if r.Chance(3) {
			x = 0
		}
		k := r.Intn(8)
		if r.Chance(4) {
			k = 240 + r.Intn(30) // around the per-block settlement cap
		}
		batch := &lib.DexBatch{Committee: chain}
		for i := 0; i < k; i++ {
			amt := amount(r)
			if y < 1<<40 {
				if m := 4 * (x/4 + 1); m != 0 {
					amt = amt % m
				}
			}
			req := uint64(0)
			switch r.Intn(4) {
			case 0:
				req = 0
			case 1:
				req = fsm.SafeComputeDY(max(x, 1), y, amt) // exactly at the limit for the first order
			case 2:
				req = fsm.SafeComputeDY(max(x, 1), y, amt) + 1
			default:
				req = amount(r) % (y/2 + 1)
			}
			batch.Orders = append(batch.Orders, &lib.DexLimitOrder{AmountForSale: amt, RequestedAmount: req, Address: addr(i % 5), OrderId: r.Bytes(20)})
		}
		if err := n.FSM.SetPool(&fsm.Pool{Id: liqPool, Amount: y}); err != nil {
			panic(err)
		}
		prev, e := n.FSM.LoadBlock(n.FSM.Height() - 1)
		if e != nil || prev == nil || prev.BlockHeader == nil {
			panic("no previous block")
		}
		sorted, _ := batch.CopyOrders(prev.BlockHeader.Hash)
		idx := make([]int, len(sorted))
		for i := range idx {
			idx[i] = i
		}
		sort.SliceStable(idx, func(i, j int) bool { return sorted[idx[i]].Key < sorted[idx[j]].Key })
		xx, yy := x, y
		receipts, err := n.FSM.HandleDexBatchOrders(batch, &xx, &yy, chain)
		var ords []string
		for _, i := range idx {
			o := batch.Orders[i]
			ords = append(ords, fmt.Sprintf("mkOrder %s %s", sim.CoqN(o.AmountForSale), sim.CoqN(o.RequestedAmount)))
		}
		obs := "None"
		if err == nil {
			rs := make([]uint64, len(idx))
			for pos, i := range idx {
				rs[pos] = receipts[i]
			}
			obs = fmt.Sprintf("Some (%s, %s, %s)", sim.CoqN(xx), sim.CoqN(yy), sim.CoqNList(rs))
			st.Outcomes["swap-ok"]++
			for _, v := range rs {
				if v != 0 {
					st.Outcomes["order-filled"]++
				} else {
					st.Outcomes["order-failed"]++
				}
			}
		} else {
			st.Outcomes["swap-error"]++
		}
		lit := fmt.Sprintf("mkSwap %s %s %s (%s)", sim.CoqN(x), sim.CoqN(y), sim.CoqList(ords), obs)
		w.Add(lit, map[string]any{"kind": "swap", "x": x, "y": y, "orders": len(ords), "case": trunc(lit)})
		note("swap", lit, k >= 1)
	}
	n.FSM.Reset()
}

func trunc(s string) string {
	if len(s) > 1500 {
		return s[:1500] + "..."
	}
	return s
}

func pointsTable(r *sim.Rng) ([]*lib.PoolPoints, uint64) {
	k := 1 + r.Intn(5)
	var pts []*lib.PoolPoints
	var total uint64
	dead, _ := crypto.NewAddressFromString(strings.Repeat("dead", 10))
	d := uint64(1 + r.Intn(1000))
	pts = append(pts, &lib.PoolPoints{Address: dead.Bytes(), Points: d})
	total += d
	for i := 0; i < k; i++ {
		var v uint64
		switch r.Intn(6) {
		case 0:
			v = 0 // ghost entry
		case 1:
			v = 1
		case 2:
			v = 1 << 40
		default:
			v = 1 + r.U64()%1_000_000
		}
		pts = append(pts, &lib.PoolPoints{Address: addr(i), Points: v})
		total += v
	}
	return pts, total
}

func poolLit(p *fsm.Pool) string {
	var ps []string
	for _, e := range p.Points {
		ps = append(ps, fmt.Sprintf("(%s, %s)", sim.AddrN(e.Address), sim.CoqN(e.Points)))
	}
	return fmt.Sprintf("(mkPool %s %s)", sim.CoqList(ps), sim.CoqN(p.TotalPoolPoints))
}

func balances(n *sim.FNode, k int) map[string]uint64 {
	out := map[string]uint64{}
	for i := 0; i < k; i++ {
		b, err := n.FSM.GetAccountBalance(crypto.NewAddress(addr(i)))
		if err != nil {
			panic(err)
		}
		out[string(addr(i))] = b
	}
	return out
}

func withdrawCases(r *sim.Rng, n *sim.FNode, count int, w *sim.CaseWriter) {
	for c := 0; c < count; c++ {
		n.FSM.Reset()
		x, y := reserve(r), reserve(r)
		local := r.Bool()
		pts, total := pointsTable(r)
		amt := y
		if local {
			amt = x
		}
		pool := &fsm.Pool{Id: liqPool, Amount: amt, Points: pts, TotalPoolPoints: total}
		if err := n.FSM.SetPool(pool); err != nil {
			panic(err)
		}
		before := poolLit(pool)
		batch := &lib.DexBatch{Committee: chain}
		k := 1 + r.Intn(4)
		var reqs []string
		for i := 0; i < k; i++ {
			a := addr(r.Intn(7)) // includes addresses without points and duplicates
			pct := r.Pick(1, 50, 100, 100, 33, 99, uint64(1+r.Intn(100)))
			batch.Withdrawals = append(batch.Withdrawals, &lib.DexLiquidityWithdraw{Address: a, Percent: pct, OrderId: r.Bytes(20)})
			reqs = append(reqs, fmt.Sprintf("(%s, %s)", sim.AddrN(a), sim.CoqN(pct)))
		}
		b0 := balances(n, 7)
		xx, yy := x, y
		err := n.FSM.HandleBatchWithdraw(batch, chain, &xx, &yy, local)
		kind := 1
		after, credits := before, "[]"
		if err != nil {
			kind = 2
			st.Outcomes["withdraw-error"]++
		} else {
			st.Outcomes["withdraw-ok"]++
			p2, e := n.FSM.GetPool(liqPool)
			if e != nil {
				panic(e)
			}
			after = poolLit(p2)
			b1 := balances(n, 7)
			type cr struct {
				a []byte
				v uint64
			}
			var crs []cr
			for i := 0; i < 7; i++ {
				if d := b1[string(addr(i))] - b0[string(addr(i))]; d != 0 {
					crs = append(crs, cr{addr(i), d})
				}
			}
			sort.Slice(crs, func(i, j int) bool { return string(crs[i].a) < string(crs[j].a) })
			var cs []string
			for _, e := range crs {
				cs = append(cs, fmt.Sprintf("(%s, %s)", sim.AddrN(e.a), sim.CoqN(e.v)))
			}
			credits = sim.CoqList(cs)
			if len(crs) > 0 {
				st.Outcomes["withdraw-paid"]++
			}
		}
		lit := fmt.Sprintf("mkWd %s %s %s %s %s %d %s %s %s %s", before, sim.CoqN(x), sim.CoqN(y), sim.CoqBool(local), sim.CoqList(reqs), kind, after, sim.CoqN(xx), sim.CoqN(yy), credits)
		w.Add(lit, map[string]any{"kind": "withdraw", "case": trunc(lit)})
		note("withdraw", lit, true)
	}
	n.FSM.Reset()
}

func depositCases(r *sim.Rng, n *sim.FNode, count int, w *sim.CaseWriter) {
	dead, _ := crypto.NewAddressFromString(strings.Repeat("dead", 10))
	for c := 0; c < count; c++ {
		n.FSM.Reset()
		x, y := reserve(r), reserve(r)
		var pool *fsm.Pool
		if r.Chance(25) {
			pool = &fsm.Pool{Id: liqPool, Amount: y} // no points yet: initialised to the dead address
		} else {
			pts, total := pointsTable(r)
			// no ghost entries here: AddPoints never creates them and drop happens only on withdraw
			var clean []*lib.PoolPoints
			total = 0
			for _, e := range pts {
				if e.Points != 0 {
					clean = append(clean, e)
					total += e.Points
				}
			}
			pool = &fsm.Pool{Id: liqPool, Amount: y, Points: clean, TotalPoolPoints: total}
		}
		if err := n.FSM.SetPool(pool); err != nil {
			panic(err)
		}
		before := poolLit(pool)
		batch := &lib.DexBatch{Committee: chain}
		k := 1 + r.Intn(4)
		var ds []string
		for i := 0; i < k; i++ {
			a := addr(r.Intn(7))
			v := amount(r)
			if r.Chance(70) {
				v = v % 1_000_000_000
			}
			batch.Deposits = append(batch.Deposits, &lib.DexLiquidityDeposit{Address: a, Amount: v, OrderId: r.Bytes(20)})
			ds = append(ds, fmt.Sprintf("(%s, %s)", sim.AddrN(a), sim.CoqN(v)))
		}
		xx, yy := x, y
		err := n.FSM.HandleBatchDeposit(batch, chain, &xx, &yy, false)
		obs := "None"
		if err == nil {
			p2, e := n.FSM.GetPool(liqPool)
			if e != nil {
				panic(e)
			}
			obs = fmt.Sprintf("Some (%s, %s)", poolLit(p2), sim.CoqN(xx))
			st.Outcomes["deposit-ok"]++
		} else {
			st.Outcomes["deposit-error"]++
		}
		lit := fmt.Sprintf("mkDep %s %s %s %s %s (%s)", sim.AddrN(dead.Bytes()), before, sim.CoqN(x), sim.CoqN(y), sim.CoqList(ds), obs)
		w.Add(lit, map[string]any{"kind": "deposit", "case": trunc(lit)})
		note("deposit", lit, true)
	}
	n.FSM.Reset()
}

func main() {
	nFn := flag.Int("fn", 600, "generated-function cases")
	nSwap := flag.Int("swap", 200, "swap batch cases")
	nWd := flag.Int("withdraw", 200, "withdraw cases")
	nDep := flag.Int("deposit", 200, "deposit cases")
	nMerge := flag.Int("merge", 40, "same-block batch merge cases (IncludeSameBlockDex)")
	nPipe := flag.Int("pipeline", 3, "two-chain pipeline runs")
	nSteps := flag.Int("steps", 60, "steps per pipeline run")
	outDir := flag.String("outdir", ".", "output directory")
	_ = flag.String("replay", "", "replay file (cases regenerate deterministically from the seed)")
	flag.Parse()
	r := sim.NewRng(sim.SeedFromEnv())
	g := &sim.GenesisSpec{}
	for i := 0; i < 4; i++ {
		g.Validators = append(g.Validators, sim.StdValidator(i, 1000000))
	}
	n, err := sim.NewFNode(g.State(), nil)
	if err != nil {
		panic(err)
	}
	defer n.Close()
	if out := n.Apply(&sim.BlockSpec{}); out.Err != nil {
		panic(out.Err)
	}
	imp := "From V Require Import U64 Extracted Dex DexCheck."
	w1 := &sim.CaseWriter{OutDir: *outDir, Name: "c20fn", Imports: imp, CaseType: "fn_case", MFun: "fn_mismatches", VFun: "fn_violations", PerShard: 300}
	fnCases(r.Fork(), *nFn, w1)
	w1.Close(st)
	w2 := &sim.CaseWriter{OutDir: *outDir, Name: "c20swap", Imports: imp, CaseType: "swap_case", MFun: "swap_mismatches", VFun: "swap_violations", PerShard: 100}
	swapCases(r.Fork(), n, *nSwap, w2)
	w2.Close(st)
	w3 := &sim.CaseWriter{OutDir: *outDir, Name: "c20wd", Imports: imp, CaseType: "wd_case", MFun: "wd_mismatches", VFun: "wd_violations", PerShard: 100}
	withdrawCases(r.Fork(), n, *nWd, w3)
	w3.Close(st)
	w4 := &sim.CaseWriter{OutDir: *outDir, Name: "c20dep", Imports: imp, CaseType: "dep_case", MFun: "dep_mismatches", VFun: "dep_violations", PerShard: 100}
	depositCases(r.Fork(), n, *nDep, w4)
	w4.Close(st)
	cappedDepositCases(r.Fork(), n, 2+*nDep/40, *outDir)
	w5 := &sim.CaseWriter{OutDir: *outDir, Name: "c20merge", Imports: "From V Require Import U64 Extracted DexBatch.", CaseType: "mg_case", MFun: "mg_mismatches", VFun: "mg_violations", PerShard: 10}
	mergeCases(r.Fork(), n, *nMerge, w5)
	w5.Close(st)
	w6 := &sim.CaseWriter{OutDir: *outDir, Name: "c20pipe", Imports: "From V Require Import U64 Extracted DexBatch.", CaseType: "pipe_case", MFun: "pipe_mismatches", VFun: "pipe_violations", PerShard: 200}
	pipelineCases(r.Fork(), *nPipe, *nSteps, w6, *outDir)
	w6.Close(st)
	// sell-order instructions of certificate results (lock / reset / close, duplicates, unknown ids, a buyer whose balance cannot take
	// the credit) with real committee signatures through ApplyTransactions: the escrow identity before and after (shared with c04)
	w7 := &sim.CaseWriter{OutDir: *outDir, Name: "c20cert", Imports: "From V Require Import U64 Extracted Ledger LedgerCheck LedgerBlock LedgerBlockCheck.", CaseType: "cr_case", MFun: "cr_mismatches", VFun: "cr_violations_for 20", PerShard: 25}
	certsim.Run(r.Fork(), 1+*nPipe/2, 8, *outDir, w7, func(k string) {
		if k == "case" {
			st.Cases++
			st.Distinct++
		} else {
			st.Outcomes[k]++
		}
	})
	w7.Close(st)
	fmt.Printf("c20: %d cases (%d distinct non-trivial) outcomes %v\n", st.Cases, st.Distinct, st.Outcomes)
}

// mergeCases: the real IncludeSameBlockDex on a locked batch (locked at this height) and a next batch whose list lengths sit
// around the per-batch caps (nothing to move, everything fits, one / two / three lists truncated by their cap, locked batch
// already at or above a cap); items carry consecutive ids so that a lost, duplicated or reordered item changes the sums
func mergeCases(r *sim.Rng, n *sim.FNode, count int, cw *sim.CaseWriter) {
	n.Enter()
	addr := sim.BLSKey(0).Addr
	pick := func(cap int) (int, int) {
		switch r.Intn(7) {
		case 0:
			return r.Intn(4), 0
		case 1:
			return r.Intn(50), r.Intn(50)
		case 2:
			return cap - 1 - r.Intn(3), 1 + r.Intn(6) // truncated by the cap
		case 3:
			return cap - r.Intn(40), r.Intn(40) // around the boundary
		case 4:
			return cap, 1 + r.Intn(5) // already full
		case 5:
			return cap + 1 + r.Intn(3), r.Intn(5) // above the cap (must not move, must not underflow)
		default:
			return 0, r.Intn(30)
		}
	}
	for i := 0; i < count; i++ {
		chain := uint64(2)
		lo, no := pick(lib.MaxOrdersPerDexBatch)
		ld, nd := pick(lib.MaxDepositsPerDexBatch)
		lw, nw := pick(lib.MaxWithdrawsPerDexBatch)
		mk := func(no, nd, nw int, o0, d0, w0 uint64) *lib.DexBatch {
			b := &lib.DexBatch{Committee: chain}
			for j := 0; j < no; j++ {
				b.Orders = append(b.Orders, &lib.DexLimitOrder{AmountForSale: o0 + uint64(j), RequestedAmount: 1, Address: addr})
			}
			for j := 0; j < nd; j++ {
				b.Deposits = append(b.Deposits, &lib.DexLiquidityDeposit{Amount: d0 + uint64(j), Address: addr})
			}
			for j := 0; j < nw; j++ {
				b.Withdrawals = append(b.Withdrawals, &lib.DexLiquidityWithdraw{Percent: w0 + uint64(j), Address: addr})
			}
			return b
		}
		locked := mk(lo, ld, lw, 1, 100001, 200001)
		locked.LockedHeight = n.FSM.Height()
		next := mk(no, nd, nw, 300001, 400001, 500001)
		if err := n.FSM.SetDexBatch(fsm.KeyForLockedBatch(chain), locked); err != nil {
			panic(err)
		}
		if err := n.FSM.SetDexBatch(fsm.KeyForNextBatch(chain), next); err != nil {
			panic(err)
		}
		if err := n.FSM.IncludeSameBlockDex(); err != nil {
			panic(err)
		}
		l2, e1 := n.FSM.GetDexBatch(chain, true)
		n2, e2 := n.FSM.GetDexBatch(chain, false)
		if e1 != nil || e2 != nil {
			panic(fmt.Sprint(e1, e2))
		}
		sum := func(b *lib.DexBatch) (s uint64) {
			for _, o := range b.Orders {
				s += o.AmountForSale
			}
			for _, d := range b.Deposits {
				s += d.Amount
			}
			for _, w := range b.Withdrawals {
				s += w.Percent
			}
			return
		}
		t3 := func(b *lib.DexBatch) string {
			return fmt.Sprintf("(%s, %s, %s)", sim.CoqN(uint64(len(b.Orders))), sim.CoqN(uint64(len(b.Deposits))), sim.CoqN(uint64(len(b.Withdrawals))))
		}
		lit := fmt.Sprintf("mkMg %s %s %s %s %s %s %s %s %s %s", sim.CoqN(uint64(lo)), sim.CoqN(uint64(ld)), sim.CoqN(uint64(lw)),
			sim.CoqN(uint64(no)), sim.CoqN(uint64(nd)), sim.CoqN(uint64(nw)), t3(l2), t3(n2), sim.CoqN(sum(l2)), sim.CoqN(sum(n2)))
		cw.Add(lit, map[string]any{"kind": "same-block-merge", "locked": []int{lo, ld, lw}, "next": []int{no, nd, nw}})
		st.Cases++
		st.Distinct++
		st.Outcomes["merge"]++
	}
	_ = n.FSM.Delete(fsm.KeyForLockedBatch(2))
	_ = n.FSM.Delete(fsm.KeyForNextBatch(2))
}
