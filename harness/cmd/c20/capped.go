package main

import (
	"encoding/binary"

	"github.com/canopy-network/canopy/fsm"
	"github.com/canopy-network/canopy/lib"
	"verifharness/sim"
)

// cappedDepositCases (property C20): a liquidity pool whose provider list is FULL (lib.MaxLiquidityProviders entries) receives a
// deposit batch with newcomers: a newcomer that out-ranks the smallest provider takes its place, the evicted provider is paid
// out.  Whatever the ranking decides, tokens are neither created nor lost (accounts + pools), the pool's balance equals the
// reserve ledger the swap arithmetic runs on, and the points sum to the recorded total.  (The list is too long for a Coq literal:
// the three identities are judged here, on the observation alone.)
func cappedDepositCases(r *sim.Rng, n *sim.FNode, count int, outDir string) {
	total := func() uint64 {
		var sum uint64
		accs, err := n.FSM.GetAccounts()
		if err != nil {
			panic(err)
		}
		for _, a := range accs {
			sum += a.Amount
		}
		pools, err := n.FSM.GetPools()
		if err != nil {
			panic(err)
		}
		for _, p := range pools {
			sum += p.Amount
		}
		return sum
	}
	for c := 0; c < count; c++ {
		n.FSM.Reset()
		x, y := 1_000_000+r.U64()%1_000_000_000, 1_000_000+r.U64()%1_000_000_000
		var pts []*lib.PoolPoints
		var tp uint64
		for i := 0; i < lib.MaxLiquidityProviders; i++ {
			a := make([]byte, 20)
			binary.BigEndian.PutUint64(a[12:], uint64(i+1))
			a[0] = 0xEE
			v := 1000 + r.U64()%100000
			if i == 17 {
				v = 1 + r.U64()%50 // the smallest provider
			}
			pts = append(pts, &lib.PoolPoints{Address: a, Points: v})
			tp += v
		}
		pool := &fsm.Pool{Id: liqPool, Amount: y, Points: pts, TotalPoolPoints: tp}
		if err := n.FSM.SetPool(pool); err != nil {
			panic(err)
		}
		before := total()
		batch := &lib.DexBatch{Committee: chain, ReceiptHash: r.Bytes(32)}
		for i := 0; i < 1+r.Intn(3); i++ {
			amt := 1 + r.U64()%(x/10)
			if r.Chance(30) {
				amt = 1 + r.U64()%5 // too small to out-rank anybody
			}
			batch.Deposits = append(batch.Deposits, &lib.DexLiquidityDeposit{Address: addr(r.Intn(7)), Amount: amt, OrderId: r.Bytes(20)})
		}
		if r.Chance(40) { // an incumbent tops up in the same batch
			batch.Deposits = append(batch.Deposits, &lib.DexLiquidityDeposit{Address: pts[r.Intn(len(pts))].Address, Amount: 1 + r.U64()%1000, OrderId: r.Bytes(20)})
		}
		xx, yy := x, y
		err := n.FSM.HandleBatchDeposit(batch, chain, &xx, &yy, false)
		st.Cases++
		st.Distinct++
		if err != nil {
			st.Outcomes["capped-deposit-error"]++
			continue
		}
		p2, e := n.FSM.GetPool(liqPool)
		if e != nil {
			panic(e)
		}
		after := total()
		var sum uint64
		for _, e := range p2.Points {
			sum += e.Points
		}
		evicted := len(p2.Points) <= lib.MaxLiquidityProviders && !sameProviders(pts, p2.Points)
		if evicted {
			st.Outcomes["capped-deposit-evicted"]++
		} else {
			st.Outcomes["capped-deposit-no-eviction"]++
		}
		if after != before || p2.Amount != yy || sum != p2.TotalPoolPoints || len(p2.Points) > lib.MaxLiquidityProviders {
			sim.Direct(outDir, map[string]any{"finding": "capped-deposit-accounting", "kind": "a deposit batch into a pool with a full provider list breaks an accounting identity",
				"tokens_before": before, "tokens_after": after, "pool_amount": p2.Amount, "reserve_ledger": yy, "points_sum": sum, "total_points": p2.TotalPoolPoints,
				"providers": len(p2.Points), "evicted": evicted})
		}
	}
	n.FSM.Reset()
}

func sameProviders(a, b []*lib.PoolPoints) bool {
	if len(a) != len(b) {
		return false
	}
	set := map[string]bool{}
	for _, e := range a {
		set[string(e.Address)] = true
	}
	for _, e := range b {
		if !set[string(e.Address)] {
			return false
		}
	}
	return true
}
