// c09: crash-consistency harness for property C09 (all-or-nothing block commit).
// A real node (controller + FSM + store on an in-memory pebble file system) commits a chain of blocks with real certificates -
// transfers, stakes, unstakes that finish (validator deletions), orders created and deleted, accounts drained to zero (state
// deletes), a memtable flush in the middle. The on-disk image is then cut at byte prefixes of the write-ahead log (every stride
// bytes and at both ends): each cut is what a crash at that instant leaves. Every image is re-opened by a new node process, which
// must find itself exactly at one committed height h: latest-state scan, recorded and recomputed state root, historical scans,
// block / certificate index, and it must be able to apply the next block and reach the reference's next header.
package main

import (
	"bytes"
	"crypto/sha256"
	"flag"
	"fmt"
	"io"
	"os"
	"os/exec"
	"sort"
	"strings"
	"time"

	"github.com/canopy-network/canopy/fsm"
	"github.com/canopy-network/canopy/lib"
	"github.com/canopy-network/canopy/lib/crypto"
	"github.com/cockroachdb/pebble/v2"
	"github.com/cockroachdb/pebble/v2/vfs"
	"verifharness/sim"
)

type stats struct {
	Cases             int            `json:"cases"`
	Distinct          int            `json:"distinct_nontrivial"`
	Images            int            `json:"crash_images"`
	ByHeight          map[string]int `json:"images_by_recovered_height"`
	Continue          int            `json:"continuations_checked"`
	ConcurrentCommits int            `json:"commits_verified_while_other_stores_over_the_database_were_reset"`
	BigBlockTxs       int            `json:"transactions_in_the_large_block"`
	BigBlockLogBytes  int            `json:"log_bytes_written_by_the_large_block"`
	Samples           []string       `json:"samples"`
}

var st = &stats{ByHeight: map[string]int{}}

type ref struct {
	ver  uint64 // store version
	blkH uint64 // height of the block committed at that version (0 for genesis)
	scan [32]byte
	root []byte
	hash []byte
	qc   *lib.QuorumCertificate
}

func digest(f *fsm.StateMachine) [32]byte {
	sc, err := sim.ScanState(f)
	if err != nil {
		panic(err)
	}
	return sha256.Sum256([]byte(sc.Lit()))
}

func readAll(fs vfs.FS, dir string) (files map[string][]byte, wal string) {
	names, err := fs.List(dir)
	if err != nil {
		panic(err)
	}
	files = map[string][]byte{}
	for _, name := range names {
		if name == "LOCK" {
			continue
		}
		f, err := fs.Open(fs.PathJoin(dir, name))
		if err != nil {
			continue
		}
		data, _ := io.ReadAll(f)
		_ = f.Close()
		files[name] = data
		if strings.HasSuffix(name, ".log") && name > wal {
			wal = name
		}
	}
	return
}

func image(files map[string][]byte, dir, wal string, walLen int) *vfs.MemFS {
	dst := vfs.NewMem()
	_ = dst.MkdirAll(dir, 0o755)
	for name, data := range files {
		if name == wal {
			data = data[:walLen]
		}
		f, err := dst.Create(dst.PathJoin(dir, name), vfs.WriteCategoryUnspecified)
		if err != nil {
			panic(err)
		}
		_, _ = f.Write(data)
		_ = f.Sync()
		_ = f.Close()
	}
	return dst
}

func main() {
	nChains := flag.Int("chains", 1, "reference chains")
	nBlocks := flag.Int("blocks", 8, "blocks per chain")
	stride := flag.Int("stride", 257, "distance in bytes between crash points in the write-ahead log")
	bigTxs := flag.Int("bigtxs", 1300, "transfers offered to the large last block of the first chain")
	outDir := flag.String("outdir", ".", "output directory")
	_ = flag.String("replay", "", "replay file (cases regenerate deterministically from the seed)")
	concChild := flag.Bool("concurrent-child", false, "internal: run the concurrent-copies scenario and exit")
	flag.Parse()
	if *concChild {
		concurrentCopies(*outDir, 4*time.Second)
		fmt.Printf("commits=%d\n", st.ConcurrentCommits)
		return
	}
	r := sim.NewRng(sim.SeedFromEnv())
	cw := &sim.CaseWriter{OutDir: *outDir, Name: "c09", Imports: "From V Require Import Commit.", CaseType: "img_case", MFun: "img_mismatches", VFun: "img_violations", PerShard: 400}
	const dir = "db"
	for c := 0; c < *nChains; c++ {
		g := &sim.GenesisSpec{}
		p := fsm.DefaultParams()
		p.Validator.UnstakingBlocks = 2
		g.Params = p
		for i := 0; i < 4; i++ {
			g.Validators = append(g.Validators, sim.StdValidator(i, 1000000+uint64(i)))
		}
		for i := 0; i < 9; i++ {
			g.Accounts = append(g.Accounts, &fsm.Account{Address: sim.BLSKey(i).Addr, Amount: r.Pick(20000, 3_000_000_000)})
		}
		sim.RegisterKeys(16)
		fs := vfs.NewMem()
		n, err := sim.NewCNodeFS(g.State(), 0, nil, fs)
		if err != nil {
			panic(err)
		}
		gen := sim.NewTxGen(r.Fork(), 9)
		gen.Stable = 2
		refs := []ref{{ver: n.Store.Version(), scan: digest(n.C.FSM)}}
		for b := 0; b < *nBlocks; b++ {
			n.Enter()
			var txs [][]byte
			for i := 0; i < 2+r.Intn(7); i++ {
				tx, _ := gen.Next(n.C.FSM)
				txs = append(txs, tx)
			}
			prop, perr := n.Propose(txs)
			if perr != nil {
				panic(perr)
			}
			view := n.CommitView()
			vs, verr := n.Committee(view.RootHeight)
			if verr != nil {
				break
			}
			qc, qerr := sim.MakeQC(vs, view, sim.BLSKey(0).Pub, prop, sim.AllSigners(vs))
			if qerr != nil {
				panic(qerr)
			}
			if derr := n.Deliver(sim.CloneQC(qc), false); derr != nil {
				panic(derr)
			}
			n.Enter()
			blk, _ := n.C.FSM.LoadBlock(n.C.FSM.Height() - 1)
			refs = append(refs, ref{ver: n.Store.Version(), blkH: n.C.FSM.Height() - 1, scan: digest(n.C.FSM), root: blk.BlockHeader.StateRoot, hash: blk.BlockHeader.Hash, qc: qc})
			if b == *nBlocks/2 && r.Bool() {
				_ = n.Store.DB().Flush() // part of the history moves from the log into a table file
			}
		}
		// the last block is a LARGE one (well over a thousand transfers: its commit writes more than a megabyte of state, tree
		// nodes and index entries): however the store gets that much data to the log, a crash in the middle of it must re-open
		// at the height before it, never in between
		bigStart := -1
		if c == 0 {
			_ = n.Store.DB().LogData(nil, pebble.Sync)
			f0, w0 := readAll(fs, dir)
			bigStart = len(f0[w0])
			n.Enter()
			h := n.C.FSM.Height()
			sendFee := uint64(10000)
			if fp, e := n.C.FSM.GetParamsFee(); e == nil && fp != nil {
				sendFee = fp.SendFee
			}
			var txs [][]byte
			var rich []int // senders that can pay for a few hundred transfers
			for i := 0; i < 9; i++ {
				if bal, e := n.C.FSM.GetAccountBalance(crypto.NewAddress(sim.BLSKey(i).Addr)); e == nil && bal > uint64(*bigTxs)*sendFee {
					rich = append(rich, i)
				}
			}
			for i := 0; i < *bigTxs && len(rich) > 0; i++ {
				k := sim.BLSKey(rich[i%len(rich)])
				t, terr := fsm.NewSendTransaction(k.Priv, crypto.NewAddress(sim.BLSKey((i+1)%9).Addr), 1, 1, 1, sendFee, h, fmt.Sprintf("big%d", i))
				if terr == nil {
					bz, _ := lib.Marshal(t)
					txs = append(txs, bz)
				}
			}
			if prop, perr := n.Propose(txs); perr == nil {
				view := n.CommitView()
				if vs, verr := n.Committee(view.RootHeight); verr == nil {
					if qc, qerr := sim.MakeQC(vs, view, sim.BLSKey(0).Pub, prop, sim.AllSigners(vs)); qerr == nil {
						if derr := n.Deliver(sim.CloneQC(qc), false); derr == nil {
							n.Enter()
							blk, _ := n.C.FSM.LoadBlock(n.C.FSM.Height() - 1)
							refs = append(refs, ref{ver: n.Store.Version(), blkH: n.C.FSM.Height() - 1, scan: digest(n.C.FSM), root: blk.BlockHeader.StateRoot, hash: blk.BlockHeader.Hash, qc: qc})
							st.BigBlockTxs = len(blk.Transactions)
						}
					}
				}
			}
		}
		committed := len(refs) - 1
		_ = n.Store.DB().LogData(nil, pebble.Sync)
		files, wal := readAll(fs, dir)
		walLen := len(files[wal])
		var cuts []int
		for p := 0; p < walLen; p += *stride {
			if bigStart >= 0 && p > bigStart {
				break
			}
			cuts = append(cuts, p)
		}
		if bigStart >= 0 && walLen > bigStart {
			// inside the large block's stretch of the log: a few dozen crash points (every image costs a node start)
			st.BigBlockLogBytes = walLen - bigStart
			step := (walLen - bigStart) / 40
			if step < 1 {
				step = 1
			}
			for p := bigStart; p < walLen; p += step {
				cuts = append(cuts, p)
			}
		}
		cuts = append(cuts, walLen-1, walLen)
		sort.Ints(cuts)
		prev := uint64(0)
		for _, cut := range cuts {
			if cut < 0 {
				continue
			}
			img := image(files, dir, wal, cut)
			m, oerr := sim.NewCNodeFS(g.State(), 0, nil, img)
			if oerr != nil {
				sim.Direct(*outDir, map[string]any{"finding": "node-cannot-reopen-after-crash", "kind": "re-open failed", "wal_bytes": cut, "error": oerr.Error()})
				continue
			}
			m.Enter()
			ver := m.Store.Version()
			idx := -1
			for i := range refs {
				if refs[i].ver == ver {
					idx = i
				}
			}
			h := uint64(0)
			if idx >= 0 {
				h = uint64(idx)
			} else {
				h = uint64(committed + 1) // a version the reference never committed
			}
			stateOK, rootOK, histOK, indexOK, contOK := false, false, true, true, true
			if idx >= 0 {
				stateOK = digest(m.C.FSM) == refs[idx].scan
				rootOK = true
				if idx > 0 {
					blk, e := m.C.FSM.LoadBlock(refs[idx].blkH)
					root, e2 := m.Store.Root()
					rootOK = e == nil && e2 == nil && blk != nil && blk.BlockHeader != nil && bytes.Equal(blk.BlockHeader.StateRoot, refs[idx].root) && bytes.Equal(root, refs[idx].root)
				}
				for i := 1; i <= idx; i++ {
					blk, e := m.C.FSM.LoadBlock(refs[i].blkH)
					if e != nil || blk == nil || blk.BlockHeader == nil || !bytes.Equal(blk.BlockHeader.Hash, refs[i].hash) {
						indexOK = false
					}
					if qc, e := m.C.FSM.LoadCertificate(refs[i].blkH); e != nil || qc == nil || !bytes.Equal(qc.BlockHash, refs[i].hash) {
						indexOK = false
					}
				}
				if idx < committed {
					if blk, _ := m.C.FSM.LoadBlock(refs[idx+1].blkH); blk != nil && blk.BlockHeader != nil && len(blk.BlockHeader.Hash) != 0 {
						indexOK = false // an index entry of a height the node is not at
					}
				}
				// historical state at up to two earlier versions
				for k := 0; k < 2 && idx > 1; k++ {
					i := 1 + r.Intn(idx-1)
					tm, e := m.C.FSM.TimeMachine(refs[i].blkH + 1)
					if e != nil {
						histOK = false
						continue
					}
					if digest(tm) != refs[i].scan {
						histOK = false
					}
					tm.Discard()
				}
				// continue: the next block of the reference chain must be accepted and lead to the reference's next header
				if idx < committed && (r.Chance(35) || cut == cuts[0]) {
					if derr := m.Deliver(sim.CloneQC(refs[idx+1].qc), false); derr != nil {
						contOK = false
					} else {
						m.Enter()
						blk, _ := m.C.FSM.LoadBlock(refs[idx+1].blkH)
						contOK = blk != nil && blk.BlockHeader != nil && bytes.Equal(blk.BlockHeader.Hash, refs[idx+1].hash) && digest(m.C.FSM) == refs[idx+1].scan
					}
					st.Continue++
				}
			}
			m.Close()
			cw.Add(fmt.Sprintf("mkImg %d %d %s %s %s %s %s %d", committed, h, sim.CoqBool(stateOK), sim.CoqBool(rootOK), sim.CoqBool(histOK), sim.CoqBool(indexOK), sim.CoqBool(contOK), prev),
				map[string]any{"wal_bytes": cut, "of": walLen, "height": h})
			prev = h
			st.Cases++
			st.Distinct++
			st.Images++
			st.ByHeight[fmt.Sprint(h)]++
		}
		n.Close()
	}
	// in a child process: a corrupted write batch makes pebble call Logger.Fatalf, which exits the process
	child := exec.Command(os.Args[0], "-concurrent-child", "-outdir", *outDir)
	child.Env = os.Environ()
	if out, cerr := child.CombinedOutput(); cerr != nil {
		tail := string(out)
		if len(tail) > 600 {
			tail = tail[len(tail)-600:]
		}
		sim.Direct(*outDir, map[string]any{"finding": "process-dies-under-concurrent-store-copies", "kind": "the process committing blocks exited while other stores over the same database were reset concurrently",
			"exit": cerr.Error(), "output_tail": tail})
	} else {
		fmt.Sscanf(string(out), "commits=%d", &st.ConcurrentCommits)
	}
	cw.Close(st)
	fmt.Printf("c09: %d crash images, recovered heights %v, %d continuations\n", st.Images, st.ByHeight, st.Continue)
}
