package main

import (
	"bytes"
	"fmt"
	"runtime"
	"sync"
	"sync/atomic"
	"time"

	"github.com/canopy-network/canopy/lib"
	"github.com/canopy-network/canopy/store"
	"verifharness/sim"
)

// concurrentCopies: a node holds several stores over one database - the controller's (the only one that commits), the mempool's
// copy and the copies made for proposals and queries - and the copies are Reset() / Discard()ed on other goroutines without a
// lock shared with the committing one. A commit that returned success must be in the database, whole: the commit id of the block
// and every key the block wrote.
func concurrentCopies(outDir string, limit time.Duration) {
	baseI, err := store.NewStoreInMemory(sim.Logger())
	if err != nil {
		panic(err)
	}
	base := baseI
	var stop atomic.Bool
	var wg sync.WaitGroup
	n := runtime.GOMAXPROCS(0)
	if n > 8 {
		n = 8
	}
	for g := 0; g < n; g++ {
		cp, e := base.Copy()
		if e != nil {
			panic(e)
		}
		wg.Add(1)
		go func(cp lib.StoreI) {
			defer wg.Done()
			for !stop.Load() {
				cp.Reset()
			}
			cp.Discard()
		}(cp)
	}
	defer func() { stop.Store(true); wg.Wait() }()
	deadline := time.Now().Add(limit)
	const perBlock = 40
	commits := 0
	for v := uint64(1); time.Now().Before(deadline); v++ {
		failure := ""
		func() {
			defer func() {
				if r := recover(); r != nil {
					failure = fmt.Sprintf("panic while committing version %d: %v", v, r)
				}
			}()
			for i := 0; i < perBlock; i++ {
				k := lib.JoinLenPrefix([]byte{1}, []byte(fmt.Sprintf("key-%03d", i)))
				if e := base.Set(k, []byte(fmt.Sprintf("value-%d-%d", v, i))); e != nil {
					failure = e.Error()
					return
				}
			}
			if _, e := base.Commit(); e != nil {
				failure = fmt.Sprintf("commit %d failed: %v", v, e)
				return
			}
			if base.Version() != v {
				failure = fmt.Sprintf("version %d after commit %d", base.Version(), v)
				return
			}
			fresh := 0
			for i := 0; i < perBlock; i++ {
				k := lib.JoinLenPrefix([]byte{1}, []byte(fmt.Sprintf("key-%03d", i)))
				got, e := base.Get(k)
				if e == nil && bytes.Equal(got, []byte(fmt.Sprintf("value-%d-%d", v, i))) {
					fresh++
				}
			}
			if fresh != perBlock {
				failure = fmt.Sprintf("Commit() of version %d returned success, but only %d of the %d keys written by the block have the block's value in the database", v, fresh, perBlock)
			}
		}()
		if failure != "" {
			sim.Direct(outDir, map[string]any{"finding": "commit-not-atomic-under-concurrent-store-copies", "kind": "a successful commit is not (wholly) in the database while other stores over the same database are reset concurrently",
				"detail": failure, "copies": n})
			break
		}
		commits++
	}
	st.ConcurrentCommits = commits
}
