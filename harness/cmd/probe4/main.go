package main

import (
	"fmt"

	"github.com/canopy-network/canopy/lib"
	"github.com/canopy-network/canopy/store"
)

// replay of the VStoreProofs counterexample on the real store: a prefix that extends a stored user key into its version suffix
func main() {
	c := lib.DefaultConfig()
	c.StoreConfig.InMemory = true
	s, err := store.NewStoreInMemory(lib.NewNullLogger(), c)
	if err != nil {
		panic(err)
	}
	st := s.(*store.Store)
	_ = st.Set([]byte{1, 1}, []byte{9})
	if _, err = st.Commit(); err != nil {
		panic(err)
	}
	for _, p := range [][]byte{{1, 1}, {1, 1, 0}, {1, 1, 0, 0}} {
		it, e := st.Iterator(p)
		if e != nil {
			panic(e)
		}
		for ; it.Valid(); it.Next() {
			fmt.Printf("prefix %v -> key %v value %v\n", p, it.Key(), it.Value())
		}
		it.Close()
		it, _ = st.RevIterator(p)
		for ; it.Valid(); it.Next() {
			fmt.Printf("rev prefix %v -> key %v value %v\n", p, it.Key(), it.Value())
		}
		it.Close()
	}
}
