package main

import (
	"fmt"

	"github.com/canopy-network/canopy/fsm"
	"github.com/canopy-network/canopy/lib"
	"github.com/canopy-network/canopy/lib/crypto"
	"verifharness/sim"
)

// replay probe (C06): the same signed content under an equivalent public-key representation (ETH key: 64 vs 65 bytes)
func main() {
	eth, err := crypto.NewETHSECP256K1PrivateKey()
	if err != nil {
		panic(err)
	}
	g := &sim.GenesisSpec{}
	for i := 0; i < 4; i++ {
		g.Validators = append(g.Validators, sim.StdValidator(i, 1000000))
	}
	g.Accounts = append(g.Accounts, &fsm.Account{Address: eth.PublicKey().Address().Bytes(), Amount: 5_000_000})
	n, e := sim.NewFNode(g.State(), nil)
	if e != nil {
		panic(e)
	}
	k5 := sim.BLSKey(5)
	h := n.FSM.Height()
	b1 := sim.TxBytes(fsm.NewSendTransaction(eth, crypto.NewAddress(k5.Addr), 1000, 1, 1, 10000, h, ""))
	tx := new(lib.Transaction)
	if er := lib.Unmarshal(b1, tx); er != nil {
		panic(er)
	}
	fmt.Println("public key length in the original:", len(tx.Signature.PublicKey))
	tx.Signature.PublicKey = append([]byte{0x04}, tx.Signature.PublicKey...)
	b2, _ := lib.Marshal(tx)
	bal := func() uint64 { b, _ := n.FSM.GetAccountBalance(crypto.NewAddress(k5.Addr)); return b }
	out := n.Apply(&sim.BlockSpec{Txs: [][]byte{b1}})
	fmt.Println("block 1 (original): err", out.Err, "applied", len(out.Results.Results), "recipient:", bal())
	out = n.Apply(&sim.BlockSpec{Txs: [][]byte{b2}})
	ap := 0
	if out.Results != nil {
		ap = len(out.Results.Results)
	}
	fmt.Println("block 2 (public key with the 0x04 prefix, canonical protobuf): err", out.Err, "applied", ap, "recipient:", bal())
	if out.Results != nil {
		for _, f := range out.Results.Failed {
			fmt.Println("   failed:", f.Error)
		}
	}
}
