package main

import (
	"fmt"

	"github.com/canopy-network/canopy/fsm"
	"verifharness/sim"
)

func main() {
	g := &sim.GenesisSpec{}
	for i := 0; i < 4; i++ {
		g.Validators = append(g.Validators, sim.StdValidator(i, 1000))
		g.Accounts = append(g.Accounts, &fsm.Account{Address: sim.BLSKey(i).Addr, Amount: 1 << 40})
	}
	n, err := sim.NewFNode(g.State(), nil)
	if err != nil {
		panic(err)
	}
	k := sim.BLSKey(0)
	h := n.FSM.Height()
	escrowPool := uint64(1) + fsm.EscrowPoolAddend
	out := n.Apply(&sim.BlockSpec{Txs: [][]byte{sim.TxBytes(fsm.NewSubsidyTx(k.Priv, 777, escrowPool, nil, 1, 1, 10000, h, "donate to escrow"))}})
	fmt.Println("block err:", out.Err, "applied:", len(out.Results.Results), "failed:", len(out.Results.Failed))
	bal, _ := n.FSM.GetPoolBalance(escrowPool)
	ob, _ := n.FSM.GetOrderBook(1)
	fmt.Printf("escrow pool of chain 1 (id %d) = %d, open orders = %d\n", escrowPool, bal, len(ob.Orders))
}
