// c16: correspondence harness for property C16 (Merkle proofs).
//   - SMT level (key widths 8, 16, 160): for generated states, the real GetMerkleProof / VerifyProof are run on honest
//     proofs, honest proofs offered for OTHER keys (present, absent, neighbours), and mutated proofs (truncated, reordered,
//     duplicated node, flipped side bit, flipped value/key bytes, wrong claimed value, wrong root, malformed key bytes,
//     over-long keys, empty proof) under recover; verdicts are compared in Coq with model/Proof.v and with the truth of the
//     claim (soundness predicate); a panic is a direct violation.
//   - Store level: blocks are committed on the real Store; for every committed version v a read-only store at v must
//     produce a proof that verifies against the root committed for v (completeness), for present and absent keys.
package main

import (
	"bytes"
	"flag"
	"fmt"
	"math/big"
	"strings"

	"github.com/canopy-network/canopy/lib"
	"github.com/canopy-network/canopy/lib/crypto"
	"github.com/canopy-network/canopy/store"
	"verifharness/sim"
)

type stats struct {
	Cases      int            `json:"cases"`
	Distinct   int            `json:"distinct_nontrivial"`
	ByKind     map[string]int `json:"by_kind"`
	Verdicts   map[string]int `json:"verdicts"`
	Panics     int            `json:"panics"`
	StoreProof int            `json:"store_level_proofs_checked"`
	Reframed   int            `json:"reframed_proofs_offered"`
	Samples    []string       `json:"samples"`
}

var st = stats{ByKind: map[string]int{}, Verdicts: map[string]int{}}

func bitsToN(b string) string {
	if b == "" {
		return "0"
	}
	n := new(big.Int)
	n.SetString(b, 2)
	return n.String()
}

type kv struct {
	raw  []byte
	bits string
	val  []byte
}

func reserved(w int, b string) bool {
	if strings.Count(b, "0") == w || strings.Count(b, "1") == w {
		return true
	}
	rest := b[3:]
	return strings.Count(rest, "0") == len(rest) || strings.Count(rest, "1") == len(rest)
}

func bitsOfKeyBytes(v *store.VerifSMT, nodes []store.VerifNode) map[string]string {
	m := map[string]string{}
	for _, n := range nodes {
		m[string(n.Key)] = n.Bits
	}
	return m
}

func verdict(ok bool, err lib.ErrorI) int {
	if err != nil {
		return 2
	}
	if ok {
		return 1
	}
	return 0
}

func main() {
	nStates := flag.Int("states", 24, "generated states per key width")
	perState := flag.Int("claims", 14, "claims per state")
	nStore := flag.Int("store", 6, "store-level histories")
	outDir := flag.String("outdir", ".", "output directory")
	_ = flag.String("replay", "", "replay file (cases regenerate deterministically from the seed)")
	flag.Parse()
	r := sim.NewRng(sim.SeedFromEnv())
	cw := &sim.CaseWriter{OutDir: *outDir, Name: "c16", Imports: "From V Require Import Trie TrieCheck Proof ProofCheck.", CaseType: "pf_case", MFun: "pf_mismatches", VFun: "pf_violations", PerShard: 60}
	seen := map[string]bool{}
	for _, w := range []int{8, 16, 160} {
		for sI := 0; sI < *nStates; sI++ {
			v, e := store.VerifNewSMT(w, lib.NewNullLogger())
			if e != nil {
				panic(e)
			}
			// build a state: one or two batches
			present := map[string]kv{}
			var batches []string
			ctr := 0
			for b := 0; b < 1+r.Intn(2); b++ {
				var ops []store.VerifOp
				var lits []string
				n := 1 + r.Intn(14)
				used := map[string]bool{}
				for len(ops) < n {
					ctr++
					raw := []byte(fmt.Sprintf("s%d-%d-%d", w, r.U64()%5000, ctr))
					bits := v.HashedKeyBits(raw)
					if reserved(w, bits) || used[bits] {
						continue
					}
					if old, ok := present[bits]; ok {
						raw = old.raw // same tree key: overwrite or delete through the original raw key
					}
					used[bits] = true
					if _, ok := present[bits]; ok && r.Chance(40) {
						ops = append(ops, store.VerifOp{Key: raw, Delete: true})
						lits = append(lits, fmt.Sprintf("ODel (kb %d %s)", w, bitsToN(bits)))
						delete(present, bits)
					} else {
						val := r.Bytes(1 + r.Intn(4))
						ops = append(ops, store.VerifOp{Key: raw, Value: val})
						lits = append(lits, fmt.Sprintf("OSet (kb %d %s) 0x%s%%N", w, bitsToN(bits), sim.Hex(crypto.Hash(val))))
						present[bits] = kv{raw, bits, val}
					}
				}
				if _, err := v.Commit(ops, r.Bool()); err != nil {
					panic(err)
				}
				batches = append(batches, sim.CoqList(lits))
			}
			root := v.Root()
			nodes, err := v.Dump()
			if err != nil {
				panic(err)
			}
			keyBits := bitsOfKeyBytes(v, nodes)
			hashOf := map[string]string{} // value bytes -> node key bits (to name digests)
			for _, n := range nodes {
				hashOf[string(n.Key)+"|"+string(n.Value)] = n.Bits
			}
			var presentList []kv
			for _, e := range present {
				presentList = append(presentList, e)
			}
			pickKey := func() (kv, bool) { // (key, isPresent)
				if len(presentList) > 0 && r.Chance(55) {
					return presentList[r.Intn(len(presentList))], true
				}
				for {
					ctr++
					raw := []byte(fmt.Sprintf("abs%d-%d-%d", w, r.U64(), ctr))
					bits := v.HashedKeyBits(raw)
					if reserved(w, bits) {
						continue
					}
					if e, ok := present[bits]; ok {
						return e, true
					}
					return kv{raw: raw, bits: bits}, false
				}
			}
			for c := 0; c < *perState; c++ {
				proofKey, _ := pickKey()
				proof, perr := v.Proof(proofKey.raw)
				if perr != nil {
					continue
				}
				claimKey, claimPresent := proofKey, false
				kind := "honest"
				if _, ok := present[proofKey.bits]; ok {
					claimPresent = true
				}
				if r.Chance(45) {
					claimKey, claimPresent = pickKey()
					kind = "other-key"
				}
				membership := claimPresent
				if r.Chance(35) {
					membership = !membership
					kind += "+false-claim"
				}
				claimVal := claimKey.val
				if !claimPresent {
					claimVal = r.Bytes(2)
				}
				if r.Chance(12) {
					claimVal = r.Bytes(3)
					kind += "+wrong-value"
				}
				// adversarial value choice: claim the value stored in the proven node itself (the neighbour leaf at the
				// insertion point) or some other value that really occurs in the tree
				if (!claimPresent || kind != "honest") && r.Chance(40) && len(proof) > 0 {
					if nb, ok := present[keyBits[string(proof[0].Key)]]; ok {
						claimVal = nb.val
						kind += "+neighbour-value"
					} else if len(presentList) > 0 {
						claimVal = presentList[r.Intn(len(presentList))].val
						kind += "+some-present-value"
					}
				}
				useRoot := root
				rootLit := "None"
				if r.Chance(6) {
					useRoot = crypto.Hash(r.Bytes(4))
					rootLit = fmt.Sprintf("(Some 0x%s%%N)", sim.Hex(useRoot))
					kind += "+wrong-root"
				}
				// clone and mutate
				pf := make([]*lib.Node, len(proof))
				for i, n := range proof {
					pf[i] = &lib.Node{Key: bytes.Clone(n.Key), Value: bytes.Clone(n.Value), Bitmask: n.Bitmask}
				}
				malformed := false
				if r.Chance(35) {
					switch r.Intn(10) {
					case 0:
						if len(pf) > 0 {
							pf = pf[:r.Intn(len(pf))]
							kind += "+truncated"
						}
					case 1:
						if len(pf) > 2 {
							i := 1 + r.Intn(len(pf)-2)
							pf[i], pf[i+1] = pf[i+1], pf[i]
							kind += "+reordered"
						}
					case 2:
						if len(pf) > 1 {
							i := 1 + r.Intn(len(pf)-1)
							pf[i].Bitmask ^= 1
							kind += "+side-flip"
						}
					case 3:
						i := r.Intn(len(pf))
						if len(pf[i].Value) > 0 {
							pf[i].Value[r.Intn(len(pf[i].Value))] ^= 1 << uint(r.Intn(8))
							kind += "+value-flip"
						}
					case 8, 9:
						// a value of another size: truncated, extended, or the key / value boundary of the node moved (all hashes unchanged)
						i := r.Intn(len(pf))
						switch r.Intn(3) {
						case 0:
							if len(pf[i].Value) > 1 {
								pf[i].Value = bytes.Clone(pf[i].Value[:len(pf[i].Value)-1])
							}
						case 1:
							pf[i].Value = append(bytes.Clone(pf[i].Value), byte(r.Intn(256)))
						default:
							if len(pf[i].Key) > 2 {
								j := 1 + r.Intn(len(pf[i].Key)-1)
								pf[i] = &lib.Node{Key: bytes.Clone(pf[i].Key[:j]), Value: append(bytes.Clone(pf[i].Key[j:]), pf[i].Value...), Bitmask: pf[i].Bitmask}
								malformed = true
							}
						}
						kind += "+value-resized"
					case 4:
						i := r.Intn(len(pf))
						pf = append(pf[:i+1], pf[i:]...)
						pf[i+1] = &lib.Node{Key: bytes.Clone(pf[i].Key), Value: bytes.Clone(pf[i].Value), Bitmask: pf[i].Bitmask}
						kind += "+duplicated-node"
					case 5: // malformed key bytes
						i := r.Intn(len(pf))
						switch r.Intn(4) {
						case 0:
							pf[i].Key = nil
						case 1:
							pf[i].Key = []byte{byte(r.U64())}
						case 2:
							pf[i].Key = append(bytes.Clone(pf[i].Key), r.Bytes(1+r.Intn(30))...)
						case 3:
							if len(pf[i].Key) > 0 {
								pf[i].Key[len(pf[i].Key)-1] = byte(8 + r.Intn(200))
							}
						}
						malformed = true
						kind += "+malformed-key"
					case 6: // key bit flip (may stay well-formed)
						i := r.Intn(len(pf))
						if len(pf[i].Key) > 1 {
							pf[i].Key[r.Intn(len(pf[i].Key)-1)] ^= 1 << uint(r.Intn(8))
							kind += "+key-flip"
							malformed = true // decoded bits may differ from any tree node: compared natively only
						}
					case 7:
						pf[r.Intn(len(pf))] = nil
						malformed = true
						kind += "+nil-node"
					}
				}
				var ok bool
				var verr lib.ErrorI
				panicked := false
				func() {
					defer func() {
						if p := recover(); p != nil {
							panicked = true
							st.Panics++
							sim.Direct(*outDir, map[string]any{"finding": "verifyproof-panic", "kind": "panic", "width": w, "mutation": kind, "panic": fmt.Sprint(p)})
						}
					}()
					ok, verr = v.Verify(claimKey.raw, claimVal, membership, useRoot, pf)
				}()
				if panicked {
					continue
				}
				obs := verdict(ok, verr)
				st.Verdicts[fmt.Sprintf("%s=%d", strings.Split(kind, "+")[0], obs)]++
				st.ByKind[kind]++
				truth := (claimPresent && membership && bytes.Equal(claimVal, claimKey.val)) || (!claimPresent && !membership)
				// a proof node whose value has not the size of a tree node value (a 32-byte hash, or one of the two 20-byte sentinel
				// leaves under its own key) is refused outright since the re-framing fix: outside the model's digest-level proofs
				for _, n := range pf {
					if n == nil {
						malformed = true
						continue
					}
					minK, maxK := append(bytes.Repeat([]byte{0}, w/8), 0), append(bytes.Repeat([]byte{255}, w/8), 0)
					okSize := len(n.Value) == crypto.HashSize || (bytes.Equal(n.Key, minK) && bytes.Equal(n.Value, bytes.Repeat([]byte{0}, 20))) ||
						(bytes.Equal(n.Key, maxK) && bytes.Equal(n.Value, bytes.Repeat([]byte{255}, 20)))
					if !okSize && !malformed {
						malformed = true
						kind += "+value-of-another-size"
						st.ByKind["value-of-another-size"]++
					}
				}
				if malformed {
					// cannot be expressed as model keys: the verdict must simply never accept a false claim
					if obs == 1 && !truth && rootLit == "None" {
						sim.Direct(*outDir, map[string]any{"finding": "verifyproof-accepts-false-claim", "kind": "unsound", "width": w, "mutation": kind})
					}
					st.Cases++
					continue
				}
				var pn []string
				bad := false
				for _, n := range pf {
					kb, okk := keyBits[string(n.Key)]
					if !okk {
						bad = true
						break
					}
					dref := fmt.Sprintf("RRaw 0x%s%%N", sim.Hex(n.Value))
					if hb, ok2 := hashOf[string(n.Key)+"|"+string(n.Value)]; ok2 {
						dref = fmt.Sprintf("RNode (kb %d %s)", len(hb), bitsToN(hb))
					}
					pn = append(pn, fmt.Sprintf("(kb %d %s, %s, %s)", len(kb), bitsToN(kb), dref, sim.CoqBool(n.Bitmask == 1)))
				}
				if bad {
					continue
				}
				lit := fmt.Sprintf("mkPf %d %s (kb %d %s) 0x%s%%N %s %s %s %d%%N", w, sim.CoqList(batches), w, bitsToN(claimKey.bits), sim.Hex(crypto.Hash(claimVal)),
					sim.CoqBool(membership), rootLit, sim.CoqList(pn), obs)
				cw.Add(lit, map[string]any{"kind": kind, "width": w, "truth": truth, "observed": obs})
				st.Cases++
				if !seen[lit] {
					seen[lit] = true
					st.Distinct++
				}
				if len(st.Samples) < 2 && w == 8 {
					st.Samples = append(st.Samples, lit)
				}
			}
			v.Close()
		}
	}
	// ---- store level completeness
	for h := 0; h < *nStore; h++ {
		sti, err := store.NewStoreInMemory(lib.NewNullLogger())
		if err != nil {
			panic(err)
		}
		s := sti.(*store.Store)
		type ver struct {
			root    []byte
			present map[string][]byte
		}
		var vers []ver
		cur := map[string][]byte{}
		commitRound := func() {
			for i := 0; i < 2+r.Intn(20); i++ {
				k := lib.JoinLenPrefix([]byte{1}, []byte(fmt.Sprintf("a-%03d", r.Intn(60))))
				if _, ok := cur[string(k)]; ok && r.Chance(35) {
					_ = s.Delete(k)
					delete(cur, string(k))
				} else {
					v := r.Bytes(1 + r.Intn(5))
					if r.Chance(20) {
						v = []byte{} // a key-only entry (the state machine stores committee / delegate membership this way)
					}
					_ = s.Set(k, v)
					cur[string(k)] = v
				}
			}
			root, err := s.Commit()
			if err != nil {
				panic(err)
			}
			snap := map[string][]byte{}
			for k, v := range cur {
				snap[k] = v
			}
			vers = append(vers, ver{root, snap})
		}
		for b := 0; b < 3+r.Intn(3); b++ {
			commitRound()
		}
		// sometimes the store is rolled back to an earlier height (the operator's rollback command) and the chain goes on from there:
		// the heights committed AFTER the rollback must prove exactly their own state - nothing of the abandoned heights
		if r.Chance(40) {
			target := 1 + r.Intn(len(vers)-1)
			if err := s.Rollback(uint64(target)); err != nil {
				panic(err)
			}
			vers = vers[:target]
			cur = map[string][]byte{}
			for k, v := range vers[target-1].present {
				cur[k] = v
			}
			for b := 0; b < 1+r.Intn(3); b++ {
				commitRound()
			}
			st.ByKind["store-rolled-back-then-continued"]++
		}
		// sometimes everything committed so far has left the memtable (a flush, as on every restart or when the memtable fills up):
		// reads at a version then go through the sstable block filters
		if r.Chance(50) {
			_ = s.DB().Flush()
			st.ByKind["store-flushed-before-proofs"]++
		}
		for vi, vv := range vers {
			ro, err := s.NewReadOnly(uint64(vi + 1))
			if err != nil {
				panic(err)
			}
			for i := 0; i < 70; i++ {
				// every candidate key at every version (the keys that were deleted at some height in particular); the costly
				// re-framed proofs for a sample of them
				k := lib.JoinLenPrefix([]byte{1}, []byte(fmt.Sprintf("a-%03d", i)))
				reframe := i%9 == 0
				val, present := vv.present[string(k)]
				var ok bool
				var e2 lib.ErrorI
				func() {
					defer func() {
						if p := recover(); p != nil {
							sim.Direct(*outDir, map[string]any{"finding": "store-proof-panic", "kind": "panic", "panic": fmt.Sprint(p)})
						}
					}()
					proof, e := ro.(*store.Store).GetProof(k)
					if e != nil {
						e2 = e
						return
					}
					ok, e2 = ro.(*store.Store).VerifyProof(k, val, present, vv.root, proof)
				}()
				st.StoreProof++
				if !ok || e2 != nil {
					sim.Direct(*outDir, map[string]any{"finding": "store-proof-incomplete", "kind": "honest store-level proof rejected", "version": vi + 1, "present": present, "error": fmt.Sprint(e2)})
				}
				// re-framed proofs: the hash pre-image of a parent is leftKey|leftValue|rightKey|rightValue; moving the boundary between
				// the key and the value of a proof node leaves every hash unchanged. For a PRESENT key no such re-framing may turn the
				// honest membership proof into an accepted proof of non-membership (nor, for an absent key, into one of membership).
				if ok && e2 == nil && reframe {
					func() {
						defer func() { _ = recover() }()
						proof, e := ro.(*store.Store).GetProof(k)
						if e != nil {
							return
						}
						for ni := range proof {
							orig := proof[ni]
							for j := 1; j < len(orig.Key); j++ {
								forged := append([]*lib.Node{}, proof...)
								forged[ni] = &lib.Node{Key: append([]byte{}, orig.Key[:j]...), Value: append(append([]byte{}, orig.Key[j:]...), orig.Value...), Bitmask: orig.Bitmask,
									LeftChildKey: orig.LeftChildKey, RightChildKey: orig.RightChildKey}
								okF, _ := ro.(*store.Store).VerifyProof(k, val, !present, vv.root, forged)
								st.Reframed++
								if okF {
									sim.Direct(*outDir, map[string]any{"finding": "store-proof-unsound", "kind": "a re-framed proof (key / value boundary of a proof node moved, all hashes unchanged) proves the opposite claim",
										"version": vi + 1, "key": fmt.Sprintf("%x", k), "present": present, "proof_node": ni, "boundary": j, "node_key": fmt.Sprintf("%x", orig.Key)})
								}
							}
						}
					}()
				}
			}
			ro.(*store.Store).Discard()
		}
		// ---- proofs at the head while the next block is pending: uncommitted writes on the live store, its speculative root
		// computed (as a proposer does) or not; a read-only store at the latest committed version must still prove exactly the
		// committed state against the committed root, for keys the pending block touches in particular
		{
			head := vers[len(vers)-1]
			var touched [][]byte
			for i := 0; i < 3+r.Intn(10); i++ {
				k := lib.JoinLenPrefix([]byte{1}, []byte(fmt.Sprintf("a-%03d", r.Intn(70))))
				if _, ok := head.present[string(k)]; ok && r.Chance(50) {
					_ = s.Delete(k)
				} else {
					_ = s.Set(k, r.Bytes(1+r.Intn(5)))
				}
				touched = append(touched, k)
			}
			speculative := r.Chance(70)
			if speculative {
				if _, e := s.Root(); e != nil {
					panic(e)
				}
			}
			ro, err := s.NewReadOnly(uint64(len(vers)))
			if err != nil {
				panic(err)
			}
			for i := 0; i < 10; i++ {
				k := touched[r.Intn(len(touched))]
				if r.Chance(25) {
					k = lib.JoinLenPrefix([]byte{1}, []byte(fmt.Sprintf("a-%03d", r.Intn(70))))
				}
				val, present := head.present[string(k)]
				var ok, okWrong bool
				var e2 lib.ErrorI
				func() {
					defer func() {
						if p := recover(); p != nil {
							sim.Direct(*outDir, map[string]any{"finding": "store-proof-panic", "kind": "panic", "panic": fmt.Sprint(p)})
						}
					}()
					proof, e := ro.(*store.Store).GetProof(k)
					if e != nil {
						e2 = e
						return
					}
					ok, e2 = ro.(*store.Store).VerifyProof(k, val, present, head.root, proof)
					// the opposite claim about the committed state must not verify against the committed root
					wrongVal := val
					if !present {
						wrongVal = []byte{1}
					}
					okWrong, _ = ro.(*store.Store).VerifyProof(k, wrongVal, !present, head.root, proof)
				}()
				st.StoreProof++
				if !ok || e2 != nil {
					sim.Direct(*outDir, map[string]any{"finding": "store-proof-incomplete", "kind": "honest proof at the head rejected while the next block is pending", "speculative_root": speculative, "present": present, "error": fmt.Sprint(e2)})
				}
				if okWrong {
					sim.Direct(*outDir, map[string]any{"finding": "store-proof-unsound", "kind": "the opposite claim verified against the committed root while the next block is pending", "speculative_root": speculative, "present": present})
				}
			}
			ro.(*store.Store).Discard()
		}
		s.Close()
	}
	cw.Close(st)
	fmt.Printf("c16: %d claims (%d distinct compared with the model), %d store-level proofs, %d panics, verdicts %v\n", st.Cases, st.Distinct, st.StoreProof, st.Panics, st.Verdicts)
}
