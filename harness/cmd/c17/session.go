package main

import (
	"bytes"
	"fmt"
	"io"
	"net"
	"sync"
	"time"

	"github.com/canopy-network/canopy/lib"
	"github.com/canopy-network/canopy/lib/crypto"
	"github.com/canopy-network/canopy/p2p"
	"verifharness/sim"
)

// sessionReplayCase (property C17, "replay ... produces a read error instead of delivered data", "a handshake succeeds only with a
// peer that proves possession of the private key"): an honest session A <-> B is recorded by a passive observer (only the bytes B
// sent). Right afterwards A opens a second connection (a redial; the observer may have cut the first one) and the observer answers
// with the RECORDING - it holds no key at all. A must refuse: every session has its own ephemeral keys, so the recorded identity
// proof is for another challenge and the recorded frames are sealed under other keys.
func sessionReplayCase(r *sim.Rng) {
	ka, _ := crypto.NewBLS12381PrivateKey()
	kb, _ := crypto.NewBLS12381PrivateKey()
	a1, a2 := net.Pipe()
	b1, b2 := net.Pipe()
	var rec bytes.Buffer
	var recMu sync.Mutex
	go func() { _, _ = io.Copy(b1, a2); b1.Close() }() // A -> B
	go func() {                                        // B -> A, recorded
		buf := make([]byte, 4096)
		for {
			n, err := b1.Read(buf)
			if n > 0 {
				recMu.Lock()
				rec.Write(buf[:n])
				recMu.Unlock()
				if _, e := a2.Write(buf[:n]); e != nil {
					return
				}
			}
			if err != nil {
				a2.Close()
				return
			}
		}
	}()
	var ea, eb *p2p.EncryptedConn
	var e1, e2 lib.ErrorI
	var wg sync.WaitGroup
	wg.Add(2)
	go func() { defer wg.Done(); ea, e1 = p2p.NewHandshake(a1, meta(), ka) }()
	go func() { defer wg.Done(); eb, e2 = p2p.NewHandshake(b2, meta(), kb) }()
	wg.Wait()
	if e1 != nil || e2 != nil {
		st.Hand["session-replay:first-session-failed"]++
		return
	}
	msg := r.Bytes(1 + r.Intn(2500))
	done := make(chan bool, 1)
	go func() {
		got := make([]byte, len(msg))
		_, err := io.ReadFull(ea, got)
		done <- err == nil && bytes.Equal(got, msg)
	}()
	_, _ = eb.Write(msg)
	select {
	case <-done:
	case <-time.After(20 * time.Second):
	}
	a1.Close()
	b2.Close()
	recMu.Lock()
	recording := append([]byte{}, rec.Bytes()...)
	recMu.Unlock()
	// the second connection of A: the observer plays the recording and discards whatever A sends
	for attempt := 0; attempt < 2; attempt++ {
		c1, c2 := net.Pipe()
		go func() { _, _ = io.Copy(io.Discard, c2) }()
		go func() {
			_, _ = c2.Write(recording)
			time.Sleep(300 * time.Millisecond)
			c2.Close()
		}()
		conn, herr := p2p.NewHandshake(c1, meta(), ka)
		st.Cases++
		if herr != nil || conn == nil {
			st.Hand["session-replay:refused"]++
			c1.Close()
			continue
		}
		// the handshake was completed by somebody who holds no key
		who := ""
		if conn.Address != nil {
			who = sim.Hex(conn.Address.PublicKey)
		}
		got := make([]byte, len(msg))
		_ = c1.SetReadDeadline(time.Now().Add(2 * time.Second))
		n, _ := io.ReadFull(conn, got)
		sim.Direct(outDirG, map[string]any{"finding": "handshake-succeeds-with-replayed-session", "kind": "a recording of the bytes an honest peer sent in an earlier session completes a new handshake (the answering side holds no key)",
			"authenticated_as": who, "is_the_recorded_peer": who == sim.Hex(kb.PublicKey().Bytes()), "replayed_data_bytes_delivered": n, "equal_to_the_old_message": n == len(msg) && bytes.Equal(got, msg)})
		st.Hand["session-replay:ACCEPTED"]++
		c1.Close()
	}
}

// reflectionCase (property C17): the answering side holds no identity key. It does the ephemeral exchange honestly (so it can
// read and write the sealed handshake frames) and sends A's OWN identity proof and signed meta straight back. Both sides sign
// the same direction-less challenge, so the reflected proof verifies - under A's own key. A handshake must not succeed with a
// peer that proves nothing: the only identity the reflection can present is the node's own, which no other party may hold.
func reflectionCase(r *sim.Rng, cw *sim.CaseWriter) {
	ka, _ := crypto.NewBLS12381PrivateKey()
	if r.Bool() {
		k2, _ := crypto.NewEd25519PrivateKey()
		c1, c2 := net.Pipe()
		reflectOnce(k2, c1, c2, cw)
		return
	}
	c1, c2 := net.Pipe()
	reflectOnce(ka, c1, c2, cw)
}

func reflectOnce(ka crypto.PrivateKeyI, c1, c2 net.Conn, cw *sim.CaseWriter) {
	eph, _ := crypto.NewEd25519PrivateKey()
	var wg sync.WaitGroup
	wg.Add(1)
	go func() {
		defer wg.Done()
		_, _ = p2p.VerifReflectingHandshake(c2, eph.PublicKey().Bytes(), eph.Bytes())
	}()
	conn, herr := p2p.NewHandshake(c1, meta(), ka)
	st.Cases++
	// the model's endpoint (identity 3, ephemeral key 10) against a peer with ephemeral key 20 that reflects: signer 3, the
	// challenge of this very session (dh 10 20), meta signed by 3
	accepted := herr == nil && conn != nil
	cw.Add(fmt.Sprintf("mkHC (mkHello 20 3 (dh 10 20) 1 1 3) %s 3", sim.CoqBool(accepted)), map[string]any{"kind": "reflection", "accepted": accepted, "as": 3})
	if !accepted {
		st.Hand["reflection:refused"]++
	} else {
		who := ""
		if conn.Address != nil {
			who = sim.Hex(conn.Address.PublicKey)
		}
		sim.Direct(outDirG, map[string]any{"finding": "handshake-succeeds-with-reflected-proof", "kind": "an endpoint that holds no identity key completes the handshake by sending the node's own identity proof and signed meta back to it",
			"authenticated_as": who, "is_the_node_itself": who == sim.Hex(ka.PublicKey().Bytes())})
		st.Hand["reflection:ACCEPTED"]++
	}
	c1.Close()
	c2.Close()
	wg.Wait()
}

// agedConnectionCase (property C17, replay): a connection that has carried almost 2^32 frames in one direction. The frame counter
// is part of every nonce; a frame recorded early in the connection's life must still be refused when it is put on the wire again
// 2^32 frames later (a counter kept in 32 bits would be back at the recorded frame's value). The age is set through a hook
// (nobody can send four billion frames in a check); everything else is the real Write / Read.
func agedConnectionCase(r *sim.Rng) {
	ka, _ := crypto.NewBLS12381PrivateKey()
	kb, _ := crypto.NewBLS12381PrivateKey()
	a1, a2 := net.Pipe()
	b1, b2 := net.Pipe()
	// A -> B through a tap that records every chunk it forwards (frames have a fixed size) and can inject a recorded frame
	var mu sync.Mutex
	var recorded [][]byte
	inject := make(chan []byte, 1)
	go func() {
		defer b1.Close()
		hdr := make([]byte, 4)
		if _, err := io.ReadFull(a2, hdr); err != nil {
			return
		}
		n := int(hdr[0])<<24 | int(hdr[1])<<16 | int(hdr[2])<<8 | int(hdr[3])
		body := make([]byte, n)
		if _, err := io.ReadFull(a2, body); err != nil {
			return
		}
		if _, err := b1.Write(append(hdr, body...)); err != nil {
			return
		}
		for {
			fr := make([]byte, frameSize)
			if _, err := io.ReadFull(a2, fr); err != nil {
				return
			}
			select {
			case old := <-inject:
				// the recorded frame goes out INSTEAD of the fresh one
				fr = old
			default:
			}
			mu.Lock()
			recorded = append(recorded, append([]byte{}, fr...))
			mu.Unlock()
			if _, err := b1.Write(fr); err != nil {
				return
			}
		}
	}()
	go func() { _, _ = io.Copy(a2, b1); a2.Close() }() // B -> A untouched
	var ea, eb *p2p.EncryptedConn
	var e1, e2 lib.ErrorI
	var wg sync.WaitGroup
	wg.Add(2)
	go func() { defer wg.Done(); ea, e1 = p2p.NewHandshake(a1, meta(), ka) }()
	go func() { defer wg.Done(); eb, e2 = p2p.NewHandshake(b2, meta(), kb) }()
	wg.Wait()
	if e1 != nil || e2 != nil {
		st.Hand["aged-connection:handshake-failed"]++
		return
	}
	defer a1.Close()
	defer b2.Close()
	readOne := func(n int) ([]byte, error) {
		buf := make([]byte, n)
		_ = b2.SetReadDeadline(time.Now().Add(10 * time.Second))
		_, err := io.ReadFull(eb, buf)
		return buf, err
	}
	// the frame that will be replayed: the first data frame A sends
	c0, _ := ea.VerifFrameCounters()
	secret := []byte("pay 100 to mallory - " + sim.Hex(r.Bytes(8)))
	mu.Lock()
	before := len(recorded)
	mu.Unlock()
	if _, err := ea.Write(secret); err != nil {
		return
	}
	if got, err := readOne(len(secret)); err != nil || !bytes.Equal(got, secret) {
		st.Hand["aged-connection:first-frame-not-delivered"]++
		return
	}
	mu.Lock()
	if len(recorded) <= before {
		mu.Unlock()
		return
	}
	old := recorded[before]
	mu.Unlock()
	// age both ends consistently: A has sent, and B has received, 2^32 - 1 frames
	_, recvA := ea.VerifFrameCounters()
	sentB, _ := eb.VerifFrameCounters()
	ea.VerifSetFrameCounters(0xFFFFFFFF, recvA)
	eb.VerifSetFrameCounters(sentB, 0xFFFFFFFF)
	// c0+1 fresh frames bring a 32-bit counter back to the recorded frame's value
	for i := uint64(0); i <= c0; i++ {
		m := []byte(fmt.Sprintf("fresh-%d", i))
		if _, err := ea.Write(m); err != nil {
			return
		}
		if got, err := readOne(len(m)); err != nil || !bytes.Equal(got, m) {
			st.Hand["aged-connection:fresh-frame-not-delivered"]++
			return
		}
	}
	// the next frame on the wire is the recording
	inject <- old
	filler := make([]byte, len(secret))
	if _, err := ea.Write(filler); err != nil {
		return
	}
	got, err := readOne(len(secret))
	st.Cases++
	if err == nil && bytes.Equal(got, secret) {
		sim.Direct(outDirG, map[string]any{"finding": "frame-replayed-after-counter-wrap", "kind": "a frame recorded early in a connection's life is accepted again 2^32 frames later: its old plaintext is delivered as fresh data",
			"frame_position": c0})
		st.Hand["aged-connection:REPLAY-DELIVERED"]++
	} else if err == nil {
		sim.Direct(outDirG, map[string]any{"finding": "frame-replayed-after-counter-wrap", "kind": "after a recorded frame was put on the wire in place of a fresh one the reader delivered data without an error"})
		st.Hand["aged-connection:data-without-error"]++
	} else {
		st.Hand["aged-connection:replay-refused"]++
	}
}
