// c17: correspondence harness for property C17 (encrypted transport).
//
//	frames    : two real EncryptedConn endpoints (real NewHandshake over net.Pipe) with a relay in the middle that, after the
//	            handshake, applies one fault at frame granularity (bit flip, drop, duplicate, swap, replay of an earlier frame,
//	            cut inside a frame) at a chosen frame; the writer writes buffers of chosen sizes (0, 1, 1023, 1024, 1025, 2048,
//	            random), the reader reads with chosen buffer sizes (1, 3, 4, 1000, 1024, 4096, random); the bytes delivered, whether
//	            they are a prefix of the written stream, and whether a read failed are compared with Frames.read_all.
//	handshake : an honest endpoint against a misbehaving one (VerifAttackerHandshake): honest proof, a proof signed for another
//	            session (what a man in the middle can relay), another identity's key with the attacker's signature, meta signed by
//	            another key, another network / chain id, a low-order ephemeral key; accepted or not, and as whom.
package main

import (
	"bytes"
	"flag"
	"fmt"
	"io"
	"net"
	"sync"
	"time"

	"github.com/canopy-network/canopy/lib"
	"github.com/canopy-network/canopy/lib/crypto"
	"github.com/canopy-network/canopy/p2p"
	"verifharness/sim"
)

type stats struct {
	Cases    int            `json:"cases"`
	Distinct int            `json:"distinct_nontrivial"`
	Faults   map[string]int `json:"faults"`
	Hand     map[string]int `json:"handshake_outcomes"`
	Samples  []string       `json:"samples"`
}

var st = &stats{Faults: map[string]int{}, Hand: map[string]int{}}

const frameSize = crypto.EncryptedFrameSize

type fault struct {
	kind string
	i, j int
}

func (f fault) lit() string {
	switch f.kind {
	case "none":
		return "NoFault"
	case "flip":
		return fmt.Sprintf("(Flip %d)", f.i)
	case "drop":
		return fmt.Sprintf("(Drop %d)", f.i)
	case "replay-handshake":
		return fmt.Sprintf("(Flip %d)", f.j)
	case "dup":
		return fmt.Sprintf("(Dup %d)", f.i)
	case "swap":
		return fmt.Sprintf("(Swap %d)", f.i)
	case "cut":
		return fmt.Sprintf("(Cutoff %d)", f.i)
	default:
		return fmt.Sprintf("(Replay %d %d)", f.i, f.j)
	}
}

// relay forwards src -> dst. The first message is the clear-text ephemeral key (length-prefixed); everything after it is a
// sequence of sealed frames of fixed size. Once armed (after the handshake), frame k (counted from arming) gets the fault.
type relay struct {
	mu     sync.Mutex
	armed  bool
	count  int // frames forwarded since arming
	f      fault
	held   []byte
	frames [][]byte
	hs     [][]byte // sealed frames seen before arming: the handshake (identity proof, peer meta)
	r      *sim.Rng
}

func (rl *relay) run(src, dst net.Conn) {
	defer dst.Close()
	hdr := make([]byte, 4)
	if _, err := io.ReadFull(src, hdr); err != nil {
		return
	}
	n := int(hdr[0])<<24 | int(hdr[1])<<16 | int(hdr[2])<<8 | int(hdr[3])
	body := make([]byte, n)
	if _, err := io.ReadFull(src, body); err != nil {
		return
	}
	if _, err := dst.Write(append(hdr, body...)); err != nil {
		return
	}
	for {
		fr := make([]byte, frameSize)
		if _, err := io.ReadFull(src, fr); err != nil {
			return
		}
		rl.mu.Lock()
		armed, k, f := rl.armed, rl.count, rl.f
		if armed {
			rl.count++
			rl.frames = append(rl.frames, fr)
		} else {
			rl.hs = append(rl.hs, fr)
		}
		rl.mu.Unlock()
		out := [][]byte{fr}
		if armed {
			switch {
			case f.kind == "flip" && k == f.i:
				c := append([]byte{}, fr...)
				c[rl.r.Intn(len(c))] ^= byte(1 << rl.r.Intn(8))
				out = [][]byte{c}
			case f.kind == "drop" && k == f.i:
				out = nil
			case f.kind == "dup" && k == f.i:
				out = [][]byte{fr, fr}
			case f.kind == "swap" && k == f.i:
				rl.held = fr
				out = nil
			case f.kind == "swap" && k == f.i+1 && rl.held != nil:
				out = [][]byte{fr, rl.held}
				rl.held = nil
			case f.kind == "cut" && k == f.i:
				_, _ = dst.Write(fr[:frameSize/2])
				return
			case f.kind == "replay" && k == f.j && f.i < len(rl.frames):
				out = [][]byte{rl.frames[f.i], fr}
			case f.kind == "replay-handshake" && k == f.j && f.i < len(rl.hs):
				// a sealed frame recorded during the handshake, injected into the data stream at position j
				out = [][]byte{rl.hs[f.i], fr}
			}
		}
		for _, o := range out {
			if _, err := dst.Write(o); err != nil {
				return
			}
		}
	}
}

var outDirG = "."

func meta() *lib.PeerMeta { return &lib.PeerMeta{NetworkId: 1, ChainId: 1} }

func frameCase(r *sim.Rng, cw *sim.CaseWriter) {
	ka, _ := crypto.NewBLS12381PrivateKey()
	kb, _ := crypto.NewBLS12381PrivateKey()
	a1, a2 := net.Pipe() // A <-> relay
	b1, b2 := net.Pipe() // relay <-> B
	ab := &relay{r: r.Fork()}
	ba := &relay{r: r.Fork()}
	go ab.run(a2, b1)
	go ba.run(b1, a2)
	var ea, eb *p2p.EncryptedConn
	var e1, e2 lib.ErrorI
	var wg sync.WaitGroup
	wg.Add(2)
	go func() { defer wg.Done(); ea, e1 = p2p.NewHandshake(a1, meta(), ka) }()
	go func() { defer wg.Done(); eb, e2 = p2p.NewHandshake(b2, meta(), kb) }()
	wg.Wait()
	if e1 != nil || e2 != nil {
		panic(fmt.Sprint("handshake failed: ", e1, e2))
	}
	// writes and the stream
	var writes []uint64
	for k := 0; k < 1+r.Intn(5); k++ {
		writes = append(writes, r.Pick(0, 1, 2, 1023, 1024, 1025, 2047, 2048, 2049, uint64(r.Intn(5000)), 3000))
	}
	var stream []byte
	for _, w := range writes {
		for j := uint64(0); j < w; j++ {
			stream = append(stream, byte((uint64(len(stream)))%251))
		}
	}
	nFrames := 0
	for _, w := range writes {
		nFrames += int((w + 1023) / 1024)
		if w > 0 && w%1024 == 0 {
			// exactly full chunks: no extra frame
		}
	}
	f := fault{kind: "none"}
	if nFrames > 0 && r.Chance(75) {
		kinds := []string{"flip", "drop", "dup", "swap", "cut", "replay", "replay-handshake", "replay-handshake"}
		f = fault{kind: kinds[r.Intn(len(kinds))], i: r.Intn(nFrames)}
		if f.kind == "replay" {
			f.j = f.i + 1 + r.Intn(2)
		}
		if f.kind == "replay-handshake" {
			// handshake frame i (0: identity proof, 1: signed peer meta) at data position j; mostly j = i: the position at which a
			// restarted nonce sequence would make it authentic
			f.i = r.Intn(2)
			f.j = f.i
			if r.Chance(25) {
				f.j = r.Intn(nFrames)
			}
			if f.j >= nFrames {
				f.j = nFrames - 1
			}
		}
		if f.kind == "swap" && f.i+1 >= nFrames {
			f.kind = "drop"
		}
	}
	ab.mu.Lock()
	ab.armed, ab.f = true, f
	ab.mu.Unlock()
	// writer
	go func() {
		off := 0
		for _, w := range writes {
			if _, err := ea.Write(stream[off : off+int(w)]); err != nil {
				return
			}
			off += int(w)
		}
	}()
	// the connection is full duplex: A also drains whatever B sends back
	go func() { _, _ = io.Copy(io.Discard, ea) }()
	// reader: buffer sizes from a small repertoire, recorded as used
	var got []byte
	var reads []uint64
	readErr := false
	_ = eb.SetReadDeadline(time.Now().Add(400 * time.Millisecond))
	for len(got) < len(stream) && len(reads) < 4000 {
		sz := r.Pick(1, 3, 4, 1000, 1024, 4096, uint64(1+r.Intn(3000)))
		buf := make([]byte, sz)
		n, err := eb.Read(buf)
		if err != nil {
			if ne, ok := err.(net.Error); ok && ne.Timeout() {
				break // nothing more arrives (a dropped last frame): the reader just waits
			}
			reads = append(reads, sz)
			readErr = true
			break
		}
		reads = append(reads, sz)
		got = append(got, buf[:n]...)
		if r.Chance(30) {
			// B answers in between (another user of the connection's buffers while a frame is only partly consumed)
			reply := bytes.Repeat([]byte{0xEE}, 1+r.Intn(1500))
			_ = eb.SetWriteDeadline(time.Now().Add(400 * time.Millisecond))
			_, _ = eb.Write(reply)
		}
		_ = eb.SetReadDeadline(time.Now().Add(400 * time.Millisecond))
	}
	a1.Close()
	b2.Close()
	contentOK := len(got) <= len(stream) && bytes.Equal(got, stream[:len(got)])
	cw.Add(fmt.Sprintf("mkFC %s %s %s %s %s %s", sim.CoqNList(writes), sim.CoqNList(reads), f.lit(), sim.CoqN(uint64(len(got))), sim.CoqBool(contentOK), sim.CoqBool(readErr)),
		map[string]any{"fault": f.kind, "frame": f.i, "writes": writes, "delivered": len(got), "error": readErr})
	st.Cases++
	st.Distinct++
	st.Faults[f.kind]++
}

// handshakeCase: honest endpoint B against a misbehaving endpoint; symbolic numbering: identities A=1 (honest, elsewhere),
// M=2 (attacker), ephemeral keys: B=10, M=20, A=30 (A's session with M: challenge dh(30,21))
func handshakeCase(r *sim.Rng, cw *sim.CaseWriter) {
	kb, _ := crypto.NewBLS12381PrivateKey()   // honest endpoint
	kaID, _ := crypto.NewBLS12381PrivateKey() // the honest identity the attacker would like to impersonate
	km, _ := crypto.NewBLS12381PrivateKey()   // the attacker's identity
	eph, _ := crypto.NewEd25519PrivateKey()
	c1, c2 := net.Pipe()
	kind := []string{"honest-proof", "proof-of-another-session", "foreign-key-own-signature", "meta-signed-by-another-key", "other-network", "other-chain", "honest-proof", "relayed-session", "relayed-session",
		"keyless:multikey-with-no-signer", "keyless:bls-neutral-element", "keyless:ed25519-small-order"}[r.Intn(12)]
	// identities nobody holds a private key for, with the constant "signature" that verifies under them for every message unless
	// such keys are refused: a multi-key naming the honest A with an empty signer bitmap and threshold 0, the neutral element of
	// the BLS group, a small-order ed25519 point
	var keylessPub, keylessSig []byte
	switch kind {
	case "keyless:multikey-with-no-signer":
		keylessPub, _ = lib.Marshal(&crypto.MultiPublicKey{PublicKeys: [][]byte{kaID.PublicKey().Bytes()}, Bitmap: []byte{0}, Threshold: 0})
		keylessSig = append([]byte{0xc0}, make([]byte, 95)...)
	case "keyless:bls-neutral-element":
		keylessPub = append([]byte{0xc0}, make([]byte, 47)...)
		keylessSig = append([]byte{0xc0}, make([]byte, 95)...)
	case "keyless:ed25519-small-order":
		keylessPub = append([]byte{0x01}, make([]byte, 31)...)
		keylessSig = append([]byte{0x01}, make([]byte, 63)...)
	}
	otherChallenge := r.Bytes(32) // (proof-of-another-session) some other challenge, signed by A
	// (relayed-session) a REAL session between the honest A and the attacker, in which A proves its identity in good faith: what A
	// presented there (its signature over that session's challenge, its signed meta) is what a man in the middle can relay to B
	var relayedSig *lib.Signature
	var relayedMeta *lib.PeerMeta
	if kind == "relayed-session" {
		a1, m1 := net.Pipe()
		eph1, _ := crypto.NewEd25519PrivateKey()
		var wg1 sync.WaitGroup
		wg1.Add(2)
		go func() { defer wg1.Done(); _, _ = p2p.NewHandshake(a1, meta(), kaID) }()
		go func() {
			defer wg1.Done()
			_, _, relayedSig, relayedMeta, _ = p2p.VerifAttackerHandshake(m1, eph1.PublicKey().Bytes(), eph1.Bytes(),
				func(ch []byte) *lib.Signature {
					return &lib.Signature{PublicKey: km.PublicKey().Bytes(), Signature: km.Sign(ch)}
				},
				func() *lib.PeerMeta { return meta().Sign(km) })
		}()
		wg1.Wait()
		a1.Close()
		m1.Close()
		if relayedSig == nil || relayedMeta == nil {
			kind = "honest-proof" // the first session did not complete (not expected)
			st.Hand["relayed-session:first-session-failed"]++
		}
	}
	proof := func(challenge []byte) *lib.Signature {
		switch kind {
		case "proof-of-another-session":
			return &lib.Signature{PublicKey: kaID.PublicKey().Bytes(), Signature: kaID.Sign(otherChallenge)}
		case "relayed-session":
			return relayedSig
		case "keyless:multikey-with-no-signer", "keyless:bls-neutral-element", "keyless:ed25519-small-order":
			return &lib.Signature{PublicKey: keylessPub, Signature: keylessSig}
		case "foreign-key-own-signature":
			return &lib.Signature{PublicKey: kaID.PublicKey().Bytes(), Signature: km.Sign(challenge)}
		default:
			return &lib.Signature{PublicKey: km.PublicKey().Bytes(), Signature: km.Sign(challenge)}
		}
	}
	mt := func() *lib.PeerMeta {
		m := meta()
		switch kind {
		case "other-network":
			m.NetworkId = 2
		case "other-chain":
			m.ChainId = 2
		}
		if kind == "meta-signed-by-another-key" {
			return m.Sign(kaID)
		}
		if kind == "relayed-session" {
			return relayedMeta
		}
		if keylessPub != nil {
			m.Signature = keylessSig
			return m
		}
		return m.Sign(km)
	}
	var eb *p2p.EncryptedConn
	var eB lib.ErrorI
	var wg sync.WaitGroup
	wg.Add(2)
	go func() { defer wg.Done(); eb, eB = p2p.NewHandshake(c1, meta(), kb) }()
	go func() {
		defer wg.Done()
		_, _, _, _, _ = p2p.VerifAttackerHandshake(c2, eph.PublicKey().Bytes(), eph.Bytes(), proof, mt)
	}()
	wg.Wait()
	c1.Close()
	c2.Close()
	accepted := eB == nil
	as := uint64(0)
	if accepted {
		switch {
		case bytes.Equal(eb.Address.PublicKey, km.PublicKey().Bytes()):
			as = 2
		case bytes.Equal(eb.Address.PublicKey, kaID.PublicKey().Bytes()):
			as = 1
		default:
			as = 99
			if keylessPub != nil && bytes.Equal(eb.Address.PublicKey, keylessPub) {
				as = 77
				sim.Direct(outDirG, map[string]any{"finding": "handshake-with-keyless-identity", "kind": "the handshake succeeded with an identity for which nobody holds (or needs) a private key",
					"variant": kind, "identity": fmt.Sprintf("%x", keylessPub)})
			}
		}
	}
	// the symbolic hello: who signed what. dh is the pairing function of HsCheck
	signer, signedChallenge, metaSigner, netID, chainID := uint64(2), "dh 10 20", uint64(2), uint64(1), uint64(1)
	switch kind {
	case "proof-of-another-session":
		signer, signedChallenge, metaSigner = 1, "dh 30 21", 2
	case "relayed-session":
		signer, signedChallenge, metaSigner = 1, "dh 30 21", 1
	case "keyless:multikey-with-no-signer", "keyless:bls-neutral-element", "keyless:ed25519-small-order":
		signer, signedChallenge, metaSigner = 77, "0", 77 // an identity nobody can sign for: nothing was signed
	case "foreign-key-own-signature":
		signer, signedChallenge, metaSigner = 1, "0", 2 // the claimed identity signed nothing: the attacker's signature does not verify under A's key
	case "meta-signed-by-another-key":
		metaSigner = 1
	case "other-network":
		netID = 2
	case "other-chain":
		chainID = 2
	}
	cw.Add(fmt.Sprintf("mkHC (mkHello 20 %d (%s) %d %d %d) %s %d", signer, signedChallenge, netID, chainID, metaSigner, sim.CoqBool(accepted), as), map[string]any{"kind": kind, "accepted": accepted, "as": as})
	st.Cases++
	st.Distinct++
	st.Hand[fmt.Sprintf("%s:accepted=%v", kind, accepted)]++
}

func main() {
	nFrames := flag.Int("frames", 80, "frame cases")
	nHand := flag.Int("handshake", 30, "handshake cases")
	outDir := flag.String("outdir", ".", "output directory")
	_ = flag.String("replay", "", "replay file (cases regenerate deterministically from the seed)")
	flag.Parse()
	outDirG = *outDir
	r := sim.NewRng(sim.SeedFromEnv())
	imp := "From V Require Import Bytes Frames FramesCheck."
	w1 := &sim.CaseWriter{OutDir: *outDir, Name: "c17frames", Imports: imp, CaseType: "fr_case", MFun: "fr_mismatches", VFun: "fr_violations", PerShard: 40}
	for i := 0; i < *nFrames; i++ {
		frameCase(r.Fork(), w1)
	}
	w1.Close(st)
	w2 := &sim.CaseWriter{OutDir: *outDir, Name: "c17hs", Imports: imp, CaseType: "hs_case", MFun: "hs_mismatches", VFun: "hs_violations", PerShard: 100}
	for i := 0; i < *nHand; i++ {
		handshakeCase(r.Fork(), w2)
	}
	for i := 0; i < 2+*nHand/10; i++ {
		sessionReplayCase(r.Fork())
		reflectionCase(r.Fork(), w2)
		agedConnectionCase(r.Fork())
	}
	w2.Close(st)
	fmt.Printf("c17: %d cases; faults %v; handshake %v\n", st.Cases, st.Faults, st.Hand)
}
