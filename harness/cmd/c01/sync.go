package main

import (
	"fmt"
	"strings"

	"github.com/canopy-network/canopy/bft"
	"github.com/canopy-network/canopy/lib"
	"verifharness/bftsim"
	"verifharness/sim"
)

// A synchronous round on REAL replicas from an injected aligned state (property C15, the theorem's own setting).
// Every correct replica is put at the ELECTION phase of one (root height, round); some hold locks: PROPOSE_VOTE certificates with
// REAL aggregate signatures, formed at different earlier views for possibly different blocks, as an adversarial period can leave
// them (at most one value per view, as vote uniqueness guarantees). An optional Byzantine validator (< 1/3) stays silent. Then the
// eight phase timers fire at every correct replica with every message delivered in between. The leader is whoever the real
// election (sortition, or the fallback) produces; if that is the silent validator the round is void and the next one is played.
// Recorded: leader, the value it produced, the commits. model/BftLive.v plays sync_round from the same state.

func syncCase(r *sim.Rng) (lit string, meta map[string]any, ok bool) {
	var powers []uint64
	nv := 4 + r.Intn(3)
	for i := 0; i < nv; i++ {
		if r.Chance(60) {
			powers = append(powers, 100)
		} else {
			powers = append(powers, 60+uint64(r.Intn(90)))
		}
	}
	root := r.Pick(5, 6, 7)
	n, err := bftsim.New(powers, root)
	if err != nil {
		panic(err)
	}
	// the silent validator, if its power leaves the others +2/3
	byz := -1
	var total uint64
	for _, p := range powers {
		total += p
	}
	if c := r.Intn(nv + 2); c < nv && 3*powers[c] < total {
		// correct power must reach the threshold: total - p >= 2*total/3 + 1
		if total-powers[c] >= (2*total)/3+1 {
			byz = c
		}
	}
	correct := map[int]bool{}
	var cids []int
	for i := 0; i < nv; i++ {
		if i != byz {
			correct[i] = true
			cids = append(cids, i)
		}
	}
	rc := &recorder{n: n, blk: &ids{m: map[string]uint64{}}, res: &ids{m: map[string]uint64{}}, correct: correct}
	view := func(rt, rd uint64, ph lib.Phase) *lib.View {
		return &lib.View{NetworkId: bftsim.NetworkID, ChainId: bftsim.ChainID, Height: bftsim.Height, RootHeight: rt, Round: rd, Phase: ph}
	}
	round := uint64(1 + r.Intn(4))
	// earlier views at which a certificate formed, each for one value
	type lockAt struct {
		root, round uint64
		val         *value
		proposer    int
	}
	var certs []lockAt
	for rt := uint64(5); rt <= root; rt++ {
		for rd := uint64(0); rd < 4; rd++ {
			if rt == root && rd >= round {
				break
			}
			if r.Chance(45) {
				p := r.Intn(nv)
				blk, res := n.MakeProposal(p, uint64(100+len(certs)))
				certs = append(certs, lockAt{rt, rd, &value{blk, res}, p})
			}
		}
	}
	// quorum of signers for a certificate: enough validators (any, the Byzantine one included) to reach +2/3
	signersFor := func() []int {
		perm := make([]int, nv)
		for i := range perm {
			perm[i] = i
		}
		for i := nv - 1; i > 0; i-- {
			j := r.Intn(i + 1)
			perm[i], perm[j] = perm[j], perm[i]
		}
		var out []int
		var pw uint64
		for _, i := range perm {
			out = append(out, i)
			pw += powers[i]
			if pw >= (2*total)/3+1 && r.Chance(60) {
				break
			}
		}
		return out
	}
	locked, distinct := 0, map[int]bool{}
	for _, i := range cids {
		b := n.Reps[i].B
		n.Reps[i].Ctl.SetRoot(root)
		b.RootHeight, b.Round, b.Phase = root, round, bft.Election
		if len(certs) > 0 && r.Chance(55) {
			k := r.Intn(len(certs))
			c := certs[k]
			b.HighQC = rc.mkQC(view(c.root, c.round, bft.ProposeVote), c.val, c.proposer, signersFor(), true)
			locked++
			distinct[k] = true
		}
	}
	var reps []string
	for _, i := range cids {
		reps = append(reps, rc.fullStateLit(i))
	}
	// rounds until a correct leader: at most 3
	leader, fresh := -1, [2]uint64{0, 0}
	played := 0
	for attempt := 0; attempt < 3 && leader < 0; attempt++ {
		played++
		for ph := 0; ph < 8; ph++ {
			for _, i := range cids {
				n.Step(i)
			}
			if ph == 2 { // PROPOSE has run: who proposed?
				for _, i := range cids {
					b := n.Reps[i].B
					if b.Block != nil { // only the leader holds a block right after PROPOSE
						leader = i
						fresh = [2]uint64{rc.blockID(b.Block), rc.resultsID(b.Results)}
					}
				}
			}
			if debugHeal {
				for _, i := range cids {
					b := n.Reps[i].B
					fmt.Printf("  sync ph=%d rep %d: root %d round %d phase %s proposer %d block %v bag %d\n", ph, i, b.RootHeight, b.Round, b.Phase, n.IndexOf(b.ProposerKey), b.Block != nil, len(n.Bag))
				}
			}
			n.Flush(func(e *bftsim.Env) bool { return correct[e.To] })
		}
		if leader < 0 {
			// void round (silent leader): the correct replicas time out together into the next round; the state of record is re-taken
			for _, i := range cids {
				if n.Reps[i].Committed != nil {
					return "", nil, false
				}
			}
			// ROUND_INTERRUPT and PACEMAKER
			for ph := 0; ph < 2; ph++ {
				for _, i := range cids {
					n.Step(i)
				}
				n.Flush(func(e *bftsim.Env) bool { return correct[e.To] })
			}
			aligned := true
			for _, i := range cids {
				b := n.Reps[i].B
				if b.Phase != bft.Election || b.Round != n.Reps[cids[0]].B.Round || b.RootHeight != root {
					aligned = false
				}
			}
			if !aligned {
				return "", nil, false
			}
			reps = nil
			for _, i := range cids {
				reps = append(reps, rc.fullStateLit(i))
			}
		}
	}
	if leader < 0 {
		return "", nil, false
	}
	var commits []string
	committed := 0
	for _, i := range cids {
		if c := n.Reps[i].Committed; c != nil {
			commits = append(commits, fmt.Sprintf("(%s, (%s, %s))", sim.CoqN(uint64(i)), sim.CoqN(rc.blk.of(c.BlockHash)), sim.CoqN(rc.res.of(c.ResultsHash))))
			committed++
		}
	}
	var idl []uint64
	for _, i := range cids {
		idl = append(idl, uint64(i))
	}
	lit = fmt.Sprintf("mkSync %s 0 %s %s (%s, %s) [%s] [%s]", sim.CoqNList(powers), sim.CoqNList(idl), sim.CoqN(uint64(leader)), sim.CoqN(fresh[0]), sim.CoqN(fresh[1]),
		strings.Join(reps, ";\n  "), strings.Join(commits, "; "))
	meta = map[string]any{"kind": "synchronous-round", "validators": nv, "silent": byz, "root": root, "round": round, "locked": locked, "distinct_locks": len(distinct),
		"leader": leader, "rounds_played": played, "committed": committed, "correct": len(cids)}
	return lit, meta, true
}
