package main

import (
	"bytes"
	"fmt"

	"github.com/canopy-network/canopy/fsm"
	"github.com/canopy-network/canopy/lib"
	"github.com/canopy-network/canopy/lib/crypto"
	"verifharness/sim"
)

// fastSyncWitness replays the KNOWN finding `fast-sync-commits-uncertified-block` on real controllers: four equal validators; A, B
// and C certify block X of height 1 and A commits it. D is catching up (a restarted or lagging validator: one missed block message
// is enough) and is served, by the one peer it asked, a block Y of that peer's own making under a certificate nobody signed
// (signature 0x42.., bitmap 0xff). Outside checkpoint heights the sync path verifies no signatures: D commits Y.
func fastSyncWitness(outDir string) {
	g := &sim.GenesisSpec{Params: fsm.DefaultParams()}
	for i := 0; i < 4; i++ {
		g.Validators = append(g.Validators, sim.StdValidator(i, 1000000))
		g.Accounts = append(g.Accounts, &fsm.Account{Address: sim.BLSKey(i).Addr, Amount: 1 << 40})
	}
	sim.RegisterKeys(16)
	a, err := sim.NewCNode(g.State(), 0, nil)
	if err != nil {
		return
	}
	defer a.Close()
	d, err := sim.NewCNode(g.State(), 3, nil)
	if err != nil {
		return
	}
	defer d.Close()
	// the honest block
	a.Enter()
	px, e := a.Propose([][]byte{sim.TxBytes(fsm.NewSendTransaction(sim.BLSKey(0).Priv, crypto.NewAddress(sim.BLSKey(1).Addr), 5, 1, 1, 10000, a.C.FSM.Height(), "x"))})
	if e != nil {
		return
	}
	view := a.CommitView()
	vs, e := a.Committee(view.RootHeight)
	if e != nil {
		return
	}
	qcx, qe := sim.MakeQC(vs, view, sim.BLSKey(0).Pub, px, []int{0, 1, 2})
	if qe != nil || a.Deliver(sim.CloneQC(qcx), false) != nil {
		return
	}
	// the served block: another block of the same height under a certificate nobody signed
	d.Enter()
	py, e := d.Propose([][]byte{sim.TxBytes(fsm.NewSendTransaction(sim.BLSKey(2).Priv, crypto.NewAddress(sim.BLSKey(3).Addr), 777, 1, 1, 10000, d.C.FSM.Height(), "y"))})
	if e != nil {
		return
	}
	qcy, qe := sim.MakeQC(vs, d.CommitView(), sim.BLSKey(3).Pub, py, []int{0, 1, 2})
	if qe != nil {
		return
	}
	qcy.Signature = &lib.AggregateSignature{Signature: bytes.Repeat([]byte{0x42}, 96), Bitmap: []byte{0xff}}
	// control: an in-sync node refuses it
	if d.Deliver(sim.CloneQC(qcy), false) == nil {
		sim.Direct(outDir, map[string]any{"finding": "in-sync-node-commits-uncertified-block", "kind": "an in-sync node committed a block whose certificate nobody signed"})
		return
	}
	d.C.Syncing().Store(true)
	before := d.Store.Version()
	_ = d.Deliver(sim.CloneQC(qcy), true)
	if d.Store.Version() != before {
		a.Enter()
		ba, _ := a.C.FSM.LoadBlock(1)
		d.Enter()
		bd, _ := d.C.FSM.LoadBlock(1)
		if ba != nil && bd != nil && !bytes.Equal(ba.BlockHeader.Hash, bd.BlockHeader.Hash) {
			sim.Direct(outDir, map[string]any{"finding": "fast-sync-commits-uncertified-block", "kind": "two correct validators committed different blocks at one height: one of them while catching up, from a certificate nobody signed",
				"height": 1, "block_a": fmt.Sprintf("%x", ba.BlockHeader.Hash[:8]), "block_d": fmt.Sprintf("%x", bd.BlockHeader.Hash[:8])})
		}
	}
}
