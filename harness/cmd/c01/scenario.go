package main

import (
	"fmt"

	"github.com/canopy-network/canopy/bft"
	"github.com/canopy-network/canopy/lib"
	"verifharness/bftsim"
)

// Scripted adversarial schedules on real bft.BFT replicas: 4 validators of equal power, replica 3 is Byzantine
// (1/4 < 1/3 of the power) and the network (delivery order, loss) is the adversary's. Every honest replica runs the
// unmodified consensus code; the Byzantine one is a real BFT object whose outputs the script withholds, replaces or
// replays (its key signs only its own messages; every certificate it shows was really signed by the honest replicas).

const byz = 3

var honest = []int{0, 1, 2}

type proposal struct {
	Block   []byte
	Results *lib.CertificateResult
	QC      *lib.QuorumCertificate // a PROPOSE_VOTE certificate for it
}

type script struct {
	n   *bftsim.Net
	log func(string, ...any)
}

func (s *script) live() (out []int) {
	for i, r := range s.n.Reps {
		if r.Committed == nil {
			out = append(out, i)
		}
	}
	return
}

// tick: every live replica's phase timer fires once, then the adversary decides what is delivered
func (s *script) tick(keep func(*bftsim.Env) bool) {
	for _, i := range s.live() {
		s.n.Step(i)
	}
	s.n.Flush(keep)
}

func dropAll(*bftsim.Env) bool { return false }

// syncByz puts the Byzantine replica's object at the honest replicas' round, phase ELECTION (it is a tool of the script)
func (s *script) syncByz() {
	var ref *bft.BFT
	for _, i := range s.live() {
		if i != byz {
			ref = s.n.Reps[i].B
			break
		}
	}
	b := s.n.Reps[byz].B
	b.Round, b.Phase = ref.Round, ref.Phase
	b.ProposerKey, b.Block, b.BlockHash, b.Results = nil, nil, nil, nil
}

// toElection steps the live honest replicas until all of them are at phase ELECTION of the same round
func (s *script) toElection() bool {
	for k := 0; k < 6; k++ {
		ok := true
		var round uint64
		first := true
		for _, i := range s.live() {
			if i == byz {
				continue
			}
			b := s.n.Reps[i].B
			if b.Phase != bft.Election {
				ok = false
			}
			if first {
				round, first = b.Round, false
			} else if b.Round != round {
				ok = false
			}
		}
		if ok {
			s.syncByz()
			return true
		}
		for _, i := range s.live() {
			if i != byz && s.n.Reps[i].B.Phase != bft.Election {
				s.n.Step(i)
			}
		}
		s.n.Flush(dropAll)
	}
	return false
}

// electByz runs rounds until every live honest replica has sent its ELECTION vote to the Byzantine replica: only the
// Byzantine candidacy is delivered (message loss), so it wins whenever it is a candidate or the stake-weighted fallback
// picks it; other rounds are left to time out. Returns with all replicas about to enter PROPOSE.
func (s *script) electByz(maxRounds int) (round uint64, ok bool) {
	for k := 0; k < maxRounds; k++ {
		if !s.toElection() {
			return 0, false
		}
		round = s.n.Reps[s.live()[0]].B.Round
		// ELECTION: candidates announce themselves; only the Byzantine announcement gets through
		s.tick(func(e *bftsim.Env) bool { return e.From == byz })
		// ELECTION_VOTE: look where the honest votes go
		for _, i := range s.live() {
			s.n.Step(i)
		}
		all := true
		for _, e := range s.n.Bag {
			if e.From != byz && e.To != byz {
				all = false
			}
		}
		if all {
			s.n.Flush(nil)
			return round, true
		}
		// another leader was chosen: nothing of this round is delivered; the replicas time out
		s.n.Flush(dropAll)
		for j := 0; j < 2; j++ {
			s.tick(dropAll)
		}
	}
	return 0, false
}

// proposeAndCollect: the Byzantine leader proposes (its current HighQC, if the script set one, otherwise a new block),
// the honest replicas vote, and the leader forms the PROPOSE_VOTE certificate, which is captured; its PRECOMMIT is withheld
func (s *script) proposeAndCollect() (*proposal, bool) {
	b := s.n.Reps[byz].B
	s.tick(nil) // PROPOSE: leader sends the proposal
	s.tick(nil) // PROPOSE_VOTE: replicas vote
	p := &proposal{Block: b.Block, Results: b.Results}
	// PRECOMMIT: the leader aggregates; capture the certificate from its outgoing message
	for _, i := range s.live() {
		s.n.Step(i)
	}
	for _, e := range s.n.Bag {
		if e.From == byz && e.Phase == bft.Precommit && !e.Replica {
			p.QC = e.Decode().Qc
		}
	}
	if p.QC == nil {
		s.n.Flush(dropAll)
		return nil, false
	}
	return p, true
}

// failRound: nothing more is delivered; the honest replicas run into their timeouts
func (s *script) failRound() {
	s.n.Flush(dropAll)
	for k := 0; k < 8; k++ {
		done := true
		for _, i := range s.live() {
			if i != byz && s.n.Reps[i].B.Phase != bft.Election {
				done = false
			}
		}
		if done {
			return
		}
		for _, i := range s.live() {
			if i != byz && s.n.Reps[i].B.Phase != bft.Election {
				s.n.Step(i)
			}
		}
		s.n.Flush(dropAll)
	}
}

func withProposal(qc *lib.QuorumCertificate, p *proposal) *lib.QuorumCertificate {
	c := &lib.QuorumCertificate{Header: qc.Header, BlockHash: qc.BlockHash, ResultsHash: qc.ResultsHash, ProposerKey: qc.ProposerKey, Signature: qc.Signature}
	c.Block, c.Results = p.Block, p.Results
	return c
}

func (s *script) locks() string {
	out := ""
	for _, i := range honest {
		out += fmt.Sprintf(" r%d:%s", i, s.n.LockOf(i))
	}
	return out
}

// scenarioStalePrecommitQC: no root-chain update at all. The Byzantine leader obtains PROPOSE_VOTE certificates for X
// (round a) and Y (round b > a) and withholds both PRECOMMITs; in round c > b it re-proposes X and justifies its PRECOMMIT
// with the OLD certificate of round a. If the replicas accept it they lock on (X, round a) although a certificate for Y of
// the higher round b exists; X is committed at one replica, and in round d the leader unlocks the others with (Y, round b).
func scenarioStalePrecommitQC(stale bool, verbose bool) (n *bftsim.Net, story []string, err error) {
	n, err = bftsim.New([]uint64{100, 100, 100, 100}, 5)
	if err != nil {
		return
	}
	n.Verbose = verbose
	s := &script{n: n}
	say := func(f string, a ...any) { story = append(story, fmt.Sprintf(f, a...)) }
	ra, ok := s.electByz(80)
	if !ok {
		return n, story, fmt.Errorf("byzantine replica never elected (phase a)")
	}
	X, ok := s.proposeAndCollect()
	if !ok {
		return n, story, fmt.Errorf("no PROPOSE_VOTE certificate for X")
	}
	say("round %d: Byzantine leader proposes X=%s, collects the PROPOSE_VOTE certificate, withholds PRECOMMIT", ra, lib.BytesToTruncatedString(X.QC.BlockHash))
	s.failRound()
	rb, ok := s.electByz(80)
	if !ok {
		return n, story, fmt.Errorf("byzantine replica never elected (phase b)")
	}
	n.Reps[byz].B.HighQC = nil
	Y, ok := s.proposeAndCollect()
	if !ok {
		return n, story, fmt.Errorf("no PROPOSE_VOTE certificate for Y")
	}
	say("round %d: Byzantine leader proposes Y=%s, collects the PROPOSE_VOTE certificate, withholds PRECOMMIT", rb, lib.BytesToTruncatedString(Y.QC.BlockHash))
	s.failRound()
	rc, ok := s.electByz(80)
	if !ok {
		return n, story, fmt.Errorf("byzantine replica never elected (phase c)")
	}
	// re-propose X, justified by its certificate (a legitimate re-proposal)
	n.Reps[byz].B.HighQC = withProposal(X.QC, X)
	X2, ok := s.proposeAndCollect()
	if !ok {
		return n, story, fmt.Errorf("no second PROPOSE_VOTE certificate for X")
	}
	// the bag now holds the leader's genuine PRECOMMIT (certificate of round c)
	if stale {
		n.Flush(dropAll)
		b := n.Reps[byz].B
		hdr := b.View.Copy()
		hdr.Phase = bft.Precommit
		n.Inject(byz, &bft.Message{Header: hdr, Qc: &lib.QuorumCertificate{Header: X.QC.Header, BlockHash: X.QC.BlockHash, ResultsHash: X.QC.ResultsHash,
			ProposerKey: X.QC.ProposerKey, Signature: X.QC.Signature}, RcBuildHeight: b.RCBuildHeight}, 0, 1, 2, 3)
		say("round %d: Byzantine leader re-proposes X and sends PRECOMMIT carrying the certificate of round %d instead of round %d", rc, ra, X2.QC.Header.Round)
	} else {
		say("round %d: Byzantine leader re-proposes X and sends the genuine PRECOMMIT (certificate of round %d)", rc, X2.QC.Header.Round)
	}
	n.Flush(nil)
	s.tick(nil) // PRECOMMIT_VOTE: replicas lock and vote
	say("   locks after PRECOMMIT_VOTE:%s", s.locks())
	// COMMIT: leader aggregates the PRECOMMIT votes; the COMMIT message reaches replica 0 only
	s.tick(func(e *bftsim.Env) bool { return e.To == 0 })
	s.tick(dropAll) // COMMIT_PROCESS: replica 0 commits, the others time out
	say("round %d: COMMIT delivered to replica 0 only; commits so far: %d", rc, len(n.Commits))
	s.failRound()
	rd, ok := s.electByz(80)
	if !ok {
		return n, story, fmt.Errorf("byzantine replica never elected (phase d)")
	}
	n.Reps[byz].B.HighQC = withProposal(Y.QC, Y)
	n.Reps[byz].B.Block, n.Reps[byz].B.Results, n.Reps[byz].B.BlockHash = nil, nil, nil
	say("round %d: Byzantine leader proposes Y justified by the certificate of round %d", rd, rb)
	s.tick(nil) // PROPOSE
	s.tick(nil) // PROPOSE_VOTE (SafeNode at the locked replicas)
	s.tick(nil) // PRECOMMIT
	s.tick(nil) // PRECOMMIT_VOTE
	say("   locks after PRECOMMIT_VOTE:%s", s.locks())
	s.tick(nil) // COMMIT
	s.tick(nil) // COMMIT_PROCESS
	return n, story, nil
}

// honestRound: one round with every message delivered, except that the COMMIT message reaches only replica commitTo
// (commitTo < 0: everyone). The Byzantine replica follows the protocol in this round.
func (s *script) honestRound(commitTo int) {
	if !s.toElection() {
		return
	}
	for k := 0; k < 8; k++ {
		s.tick(func(e *bftsim.Env) bool {
			if !e.Replica && e.Phase == bft.Commit && commitTo >= 0 {
				return e.To == commitTo
			}
			return true
		})
	}
}

// scenarioStaleHighQCAcrossRootUpdate (finding F-C01): a committee-preserving root-chain update arrives mid-height. Rounds
// restart at 0 while locks are kept, and SafeNode compares rounds only: a PROPOSE_VOTE certificate for Y obtained at
// (rootHeight 5, round a >= 1) and withheld outranks a lock on X taken at (rootHeight 6, round 0), after X was committed.
func scenarioStaleHighQCAcrossRootUpdate(attack bool, newRoot uint64, verbose bool) (n *bftsim.Net, story []string, err error) {
	n, err = bftsim.New([]uint64{100, 100, 100, 100}, 5)
	if err != nil {
		return
	}
	n.Verbose = verbose
	s := &script{n: n}
	say := func(f string, a ...any) { story = append(story, fmt.Sprintf(f, a...)) }
	var ra uint64
	var Y *proposal
	for {
		r, ok := s.electByz(80)
		if !ok {
			return n, story, fmt.Errorf("byzantine replica never elected at root height 5")
		}
		if r == 0 { // need a certificate of a round above 0
			s.failRound()
			continue
		}
		ra = r
		n.Reps[byz].B.HighQC = nil
		if Y, ok = s.proposeAndCollect(); !ok {
			return n, story, fmt.Errorf("no PROPOSE_VOTE certificate for Y")
		}
		break
	}
	say("root height 5, round %d: Byzantine leader proposes Y=%s, collects the PROPOSE_VOTE certificate, withholds PRECOMMIT", ra, lib.BytesToTruncatedString(Y.QC.BlockHash))
	s.failRound()
	for i := range n.Reps {
		n.RootUpdate(i, newRoot)
	}
	n.Reps[byz].B.HighQC = nil
	say("root-chain notification for height %d arrives at every replica (same committee): NEW_COMMITTEE reset, locks kept; replica 0 is now at (root height %d, round %d)", newRoot, n.Reps[0].B.RootHeight, n.Reps[0].B.Round)
	s.honestRound(0)
	say("root height 6, round 0: an honest round decides X; COMMIT reaches replica 0 only; commits so far: %d; locks:%s", len(n.Commits), s.locks())
	if len(n.Commits) == 0 {
		return n, story, fmt.Errorf("honest round did not commit")
	}
	s.failRound()
	rd, ok := s.electByz(80)
	if !ok {
		return n, story, fmt.Errorf("byzantine replica never elected at root height 6")
	}
	b := n.Reps[byz].B
	b.Block, b.Results, b.BlockHash = nil, nil, nil
	if attack {
		b.HighQC = withProposal(Y.QC, Y)
		say("root height 6, round %d: Byzantine leader proposes Y justified by the certificate of (root height 5, round %d)", rd, ra)
	} else {
		say("root height 6, round %d: Byzantine leader follows the protocol (re-proposes the highest lock it was shown)", rd)
	}
	for k := 0; k < 6; k++ {
		s.tick(nil)
	}
	say("   locks at the end:%s", s.locks())
	return n, story, nil
}

// scenarioStaleBlockHashCache: found as a counterexample to the agreement theorem on the model (proof-bft), replayed here.
// A replica accepts, in an ELECTION vote that forwards a higher valid lock, whatever block the SENDER attached to the vote
// itself (handleHighQCVDFAndEvidence: b.Block, b.Results = vote.Qc.Block, vote.Qc.Results) and the block-hash cache is not
// reset when b.Block is assigned. After X was committed at replica 0 and replicas 1, 2 are locked on X, the Byzantine validator
// plants block Y in their b.Block; the next message makes GetBlockHash cache hash(Y); in PROPOSE_VOTE they check SafeNode on
// the re-proposed X (same as locked: passes) but sign hash(Y) from the stale cache. The resulting certificate for Y locks them
// on Y, and Y is committed in the following round.
func scenarioStaleBlockHashCache(attack bool, verbose bool) (n *bftsim.Net, story []string, err error) {
	n, err = bftsim.New([]uint64{100, 100, 100, 100}, 5)
	if err != nil {
		return
	}
	n.Verbose = verbose
	s := &script{n: n}
	say := func(f string, a ...any) { story = append(story, fmt.Sprintf(f, a...)) }
	ra, ok := s.electByz(80)
	if !ok {
		return n, story, fmt.Errorf("byzantine replica never elected (phase a)")
	}
	X, ok := s.proposeAndCollect()
	if !ok {
		return n, story, fmt.Errorf("no certificate for X")
	}
	n.Flush(nil) // PRECOMMIT delivered
	s.tick(nil)  // PRECOMMIT_VOTE: lock X
	s.tick(func(e *bftsim.Env) bool { return e.To == 0 })
	s.tick(dropAll)
	say("round %d: X=%s decided, COMMIT reaches replica 0 only (commits: %d); locks:%s", ra, lib.BytesToTruncatedString(X.QC.BlockHash), len(n.Commits), s.locks())
	if len(n.Commits) != 1 {
		return n, story, fmt.Errorf("replica 0 did not commit X")
	}
	s.failRound()
	rb, ok := s.electByz(80)
	if !ok {
		return n, story, fmt.Errorf("byzantine replica never elected (phase b)")
	}
	n.Reps[byz].B.HighQC = withProposal(X.QC, X)
	X2, ok := s.proposeAndCollect()
	if !ok {
		return n, story, fmt.Errorf("no second certificate for X")
	}
	say("round %d: Byzantine leader re-proposes X (legitimately), obtains the PROPOSE_VOTE certificate of round %d, withholds PRECOMMIT", rb, X2.QC.Header.Round)
	s.failRound()
	rc, ok := s.electByz(80)
	if !ok {
		return n, story, fmt.Errorf("byzantine replica never elected (phase c)")
	}
	bb := n.Reps[byz].B
	yBlock, _ := n.MakeProposal(byz, 987654)
	yHash := bb.BlockToHash(yBlock)
	if attack {
		v := bb.View.Copy()
		v.Phase = bft.ElectionVote
		n.Inject(byz, &bft.Message{Qc: &lib.QuorumCertificate{Header: v, ProposerKey: n.Keys[byz].Pub, Block: yBlock, Results: X.Results},
			HighQc: &lib.QuorumCertificate{Header: X2.QC.Header, BlockHash: X2.QC.BlockHash, ResultsHash: X2.QC.ResultsHash, ProposerKey: X2.QC.ProposerKey, Signature: X2.QC.Signature}}, 1, 2)
		n.Flush(nil)
		say("round %d: Byzantine validator sends replicas 1, 2 an ELECTION vote forwarding the (valid, higher) lock on X and carrying block Y=%s in the vote itself", rc, lib.BytesToTruncatedString(yHash))
	}
	bb.HighQC = withProposal(X2.QC, X)
	s.tick(nil) // PROPOSE: X re-proposed with its certificate
	for _, i := range s.live() {
		n.Step(i) // PROPOSE_VOTE
	}
	var votes []*bft.Message
	for _, e := range n.Bag {
		if e.From != byz && e.Replica && e.Phase == bft.ProposeVote {
			votes = append(votes, e.Decode())
		}
	}
	n.Bag = nil
	if len(votes) < 2 {
		return n, story, fmt.Errorf("replicas 1, 2 did not vote")
	}
	say("round %d: replicas 1, 2 check SafeNode on the re-proposed X and send PROPOSE votes for block hash %s", rc, lib.BytesToTruncatedString(votes[0].Qc.BlockHash))
	if !attack {
		return n, story, nil
	}
	// the Byzantine leader aggregates the two votes with its own signature over the same payload
	payload := &lib.QuorumCertificate{Header: votes[0].Qc.Header, BlockHash: votes[0].Qc.BlockHash, ResultsHash: votes[0].Qc.ResultsHash, ProposerKey: votes[0].Qc.ProposerKey}
	mk := n.VS.MultiKey.Copy()
	for _, v := range votes {
		if e := mk.AddSigner(v.Signature.Signature, n.IndexOf(v.Signature.PublicKey)); e != nil {
			return n, story, fmt.Errorf("AddSigner: %v", e)
		}
	}
	if e := mk.AddSigner(n.Keys[byz].Priv.Sign(payload.SignBytes()), byz); e != nil {
		return n, story, fmt.Errorf("AddSigner: %v", e)
	}
	agg, e := mk.AggregateSignatures()
	if e != nil {
		return n, story, fmt.Errorf("aggregate: %v", e)
	}
	qcY := &lib.QuorumCertificate{Header: payload.Header, BlockHash: payload.BlockHash, ResultsHash: payload.ResultsHash, ProposerKey: payload.ProposerKey,
		Signature: &lib.AggregateSignature{Signature: agg, Bitmap: mk.Bitmap()}}
	hdr := bb.View.Copy()
	hdr.Phase = bft.Precommit
	n.Inject(byz, &bft.Message{Header: hdr, Qc: qcY, RcBuildHeight: 5}, 1, 2)
	n.Flush(nil)
	bb.Phase = bft.PrecommitVote
	for _, i := range []int{1, 2} {
		n.Step(i) // PRECOMMIT (nothing to do for a replica)
		n.Step(i) // PRECOMMIT_VOTE: lock
	}
	n.Bag = nil
	say("round %d: PRECOMMIT with the certificate for Y; locks:%s", rc, s.locks())
	s.failRound()
	// the lock the replicas forward in their ELECTION votes is not covered by the vote's signature: the Byzantine leader strips
	// it before counting the votes (its own honest code would refuse the inconsistent block attached to it)
	n.Rewrite = func(e *bftsim.Env) {
		if e.To == byz && e.Replica && e.Phase == bft.ElectionVote {
			m := e.Decode()
			m.HighQc = nil
			e.Bytes, _ = lib.Marshal(m)
		}
	}
	rd, ok := s.electByz(80)
	if !ok {
		return n, story, fmt.Errorf("byzantine replica never elected (phase d)")
	}
	bb.HighQC = &lib.QuorumCertificate{Header: qcY.Header, BlockHash: qcY.BlockHash, ResultsHash: qcY.ResultsHash, ProposerKey: qcY.ProposerKey, Signature: qcY.Signature,
		Block: yBlock, Results: X.Results}
	bb.Block, bb.Results, bb.BlockHash = nil, nil, nil
	say("round %d: Byzantine leader proposes Y justified by that certificate", rd)
	for k := 0; k < 6; k++ {
		s.tick(nil)
	}
	return n, story, nil
}

// scenarioPoisonedBuildHeight (liveness, C15): the root-chain build height of a proposal travels in an UNSIGNED field of the
// leader's messages. The Byzantine leader runs its round honestly up to PRECOMMIT, but its PRECOMMIT message names build height 0
// (the PROPOSE message, which every replica validated, named the right one), and it withholds COMMIT. The replicas lock. From then
// on only correct leaders are heard: the lock must be re-proposed under the build height the replicas VALIDATED - if they took it
// from the PRECOMMIT message, the re-proposal is built "before the committee last changed" and refused by everybody, every round.
func scenarioPoisonedBuildHeight(attack bool, verbose bool) (n *bftsim.Net, story []string, err error) {
	n, err = bftsim.New([]uint64{100, 100, 100, 100}, 7)
	if err != nil {
		return
	}
	n.Verbose = verbose
	for _, r := range n.Reps {
		r.Ctl.SetLastRootUpdated(5)
	}
	s := &script{n: n}
	say := func(f string, a ...any) { story = append(story, fmt.Sprintf(f, a...)) }
	ra, ok := s.electByz(80)
	if !ok {
		return n, story, fmt.Errorf("byzantine replica never elected")
	}
	s.tick(nil) // PROPOSE: the leader's proposal (right build height) reaches everybody
	s.tick(nil) // PROPOSE_VOTE: validated, votes sent
	for _, i := range s.live() {
		s.n.Step(i) // PRECOMMIT: the leader aggregates and sends
	}
	rewritten := 0
	for _, e := range s.n.Bag {
		if e.From == byz && e.Phase == bft.Precommit && !e.Replica && attack {
			m := e.Decode()
			m.RcBuildHeight = 0
			m.Signature = nil
			if m.Sign(s.n.Keys[byz].Priv) == nil {
				if bz, e2 := lib.Marshal(m); e2 == nil {
					e.Bytes = bz
					rewritten++
				}
			}
		}
	}
	s.n.Flush(nil)
	for _, i := range s.live() {
		s.n.Step(i) // PRECOMMIT_VOTE: the replicas lock
	}
	s.n.Flush(dropAll) // the votes go nowhere: no COMMIT
	say("round %d: PRECOMMIT with build height 0 sent to %d replicas, COMMIT withheld; locks:%s", ra, rewritten, s.locks())
	s.failRound()
	// from now on the Byzantine validator is silent and nothing is lost
	for k := 0; k < 8 && len(n.Commits) == 0; k++ {
		if !s.toElection() {
			break
		}
		for j := 0; j < 9; j++ {
			s.tick(func(e *bftsim.Env) bool { return e.From != byz })
		}
	}
	say("after up to eight rounds among correct replicas: %d commits", len(n.Commits))
	return n, story, nil
}
