package main

import (
	"container/heap"
	"fmt"
	"os"
	"strings"
	"time"

	"github.com/canopy-network/canopy/bft"
	"github.com/canopy-network/canopy/lib"
	"verifharness/bftsim"
	"verifharness/sim"
)

// Liveness under eventual synchrony (property C15), on REAL replicas in VIRTUAL time: after an adversarial prefix (the random
// schedule of randomRun: loss, delay, duplication, skipped ticks, Byzantine strategies, root-chain notifications) the network heals:
// every message is delivered within 1-50 ms, the Byzantine validator falls silent, and every replica's phase timer fires after the
// duration the implementation itself computes for that phase and round (BFT.WaitTime; after an interrupt the remaining round time
// it stored). The replicas start the healed period wherever the prefix left them: different rounds, phases, locks, stored
// proposals. The harness reports how many rounds it took until every correct replica committed.

type event struct {
	at  int64 // virtual milliseconds
	seq int
	rep int         // timer of this replica, or
	env *bftsim.Env // delivery of this message
}
type evq []*event

func (q evq) Len() int { return len(q) }
func (q evq) Less(i, j int) bool {
	return q[i].at < q[j].at || (q[i].at == q[j].at && q[i].seq < q[j].seq)
}
func (q evq) Swap(i, j int) { q[i], q[j] = q[j], q[i] }
func (q *evq) Push(x any)   { *q = append(*q, x.(*event)) }
func (q *evq) Pop() any     { o := *q; n := len(o); x := o[n-1]; *q = o[:n-1]; return x }

var phaseMS = map[lib.Phase]int64{bft.Election: 1500, bft.ElectionVote: 1500, bft.Propose: 2500, bft.ProposeVote: 4000, bft.Precommit: 2000, bft.PrecommitVote: 2000, bft.Commit: 2000}

func roundLeft(from lib.Phase, round uint64) int64 {
	var ms int64
	for p := from; p <= bft.Commit; p++ {
		ms += phaseMS[p] * int64(2*round+1)
	}
	return ms
}

type healResult struct {
	StartRounds   []uint64
	Committed     bool
	RoundsNeeded  uint64
	VirtualMS     int64
	CommitRound   uint64
	Skipped       string
	Locked        int
	DistinctLocks int
	Direct        int // correct replicas that committed through the BFT itself
	Bound         uint64
	Lies          int // Pacemaker messages for far higher rounds sent by the Byzantine validator during the healed period
	Echoes        int // PRECOMMIT / COMMIT messages of a correct leader re-signed by the Byzantine validator and sent right behind the original
	Partials      int // leader messages whose certificate the Byzantine validator replaced by one it signed alone (a partial certificate of the same view)
}

// heal runs the healed period on the network the prefix left behind
func heal(r *sim.Rng, n *bftsim.Net, correct map[int]bool, byzIdx int, maxRounds uint64) healResult {
	res := healResult{}
	var live []int
	for i := range n.Reps {
		if correct[i] {
			if n.Reps[i].Committed != nil {
				res.Skipped = "a correct replica committed during the prefix (the others catch up through block gossip, outside this property)"
				return res
			}
			live = append(live, i)
		}
	}
	locks := map[string]bool{}
	var r0 uint64
	for _, i := range live {
		b := n.Reps[i].B
		b.Config.CommitTimeoutMS = lib.DefaultConfig().CommitTimeoutMS // (bftsim shortens it for the step-driven runs)
		res.StartRounds = append(res.StartRounds, b.Round)
		if b.Round > r0 {
			r0 = b.Round
		}
		if b.HighQC != nil {
			res.Locked++
			locks[string(b.HighQC.BlockHash)] = true
		}
	}
	res.DistinctLocks = len(locks)
	// everything still in flight from the prefix is lost; the healed period starts now
	n.Bag = nil
	q := &evq{}
	seq := 0
	push := func(e *event) { e.seq = seq; seq++; heap.Push(q, e) }
	for _, i := range live {
		push(&event{at: int64(r.Intn(3000)), rep: i})
	}
	var now int64
	liar := r.Chance(50)
	rootNext := int64(-1)
	if r.Chance(40) {
		rootNext = 20000 + int64(r.Intn(20000)) // a root-chain block every ~20-40 s
	}
	root := n.Reps[live[0]].Ctl.RootHeightNow()
	// in a third of the runs the Byzantine validator is not silent either: every PRECOMMIT / COMMIT message a correct leader sends
	// is copied, signed again under the Byzantine validator's own key (the certificate inside stays valid) and delivered right
	// behind the original. A replica that let the copy replace the leader's message would find "the wrong proposer" at its next
	// step and give the round up - every round, for ever, with less than one third of the power misbehaving
	echo := byzIdx >= 0 && r.Chance(34)
	echoed := map[string]bool{}
	// ... or (another third) it answers every PRECOMMIT / COMMIT message of a correct leader with a message of the same phase
	// whose certificate it signed ALONE (same view, same payload: a partial certificate). Replicas keep partial certificates to
	// look for double signers later; looking must not damage the leader's message they are about to lock on or commit
	partial := byzIdx >= 0 && !echo && r.Chance(50)
	flushBag := func() {
		for _, e := range n.Bag {
			if e.From == byzIdx || !correct[e.To] {
				continue // the Byzantine validator is silent; nobody needs to talk to it
			}
			at := now + 1 + int64(r.Intn(50))
			push(&event{at: at, rep: -1, env: e})
			if partial && !e.Replica && (e.Phase == bft.Precommit || e.Phase == bft.Commit) {
				m := new(bft.Message)
				if lib.Unmarshal(e.Bytes, m) == nil && m.Qc != nil && m.Qc.Header != nil {
					pq := &lib.QuorumCertificate{Header: m.Qc.Header, BlockHash: m.Qc.BlockHash, ResultsHash: m.Qc.ResultsHash, ProposerKey: m.Qc.ProposerKey}
					if sig, serr := sim.AggregateSign(n.VS, pq.SignBytes(), []int{byzIdx}); serr == nil {
						pq.Signature = sig
						pm := &bft.Message{Header: m.Header, Qc: pq}
						if err := pm.Sign(n.Keys[byzIdx].Priv); err == nil {
							if bz, e2 := lib.Marshal(pm); e2 == nil {
								push(&event{at: at + 1 + int64(r.Intn(30)), rep: -1, env: &bftsim.Env{From: byzIdx, To: e.To, Bytes: bz, Kind: e.Kind + "-PARTIAL", Round: e.Round, Phase: e.Phase}})
								if k := fmt.Sprintf("p%d/%d/%d", e.From, e.Round, e.Phase); !echoed[k] {
									echoed[k] = true
									res.Partials++
								}
							}
						}
					}
				}
			}
			if echo && !e.Replica && (e.Phase == bft.Precommit || e.Phase == bft.Commit) {
				m := new(bft.Message)
				if lib.Unmarshal(e.Bytes, m) == nil && m.Qc != nil {
					m.Signature = nil
					if err := m.Sign(n.Keys[byzIdx].Priv); err == nil {
						if bz, e2 := lib.Marshal(m); e2 == nil {
							push(&event{at: at + 1 + int64(r.Intn(30)), rep: -1, env: &bftsim.Env{From: byzIdx, To: e.To, Bytes: bz, Kind: e.Kind + "-RE-SIGNED", Round: e.Round, Phase: e.Phase}})
							if k := fmt.Sprintf("%d/%d/%d", e.From, e.Round, e.Phase); !echoed[k] {
								echoed[k] = true
								res.Echoes++
							}
						}
					}
				}
			}
		}
		n.Bag = nil
	}
	// a block is committed as soon as one correct replica commits it: the committing replica gossips the certified block and the
	// others take it through the peer-block path (C02); the run goes on a little so that the count of direct commits is meaningful
	var firstCommitAt int64 = -1
	allDone := func() bool {
		all, any := true, false
		for _, i := range live {
			if n.Reps[i].Committed == nil {
				all = false
			} else {
				any = true
			}
		}
		if any && firstCommitAt < 0 {
			firstCommitAt = now
		}
		return all || (any && now > firstCommitAt+30000)
	}
	// No mechanism re-aligns the PHASES of replicas that the prefix left in the same round at different points of it (the
	// optimistic advance PhaseHas23Maj is never called): their offset - up to one round length at round r0 - is only absorbed once
	// the phase windows, which grow as (2 round + 1), exceed it: about ten times r0 rounds later. The bound below allows for that.
	maxRounds = 11*(r0+1) + maxRounds
	// Replicas that the prefix left in DIFFERENT rounds carry a time debt: the one in the lowest round needs the whole length of
	// the rounds in between to get where the most advanced one already is, while that one moves on; since every round is longer
	// than the one before, the distance in TIME stays what it was and is only absorbed when a single phase is longer than it. With
	// the implementation's own wait times (phase p of round R lasts base(p)*(2R+1)) that is the first round R* whose shortest
	// phase outlasts the debt - quadratic in the round spread. The bound is derived from that, not guessed.
	rmin := r0
	for _, sr := range res.StartRounds {
		if sr < rmin {
			rmin = sr
		}
	}
	var debt int64 = 3000
	for rr := rmin; rr < r0; rr++ {
		debt += roundLeft(bft.Election, rr)
	}
	if rmin < r0 {
		minPhase := phaseMS[bft.Election]
		for _, v := range phaseMS {
			if v < minPhase {
				minPhase = v
			}
		}
		rstar := r0
		for minPhase*int64(2*rstar+1) < debt {
			rstar++
		}
		if extra := rstar - r0 + 12; extra > maxRounds {
			maxRounds = extra
		}
	}
	res.Bound = maxRounds
	wallCap := healWallCap + time.Duration(maxRounds)*time.Second/2
	budget := int64(0)
	for rr := uint64(0); rr <= r0+maxRounds; rr++ {
		budget += roundLeft(bft.Election, rr)
	}
	wallStart := time.Now()
	for q.Len() > 0 && !allDone() {
		e := heap.Pop(q).(*event)
		now = e.at
		if now > budget {
			break
		}
		// real-time cap per run (signature checks dominate): a run that is still going after this long has used most of its
		// round budget already; it is recorded as not committed
		if time.Since(wallStart) > wallCap {
			res.Skipped = ""
			break
		}
		if rootNext > 0 && now >= rootNext {
			root++
			for _, i := range live {
				n.RootUpdate(i, root)
			}
			rootNext = now + 20000 + int64(r.Intn(20000))
		}
		if e.env != nil {
			if err := n.Deliver(e.env); err != nil && debugHeal && now >= debugFrom {
				fmt.Printf("  t=%d deliver %d->%d %s r%d: %s\n", now, e.env.From, e.env.To, e.env.Kind, e.env.Round, firstLine(err.Error()))
			}
			continue
		}
		i := e.rep
		rep := n.Reps[i]
		if rep.Committed != nil {
			continue
		}
		ph, rd := rep.B.Phase, rep.B.Round
		if debugHeal && now >= debugFrom {
			fmt.Printf("  t=%d step replica %d round %d phase %s\n", now, i, rd, ph)
		}
		n.Step(i)
		flushBag()
		// the Byzantine validator (below one third) does not stay silent in half of the runs: whenever a correct replica gives up a
		// round it tells every correct replica that it is far ahead (a Pacemaker message for a much higher round); with less than
		// one third of the power behind it this must not move anybody
		if liar && byzIdx >= 0 && rep.B.Phase == bft.Pacemaker && ph != bft.Pacemaker {
			v := rep.B.View.Copy()
			v.Round, v.Phase = rd+5+uint64(r.Intn(20)), bft.RoundInterrupt
			m := &bft.Message{Qc: &lib.QuorumCertificate{Header: v}}
			if err := m.Sign(n.Keys[byzIdx].Priv); err == nil {
				if bz, e := lib.Marshal(m); e == nil {
					for _, j := range live {
						push(&event{at: now + 1 + int64(r.Intn(50)), rep: -1, env: &bftsim.Env{From: byzIdx, To: j, Bytes: bz, Kind: "PACEMAKER-LIE", Round: v.Round}})
					}
					res.Lies++
				}
			}
		}
		// the time until this replica's next timer: what the IMPLEMENTATION computes (BFT.WaitTime with the replica's own
		// configuration; after a round interrupt the remaining round time it stored in RoundInterruptTimeoutMS)
		var wait int64
		switch {
		case rep.Committed != nil:
			continue
		case rep.B.Phase == bft.Pacemaker && ph != bft.Pacemaker: // the phase ended in a round interrupt: wait for the end of the round
			wait = rep.B.WaitTime(bft.RoundInterrupt, rd).Milliseconds()
		case ph == bft.Pacemaker:
			wait = rep.B.WaitTime(bft.Pacemaker, rd).Milliseconds()
		case ph == bft.CommitProcess:
			wait = rep.B.WaitTime(bft.CommitProcess, rd).Milliseconds() // no timer is set by the code: the replica waits for a reset
		default:
			wait = rep.B.WaitTime(ph, rd).Milliseconds()
			if wait == 0 {
				wait = 1
			}
		}
		push(&event{at: now + wait, rep: i})
	}
	res.VirtualMS = now
	first := true
	for _, i := range live {
		if c := n.Reps[i].Committed; c != nil {
			res.Committed = true
			res.Direct++
			if first || c.Round < res.CommitRound {
				res.CommitRound, first = c.Round, false
			}
		}
	}
	if res.Committed {
		if res.CommitRound >= r0 {
			res.RoundsNeeded = res.CommitRound - r0
		}
	}
	return res
}

func healLit(powers []uint64, byzIdx int, h healResult, maxRounds uint64) string {
	return fmt.Sprintf("mkLive %s %s %s %s", sim.CoqNList(powers), sim.CoqBool(h.Committed), sim.CoqN(h.RoundsNeeded), sim.CoqN(h.Bound))
}

var healWallCap = 90 * time.Second

var debugHeal = os.Getenv("VERIF_DEBUG") == "2"
var debugFrom int64 = func() int64 { var x int64; fmt.Sscanf(os.Getenv("VERIF_DEBUG_FROM"), "%d", &x); return x }()

func firstLine(s string) string {
	s = strings.TrimSpace(s)
	return strings.ReplaceAll(s, "\n", " | ")
}
