package main

import (
	"fmt"
	"strings"

	"github.com/canopy-network/canopy/bft"
	"github.com/canopy-network/canopy/lib"
	"github.com/canopy-network/canopy/lib/crypto"
	"verifharness/bftsim"
	"verifharness/sim"
)

// Random adversarial schedules on real replicas, recorded action by action for replay on the Coq model (BftCheck.v).

type ids struct{ m map[string]uint64 }

func (d *ids) of(h []byte) uint64 {
	if len(h) == 0 {
		return 0
	}
	k := string(h)
	if v, ok := d.m[k]; ok {
		return v
	}
	v := uint64(len(d.m) + 1)
	d.m[k] = v
	return v
}

type recorder struct {
	n       *bftsim.Net
	blk     *ids
	res     *ids
	trace   []string
	correct map[int]bool
	commits int
}

func (rc *recorder) blockID(block []byte) uint64 {
	if block == nil {
		return 0
	}
	h, err := new(lib.Block).BytesToBlockHash(block)
	if err != nil {
		return 0
	}
	return rc.blk.of(h)
}
func (rc *recorder) resultsID(r *lib.CertificateResult) uint64 {
	if r == nil {
		return 0
	}
	return rc.res.of(r.Hash())
}

func coqOptN(ok bool, x uint64) string {
	if !ok {
		return "None"
	}
	return fmt.Sprintf("(Some %s)", sim.CoqN(x))
}
func viewLit(v *lib.View) string {
	return fmt.Sprintf("(mkView %s %s %s)", sim.CoqN(v.RootHeight), sim.CoqN(v.Round), sim.CoqN(uint64(v.Phase)))
}

// qcLit: the certificate as the model sees it: signers from the bitmap, sigok = the aggregate verifies for this payload
func (rc *recorder) qcLit(q *lib.QuorumCertificate) string {
	var signers []uint64
	sigok := false
	if q.Signature != nil {
		key := rc.n.VS.MultiKey.Copy()
		if err := key.SetBitmap(q.Signature.Bitmap); err == nil {
			for i := 0; i < rc.n.N; i++ {
				if on, _ := key.SignerEnabledAt(i); on {
					signers = append(signers, uint64(i))
				}
			}
			if q.Signature.CheckBasic() == nil && key.VerifyBytes(q.SignBytes(), q.Signature.Signature) {
				sigok = true
			}
		}
	}
	prop := uint64(99)
	if i := rc.n.IndexOf(q.ProposerKey); i >= 0 {
		prop = uint64(i)
	}
	return fmt.Sprintf("(mkQC %s %s %s %s %s %s)", viewLit(q.Header), sim.CoqN(rc.blk.of(q.BlockHash)), sim.CoqN(rc.res.of(q.ResultsHash)),
		sim.CoqN(prop), sim.CoqNList(signers), sim.CoqBool(sigok))
}
func (rc *recorder) optQC(q *lib.QuorumCertificate) string {
	if q == nil {
		return "None"
	}
	return "(Some " + rc.qcLit(q) + ")"
}

func (rc *recorder) obs(i int, votes []*bft.Message) string {
	b := rc.n.Reps[i].B
	lock := "None"
	if h := b.HighQC; h != nil {
		lock = fmt.Sprintf("(Some (%s, %s, %s))", viewLit(h.Header), sim.CoqN(rc.blk.of(h.BlockHash)), sim.CoqN(rc.res.of(h.ResultsHash)))
	}
	commit := "None"
	if c := rc.n.Reps[i].Committed; c != nil {
		commit = fmt.Sprintf("(Some (%s, %s))", sim.CoqN(rc.blk.of(c.BlockHash)), sim.CoqN(rc.res.of(c.ResultsHash)))
	}
	var vs []string
	for _, m := range votes {
		p := uint64(99)
		if k := rc.n.IndexOf(m.Qc.ProposerKey); k >= 0 {
			p = uint64(k)
		}
		vs = append(vs, fmt.Sprintf("(%s, %s, %s, %s)", sim.CoqN(uint64(m.Qc.Header.Phase)), sim.CoqN(rc.blk.of(m.Qc.BlockHash)), sim.CoqN(rc.res.of(m.Qc.ResultsHash)), sim.CoqN(p)))
	}
	pk := rc.n.IndexOf(b.ProposerKey)
	return fmt.Sprintf("(mkObs %s %s %s %s %s %s %s %s %s %s)", sim.CoqN(b.RootHeight), sim.CoqN(b.Round), sim.CoqN(uint64(b.Phase)), lock,
		sim.CoqN(rc.blockID(b.Block)), sim.CoqN(rc.blk.of(b.BlockHash)), sim.CoqN(rc.resultsID(b.Results)), coqOptN(pk >= 0, uint64(pk)), commit, sim.CoqList(vs))
}

func (rc *recorder) stateLit(i int) string {
	b := rc.n.Reps[i].B
	return fmt.Sprintf("(%s, mkR %s %s %s None 0 0 0 None [] None)", sim.CoqN(uint64(i)), sim.CoqN(b.RootHeight), sim.CoqN(b.Round), sim.CoqN(uint64(b.Phase)))
}

// step fires replica i's timer and records the action with the oracle values read off the implementation
func (rc *recorder) step(i int) {
	r := rc.n.Reps[i]
	if r.Committed != nil {
		return
	}
	ph := r.B.Phase
	maj := false
	if ph == bft.Propose || ph == bft.Precommit || ph == bft.Commit {
		_, _, err := r.B.GetMajorityVote()
		maj = err == nil
	}
	r.Ctl.Sent = nil
	rc.n.Step(i)
	var votes []*bft.Message
	target := uint64(0)
	for _, m := range r.Ctl.Sent {
		if m.IsReplicaMessage() {
			votes = append(votes, m)
			if m.Qc.Header.Phase == bft.ElectionVote {
				if k := rc.n.IndexOf(m.Qc.ProposerKey); k >= 0 {
					target = uint64(k)
				}
			}
		}
	}
	pb, pr := uint64(0), uint64(0)
	if ph == bft.Propose && maj {
		pb, pr = rc.blockID(r.B.Block), rc.resultsID(r.B.Results)
	}
	jump := uint64(0)
	if ph == bft.Pacemaker {
		jump = r.B.Round
	}
	if !rc.correct[i] {
		return
	}
	if r.Committed != nil {
		rc.commits++
	}
	act := fmt.Sprintf("AStep %s (mkO %s %s (%s, %s) true %s %s)", sim.CoqN(uint64(i)), sim.CoqN(target), sim.CoqBool(maj), sim.CoqN(pb), sim.CoqN(pr),
		sim.CoqN(r.Ctl.RootHeightNow()), sim.CoqN(jump))
	rc.trace = append(rc.trace, fmt.Sprintf("(%s, %s)", act, rc.obs(i, votes)))
}

func (rc *recorder) rootUpdate(i int, root uint64) {
	if rc.n.Reps[i].Committed != nil {
		return
	}
	rc.n.RootUpdate(i, root)
	if rc.correct[i] {
		rc.trace = append(rc.trace, fmt.Sprintf("(ARoot %s %s, %s)", sim.CoqN(uint64(i)), sim.CoqN(root), rc.obs(i, nil)))
	}
}

// deliver hands one envelope to its recipient and records it
func (rc *recorder) deliver(e *bftsim.Env) {
	if rc.n.Reps[e.To].Committed != nil {
		return
	}
	m := e.Decode()
	_ = rc.n.Deliver(e)
	if !rc.correct[e.To] {
		return
	}
	from := uint64(99)
	sigok := false
	if m.Signature != nil {
		if k := rc.n.IndexOf(m.Signature.PublicKey); k >= 0 {
			from = uint64(k)
		}
		if pk, err := crypto.NewPublicKeyFromBytes(m.Signature.PublicKey); err == nil {
			sigok = pk.VerifyBytes(m.SignBytes(), m.Signature.Signature)
		}
	}
	var act string
	if m.IsReplicaMessage() || m.IsPacemakerMessage() {
		q := m.Qc
		p := uint64(99)
		if k := rc.n.IndexOf(q.ProposerKey); k >= 0 {
			p = uint64(k)
		}
		act = fmt.Sprintf("AVote %s (mkVM %s %s %s %s %s %s %s %s %s)", sim.CoqN(uint64(e.To)), sim.CoqN(from), sim.CoqBool(sigok), viewLit(q.Header),
			sim.CoqN(rc.blk.of(q.BlockHash)), sim.CoqN(rc.res.of(q.ResultsHash)), sim.CoqN(p), rc.optQC(m.HighQc), sim.CoqN(rc.blockID(q.Block)), sim.CoqN(rc.resultsID(q.Results)))
	} else {
		if m.Qc == nil || m.Header.Phase == bft.Election {
			// a candidacy announcement: the model only sees that a message of a validator arrived
			act = fmt.Sprintf("ALeader %s (mkLM %s %s %s %s (mkQC (mkView 0 0 0) 0 0 0 []%%N false) false None 0)", sim.CoqN(uint64(e.To)), sim.CoqN(from), sim.CoqBool(sigok),
				sim.CoqN(m.Header.Round), sim.CoqN(uint64(m.Header.Phase)))
		} else {
			act = fmt.Sprintf("ALeader %s %s", sim.CoqN(uint64(e.To)), rc.lmsgLit(m, from, sigok))
		}
	}
	rc.trace = append(rc.trace, fmt.Sprintf("(%s, %s)", act, rc.obs(e.To, nil)))
}

type runStats struct {
	Actions, Commits, Rounds int
	Strategy                 string
	Disagree                 bool
}

// randomRun: one recorded run. nByz Byzantine replicas (the last indices) follow a strategy; the network loses, delays,
// duplicates and reorders; root-chain notifications (advancing and duplicated) arrive at random replicas mid-height.
var lastRun struct {
	n       *bftsim.Net
	correct map[int]bool
	byz     int
	powers  []uint64
}

func randomRun(r *sim.Rng, ticks int) (lit string, meta map[string]any, rs runStats) {
	powersets := [][]uint64{{100, 100, 100, 100}, {100, 100, 100, 100}, {10, 20, 30, 40, 25, 1}, {300, 100, 100, 100, 100, 100, 100}, {1, 1, 1}}
	powers := powersets[r.Intn(len(powersets))]
	n, err := bftsim.New(powers, 5)
	if err != nil {
		panic(err)
	}
	nrep := len(powers)
	// Byzantine set: the last validator when that keeps the Byzantine power below 1/3 (and sometimes none)
	var total uint64
	for _, p := range powers {
		total += p
	}
	correct := map[int]bool{}
	for i := 0; i < nrep; i++ {
		correct[i] = true
	}
	byzIdx := -1
	if r.Chance(75) && 3*powers[nrep-1] < total {
		byzIdx = nrep - 1
		correct[byzIdx] = false
	}
	strategies := []string{"follows-protocol", "silent", "withholds-precommit", "commit-to-one", "stale-justification", "stale-highqc", "forwards-locks", "equivocates"}
	strat := strategies[r.Intn(len(strategies))]
	if byzIdx < 0 {
		strat = "no-byzantine"
	}
	rc := &recorder{n: n, blk: &ids{m: map[string]uint64{}}, res: &ids{m: map[string]uint64{}}, correct: correct}
	var init []string
	for i := 0; i < nrep; i++ {
		if correct[i] {
			init = append(init, rc.stateLit(i))
		}
	}
	pLoss, pDelay, pDup := int(r.Pick(0, 0, 3, 10, 25)), int(r.Pick(0, 0, 10, 30)), int(r.Pick(0, 0, 5, 10))
	pStep := int(r.Pick(100, 100, 100, 97, 90))
	pRoot := int(r.Pick(0, 2, 4, 8))
	var held []*bftsim.Env
	var seenQCs []*lib.QuorumCertificate // PROPOSE_VOTE certificates the Byzantine validator has seen (with block and results)
	var seenLeader []*bft.Message
	root := uint64(5)
	for t := 0; t < ticks && len(rc.trace) < 420; t++ {
		// root-chain notifications
		if r.Chance(pRoot) {
			if r.Chance(60) {
				root++
			}
			for i := 0; i < nrep; i++ {
				if r.Chance(85) {
					rc.rootUpdate(i, root)
				} else {
					n.Reps[i].Ctl.SetRoot(root) // the controller knows, the notification is late: the Pacemaker may pick it up
				}
			}
		}
		// timers
		for i := 0; i < nrep; i++ {
			if r.Chance(pStep) {
				rc.step(i)
			}
		}
		// the adversary looks at everything in flight
		bag := append(held, n.Bag...)
		held, n.Bag = nil, nil
		for _, e := range bag {
			m := e.Decode()
			if byzIdx >= 0 {
				if !m.IsReplicaMessage() && !m.IsPacemakerMessage() && m.Qc != nil && m.Header.Phase != bft.Election {
					seenLeader = append(seenLeader, m)
					if m.Qc.Header.Phase == bft.ProposeVote {
						seenQCs = append(seenQCs, m.Qc)
					}
				}
			}
			if e.From == byzIdx {
				switch strat {
				case "silent":
					continue
				case "withholds-precommit":
					if !e.Replica && e.Phase == bft.Precommit {
						continue
					}
				case "commit-to-one":
					if !e.Replica && e.Phase == bft.Commit && e.To != 0 {
						continue
					}
				}
			} else if r.Chance(pLoss) {
				continue
			}
			if r.Chance(pDelay) {
				held = append(held, e)
				continue
			}
			rc.deliver(e)
			if r.Chance(pDup) {
				rc.deliver(e)
			}
		}
		// Byzantine injections built from what it has seen (every certificate is one really signed by the replicas)
		if byzIdx >= 0 && r.Chance(35) {
			bb := n.Reps[byzIdx].B
			switch strat {
			case "stale-justification":
				if len(seenLeader) > 0 {
					old := seenLeader[r.Intn(len(seenLeader))]
					hdr := bb.View.Copy()
					hdr.Phase = old.Header.Phase
					cp := &bft.Message{Header: hdr, Qc: old.Qc, HighQc: old.HighQc, RcBuildHeight: old.RcBuildHeight}
					n.Inject(byzIdx, cp, allBut(nrep, -1)...)
				}
			case "stale-highqc", "equivocates":
				if len(seenQCs) > 0 && bb.Phase == bft.ProposeVote {
					if vote, as, err := majorityOfPrevPhase(bb); err == nil {
						hq := seenQCs[r.Intn(len(seenQCs))]
						blk, res := hq.Block, hq.Results
						if blk != nil && res != nil {
							hdr := bb.View.Copy()
							hdr.Phase = bft.Propose
							msg := &bft.Message{Header: hdr, Qc: &lib.QuorumCertificate{Header: vote.Qc.Header, Results: res, ResultsHash: res.Hash(), Block: blk,
								BlockHash: bb.BlockToHash(blk), ProposerKey: vote.Qc.ProposerKey, Signature: as}, HighQc: hq, RcBuildHeight: 5}
							to := allBut(nrep, -1)
							if strat == "equivocates" {
								to = to[:1+r.Intn(len(to))]
							}
							n.Inject(byzIdx, msg, to...)
						}
					}
				}
			case "forwards-locks":
				if len(seenQCs) > 0 {
					hq := seenQCs[r.Intn(len(seenQCs))]
					v := bb.View.Copy()
					v.Phase = bft.ElectionVote
					msg := &bft.Message{Qc: &lib.QuorumCertificate{Header: v, ProposerKey: n.Keys[r.Intn(nrep)].Pub}, HighQc: hq}
					if other := seenQCs[r.Intn(len(seenQCs))]; r.Bool() && other.Block != nil {
						// a block and results attached to the vote itself (no signature covers them, no check looks at them)
						msg.Qc.Block, msg.Qc.Results = other.Block, other.Results
					}
					n.Inject(byzIdx, msg, allBut(nrep, -1)...)
				}
			}
		}
	}
	lastRun.n, lastRun.correct, lastRun.byz, lastRun.powers = n, correct, byzIdx, powers
	a, b := n.Disagreement(keys(correct))
	rs = runStats{Actions: len(rc.trace), Commits: rc.commits, Strategy: strat, Disagree: a != nil}
	_ = b
	var ps []uint64
	ps = append(ps, powers...)
	lit = fmt.Sprintf("mkBC %s 0 %s %s", sim.CoqNList(ps), sim.CoqList(init), "["+strings.Join(rc.trace, ";\n  ")+"]")
	meta = map[string]any{"powers": powers, "byzantine": byzIdx, "strategy": strat, "actions": len(rc.trace), "commits": rc.commits, "loss": pLoss, "delay": pDelay, "dup": pDup, "step": pStep, "root_updates": pRoot}
	return
}

func keys(m map[int]bool) (out []int) {
	for k, v := range m {
		if v {
			out = append(out, k)
		}
	}
	return
}
func allBut(n, skip int) (out []int) {
	for i := 0; i < n; i++ {
		if i != skip {
			out = append(out, i)
		}
	}
	return
}

// majorityOfPrevPhase: GetMajorityVote for the phase before the replica's current phase minus one (the election votes while the
// object already moved on to PROPOSE_VOTE)
func majorityOfPrevPhase(b *bft.BFT) (*bft.Message, *lib.AggregateSignature, lib.ErrorI) {
	ph := b.Phase
	b.Phase = bft.Propose
	defer func() { b.Phase = ph }()
	return b.GetMajorityVote()
}

func (rc *recorder) lmsgLit(m *bft.Message, from uint64, sigok bool) string {
	return fmt.Sprintf("(mkLM %s %s %s %s %s %s %s %s)", sim.CoqN(from), sim.CoqBool(sigok), sim.CoqN(m.Header.Round),
		sim.CoqN(uint64(m.Header.Phase)), rc.qcLit(m.Qc), sim.CoqBool(m.Qc.Block != nil && m.Qc.Results != nil), rc.optQC(m.HighQc), sim.CoqN(m.RcBuildHeight))
}
