// c01: BFT agreement on real bft.BFT replicas (see bftsim). Scripted adversarial schedules + random schedules.
package main

import (
	"flag"
	"fmt"

	"github.com/canopy-network/canopy/lib"
	"verifharness/bftsim"
)

func main() {
	scenario := flag.String("scenario", "", "run one scripted scenario and print its story")
	verbose := flag.Bool("v", false, "verbose")
	flag.Parse()
	switch *scenario {
	case "stale-highqc-root-update", "root-update-control", "duplicate-root-update":
		root := uint64(6)
		if *scenario == "duplicate-root-update" {
			root = 5 // the notification for the root height the replicas are already at, delivered again
		}
		n, story, err := scenarioStaleHighQCAcrossRootUpdate(*scenario != "root-update-control", root, *verbose)
		report(n, story, err)
	case "stale-precommit", "genuine-precommit":
		n, story, err := scenarioStalePrecommitQC(*scenario == "stale-precommit", *verbose)
		report(n, story, err)
	}
}

func report(n *bftsim.Net, story []string, err error) {
	for _, l := range story {
		fmt.Println(l)
	}
	if err != nil {
		fmt.Println("scenario did not complete:", err)
		return
	}
	for _, c := range n.Commits {
		fmt.Printf("commit: replica %d block %s (certificate round %d)\n", c.Replica, lib.BytesToTruncatedString(c.BlockHash), c.Round)
	}
	if a, b := n.Disagreement(honest); a != nil {
		fmt.Printf("DISAGREEMENT: replica %d committed %s, replica %d committed %s at height %d\n", a.Replica, lib.BytesToTruncatedString(a.BlockHash), b.Replica, lib.BytesToTruncatedString(b.BlockHash), a.Height)
	} else {
		fmt.Println("agreement holds")
	}
}
