// c01: BFT agreement on real bft.BFT replicas (see bftsim). Scripted adversarial schedules + random schedules.
package main

import (
	"flag"
	"fmt"
	"os"
	"time"

	"github.com/canopy-network/canopy/lib"
	"verifharness/bftsim"
	"verifharness/sim"
)

func main() {
	scenario := flag.String("scenario", "", "run one scripted scenario and print its story")
	verbose := flag.Bool("v", false, "verbose")
	runs := flag.Int("runs", 30, "random recorded runs")
	ticks := flag.Int("ticks", 60, "ticks per random run")
	inject := flag.Int("inject", 150, "state-injection cases")
	prop := flag.Int("prop", 1, "1: agreement (scenarios, recorded runs, state injection); 15: liveness (adversarial prefix, then a healed network in virtual time)")
	healRounds := flag.Int("heal-rounds", 12, "rounds after the heal within which every correct replica must have committed")
	outDir := flag.String("outdir", ".", "output directory")
	_ = flag.String("replay", "", "replay file (cases regenerate deterministically from the seed)")
	flag.Parse()
	if *scenario == "" && *prop == 15 {
		liveMode(*runs, *ticks, uint64(*healRounds), *outDir)
		return
	}
	if *scenario == "" {
		checkMode(*runs, *ticks, *inject, *outDir)
		return
	}
	switch *scenario {
	case "stale-highqc-root-update", "root-update-control", "duplicate-root-update":
		root := uint64(6)
		if *scenario == "duplicate-root-update" {
			root = 5 // the notification for the root height the replicas are already at, delivered again
		}
		n, story, err := scenarioStaleHighQCAcrossRootUpdate(*scenario != "root-update-control", root, *verbose)
		report(n, story, err)
	case "heal-debug":
		sim.RegisterKeys(16)
		nn, _ := bftsim.New([]uint64{100, 100, 100, 100}, 5)
		nn.Verbose = *verbose
		correct := map[int]bool{0: true, 1: true, 2: true}
		h := heal(sim.NewRng(7), nn, correct, 3, 6)
		fmt.Printf("%+v\n", h)
		for i, rp := range nn.Reps {
			fmt.Println(i, "round", rp.B.Round, "phase", rp.B.Phase, "committed", rp.Committed != nil, "rejected", rp.Rejected)
		}
		return
	case "stale-block-hash-cache", "block-hash-cache-control":
		n, story, err := scenarioStaleBlockHashCache(*scenario == "stale-block-hash-cache", *verbose)
		report(n, story, err)
	case "stale-precommit", "genuine-precommit":
		n, story, err := scenarioStalePrecommitQC(*scenario == "stale-precommit", *verbose)
		report(n, story, err)
	}
}

func report(n *bftsim.Net, story []string, err error) {
	for _, l := range story {
		fmt.Println(l)
	}
	if err != nil {
		fmt.Println("scenario did not complete:", err)
		return
	}
	for _, c := range n.Commits {
		fmt.Printf("commit: replica %d block %s (certificate round %d)\n", c.Replica, lib.BytesToTruncatedString(c.BlockHash), c.Round)
	}
	if a, b := n.Disagreement(honest); a != nil {
		fmt.Printf("DISAGREEMENT: replica %d committed %s, replica %d committed %s at height %d\n", a.Replica, lib.BytesToTruncatedString(a.BlockHash), b.Replica, lib.BytesToTruncatedString(b.BlockHash), a.Height)
	} else {
		fmt.Println("agreement holds")
	}
}

type stats struct {
	Cases     int               `json:"cases"`
	Distinct  int               `json:"distinct_nontrivial"`
	Actions   int               `json:"actions"`
	Commits   int               `json:"commits_observed"`
	Strategy  map[string]int    `json:"byzantine_strategies"`
	Scenarios map[string]string `json:"scripted_scenarios"`
	Samples   []string          `json:"samples"`
}

// checkMode: the scripted attack schedules (a fork is reported directly) and the recorded random runs (replayed on the model)
func checkMode(runs, ticks, inject int, outDir string) {
	sim.RegisterKeys(16)
	st := &stats{Strategy: map[string]int{}, Scenarios: map[string]string{}}
	type sc struct {
		name string
		run  func() (*bftsim.Net, []string, error)
	}
	for _, s := range []sc{
		{"stale-precommit", func() (*bftsim.Net, []string, error) { return scenarioStalePrecommitQC(true, false) }},
		{"stale-highqc-root-update", func() (*bftsim.Net, []string, error) { return scenarioStaleHighQCAcrossRootUpdate(true, 6, false) }},
		{"duplicate-root-update", func() (*bftsim.Net, []string, error) { return scenarioStaleHighQCAcrossRootUpdate(true, 5, false) }},
		{"stale-block-hash-cache", func() (*bftsim.Net, []string, error) { return scenarioStaleBlockHashCache(true, false) }},
		{"root-update-control", func() (*bftsim.Net, []string, error) { return scenarioStaleHighQCAcrossRootUpdate(false, 6, false) }},
		{"genuine-precommit", func() (*bftsim.Net, []string, error) { return scenarioStalePrecommitQC(false, false) }},
	} {
		n, story, err := s.run()
		switch {
		case err != nil:
			st.Scenarios[s.name] = "did not complete: " + err.Error()
		default:
			if a, b := n.Disagreement(honest); a != nil {
				st.Scenarios[s.name] = "FORK"
				sim.Direct(outDir, map[string]any{"finding": "fork-" + s.name, "kind": "two correct replicas committed different blocks at one height",
					"replica_a": a.Replica, "block_a": lib.BytesToString(a.BlockHash), "replica_b": b.Replica, "block_b": lib.BytesToString(b.BlockHash), "story": story})
			} else {
				st.Scenarios[s.name] = fmt.Sprintf("agreement holds (%d commits)", len(n.Commits))
			}
		}
	}
	fastSyncWitness(outDir)
	r := sim.NewRng(sim.SeedFromEnv())
	cw := &sim.CaseWriter{OutDir: outDir, Name: "c01", Imports: "From V Require Import U64 Extracted Bft BftNet BftCheck.", CaseType: "bft_case", MFun: "bft_mismatches", VFun: "bft_violations", PerShard: 6}
	for i := 0; i < runs; i++ {
		lit, meta, rs := randomRun(r.Fork(), ticks)
		cw.Add(lit, meta)
		st.Cases++
		st.Actions += rs.Actions
		st.Commits += rs.Commits
		st.Strategy[rs.Strategy]++
		if rs.Commits > 0 {
			st.Distinct++
		}
	}
	cw.Close(st)
	cw2 := &sim.CaseWriter{OutDir: outDir, Name: "c01inj", Imports: "From V Require Import U64 Extracted Bft BftNet BftCheck.", CaseType: "bft_case", MFun: "bft_mismatches", VFun: "bft_violations", PerShard: 75}
	phases := map[string]int{}
	for i := 0; i < inject; i++ {
		lit, meta := injectCase(r.Fork())
		cw2.Add(lit, meta)
		st.Cases++
		st.Distinct++
		phases[meta["phase"].(string)]++
	}
	cw2.Close(st)
	st.Strategy["state-injection"] = inject
	fmt.Printf("c01: %d state-injection cases by phase %v; ", inject, phases)
	fmt.Printf("%d recorded runs (%d with commits), %d actions, %d commits observed, strategies %v; scripted scenarios %v\n", st.Cases, st.Distinct, st.Actions, st.Commits, st.Strategy, st.Scenarios)
}

type liveStats struct {
	Cases    int            `json:"cases"`
	Distinct int            `json:"distinct_nontrivial"`
	Skipped  int            `json:"skipped_committed_in_prefix"`
	Rounds   map[string]int `json:"rounds_needed_after_heal"`
	Locked   map[string]int `json:"distinct_locks_at_heal"`
	Strategy map[string]int `json:"prefix_strategies"`
	Samples  []string       `json:"samples"`
}

// liveMode (property C15): an adversarial prefix, then the healed network in virtual time
func liveMode(runs, ticks int, maxRounds uint64, outDir string) {
	sim.RegisterKeys(16)
	st := &liveStats{Rounds: map[string]int{}, Locked: map[string]int{}, Strategy: map[string]int{}}
	// scripted: a Byzantine LEADER's round leaves every replica locked under a build height the leader named only in its
	// PRECOMMIT message; afterwards the correct replicas, alone and with nothing lost, must commit (the control run without the
	// rewritten field must commit too)
	for _, attack := range []bool{true, false} {
		if n, story, err := scenarioPoisonedBuildHeight(attack, false); err == nil && len(n.Commits) == 0 {
			sim.Direct(outDir, map[string]any{"finding": "no-commit-after-a-byzantine-leader-named-another-build-height", "kind": "correct replicas holding more than two thirds of the power, alone and with nothing lost, do not commit in eight rounds after a round led by a Byzantine validator",
				"attack": attack, "story": story})
		}
	}
	r := sim.NewRng(sim.SeedFromEnv())
	cw := &sim.CaseWriter{OutDir: outDir, Name: "c15", Imports: "From V Require Import U64 Extracted Bft BftNet BftLive.", CaseType: "live_case", MFun: "live_mismatches", VFun: "live_violations", PerShard: 200}
	// synchronous rounds from injected aligned states (the setting of the theorem), compared with model/BftLive.v
	cs := &sim.CaseWriter{OutDir: outDir, Name: "c15sync", Imports: "From V Require Import U64 Extracted Bft BftNet BftLive.", CaseType: "sync_case", MFun: "sync_mismatches", VFun: "sync_violations", PerShard: 60}
	syncN, syncLocked, syncMulti, syncVoid := 0, 0, 0, 0
	for syncN < 3*runs {
		lit, meta, ok := syncCase(r.Fork())
		if !ok {
			syncVoid++
			if syncVoid > 20*runs {
				break
			}
			continue
		}
		cs.Add(lit, meta)
		syncN++
		st.Cases++
		if meta["locked"].(int) > 0 {
			syncLocked++
			st.Distinct++
		}
		if meta["distinct_locks"].(int) > 1 {
			syncMulti++
		}
	}
	cs.Close(st)
	healStart, never := time.Now(), 0
	for i := 0; i < runs; i++ {
		// the healed runs stop early when they have used their real-time budget or three runs never committed (enough to report)
		if time.Since(healStart) > time.Duration(8*runs)*time.Second || never >= 3 {
			break
		}
		rr := r.Fork()
		_, meta, _ := randomRun(rr, 10+rr.Intn(ticks))
		h := heal(rr, lastRun.n, lastRun.correct, lastRun.byz, maxRounds)
		if h.Skipped != "" {
			st.Skipped++
			continue
		}
		cw.Add(healLit(lastRun.powers, lastRun.byz, h, maxRounds), map[string]any{"prefix": meta, "start_rounds": h.StartRounds, "committed": h.Committed, "rounds_needed": h.RoundsNeeded,
			"virtual_ms": h.VirtualMS, "locked_replicas": h.Locked, "distinct_locks": h.DistinctLocks, "byzantine_pacemaker_lies": h.Lies, "leader_messages_re_signed_by_the_byzantine_validator": h.Echoes, "leader_messages_answered_with_a_partial_certificate": h.Partials})
		st.Cases++
		if !h.Committed && os.Getenv("VERIF_DEBUG") != "" {
			fmt.Printf("NEVER: %v byz=%d strategy=%v startRounds=%v\n", lastRun.powers, lastRun.byz, meta["strategy"], h.StartRounds)
			for i, rp := range lastRun.n.Reps {
				fmt.Printf("   replica %d root %d round %d phase %s lock %s proposer %d rejected %v\n", i, rp.B.RootHeight, rp.B.Round, rp.B.Phase, lastRun.n.LockOf(i), lastRun.n.IndexOf(rp.B.ProposerKey), rp.Rejected)
			}
		}
		if h.Locked > 0 {
			st.Distinct++
		}
		if h.Committed {
			st.Rounds[fmt.Sprint(h.RoundsNeeded)]++
		} else {
			st.Rounds["never"]++
			never++
		}
		st.Locked[fmt.Sprint(h.DistinctLocks)]++
		st.Strategy[fmt.Sprint(meta["strategy"])]++
	}
	cw.Close(st)
	fmt.Printf("c15: %d synchronous rounds from injected states (%d with locked replicas, %d with locks on different certificates, %d void)\n", syncN, syncLocked, syncMulti, syncVoid)
	fmt.Printf("c15: %d healed runs (%d cases with locked replicas in all, %d skipped: committed in the prefix); rounds needed after the heal %v; distinct locks at the heal %v\n", st.Cases-syncN, st.Distinct, st.Skipped, st.Rounds, st.Locked)
}
