// c01: BFT agreement on real bft.BFT replicas (see bftsim). Scripted adversarial schedules + random schedules.
package main

import (
	"flag"
	"fmt"

	"github.com/canopy-network/canopy/lib"
	"verifharness/bftsim"
	"verifharness/sim"
)

func main() {
	scenario := flag.String("scenario", "", "run one scripted scenario and print its story")
	verbose := flag.Bool("v", false, "verbose")
	runs := flag.Int("runs", 30, "random recorded runs")
	ticks := flag.Int("ticks", 60, "ticks per random run")
	inject := flag.Int("inject", 150, "state-injection cases")
	outDir := flag.String("outdir", ".", "output directory")
	_ = flag.String("replay", "", "replay file (cases regenerate deterministically from the seed)")
	flag.Parse()
	if *scenario == "" {
		checkMode(*runs, *ticks, *inject, *outDir)
		return
	}
	switch *scenario {
	case "stale-highqc-root-update", "root-update-control", "duplicate-root-update":
		root := uint64(6)
		if *scenario == "duplicate-root-update" {
			root = 5 // the notification for the root height the replicas are already at, delivered again
		}
		n, story, err := scenarioStaleHighQCAcrossRootUpdate(*scenario != "root-update-control", root, *verbose)
		report(n, story, err)
	case "stale-block-hash-cache", "block-hash-cache-control":
		n, story, err := scenarioStaleBlockHashCache(*scenario == "stale-block-hash-cache", *verbose)
		report(n, story, err)
	case "stale-precommit", "genuine-precommit":
		n, story, err := scenarioStalePrecommitQC(*scenario == "stale-precommit", *verbose)
		report(n, story, err)
	}
}

func report(n *bftsim.Net, story []string, err error) {
	for _, l := range story {
		fmt.Println(l)
	}
	if err != nil {
		fmt.Println("scenario did not complete:", err)
		return
	}
	for _, c := range n.Commits {
		fmt.Printf("commit: replica %d block %s (certificate round %d)\n", c.Replica, lib.BytesToTruncatedString(c.BlockHash), c.Round)
	}
	if a, b := n.Disagreement(honest); a != nil {
		fmt.Printf("DISAGREEMENT: replica %d committed %s, replica %d committed %s at height %d\n", a.Replica, lib.BytesToTruncatedString(a.BlockHash), b.Replica, lib.BytesToTruncatedString(b.BlockHash), a.Height)
	} else {
		fmt.Println("agreement holds")
	}
}

type stats struct {
	Cases     int               `json:"cases"`
	Distinct  int               `json:"distinct_nontrivial"`
	Actions   int               `json:"actions"`
	Commits   int               `json:"commits_observed"`
	Strategy  map[string]int    `json:"byzantine_strategies"`
	Scenarios map[string]string `json:"scripted_scenarios"`
	Samples   []string          `json:"samples"`
}

// checkMode: the scripted attack schedules (a fork is reported directly) and the recorded random runs (replayed on the model)
func checkMode(runs, ticks, inject int, outDir string) {
	sim.RegisterKeys(16)
	st := &stats{Strategy: map[string]int{}, Scenarios: map[string]string{}}
	type sc struct {
		name string
		run  func() (*bftsim.Net, []string, error)
	}
	for _, s := range []sc{
		{"stale-precommit", func() (*bftsim.Net, []string, error) { return scenarioStalePrecommitQC(true, false) }},
		{"stale-highqc-root-update", func() (*bftsim.Net, []string, error) { return scenarioStaleHighQCAcrossRootUpdate(true, 6, false) }},
		{"duplicate-root-update", func() (*bftsim.Net, []string, error) { return scenarioStaleHighQCAcrossRootUpdate(true, 5, false) }},
		{"stale-block-hash-cache", func() (*bftsim.Net, []string, error) { return scenarioStaleBlockHashCache(true, false) }},
		{"root-update-control", func() (*bftsim.Net, []string, error) { return scenarioStaleHighQCAcrossRootUpdate(false, 6, false) }},
		{"genuine-precommit", func() (*bftsim.Net, []string, error) { return scenarioStalePrecommitQC(false, false) }},
	} {
		n, story, err := s.run()
		switch {
		case err != nil:
			st.Scenarios[s.name] = "did not complete: " + err.Error()
		default:
			if a, b := n.Disagreement(honest); a != nil {
				st.Scenarios[s.name] = "FORK"
				sim.Direct(outDir, map[string]any{"finding": "fork-" + s.name, "kind": "two correct replicas committed different blocks at one height",
					"replica_a": a.Replica, "block_a": lib.BytesToString(a.BlockHash), "replica_b": b.Replica, "block_b": lib.BytesToString(b.BlockHash), "story": story})
			} else {
				st.Scenarios[s.name] = fmt.Sprintf("agreement holds (%d commits)", len(n.Commits))
			}
		}
	}
	r := sim.NewRng(sim.SeedFromEnv())
	cw := &sim.CaseWriter{OutDir: outDir, Name: "c01", Imports: "From V Require Import U64 Extracted Bft BftNet BftCheck.", CaseType: "bft_case", MFun: "bft_mismatches", VFun: "bft_violations", PerShard: 6}
	for i := 0; i < runs; i++ {
		lit, meta, rs := randomRun(r.Fork(), ticks)
		cw.Add(lit, meta)
		st.Cases++
		st.Actions += rs.Actions
		st.Commits += rs.Commits
		st.Strategy[rs.Strategy]++
		if rs.Commits > 0 {
			st.Distinct++
		}
	}
	cw.Close(st)
	cw2 := &sim.CaseWriter{OutDir: outDir, Name: "c01inj", Imports: "From V Require Import U64 Extracted Bft BftNet BftCheck.", CaseType: "bft_case", MFun: "bft_mismatches", VFun: "bft_violations", PerShard: 75}
	phases := map[string]int{}
	for i := 0; i < inject; i++ {
		lit, meta := injectCase(r.Fork())
		cw2.Add(lit, meta)
		st.Cases++
		st.Distinct++
		phases[meta["phase"].(string)]++
	}
	cw2.Close(st)
	st.Strategy["state-injection"] = inject
	fmt.Printf("c01: %d state-injection cases by phase %v; ", inject, phases)
	fmt.Printf("%d recorded runs (%d with commits), %d actions, %d commits observed, strategies %v; scripted scenarios %v\n", st.Cases, st.Distinct, st.Actions, st.Commits, st.Strategy, st.Scenarios)
}
