package main

import (
	"fmt"
	"sort"
	"strings"

	"github.com/canopy-network/canopy/bft"
	"github.com/canopy-network/canopy/lib"
	"verifharness/bftsim"
	"verifharness/sim"
)

// State-injection cases: a replica is put into an arbitrary state the model can express (root height, round, phase, lock, block,
// cached block hash, results, proposer), receives fabricated leader / replica messages whose certificates carry REAL aggregate
// signatures of chosen signer subsets (the harness holds every key), and then its phase timer fires. Every model branch of message
// admission, SafeNode, lock, CheckProposerAndProposal, the stale-root guard and the commit gate is reached directly instead of
// waiting for a random schedule to get there.

type value struct {
	block   []byte
	results *lib.CertificateResult
}

func (rc *recorder) mkQC(view *lib.View, v *value, proposer int, signers []int, withBody bool) *lib.QuorumCertificate {
	q := &lib.QuorumCertificate{Header: view, ProposerKey: rc.n.Keys[proposer].Pub}
	if v != nil {
		q.BlockHash = rc.n.Reps[0].B.BlockToHash(v.block)
		q.ResultsHash = v.results.Hash()
	}
	sig, err := sim.AggregateSign(rc.n.VS, q.SignBytes(), signers)
	if err != nil {
		panic(err)
	}
	q.Signature = sig
	if withBody && v != nil {
		q.Block, q.Results = v.block, v.results
	}
	return q
}

func subset(r *sim.Rng, n int) []int {
	switch r.Intn(12) {
	case 0:
		return []int{0, 1} // below +2/3 of four equal validators
	case 1:
		return []int{1, 2, 3}
	case 2:
		return []int{0, 2, 3}
	default:
		return []int{0, 1, 2, 3}[:3+r.Intn(2)]
	}
}

func (rc *recorder) fullStateLit(i int) string {
	b := rc.n.Reps[i].B
	lock := "None"
	if b.HighQC != nil {
		lock = "(Some " + rc.qcLit(b.HighQC) + ")"
	}
	pk := rc.n.IndexOf(b.ProposerKey)
	var props []string
	for round, byPhase := range b.Proposals {
		for _, ph := range []lib.Phase{bft.Propose, bft.Precommit, bft.Commit} {
			if ms := byPhase[fmt.Sprintf("%d_%s", ph, lib.Phase_name[int32(ph)])]; len(ms) > 0 {
				m := ms[0]
				props = append(props, fmt.Sprintf("(%s, %s, %s)", sim.CoqN(round), sim.CoqN(uint64(ph)), rc.lmsgLit(m, uint64(rc.n.IndexOf(m.Signature.PublicKey)), true)))
			}
		}
	}
	sort.Strings(props)
	return fmt.Sprintf("(%s, mkR %s %s %s %s %s %s %s %s %s None)", sim.CoqN(uint64(i)), sim.CoqN(b.RootHeight), sim.CoqN(b.Round), sim.CoqN(uint64(b.Phase)), lock,
		sim.CoqN(rc.blockID(b.Block)), sim.CoqN(rc.blk.of(b.BlockHash)), sim.CoqN(rc.resultsID(b.Results)), coqOptN(pk >= 0, uint64(pk)), sim.CoqList(props))
}

func injectCase(r *sim.Rng) (lit string, meta map[string]any) {
	powers := []uint64{100, 100, 100, 100}
	n, err := bftsim.New(powers, 5)
	if err != nil {
		panic(err)
	}
	rc := &recorder{n: n, blk: &ids{m: map[string]uint64{}}, res: &ids{m: map[string]uint64{}}, correct: map[int]bool{0: true}}
	vals := []*value{}
	for k := 0; k < 3; k++ {
		blk, res := n.MakeProposal(1+r.Intn(3), uint64(100+k))
		if k == 2 { // same block proposer as value 0 gives the same results: pairs that differ in the block only
			res = vals[0].results
		}
		vals = append(vals, &value{blk, res})
	}
	pick := func() *value { return vals[r.Intn(len(vals))] }
	b := n.Reps[0].B
	root := r.Pick(5, 6, 7)
	round := uint64(r.Intn(4))
	phase := lib.Phase(r.Pick(uint64(bft.ProposeVote), uint64(bft.ProposeVote), uint64(bft.PrecommitVote), uint64(bft.CommitProcess), uint64(bft.Precommit), uint64(bft.Pacemaker)))
	n.Reps[0].Ctl.SetRoot(root)
	b.RootHeight, b.Round, b.Phase = root, round, phase
	view := func(rt, rd uint64, ph lib.Phase) *lib.View {
		return &lib.View{NetworkId: bftsim.NetworkID, ChainId: bftsim.ChainID, Height: bftsim.Height, RootHeight: rt, Round: rd, Phase: ph}
	}
	nearRoot := func() uint64 { return r.Pick(root, root, root, root, root, root-1, 5) }
	nearRound := func() uint64 { return r.Pick(round, round, round, round, round, round, round+1, 0, 3) }
	// lock
	var lockVal *value
	if r.Chance(65) {
		lockVal = pick()
		b.HighQC = rc.mkQC(view(r.Pick(root, root, root-1, 5), r.Pick(0, 0, round, 1), bft.ProposeVote), lockVal, 1+r.Intn(3), []int{0, 1, 2, 3}[:3+r.Intn(2)], true)
	}
	// block held (phases after PROPOSE_VOTE hold the voted block; sometimes nothing, sometimes a stale cache)
	var held *value
	if phase != bft.ProposeVote && phase != bft.Pacemaker && r.Chance(85) {
		held = pick()
		b.Block, b.Results = held.block, held.results
		switch r.Intn(4) {
		case 0:
			b.BlockHash = nil
		case 1:
			b.BlockHash = b.BlockToHash(pick().block) // a cache that may belong to another block
		default:
			b.BlockHash = b.BlockToHash(held.block)
		}
		if r.Chance(10) {
			b.Results = nil
		}
	}
	proposer := 1 + r.Intn(3)
	if phase != bft.ProposeVote && r.Chance(85) {
		b.ProposerKey = n.Keys[proposer].Pub
	}
	// the leader message for this phase (and sometimes a second one that replaces it, or one for another round / root height)
	send := func(staleRoot bool) {
		mv := pick()
		if held != nil && r.Chance(85) {
			mv = held
		}
		from := proposer
		if r.Chance(8) {
			from = 1 + r.Intn(3)
		}
		mround := nearRound()
		mroot := root
		if staleRoot {
			mroot = root - 1
		}
		var msg *bft.Message
		switch {
		case phase == bft.ProposeVote:
			q := rc.mkQC(view(mroot, mround, bft.ElectionVote), nil, from, subset(r, 4), false)
			q.Block, q.Results, q.BlockHash, q.ResultsHash = mv.block, mv.results, b.BlockToHash(mv.block), mv.results.Hash()
			msg = &bft.Message{Header: view(mroot, r.Pick(mround, mround, mround, round), bft.Propose), Qc: q, RcBuildHeight: 5}
			if r.Chance(70) {
				hv := mv
				if r.Chance(15) {
					hv = pick()
				}
				msg.HighQc = rc.mkQC(view(nearRoot(), nearRound(), lib.Phase(r.Pick(uint64(bft.ProposeVote), uint64(bft.ProposeVote), uint64(bft.ProposeVote), uint64(bft.PrecommitVote)))), hv, 1+r.Intn(3), subset(r, 4), r.Bool())
			}
		case phase == bft.PrecommitVote || phase == bft.Precommit:
			ph := lib.Phase(r.Pick(uint64(bft.ProposeVote), uint64(bft.ProposeVote), uint64(bft.ProposeVote), uint64(bft.ProposeVote), uint64(bft.ProposeVote), uint64(bft.PrecommitVote)))
			msg = &bft.Message{Header: view(mroot, r.Pick(mround, mround, mround, mround, mround, round), bft.Precommit), Qc: rc.mkQC(view(mroot, mround, ph), mv, from, subset(r, 4), false), RcBuildHeight: 5}
		default:
			ph := lib.Phase(r.Pick(uint64(bft.PrecommitVote), uint64(bft.PrecommitVote), uint64(bft.PrecommitVote), uint64(bft.PrecommitVote), uint64(bft.PrecommitVote), uint64(bft.ProposeVote)))
			msg = &bft.Message{Header: view(mroot, r.Pick(mround, mround, mround, round), bft.Commit), Qc: rc.mkQC(view(mroot, mround, ph), mv, from, subset(r, 4), false)}
		}
		if err := msg.Sign(n.Keys[from].Priv); err != nil {
			panic(err)
		}
		bz, _ := lib.Marshal(msg)
		if staleRoot {
			// the message arrived while the replica was still at the previous root height (before the recorded part of the case);
			// the Pacemaker then moved the replica on without a NEW_COMMITTEE reset: the message is part of the initial state
			b.RootHeight = mroot
			m := new(bft.Message)
			_ = lib.Unmarshal(bz, m)
			_ = b.HandleMessage(m)
			b.RootHeight = root
			return
		}
		rc.deliver(&bftsim.Env{From: from, To: 0, Bytes: bz})
	}
	if phase != bft.Pacemaker && root > 5 && r.Chance(45) {
		send(true)
	}
	init := rc.fullStateLit(0)
	if phase != bft.Pacemaker {
		for k := 0; k < int(r.Pick(0, 1, 1, 1, 2)); k++ {
			send(false)
		}
	}
	// sometimes an ELECTION vote forwarding a lock (with a block attached to the vote itself)
	if r.Chance(25) {
		hv := pick()
		v := view(root, round, bft.ElectionVote)
		msg := &bft.Message{Qc: &lib.QuorumCertificate{Header: v, ProposerKey: n.Keys[1].Pub}, HighQc: rc.mkQC(view(nearRoot(), nearRound(), bft.ProposeVote), hv, 1, subset(r, 4), r.Bool())}
		if r.Bool() {
			ov := pick()
			msg.Qc.Block, msg.Qc.Results = ov.block, ov.results
		}
		_ = msg.Sign(n.Keys[3].Priv)
		bz, _ := lib.Marshal(msg)
		rc.deliver(&bftsim.Env{From: 3, To: 0, Bytes: bz})
	}
	rc.step(0)
	rc.step(0)
	lit = fmt.Sprintf("mkBC %s 0 [%s] %s", sim.CoqNList(powers), init, "["+strings.Join(rc.trace, ";\n  ")+"]")
	meta = map[string]any{"kind": "state-injection", "root": root, "round": round, "phase": phase.String(), "locked": lockVal != nil, "holds_block": held != nil, "actions": len(rc.trace)}
	return
}
