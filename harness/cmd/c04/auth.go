package main

import (
	"context"
	"fmt"
	"strings"

	"github.com/canopy-network/canopy/fsm"
	"github.com/canopy-network/canopy/lib"
	"github.com/canopy-network/canopy/lib/crypto"
	"verifharness/sim"
)

// authMode (property C05): transactions of the modelled kinds from the stateful generator, each submitted as signed by its
// rightful key AND in variants: re-signed by another key of the population (a stranger, or for validator operations the
// operator / the output address / a stranger), the victim's public key with the attacker's signature (forged), content changed
// after signing (fee, memo, creation height), a transfer signed by an ed25519 / secp256k1 / eth-secp256k1 key. Every variant
// goes through the real ApplyTransactions on the real FSM; the harness records which key REALLY signed exactly these bytes
// (0 = none), whether it executed, and the ledger before and after.
// wBA receives the blocks as cases of the two-pass model (BlockAuth.v): per transaction what the first pass must see and what was observed
var wBA *sim.CaseWriter

func baCode(res *lib.ApplyBlockResults, executed map[string]bool, tx []byte) int {
	if executed[string(tx)] {
		return 0
	}
	if strings.Contains(failedOf(res, tx), "invalid signature") {
		return 1
	}
	return 2
}

func authMode(r *sim.Rng, nStates, perState int, cw, cwBlk *sim.CaseWriter) {
	for sI := 0; sI < nStates; sI++ {
		nKeys := 9
		g := genesis(r, 4, nKeys)
		// accounts for the other key types
		ed, _ := crypto.NewEd25519PrivateKey()
		sk, _ := crypto.NewSECP256K1PrivateKey()
		eth, _ := crypto.NewETHSECP256K1PrivateKey()
		others := []crypto.PrivateKeyI{ed, sk, eth}
		for _, k := range others {
			g.Accounts = append(g.Accounts, &fsm.Account{Address: k.PublicKey().Address().Bytes(), Amount: 3_000_000_000})
		}
		ms := newMsAccount([]int{0, 1, 2}, 2)
		g.Accounts = append(g.Accounts, &fsm.Account{Address: ms.addr, Amount: 2_000_000_000})
		// the address the exported constructor NewMultiBLSFromPoints(keys) derives for "the multisig of 0, 1, 2" (threshold 0 = the
		// proto default): funded like any other account
		ms0 := newMsAccountT0([]int{0, 1, 2})
		g.Accounts = append(g.Accounts, &fsm.Account{Address: ms0.addr, Amount: 2_000_000_000})
		att, vic := newEthActor(), newEthActor()
		g.Accounts = append(g.Accounts, &fsm.Account{Address: att.addr, Amount: 3_000_000_000}, &fsm.Account{Address: vic.addr, Amount: 3_000_000_000})
		// fresh keys for the dependent blocks below (an object created and acted upon inside one block)
		for i := 0; i < 4; i++ {
			g.Accounts = append(g.Accounts, &fsm.Account{Address: sim.BLSKey(100 + i).Addr, Amount: 3_000_000_000})
		}
		n, err := sim.NewFNode(g.State(), nil)
		if err != nil {
			panic(err)
		}
		multisigReorderWitness(r, n, ms)
		gen := sim.NewTxGen(r.Fork(), nKeys)
		keyOf := func(i int) crypto.PrivateKeyI { return sim.BLSKey(i).Priv }
		for c := 0; c < perState; c++ {
			n.Enter()
			if c%9 == 8 {
				if out := n.Apply(&sim.BlockSpec{}); out.Err != nil {
					break
				}
			}
			if r.Chance(15) {
				rlpAuthCase(r, n, att, vic, cw)
				continue
			}
			if r.Chance(12) {
				if r.Chance(25) {
					multisigZeroCase(r, n, ms0, cw)
				} else {
					multisigCase(r, n, ms, cw)
				}
				continue
			}
			var base []byte
			if r.Chance(20) {
				k := others[r.Intn(3)]
				base = sim.TxBytes(fsm.NewSendTransaction(k, crypto.NewAddress(sim.BLSKey(r.Intn(nKeys)).Addr), 1000+uint64(c), 1, 1, 10000, n.FSM.Height(), fmt.Sprintf("k%d", c)))
			} else {
				base, _ = gen.Next(n.FSM)
			}
			tx := new(lib.Transaction)
			if len(base) == 0 || lib.Unmarshal(base, tx) != nil || tx.Signature == nil {
				continue
			}
			rightful := addrOfPub(tx.Signature.PublicKey)
			variant, realSigner, how := base, rightful, "rightful"
			resign := func(k crypto.PrivateKeyI) {
				t2 := new(lib.Transaction)
				_ = lib.Unmarshal(base, t2)
				t2.Signature = nil
				_ = t2.Sign(k)
				variant, _ = lib.Marshal(t2)
				realSigner = k.PublicKey().Address().Bytes()
			}
			switch r.Intn(8) {
			case 0, 1:
				resign(keyOf(r.Intn(nKeys)))
				how = "re-signed-by-another-key"
			case 2:
				// the victim's public key, the attacker's signature
				t2 := new(lib.Transaction)
				_ = lib.Unmarshal(base, t2)
				att := keyOf(r.Intn(nKeys))
				sb, _ := t2.GetSignBytes()
				t2.Signature = &lib.Signature{PublicKey: tx.Signature.PublicKey, Signature: att.Sign(sb)}
				variant, _ = lib.Marshal(t2)
				realSigner, how = nil, "forged-signature"
				if bytesEq(att.PublicKey().Bytes(), tx.Signature.PublicKey) {
					realSigner, how = rightful, "rightful"
				}
			case 3:
				// content changed after signing
				t2 := new(lib.Transaction)
				_ = lib.Unmarshal(base, t2)
				switch r.Intn(3) {
				case 0:
					t2.Fee++
				case 1:
					t2.Memo += "x"
				default:
					t2.CreatedHeight++
				}
				variant, _ = lib.Marshal(t2)
				realSigner, how = nil, "tampered-after-signing"
			case 4:
				// validator operations: the output address signs (authorized), when the generator produced one
				if v, e := n.FSM.GetValidator(crypto.NewAddress(rightful)); e == nil && v != nil && len(v.Output) != 0 {
					for i := 0; i < nKeys; i++ {
						if bytesEq(sim.BLSKey(i).Addr, v.Output) {
							resign(keyOf(i))
							how = "re-signed-by-output-address"
						}
					}
				}
			}
			curFSM = n.FSM
			pre, e := sim.ScanState(n.FSM)
			if e != nil {
				panic(e)
			}
			// the message as the FSM resolves it when CheckTx passes; otherwise as it is on the wire
			var msg lib.MessageI
			var fee uint64
			if m, _, f, cerr := n.FSM.VerifCheckTx(variant); cerr == nil {
				msg, fee = m, f
			} else {
				t3 := new(lib.Transaction)
				if lib.Unmarshal(variant, t3) != nil || t3.Msg == nil {
					continue
				}
				pm, perr := lib.FromAny(t3.Msg)
				if perr != nil {
					continue
				}
				mi, ok := pm.(lib.MessageI)
				if !ok {
					continue
				}
				// the signer field is populated from the verified signer: here there is none the FSM accepted; use the claimed key
				switch x := mi.(type) {
				case *fsm.MessageStake:
					x.Signer = addrOfPub(t3.Signature.PublicKey)
				case *fsm.MessageEditStake:
					x.Signer = addrOfPub(t3.Signature.PublicKey)
				}
				msg, fee = mi, t3.Fee
			}
			lit, kind, ok := msgLit(msg, realSigner)
			if !ok {
				st.Skipped[kind]++
				continue
			}
			res := new(lib.ApplyBlockResults)
			if aerr := n.FSM.ApplyTransactions(context.Background(), [][]byte{variant}, res, false); aerr != nil {
				// a block made of this single transaction is refused as a whole: nothing executed
				n.FSM.Reset()
			}
			executed := len(res.Results) == 1
			post, e := sim.ScanState(n.FSM)
			if e != nil {
				panic(e)
			}
			signerLit := "0%N"
			if realSigner != nil {
				signerLit = sim.AddrN(realSigner)
			}
			cw.Add(fmt.Sprintf("mkAuth %s %s %s %s %s %s", pre.Lit(), signerLit, sim.CoqN(fee), lit, sim.CoqBool(executed), post.Lit()),
				map[string]any{"kind": kind, "variant": how, "executed": executed})
			st.Cases++
			st.Distinct++
			st.TxCases["auth:"+how]++
			st.TxOutcome[fmt.Sprintf("auth:%s:executed=%v", how, executed)]++
		}
		// blocks of transfers: [validly signed but unauthorized, forged signature, honest, ...] in random order and number
		for b := 0; b < 3; b++ {
			n.Enter()
			n.FSM.Reset() // both presentations of a block start from the committed state (the single-transaction cases above leave theirs applied)
			h := n.FSM.Height()
			var txs [][]byte
			var lits, classes []string
			sendFee := uint64(10000)
			if fp, e := n.FSM.GetParamsFee(); e == nil && fp != nil {
				sendFee = fp.SendFee // governance may have changed it in this state's history
			}
			// senders: the BLS keys and the accounts under the other signature schemes (ed25519, secp256k1, eth)
			pool := make([]crypto.PrivateKeyI, 0, nKeys+3)
			for i := 0; i < nKeys; i++ {
				pool = append(pool, keyOf(i))
			}
			pool = append(pool, others...)
			keyOf := func(i int) crypto.PrivateKeyI { return pool[i] }
			addrOf := func(i int) []byte { return pool[i].PublicKey().Address().Bytes() }
			nKeys := len(pool)
			for k := 0; k < 3+r.Intn(4); k++ {
				from, att := r.Intn(nKeys), r.Intn(nKeys)
				to := crypto.NewAddress(sim.BLSKey(r.Intn(9)).Addr)
				t2 := &lib.Transaction{MessageType: fsm.MessageSendName, CreatedHeight: h, Time: uint64(1000*b + k + 1), Fee: sendFee, NetworkId: 1, ChainId: 1, Memo: fmt.Sprintf("b%d-%d", b, k)}
				t2.Msg, _ = lib.NewAny(&fsm.MessageSend{FromAddress: addrOf(from), ToAddress: to.Bytes(), Amount: 1 + uint64(k)})
				signer := uint64(0)
				switch r.Intn(4) {
				case 0: // honest
					_ = t2.Sign(keyOf(from))
					signer = 1
				case 1: // validly signed by someone else: unauthorized
					_ = t2.Sign(keyOf(att))
					if att == from {
						signer = 1
					} else {
						signer = 2
					}
				default: // the owner's key, somebody else's signature
					sb, _ := t2.GetSignBytes()
					t2.Signature = &lib.Signature{PublicKey: pool[from].PublicKey().Bytes(), Signature: keyOf((from + 1) % nKeys).Sign(sb)}
				}
				bz, _ := lib.Marshal(t2)
				txs = append(txs, bz)
				// what the first pass must see: honest = CheckTx passes, one good job; validly signed by another key = the job is
				// submitted (and verifies) before the signer is compared with the authorized signers, CheckTx fails; the owner's
				// key over somebody else's signature = CheckTx passes, the job does not verify
				switch signer {
				case 1:
					classes = append(classes, "(true, [true])")
				case 2:
					classes = append(classes, "(false, [true])")
				default:
					classes = append(classes, "(true, [false])")
				}
				signerLit, fromLit := "0%N", sim.AddrN(addrOf(from))
				switch signer {
				case 1:
					signerLit = fromLit
				case 2:
					signerLit = sim.AddrN(addrOf(att))
				}
				lits = append(lits, signerLit+", "+fromLit)
			}
			res := new(lib.ApplyBlockResults)
			aerr := n.FSM.ApplyTransactions(context.Background(), txs, res, true) // the proposer path keeps going after failures
			executed := map[string]bool{}
			if aerr == nil {
				for _, t := range res.Txs {
					executed[string(t)] = true
				}
			}
			var items []string
			for i, l := range lits {
				items = append(items, fmt.Sprintf("(%s, %s)", l, sim.CoqBool(executed[string(txs[i])])))
			}
			if wBA != nil && aerr == nil {
				var es []string
				for i := range txs {
					es = append(es, fmt.Sprintf("(%s, %d%%N)", classes[i], baCode(res, executed, txs[i])))
				}
				wBA.Add("mkBAC "+sim.CoqList(es), map[string]any{"txs": len(txs), "kind": "transfers"})
			}
			n.FSM.Reset()
			// the same block presented again (a proposal re-validated in a later round, a mempool re-check): what was refused the first
			// time must be refused again - a refusal must not be remembered as an acceptance by any verification cache
			res2 := new(lib.ApplyBlockResults)
			if aerr2 := n.FSM.ApplyTransactions(context.Background(), txs, res2, true); aerr2 == nil && aerr == nil {
				again := map[string]bool{}
				for _, t := range res2.Txs {
					again[string(t)] = true
				}
				for i := range txs {
					if again[string(txs[i])] != executed[string(txs[i])] {
						sim.Direct(outDirG, map[string]any{"finding": "second-presentation-differs", "kind": "a transaction refused in a block is executed when the same block is presented again (or the other way round)",
							"index": i, "first": executed[string(txs[i])], "second": again[string(txs[i])], "signer_and_sender": lits[i],
							"failed_first": failedOf(res, txs[i]), "failed_second": failedOf(res2, txs[i]), "block": hexAll(txs)})
					}
				}
			}
			n.FSM.Reset()
			cwBlk.Add("mkABlk "+sim.CoqList(items), map[string]any{"txs": len(txs), "executed": len(executed)})
			st.Cases++
			st.Distinct++
			st.TxCases["auth:block"]++
		}
		dependentBlocks(r, n, sI, cwBlk)
		n.Close()
	}
}

// dependentBlocks (property C05): blocks in which an object is CREATED by a rightfully signed transaction and acted upon by a
// later transaction of the same block that declares the owner's public key but carries somebody else's signature (a forged
// edit-stake / unstake / pause behind the stake that creates the validator; a forged edit-order / delete-order behind the
// create-order). Before the creating transaction has run the forged one cannot even resolve its authorized signers; once it has,
// only the signature check stands between the forger and the owner's validator / order.  Judged by the same predicate as the
// transfer blocks (executed => really signed by the authorized key) and presented twice.
func dependentBlocks(r *sim.Rng, n *sim.FNode, sI int, cwBlk *sim.CaseWriter) {
	for b := 0; b < 4; b++ {
		n.Enter()
		n.FSM.Reset()
		h := n.FSM.Height()
		owner, forger := sim.BLSKey(100+b), sim.BLSKey(r.Intn(9))
		ownerAddr := crypto.NewAddress(owner.Addr)
		forge := func(txi lib.TransactionI, e lib.ErrorI) []byte {
			if e != nil {
				return nil
			}
			t := txi.(*lib.Transaction)
			sb, _ := t.GetSignBytes()
			t.Signature = &lib.Signature{PublicKey: owner.Pub, Signature: forger.Priv.Sign(sb)}
			bz, _ := lib.Marshal(t)
			return bz
		}
		var txs [][]byte
		var lits, classes []string
		add := func(bz []byte, honest bool) {
			if bz == nil {
				return
			}
			txs = append(txs, bz)
			if honest {
				lits = append(lits, sim.AddrN(owner.Addr)+", "+sim.AddrN(owner.Addr))
				classes = append(classes, "(true, [true])")
			} else {
				lits = append(lits, "0%N, "+sim.AddrN(owner.Addr))
				// on the state at the start of the block the object does not exist: CheckTx fails before any signature is looked at
				classes = append(classes, "(false, [])")
			}
		}
		kind := "stake"
		if b%2 == 0 {
			memo := fmt.Sprintf("dep%d-%d", sI, b)
			add(sim.TxBytes(fsm.NewStakeTx(owner.Priv, owner.Pub, ownerAddr, "tcp://fresh", []uint64{1}, 1000, 1, 1, 10000, h, r.Bool(), false, memo)), true)
			switch r.Intn(3) {
			case 0:
				add(forge(fsm.NewEditStakeTx(owner.Priv, ownerAddr, crypto.NewAddress(forger.Addr), "tcp://fresh", []uint64{1}, 1777, 1, 1, 10000, h, false, memo+"e")), false)
			case 1:
				add(forge(fsm.NewUnstakeTx(owner.Priv, ownerAddr, 1, 1, 10000, h, memo+"u")), false)
			default:
				add(forge(fsm.NewPauseTx(owner.Priv, ownerAddr, 1, 1, 10000, h, memo+"p")), false)
			}
		} else {
			kind = "order"
			memo := fmt.Sprintf("dep%d-%d", sI, b)
			ctx, e := fsm.NewCreateOrderTx(owner.Priv, 1_000_000_000, 100, 1, nil, owner.Addr, 1, 1, 10000, h, memo)
			if e != nil {
				continue
			}
			hash, _ := ctx.(*lib.Transaction).GetHash()
			id := sim.Hex(hash[:20])
			add(sim.TxBytes(ctx, e), true)
			if r.Bool() {
				add(forge(fsm.NewEditOrderTx(owner.Priv, id, 1_000_000_000, 1, 1, nil, forger.Addr, 1, 1, 10000, h, memo+"e")), false)
			} else {
				add(forge(fsm.NewDeleteOrderTx(owner.Priv, id, 1, 1, 1, 10000, h, memo+"d")), false)
			}
		}
		if len(txs) < 2 {
			continue
		}
		var first map[string]bool
		for pres := 0; pres < 2; pres++ {
			res := new(lib.ApplyBlockResults)
			aerr := n.FSM.ApplyTransactions(context.Background(), txs, res, true)
			executed := map[string]bool{}
			if aerr == nil {
				for _, t := range res.Txs {
					executed[string(t)] = true
				}
			}
			if pres == 0 && wBA != nil && aerr == nil {
				var es []string
				for i := range txs {
					es = append(es, fmt.Sprintf("(%s, %d%%N)", classes[i], baCode(res, executed, txs[i])))
				}
				wBA.Add("mkBAC "+sim.CoqList(es), map[string]any{"txs": len(txs), "kind": "dependent-" + kind})
			}
			n.FSM.Reset()
			if pres == 0 {
				first = executed
				var items []string
				for i, l := range lits {
					items = append(items, fmt.Sprintf("(%s, %s)", l, sim.CoqBool(executed[string(txs[i])])))
				}
				cwBlk.Add("mkABlk "+sim.CoqList(items), map[string]any{"txs": len(txs), "executed": len(executed), "kind": "dependent-" + kind, "block": hexAll(txs)})
				st.Cases++
				st.Distinct++
				st.TxCases["auth:dependent-block-"+kind]++
				st.TxOutcome[fmt.Sprintf("auth:dependent-block-%s:creator-executed=%v", kind, executed[string(txs[0])])]++
			} else {
				for i := range txs {
					if executed[string(txs[i])] != first[string(txs[i])] {
						sim.Direct(outDirG, map[string]any{"finding": "second-presentation-differs", "kind": "a transaction refused in a dependent block is executed when the same block is presented again (or the other way round)",
							"index": i, "block": hexAll(txs)})
					}
				}
			}
		}
	}
}

func bytesEq(a, b []byte) bool { return string(a) == string(b) }

func failedOf(res *lib.ApplyBlockResults, tx []byte) string {
	h := crypto.HashString(tx)
	for _, f := range res.Failed {
		if f.Hash == h && f.Error != nil {
			return f.Error.Error()
		}
	}
	return ""
}

func hexAll(txs [][]byte) []string {
	out := make([]string, len(txs))
	for i, t := range txs {
		out[i] = sim.Hex(t)
	}
	return out
}
