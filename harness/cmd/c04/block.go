package main

import (
	"fmt"
	"strings"

	"github.com/canopy-network/canopy/fsm"
	"github.com/canopy-network/canopy/lib"
	"verifharness/sim"
)

var wReward, wMint *sim.CaseWriter

// rewardCase: the real DistributeCommitteeRewards on the current state for one committee whose reward pool has just been
// funded: recipients are validators of every kind (compounding, not compounding, unstaking, paused, delegates), plain accounts
// and addresses that do not exist yet; 1-3 samples; percents adding up to at most 100 per sample (sometimes exactly, sometimes
// all to one recipient, sometimes 0). model/LedgerBlock.v distributes on the scanned state.
func rewardCase(r *sim.Rng, n *sim.FNode) {
	chain := r.Pick(1, 1, 2, 3)
	if e := n.FSM.MintToPool(chain, r.Pick(0, 1, 7, 99, 1000, 54321, 99999, 1_000_000_007)); e != nil {
		return
	}
	var cands [][]byte
	vals, _ := n.FSM.GetValidators()
	for _, v := range vals {
		cands = append(cands, v.Address)
	}
	for i := 0; i < 9; i++ {
		cands = append(cands, sim.BLSKey(i).Addr)
	}
	cands = append(cands, sim.BLSKey(40+r.Intn(5)).Addr) // no account yet
	samples := 1 + uint64(r.Intn(3))
	budget := 100 * samples
	if r.Chance(50) {
		budget = uint64(r.Intn(int(budget) + 1))
	}
	var stubs []*lib.PaymentPercents
	used := map[string]bool{}
	for k := 0; k < r.Intn(6); k++ {
		a := cands[r.Intn(len(cands))]
		if used[string(a)] {
			continue
		}
		used[string(a)] = true
		p := uint64(r.Intn(int(budget) + 1))
		if r.Chance(25) {
			p = budget
		}
		budget -= p
		stubs = append(stubs, &lib.PaymentPercents{Address: a, Percent: p, ChainId: chain})
	}
	// the committee data: only this committee carries payment percents
	list, e := n.FSM.GetCommitteesData()
	if e != nil {
		panic(e)
	}
	found := false
	for _, d := range list.List {
		d.PaymentPercents, d.NumberOfSamples = nil, 0
		if d.ChainId == chain {
			d.PaymentPercents, d.NumberOfSamples, found = stubs, samples, true
		}
	}
	if !found {
		list.List = append(list.List, &lib.CommitteeData{ChainId: chain, PaymentPercents: stubs, NumberOfSamples: samples})
	}
	if e = n.FSM.SetCommitteesData(list); e != nil {
		panic(e)
	}
	pv, e := n.FSM.GetParamsVal()
	if e != nil {
		panic(e)
	}
	pre, e := sim.ScanState(n.FSM)
	if e != nil {
		panic(e)
	}
	err := n.FSM.DistributeCommitteeRewards()
	post, e := sim.ScanState(n.FSM)
	if e != nil {
		panic(e)
	}
	var sl []string
	kinds := map[string]int{}
	for _, s := range stubs {
		sl = append(sl, fmt.Sprintf("(%s, %s)", sim.AddrN(s.Address), sim.CoqN(s.Percent)))
		kind := "account"
		for _, v := range vals {
			if string(v.Address) == string(s.Address) {
				kind = fmt.Sprintf("validator(compound=%v,unstaking=%v,delegate=%v)", v.Compound, v.UnstakingHeight != 0, v.Delegate)
			}
		}
		kinds[kind]++
	}
	lit := fmt.Sprintf("mkRw %s %s [%s] %s %s %s %s", pre.Lit(), sim.CoqN(chain), strings.Join(sl, "; "), sim.CoqN(samples), sim.CoqN(pv.EarlyWithdrawalPenalty), sim.CoqBool(err == nil), post.Lit())
	wReward.Add(lit, map[string]any{"kind": "reward-distribution", "chain": chain, "samples": samples, "stubs": len(stubs), "recipients": kinds, "ok": err == nil})
	st.Cases++
	st.Distinct++
	st.TxCases["reward-distribution"]++
	for k, v := range kinds {
		st.TxOutcome["reward-to-"+k] += v
	}
}

// mintCase: the real FundCommitteeRewardPools (BeginBlock) on the current state, at the current or a far later height (halvenings)
func mintCase(r *sim.Rng, n *sim.FNode) {
	h0 := n.FSM.Height()
	if r.Chance(40) && n.Config.BlocksPerHalvening > 0 {
		n.FSM.VerifSetHeight(h0 + n.Config.BlocksPerHalvening*r.Pick(1, 2, 5, 40, 70))
	}
	defer n.FSM.VerifSetHeight(h0)
	gov, e := n.FSM.GetParamsGov()
	if e != nil {
		return
	}
	chains, e := n.FSM.GetSubsidizedCommittees()
	if e != nil {
		return
	}
	var total uint64
	if hv := n.FSM.Height() / n.Config.BlocksPerHalvening; hv < 64 {
		total = n.Config.InitialTokensPerBlock >> hv
	}
	pre, e := sim.ScanState(n.FSM)
	if e != nil {
		panic(e)
	}
	err := n.FSM.FundCommitteeRewardPools()
	post, e := sim.ScanState(n.FSM)
	if e != nil {
		panic(e)
	}
	lit := fmt.Sprintf("mkMint %s %s %s %s %s %s", pre.Lit(), sim.CoqN(total), sim.CoqN(gov.DaoRewardPercentage), sim.CoqNList(chains), sim.CoqBool(err == nil), post.Lit())
	wMint.Add(lit, map[string]any{"kind": "scheduled-mint", "total": total, "dao_pct": gov.DaoRewardPercentage, "subsidized": len(chains), "ok": err == nil})
	st.Cases++
	st.Distinct++
	st.TxCases["scheduled-mint"]++
	st.TxOutcome[fmt.Sprintf("mint-subsidized-committees=%d", len(chains))]++
}

var _ = fsm.MessageSendName
