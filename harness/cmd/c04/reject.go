package main

import (
	"bytes"
	"context"
	"fmt"

	"github.com/canopy-network/canopy/lib"
	"verifharness/sim"
)

// rejectMode (property C07, second sentence): a proposal or peer block that is rejected leaves the node's committed and working
// state unchanged. Twin nodes run the same chain. Every few blocks node A alone fully executes another block X (ApplyBlock up to the
// computed header: state root, hashes) and then drops it the way the controller does on every rejection (FSM.Reset, no commit),
// once or twice in a row. The state scan before X and after the reset must be equal (fail_case: no trace), and the next common
// block Y must give the same header - state root included - on both nodes, and the same state afterwards.
func rejectMode(r *sim.Rng, nChains, nBlocks int, outDir string) {
	for c := 0; c < nChains; c++ {
		nKeys, nv := 10, 5
		g := genesis(r, nv, nKeys).State()
		a, err := sim.NewFNode(g, nil)
		if err != nil {
			panic(err)
		}
		b, err := sim.NewFNode(g, nil)
		if err != nil {
			panic(err)
		}
		gen := sim.NewTxGen(r.Fork(), nKeys)
		gen.Stable = 2
		other := sim.NewTxGen(r.Fork(), nKeys)
		other.Stable = 2
		for blk := 0; blk < nBlocks; blk++ {
			a.Enter()
			h := a.FSM.Height()
			if r.Chance(45) {
				// the rejected block(s), on A only
				for rep := 0; rep < 1+r.Intn(2); rep++ {
					a.Enter()
					pre, e := sim.ScanState(a.FSM)
					if e != nil {
						panic(e)
					}
					paramsBefore := sim.ParamsView(a.FSM)
					var txs [][]byte
					for i := 0; i < 1+r.Intn(5); i++ {
						tx, _ := other.Next(a.FSM)
						txs = append(txs, tx)
					}
					hdr := &lib.BlockHeader{Time: a.Time + 500, ProposerAddress: sim.BLSKey(r.Intn(nv)).Addr}
					if h > 1 {
						lastQC, e := a.FSM.LoadCertificateHashesOnly(h - 1)
						if e != nil {
							panic(e)
						}
						hdr.LastQuorumCertificate = lastQC
					}
					a.FSM.Reset()
					header, _, aerr := a.FSM.ApplyBlock(context.Background(), &lib.Block{BlockHeader: hdr, Transactions: txs}, true)
					executed := aerr == nil && header != nil && len(header.StateRoot) != 0
					a.FSM.Reset() // the rejection
					if after := sim.ParamsView(a.FSM); after != paramsBefore {
						sim.Direct(outDir, map[string]any{"finding": "rejected-block-left-trace", "kind": "the parameters reported by the state machine differ after a rejected block",
							"height": h, "params_before": paramsBefore, "params_after": after})
					}
					post, e := sim.ScanState(a.FSM)
					if e != nil {
						panic(e)
					}
					wFail.Add(fmt.Sprintf("mkFail %s %s", pre.Lit(), post.Lit()), map[string]any{"kind": "rejected-block", "height": h, "txs": len(txs), "fully_executed": executed})
					st.Cases++
					st.Distinct++
					st.TxOutcome[fmt.Sprintf("rejected-block:fully-executed=%v", executed)]++
				}
			}
			// the common block
			spec := &sim.BlockSpec{Proposer: sim.BLSKey(r.Intn(nv)).Addr}
			for i := 0; i < r.Intn(6); i++ {
				tx, _ := gen.Next(a.FSM)
				spec.Txs = append(spec.Txs, tx)
			}
			oa := a.Apply(spec)
			ob := b.Apply(spec)
			if (oa.Err == nil) != (ob.Err == nil) {
				sim.Direct(outDir, map[string]any{"finding": "rejected-block-left-trace", "kind": "after a rejected block the next block is produced on one twin and fails on the other", "height": h,
					"error_a": fmt.Sprint(oa.Err), "error_b": fmt.Sprint(ob.Err)})
				break
			}
			if oa.Err != nil {
				break
			}
			if !bytes.Equal(oa.Header.StateRoot, ob.Header.StateRoot) || !bytes.Equal(oa.Header.Hash, ob.Header.Hash) {
				sim.Direct(outDir, map[string]any{"finding": "rejected-block-left-trace", "kind": "the block after a rejected block has another header on the node that saw the rejected block",
					"height": h, "state_root_a": fmt.Sprintf("%x", oa.Header.StateRoot), "state_root_b": fmt.Sprintf("%x", ob.Header.StateRoot)})
				break
			}
			a.Enter()
			sa, e := sim.ScanState(a.FSM)
			if e != nil {
				panic(e)
			}
			b.Enter()
			sb, e := sim.ScanState(b.FSM)
			if e != nil {
				panic(e)
			}
			if sa.Lit() != sb.Lit() {
				sim.Direct(outDir, map[string]any{"finding": "rejected-block-left-trace", "kind": "state differs between the twins after the block that followed a rejected block", "height": h})
				break
			}
			st.TxOutcome["twin-block-equal"]++
		}
		a.Close()
		b.Close()
	}
}
