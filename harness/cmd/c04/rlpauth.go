package main

import (
	"context"
	"crypto/ecdsa"
	"encoding/hex"
	"fmt"
	"math/big"

	"github.com/canopy-network/canopy/fsm"
	"github.com/canopy-network/canopy/lib"
	"github.com/canopy-network/canopy/lib/crypto"
	"github.com/ethereum/go-ethereum/common"
	ethTypes "github.com/ethereum/go-ethereum/core/types"
	ethCrypto "github.com/ethereum/go-ethereum/crypto"
	"verifharness/sim"
)

// Authorization of Ethereum-wrapped transactions (memo RLP.V2). On this path the only signature check is VerifyRLPBytes: the
// wrapper must be the conversion of the signed Ethereum transaction, which also fixes the public key the signer address is taken
// from. Variants: a pseudo-contract call (subsidy, proto payload naming the paying address) signed by the payer itself (rightful);
// signed by another key and naming the victim (unauthorized); the same with the VICTIM's public key declared in the wrapper (the
// attacker's Ethereum signature, the victim's identity); a plain value transfer (the sender is the recovered key).
type ethActor struct {
	key  *ecdsa.PrivateKey
	pub  []byte // 64-byte public key as Canopy carries it
	addr []byte
}

func newEthActor() *ethActor {
	k, err := ethCrypto.GenerateKey()
	if err != nil {
		panic(err)
	}
	pub := ethCrypto.FromECDSAPub(&k.PublicKey)[1:]
	pk, e := crypto.NewPublicKeyFromBytes(pub)
	if e != nil {
		panic(e)
	}
	return &ethActor{key: k, pub: pk.Bytes(), addr: pk.Address().Bytes()}
}

func rlpAuthCase(r *sim.Rng, n *sim.FNode, att, vic *ethActor, cw *sim.CaseWriter) {
	n.Enter()
	evmChainID, ok := fsm.CanopyIdsToEVMChainIdV2(n.Config.ChainId, uint64(n.Config.NetworkID))
	if !ok {
		return
	}
	cid := new(big.Int).SetUint64(evmChainID)
	floor := func(a *ethActor) uint64 {
		acc, e := n.FSM.GetAccount(crypto.NewAddress(a.addr))
		if e != nil {
			panic(e)
		}
		return acc.Nonce
	}
	sign := func(k *ethActor, nonce uint64, to common.Address, value uint64, data []byte) []byte {
		price := new(big.Int).SetUint64(1_000_000_000_000)
		tx := ethTypes.MustSignNewTx(k.key, ethTypes.LatestSignerForChainID(cid), &ethTypes.DynamicFeeTx{
			ChainID: cid, Nonce: nonce, GasTipCap: price, GasFeeCap: price, Gas: 30000 + uint64(r.Intn(9)), To: &to,
			Value: new(big.Int).Mul(new(big.Int).SetUint64(value), big.NewInt(1_000_000_000_000)), Data: data,
		})
		bz, e := tx.MarshalBinary()
		if e != nil {
			panic(e)
		}
		return bz
	}
	subsidy := func(payer []byte) []byte {
		sel, _ := hex.DecodeString(fsm.SubsidySelector)
		bz, e := lib.Marshal(&fsm.MessageSubsidy{Address: payer, ChainId: n.Config.ChainId, Amount: 1000 + uint64(r.Intn(5000))})
		if e != nil {
			panic(e)
		}
		return append(sel, bz...)
	}
	contract := common.HexToAddress(fsm.CNPYContractAddress)
	var raw []byte
	signer, how := att, ""
	declare := []byte(nil)
	switch r.Intn(5) {
	case 0:
		how = "rlp-rightful-contract-call"
		raw = sign(att, floor(att), contract, 0, subsidy(att.addr))
	case 1:
		how = "rlp-payload-names-victim"
		raw = sign(att, floor(att), contract, 0, subsidy(vic.addr))
	case 2, 3:
		how = "rlp-payload-names-victim-and-wrapper-declares-victims-key"
		raw = sign(att, floor(vic), contract, 0, subsidy(vic.addr))
		declare = vic.pub
	default:
		how = "rlp-plain-transfer"
		signer = vic
		raw = sign(vic, floor(vic), common.BytesToAddress(sim.BLSKey(1).Addr), 1+uint64(r.Intn(500)), nil)
	}
	t, e := fsm.RLPToCanopyTransactionV2(raw)
	if e != nil {
		st.Skipped["rlp-conversion-failed"]++
		return
	}
	if declare != nil {
		t.Signature.PublicKey = declare
	}
	variant, e := lib.Marshal(t)
	if e != nil {
		panic(e)
	}
	pm, perr := lib.FromAny(t.Msg)
	if perr != nil {
		return
	}
	msg, isMsg := pm.(lib.MessageI)
	if !isMsg {
		return
	}
	lit, kind, okLit := msgLit(msg, signer.addr)
	if !okLit {
		st.Skipped[kind]++
		return
	}
	curFSM = n.FSM
	pre, e := sim.ScanState(n.FSM)
	if e != nil {
		panic(e)
	}
	res := new(lib.ApplyBlockResults)
	if aerr := n.FSM.ApplyTransactions(context.Background(), [][]byte{variant}, res, false); aerr != nil {
		n.FSM.Reset()
	}
	executed := len(res.Results) == 1
	post, e := sim.ScanState(n.FSM)
	if e != nil {
		panic(e)
	}
	cw.Add(fmt.Sprintf("mkAuth %s %s %s %s %s %s", pre.Lit(), sim.AddrN(signer.addr), sim.CoqN(t.Fee), lit, sim.CoqBool(executed), post.Lit()),
		map[string]any{"kind": kind, "variant": how, "executed": executed})
	st.Cases++
	st.Distinct++
	st.TxCases["auth:"+how]++
	st.TxOutcome[fmt.Sprintf("auth:%s:executed=%v", how, executed)]++
}
