package main

import (
	"context"
	"fmt"

	"github.com/canopy-network/canopy/fsm"
	"github.com/canopy-network/canopy/lib"
	"github.com/canopy-network/canopy/lib/crypto"
	"github.com/drand/kyber"
	"verifharness/sim"
)

// Authorization by a BLS multi-signature account key (k-of-n): the transfer out of the account executes only when at least k of the
// n members signed. Variants: threshold met (any k or more members); below the threshold; the SAME below-threshold bytes presented a
// second and third time (verification caches must not turn a rejection into an acceptance); the threshold lowered inside the
// presented key (another address: not this account); a bitmap naming more members than actually signed.
type msAccount struct {
	members   []int // BLS key indices
	threshold uint32
	addr      []byte
}

func newMsAccount(members []int, threshold uint32) *msAccount {
	mk, err := msKey(members, threshold)
	if err != nil {
		panic(err)
	}
	return &msAccount{members: members, threshold: threshold, addr: mk.Address().Bytes()}
}

func msKey(members []int, threshold uint32) (crypto.MultiPublicKeyI, error) {
	var points []kyber.Point
	for _, i := range members {
		p, err := crypto.BytesToBLS12381Point(sim.BLSKey(i).Pub)
		if err != nil {
			return nil, err
		}
		points = append(points, p)
	}
	return crypto.NewAccountAuthMultiBLSFromPoints(points, nil, threshold)
}

func multisigCase(r *sim.Rng, n *sim.FNode, acc *msAccount, cw *sim.CaseWriter) {
	n.Enter()
	msg := &fsm.MessageSend{FromAddress: acc.addr, ToAddress: sim.BLSKey(7).Addr, Amount: 100 + uint64(r.Intn(900))}
	a, e := lib.NewAny(msg)
	if e != nil {
		panic(e)
	}
	tx := &lib.Transaction{MessageType: fsm.MessageSendName, Msg: a, CreatedHeight: n.FSM.Height(), Time: uint64(1_700_000_000_000_000 + r.Intn(1_000_000_000)), Fee: 10000,
		NetworkId: uint64(n.Config.NetworkID), ChainId: n.Config.ChainId}
	sb, e := tx.GetSignBytes()
	if e != nil {
		panic(e)
	}
	how := []string{"multisig-threshold-met", "multisig-threshold-met", "multisig-below-threshold", "multisig-below-threshold-presented-again", "multisig-below-threshold-presented-again",
		"multisig-threshold-lowered-in-key", "multisig-bitmap-names-non-signer"}[r.Intn(7)]
	mk, _ := msKey(acc.members, acc.threshold)
	perm := []int{0, 1, 2}
	for i := 2; i > 0; i-- {
		j := r.Intn(i + 1)
		perm[i], perm[j] = perm[j], perm[i]
	}
	signers := perm[:int(acc.threshold)+r.Intn(len(acc.members)-int(acc.threshold)+1)]
	rightful := true
	switch how {
	case "multisig-below-threshold", "multisig-below-threshold-presented-again":
		signers, rightful = perm[:int(acc.threshold)-1], false
	case "multisig-threshold-lowered-in-key":
		mk, _ = msKey(acc.members, acc.threshold-1)
		signers, rightful = perm[:int(acc.threshold)-1], false
	}
	for _, s := range signers {
		if err := mk.AddSigner(sim.BLSKey(acc.members[s]).Priv.Sign(sb), s); err != nil {
			panic(err)
		}
	}
	agg, err := mk.AggregateSignatures()
	if err != nil {
		return
	}
	if how == "multisig-bitmap-names-non-signer" {
		// the aggregate of the real signers, under a bitmap that also names the member who did not sign
		if len(signers) == len(acc.members) {
			how = "multisig-threshold-met"
		} else {
			full, _ := msKey(acc.members, acc.threshold)
			for s := range acc.members {
				_ = full.AddSigner(sim.BLSKey(acc.members[0]).Priv.Sign(sb), s) // placeholders: only the bitmap is used
			}
			_ = mk.SetBitmap(full.Bitmap())
			rightful = false
		}
	}
	tx.Signature = &lib.Signature{PublicKey: mk.Bytes(), Signature: agg}
	variant, e := lib.Marshal(tx)
	if e != nil {
		panic(e)
	}
	presentations := 1
	if how == "multisig-below-threshold-presented-again" {
		presentations = 3
	}
	for p := 0; p < presentations; p++ {
		curFSM = n.FSM
		pre, e := sim.ScanState(n.FSM)
		if e != nil {
			panic(e)
		}
		if p == 1 {
			// between two presentations the mempool path also sees the bytes
			_, _, _, _ = n.FSM.VerifCheckTx(variant)
		}
		res := new(lib.ApplyBlockResults)
		if aerr := n.FSM.ApplyTransactions(context.Background(), [][]byte{variant}, res, false); aerr != nil {
			n.FSM.Reset()
		}
		executed := len(res.Results) == 1
		post, e := sim.ScanState(n.FSM)
		if e != nil {
			panic(e)
		}
		lit, kind, ok := msgLit(msg, acc.addr)
		if !ok {
			st.Skipped[kind]++
			return
		}
		signerLit := "0%N"
		if rightful {
			signerLit = sim.AddrN(acc.addr)
		}
		cw.Add(fmt.Sprintf("mkAuth %s %s %s %s %s %s", pre.Lit(), signerLit, sim.CoqN(tx.Fee), lit, sim.CoqBool(executed), post.Lit()),
			map[string]any{"kind": kind, "variant": how, "presentation": p + 1, "signers": len(signers), "threshold": acc.threshold, "executed": executed})
		st.Cases++
		st.Distinct++
		st.TxCases["auth:"+how]++
		st.TxOutcome[fmt.Sprintf("auth:%s:executed=%v", how, executed)]++
	}
}

func msKeyT0(members []int) crypto.MultiPublicKeyI {
	var points []kyber.Point
	for _, i := range members {
		p, err := crypto.BytesToBLS12381Point(sim.BLSKey(i).Pub)
		if err != nil {
			panic(err)
		}
		points = append(points, p)
	}
	mk, err := crypto.NewMultiBLSFromPoints(points, nil)
	if err != nil {
		panic(err)
	}
	return mk
}

func newMsAccountT0(members []int) *msAccount {
	return &msAccount{members: members, threshold: 0, addr: msKeyT0(members).Address().Bytes()}
}

// multisigZeroCase: a key whose threshold field is 0 states no policy at all; a transfer out of the account at its address
// "signed" by ONE of the three members (a genuine signature of that member) is not authorized by the account's owners
func multisigZeroCase(r *sim.Rng, n *sim.FNode, acc *msAccount, cw *sim.CaseWriter) {
	n.Enter()
	msg := &fsm.MessageSend{FromAddress: acc.addr, ToAddress: sim.BLSKey(7).Addr, Amount: 100 + uint64(r.Intn(900))}
	a, e := lib.NewAny(msg)
	if e != nil {
		panic(e)
	}
	tx := &lib.Transaction{MessageType: fsm.MessageSendName, Msg: a, CreatedHeight: n.FSM.Height(), Time: uint64(1_700_000_000_000_000 + r.Intn(1_000_000_000)), Fee: 10000,
		NetworkId: uint64(n.Config.NetworkID), ChainId: n.Config.ChainId}
	sb, e := tx.GetSignBytes()
	if e != nil {
		panic(e)
	}
	mk := msKeyT0(acc.members)
	s := r.Intn(len(acc.members))
	if err := mk.AddSigner(sim.BLSKey(acc.members[s]).Priv.Sign(sb), s); err != nil {
		panic(err)
	}
	agg, err := mk.AggregateSignatures()
	if err != nil {
		return
	}
	tx.Signature = &lib.Signature{PublicKey: mk.Bytes(), Signature: agg}
	variant, e := lib.Marshal(tx)
	if e != nil {
		panic(e)
	}
	curFSM = n.FSM
	pre, e := sim.ScanState(n.FSM)
	if e != nil {
		panic(e)
	}
	res := new(lib.ApplyBlockResults)
	if aerr := n.FSM.ApplyTransactions(context.Background(), [][]byte{variant}, res, false); aerr != nil {
		n.FSM.Reset()
	}
	executed := len(res.Results) == 1
	post, e := sim.ScanState(n.FSM)
	if e != nil {
		panic(e)
	}
	lit, kind, ok := msgLit(msg, acc.addr)
	if !ok {
		st.Skipped[kind]++
		return
	}
	cw.Add(fmt.Sprintf("mkAuth %s 0%%N %s %s %s %s", pre.Lit(), sim.CoqN(tx.Fee), lit, sim.CoqBool(executed), post.Lit()),
		map[string]any{"kind": kind, "variant": "multisig-threshold-zero-key-one-member", "signers": 1, "threshold": 0, "executed": executed})
	st.Cases++
	st.Distinct++
	st.TxCases["auth:multisig-threshold-zero-key-one-member"]++
	st.TxOutcome[fmt.Sprintf("auth:multisig-threshold-zero-key-one-member:executed=%v", executed)]++
}

// multisigReorderWitness replays the KNOWN finding `multisig-approval-executed-again`: the signature of a transaction does not cover
// Signature.PublicKey, replay protection keys on the hash of the whole transaction, and a multi-signature ACCOUNT (address = hash of
// the SORTED member keys and the threshold) has many serialized keys (member order and bitmap are kept as presented). The members'
// signature shares do not depend on the order: whoever aggregates them builds several (PublicKey, Signature) pairs for the one
// approved content; each has another transaction hash and executes.
func multisigReorderWitness(r *sim.Rng, n *sim.FNode, acc *msAccount) {
	n.Enter()
	msg := &fsm.MessageSend{FromAddress: acc.addr, ToAddress: sim.BLSKey(7).Addr, Amount: 1000}
	a, e := lib.NewAny(msg)
	if e != nil {
		return
	}
	tx := &lib.Transaction{MessageType: fsm.MessageSendName, Msg: a, CreatedHeight: n.FSM.Height(), Time: uint64(1_700_000_000_000_000 + r.Intn(1_000_000_000)), Fee: 10000,
		NetworkId: uint64(n.Config.NetworkID), ChainId: n.Config.ChainId}
	sb, e := tx.GetSignBytes()
	if e != nil {
		return
	}
	build := func(order []int) []byte {
		mk, err := msKey(order, acc.threshold)
		if err != nil {
			return nil
		}
		// members acc.members[0] and acc.members[1] approve; their positions in this ordering of the key
		for pos, m := range order {
			if m == acc.members[0] || m == acc.members[1] {
				if err := mk.AddSigner(sim.BLSKey(m).Priv.Sign(sb), pos); err != nil {
					return nil
				}
			}
		}
		agg, err := mk.AggregateSignatures()
		if err != nil {
			return nil
		}
		t := *tx
		t.Signature = &lib.Signature{PublicKey: mk.Bytes(), Signature: agg}
		bz, err2 := lib.Marshal(&t)
		if err2 != nil {
			return nil
		}
		return bz
	}
	m := acc.members
	t1, t2 := build([]int{m[0], m[1], m[2]}), build([]int{m[1], m[0], m[2]})
	if t1 == nil || t2 == nil {
		return
	}
	res := new(lib.ApplyBlockResults)
	if aerr := n.FSM.ApplyTransactions(context.Background(), [][]byte{t1, t2}, res, false); aerr != nil {
		n.FSM.Reset()
		return
	}
	n.FSM.Reset()
	st.TxCases["auth:multisig-one-approval-two-key-orderings"]++
	if len(res.Results) == 2 {
		sim.Direct(outDirG, map[string]any{"finding": "multisig-approval-executed-again", "kind": "one threshold approval of a multi-signature payment executed twice (the same signed content under two orderings of the member keys)",
			"threshold": acc.threshold, "members": len(acc.members)})
	}
}
