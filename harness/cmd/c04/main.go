// c04: correspondence harness for the ledger family (properties C04, C07, C12; escrow identity of C20).
//
//	tx mode    : on a real FSM (mini-node), transactions from the stateful generator are resolved by the real CheckTx and applied
//	             one at a time through the real ApplyTransactions; a full state scan before and after, the resolved message and the
//	             outcome are written as a case: Coq compares with model/Ledger.v (apply_tx) and evaluates the scan predicates
//	             (conservation, staking consistency, escrow identity, failed transaction = no change).
//	chain mode : generated chains of blocks with ALL message kinds of the generator, non-signers, double-sign slashes and
//	             parameter changes, committed through the real ApplyBlock/IndexQC/IndexBlock/Commit sequence; a scan after every
//	             block is checked against the predicates (including kinds the model does not cover yet).
package main

import (
	"context"
	"flag"
	"fmt"
	"os"

	"github.com/canopy-network/canopy/fsm"
	"github.com/canopy-network/canopy/lib"
	"github.com/canopy-network/canopy/lib/crypto"
	"verifharness/certsim"
	"verifharness/sim"
)

type stats struct {
	Cases     int            `json:"cases"`
	Distinct  int            `json:"distinct_nontrivial"`
	TxCases   map[string]int `json:"tx_cases_by_message"`
	TxOutcome map[string]int `json:"tx_outcomes"`
	Skipped   map[string]int `json:"not_compared_with_model"`
	Blocks    int            `json:"chain_blocks_scanned"`
	ChainTx   map[string]int `json:"chain_tx_kinds_offered"`
	Slashes   int            `json:"double_sign_slashes_scripted"`
	NonSign   int            `json:"non_signer_marks_scripted"`
	BlockErrs int            `json:"blocks_that_could_not_be_produced"`
	Samples   []string       `json:"samples"`
}

var curFSM *fsm.StateMachine
var wFail *sim.CaseWriter

var st = stats{TxCases: map[string]int{}, TxOutcome: map[string]int{}, Skipped: map[string]int{}, ChainTx: map[string]int{}}

func addrOfPub(pub []byte) []byte {
	pk, err := crypto.NewPublicKeyFromBytes(pub)
	if err != nil {
		return nil
	}
	return pk.Address().Bytes()
}

// msgLit renders a resolved message as a model message; ok=false when the model does not cover it
func msgLit(m lib.MessageI, sender []byte) (string, string, bool) {
	switch x := m.(type) {
	case *fsm.MessageSend:
		if x.VestingStartHeight != 0 || x.VestingEndHeight != 0 || x.VestingCliffHeight != 0 {
			return "", "vesting-send", false
		}
		return fmt.Sprintf("(MSend %s %s %s)", sim.AddrN(x.FromAddress), sim.AddrN(x.ToAddress), sim.CoqN(x.Amount)), "send", true
	case *fsm.MessageStake:
		if fsm.CheckNetAddress(x.NetAddress, x.Delegate) != nil {
			return "", "stake-with-invalid-net-address", false // the model has no net address
		}
		return fmt.Sprintf("(MStake %s %s %s %s %s %s %s)", sim.AddrN(addrOfPub(x.PublicKey)), sim.AddrN(x.Signer), sim.AddrN(x.OutputAddress), sim.CoqN(x.Amount),
			sim.CoqNList(x.Committees), sim.CoqBool(x.Delegate), sim.CoqBool(x.Compound)), "stake", true
	case *fsm.MessageEditStake:
		if v, e := curFSM.GetValidator(crypto.NewAddress(x.Address)); e == nil && fsm.CheckNetAddress(x.NetAddress, v.Delegate) != nil {
			return "", "edit-stake-with-invalid-net-address", false
		}
		return fmt.Sprintf("(MEditStake %s %s %s %s %s %s)", sim.AddrN(x.Address), sim.AddrN(x.Signer), sim.AddrN(x.OutputAddress), sim.CoqN(x.Amount),
			sim.CoqNList(x.Committees), sim.CoqBool(x.Compound)), "edit-stake", true
	case *fsm.MessageUnstake:
		return fmt.Sprintf("(MUnstake %s)", sim.AddrN(x.Address)), "unstake", true
	case *fsm.MessagePause:
		return fmt.Sprintf("(MPause %s)", sim.AddrN(x.Address)), "pause", true
	case *fsm.MessageUnpause:
		return fmt.Sprintf("(MUnpause %s)", sim.AddrN(x.Address)), "unpause", true
	case *fsm.MessageSubsidy:
		return fmt.Sprintf("(MSubsidy %s %s %s)", sim.AddrN(x.Address), sim.CoqN(x.ChainId), sim.CoqN(x.Amount)), "subsidy", true
	case *fsm.MessageDAOTransfer:
		return fmt.Sprintf("(MDaoTransfer %s %s %s)", sim.AddrN(x.Address), sim.CoqN(x.Amount), sim.CoqBool(x.Mint)), "dao-transfer", true
	case *fsm.MessageCreateOrder:
		return fmt.Sprintf("(MCreateOrder %s %s %s %s)", sim.AddrN(x.OrderId), sim.AddrN(x.SellersSendAddress), sim.CoqN(x.ChainId), sim.CoqN(x.AmountForSale)), "create-order", true
	case *fsm.MessageEditOrder:
		return fmt.Sprintf("(MEditOrder %s %s %s)", sim.AddrN(x.OrderId), sim.CoqN(x.ChainId), sim.CoqN(x.AmountForSale)), "edit-order", true
	case *fsm.MessageDeleteOrder:
		return fmt.Sprintf("(MDeleteOrder %s %s)", sim.AddrN(x.OrderId), sim.CoqN(x.ChainId)), "delete-order", true
	default:
		return "", fmt.Sprintf("%T", m), false
	}
}

func genesis(r *sim.Rng, nv, nKeys int) *sim.GenesisSpec {
	g := &sim.GenesisSpec{}
	p := fsm.DefaultParams()
	p.Validator.UnstakingBlocks = uint64(1 + r.Intn(3))
	p.Validator.DelegateUnstakingBlocks = uint64(2 + r.Intn(3))
	p.Validator.MaxPauseBlocks = uint64(2 + r.Intn(4))
	p.Validator.NonSignWindow = uint64(3 + r.Intn(3))
	p.Validator.MaxNonSign = uint64(1 + r.Intn(2))
	p.Validator.NonSignSlashPercentage = r.Pick(1, 10, 50)
	p.Validator.DoubleSignSlashPercentage = r.Pick(10, 50, 100)
	p.Validator.MaxSlashPerCommittee = r.Pick(15, 60, 100)
	p.Validator.MinimumStakeForValidators = r.Pick(0, 0, 500, 900)
	p.Consensus.ProtocolVersion = fsm.NewProtocolVersion(0, 2) // committee-scoped slashing (the modelled path)
	g.Params = p
	for i := 0; i < nv; i++ {
		// members of one to three committees (slashes are budgeted per committee)
		g.Validators = append(g.Validators, sim.StdValidator(i, r.Pick(1, 5, 1000, 1000, 250000), [][]uint64{{1}, {1, 2}, {1, 2, 3}}[r.Intn(3)]...))
	}
	// one or two delegates from genesis on (slashable through HandleDoubleSigners like any staked key of the committee)
	for i := nv; i < nv+1+r.Intn(2) && i < nKeys; i++ {
		d := sim.StdValidator(i, r.Pick(5, 1000, 250000), [][]uint64{{1}, {1, 2}}[r.Intn(2)]...)
		d.Delegate, d.NetAddress = true, ""
		g.Validators = append(g.Validators, d)
	}
	for i := 0; i < nKeys; i++ {
		g.Accounts = append(g.Accounts, &fsm.Account{Address: sim.BLSKey(i).Addr, Amount: r.Pick(0, 20000, 3_000_000_000, 5_000_000_000)})
	}
	// two validators of one operator: their stakes return to the SAME output address (chain mode lets both finish unstaking in
	// one block: each stake must arrive)
	if nv >= 5 {
		g.Validators[3].Output = sim.BLSKey(nKeys - 1).Addr
		g.Validators[4].Output = sim.BLSKey(nKeys - 1).Addr
	}
	g.Pools = []*fsm.Pool{{Id: lib.DAOPoolID, Amount: r.Pick(0, 1000, 1_000_000)}}
	return g
}

var wSlash *sim.CaseWriter
var outDirG = "."

// slashCase: the real SlashValidator on a committee member or delegate (HandleDoubleSigners accepts any staked key whose
// committees contain the reporting chain, delegates included) of the current state, with
// percentages around the per-committee cap, 100% and dust stakes; sometimes twice in a row (the per-block tracker then holds
// the first slash), sometimes for a chain the validator is not a member of
// ownTracker: the harness's own account of the per-block slash budget (validator -> committee -> percent slashed so far in this
// block), kept independently of the implementation's tracker
var ownTracker = map[string]map[uint64]uint64{}

// slashCase: one slash, or a burst on one validator across its committees in the order A, B, A (each committee's budget is its own)
func slashCase(r *sim.Rng, n *sim.FNode, gen *sim.TxGen) {
	if r.Chance(30) {
		vals, _ := n.FSM.GetValidators()
		for _, v := range vals {
			if len(v.Committees) >= 2 && v.StakedAmount > 100 {
				a, b := v.Committees[0], v.Committees[1]
				for _, step := range []struct{ chain, pct uint64 }{{a, r.Pick(5, 10, 14)}, {b, r.Pick(3, 5, 10)}, {a, r.Pick(5, 10, 20)}} {
					slashOne(r, n, v.Address, step.chain, step.pct, false)
				}
				st.TxOutcome["slash-burst-A-B-A"]++
				return
			}
		}
	}
	slashOne(r, n, nil, 0, 0, true)
}

func slashOne(r *sim.Rng, n *sim.FNode, addr []byte, fixedChain, fixedPct uint64, random bool) {
	var cands []*fsm.Validator
	vals, _ := n.FSM.GetValidators()
	for _, v := range vals {
		if len(v.Committees) > 0 {
			cands = append(cands, v)
		}
	}
	if len(cands) == 0 {
		st.Skipped["slash-no-candidate"]++
		return
	}
	v := cands[r.Intn(len(cands))]
	// often: a validator that is ALREADY unstaking, slashed hard enough to fall below the minimum stake (the forced unstaking of
	// a validator below the minimum must leave one that is already on its way out alone: one marker, one finish height)
	belowMin := false
	if random && r.Chance(40) {
		var un []*fsm.Validator
		for _, c := range cands {
			if c.UnstakingHeight != 0 {
				un = append(un, c)
			}
		}
		if len(un) > 0 {
			v, belowMin = un[r.Intn(len(un))], true
			st.TxOutcome["slash-of-unstaking-validator"]++
		}
	}
	chain := v.Committees[r.Intn(len(v.Committees))]
	if r.Chance(8) && !belowMin {
		chain = 777
	}
	if random && r.Chance(40) {
		n.FSM.VerifResetSlashTracker()
		ownTracker = map[string]map[uint64]uint64{}
	}
	percent := r.Pick(0, 1, 5, 10, 14, 15, 16, 50, 60, 99, 100, 150)
	if belowMin {
		percent = r.Pick(50, 60, 99, 10)
	}
	if !random {
		found := false
		for _, c := range cands {
			if string(c.Address) == string(addr) {
				v, found = c, true
			}
		}
		if !found {
			return // slashed out by an earlier step of the burst
		}
		chain, percent = fixedChain, fixedPct
	}
	// sometimes the slash lands in the very block in which the validator's unstaking finishes
	h0, atUnstakingHeight := n.FSM.Height(), false
	if random && v.UnstakingHeight != 0 && r.Chance(60) {
		n.FSM.VerifSetHeight(v.UnstakingHeight)
		atUnstakingHeight = true
		if r.Chance(70) {
			percent = 100
		}
	}
	defer n.FSM.VerifSetHeight(h0)
	pre, e := sim.ScanState(n.FSM)
	if e != nil {
		panic(e)
	}
	already, scoped, found, err := n.FSM.VerifSlash(v.Address, chain, percent)
	if !scoped || !found {
		st.Skipped["slash-not-scoped"]++
		return
	}
	// the budget the implementation worked with must be what was really slashed for this committee so far in this block
	key := string(v.Address)
	if ownTracker[key] == nil {
		ownTracker[key] = map[uint64]uint64{}
	}
	if want := ownTracker[key][chain]; already != want && (propNo == 0 || propNo == 12 || propNo == 4) {
		sim.Direct(outDirG, map[string]any{"finding": "slash-budget-forgotten", "kind": "the per-block slash budget of a committee differs from what that committee has slashed so far in this block",
			"validator": fmt.Sprintf("%x", v.Address), "committee": chain, "tracker_says": already, "really_slashed": want})
	}
	if cap := pre.Params.MaxSlashPerCommittee; already < cap {
		applied := percent
		if cap <= already+percent {
			applied = cap - already
		}
		ownTracker[key][chain] += applied
	}
	post, e := sim.ScanState(n.FSM)
	if e != nil {
		panic(e)
	}
	lit := fmt.Sprintf("mkSl %s %s %s %s %s %s %s", pre.Lit(), sim.AddrN(v.Address), sim.CoqN(chain), sim.CoqN(percent), sim.CoqN(already), sim.CoqBool(err != nil), post.Lit())
	wSlash.Add(lit, map[string]any{"kind": "slash", "percent": percent, "already": already, "chain": chain, "stake": v.StakedAmount, "err": err != nil, "at_unstaking_height": atUnstakingHeight})
	st.Cases++
	st.TxCases["slash"]++
	st.Distinct++
	if atUnstakingHeight {
		// the end-block sweep of this very height must still go through (the chain must not wedge)
		if derr := n.FSM.DeleteFinishedUnstaking(); derr != nil && (propNo == 0 || propNo == 12) {
			sim.Direct(outDirG, map[string]any{"finding": "block-cannot-be-produced", "kind": "DeleteFinishedUnstaking fails after a slash in the block in which the validator's unstaking finishes",
				"percent": percent, "stake": v.StakedAmount, "error": derr.Error()})
		}
		st.TxOutcome["slash-at-unstaking-height"]++
	}
}

func txMode(r *sim.Rng, nStates, perState int, cw *sim.CaseWriter, outDir string) {
	seen := map[string]bool{}
	for sI := 0; sI < nStates; sI++ {
		nKeys := 9
		n, err := sim.NewFNode(genesis(r, 4, nKeys).State(), nil)
		if err != nil {
			panic(err)
		}
		ownTracker = map[string]map[uint64]uint64{}
		gen := sim.NewTxGen(r.Fork(), nKeys)
		for c := 0; c < perState; c++ {
			n.Enter()
			if c%9 == 8 { // move on: commit what was applied so far as a block, so heights and deferred actions advance
				ownTracker = map[string]map[uint64]uint64{}
				if out := n.Apply(&sim.BlockSpec{}); out.Err != nil {
					st.BlockErrs++
					if propNo == 0 || propNo == 12 {
						sim.Direct(outDir, map[string]any{"finding": "block-cannot-be-produced", "kind": "an empty block cannot be produced on a generated state (chain wedged)", "height": n.FSM.Height(), "error": out.Err.Error()})
					}
					break
				}
			}
			if wSlash != nil && r.Chance(22) {
				slashCase(r, n, gen)
				continue
			}
			if wReward != nil && r.Chance(12) {
				rewardCase(r, n)
				continue
			}
			if wMint != nil && r.Chance(6) {
				mintCase(r, n)
				continue
			}
			tx, _ := gen.Next(n.FSM)
			msg, sender, fee, cerr := n.FSM.VerifCheckTx(tx)
			if cerr != nil {
				st.Skipped["rejected-by-CheckTx"]++
				continue
			}
			curFSM = n.FSM
			lit, kind, ok := msgLit(msg, sender.Bytes())
			pre, e := sim.ScanState(n.FSM)
			if e != nil {
				panic(e)
			}
			trackerBefore := n.FSM.VerifSlashTrackerDigest()
			paramsBefore := sim.ParamsView(n.FSM)
			_, _, _, _, _, eventsBefore := n.FSM.VerifSideState()
			res := new(lib.ApplyBlockResults)
			if aerr := n.FSM.ApplyTransactions(context.Background(), [][]byte{tx}, res, false); aerr != nil {
				if propNo == 0 || propNo == 7 {
					sim.Direct(outDir, map[string]any{"finding": "apply-transactions-error", "kind": "ApplyTransactions returned an error for a single transaction", "error": aerr.Error()})
				}
				break
			}
			okTx := len(res.Failed) == 0
			if !okTx && (propNo == 0 || propNo == 7) {
				// side state that is rolled back by hand: the slash tracker's content and the pending events
				_, _, _, _, _, eventsAfter := n.FSM.VerifSideState()
				// (events pending before the transaction come only from the harness's own direct slashes; a failure clears them all)
				if after := n.FSM.VerifSlashTrackerDigest(); after != trackerBefore || eventsAfter > eventsBefore {
					sim.Direct(outDir, map[string]any{"finding": "failed-transaction-left-trace", "kind": "slash tracker or pending events differ after a failed transaction",
						"tracker_before": trackerBefore, "tracker_after": after, "events_before": eventsBefore, "events_after": eventsAfter})
				}
				// the parameters as the state machine reports them (through whatever caches stand in front of the store)
				if after := sim.ParamsView(n.FSM); after != paramsBefore {
					sim.Direct(outDir, map[string]any{"finding": "failed-transaction-left-trace", "kind": "the parameters reported by the state machine differ after a failed transaction",
						"params_before": paramsBefore, "params_after": after, "tx": sim.Hex(tx)})
				}
			}
			post, e := sim.ScanState(n.FSM)
			if os.Getenv("VERIF_DEBUG") != "" {
				fmt.Fprintf(os.Stderr, "state %d case %d kind=%T ok=%v pre.maxPause=%d post.maxPause=%d pre.unstaking=%d post.unstaking=%d\n", sI, c, msg, okTx, pre.Params.MaxPauseBlocks, post.Params.MaxPauseBlocks, pre.Params.UnstakingBlocks, post.Params.UnstakingBlocks)
			}
			if e != nil {
				panic(e)
			}
			if !ok {
				st.Skipped[kind]++
				if !okTx {
					// a failed transaction of a kind the model does not cover: it must still leave no trace
					wFail.Add(fmt.Sprintf("mkFail %s %s", pre.Lit(), post.Lit()), map[string]any{"kind": "failed:" + kind, "height": pre.Height})
					st.Cases++
					st.TxOutcome["failed-unmodelled-kind"]++
				}
				continue
			}
			caseLit := fmt.Sprintf("mkTx %s %s %s %s %s %s", pre.Lit(), sim.AddrN(sender.Bytes()), sim.CoqN(fee), lit, sim.CoqBool(okTx), post.Lit())
			cw.Add(caseLit, map[string]any{"kind": kind, "ok": okTx, "msg": lit, "height": pre.Height})
			st.Cases++
			st.TxCases[kind]++
			if okTx {
				st.TxOutcome["applied"]++
			} else {
				st.TxOutcome["failed-in-handler-or-fee"]++
			}
			if !seen[caseLit] {
				seen[caseLit] = true
				st.Distinct++
			}
			if len(st.Samples) < 1 && len(caseLit) < 4000 {
				st.Samples = append(st.Samples, caseLit)
			}
		}
		n.Close()
	}
}

func chainMode(r *sim.Rng, nChains, nBlocks int, cw *sim.CaseWriter, outDir string) {
	for c := 0; c < nChains; c++ {
		nKeys, nv := 10, 5
		n, err := sim.NewFNode(genesis(r, nv, nKeys).State(), nil)
		if err != nil {
			panic(err)
		}
		gen := sim.NewTxGen(r.Fork(), nKeys)
		gen.Stable = 2
		pre, e := sim.ScanState(n.FSM)
		if e != nil {
			panic(e)
		}
		prevTotal := pre.Supply.Total
		slashedAt := map[string]bool{}
		for b := 0; b < nBlocks; b++ {
			n.Enter()
			h := n.FSM.Height()
			spec := &sim.BlockSpec{}
			ntx := r.Intn(7)
			var daoMint uint64
			for i := 0; i < ntx; i++ {
				tx, desc := gen.Next(n.FSM)
				spec.Txs = append(spec.Txs, tx)
				_ = desc
				if m, _, _, cerr := n.FSM.VerifCheckTx(tx); cerr == nil {
					if d, ok := m.(*fsm.MessageDAOTransfer); ok && d.Mint {
						daoMint += d.Amount
					}
				}
			}
			if b == 3 {
				// governance lowers the number of committees a validator may serve: every validator above the limit is re-conformed
				// (its committees cut down, the per-committee tallies with them)
				spec.Txs = append(spec.Txs, sim.TxBytes(fsm.NewChangeParamTxUint64(sim.BLSKey(0).Priv, fsm.ParamSpaceVal, fsm.ParamMaxCommittees, r.Pick(1, 2), h, h+5, 1, 1, 10000, h, "fewer-committees")))
				st.TxOutcome["max-committees-lowered"]++
			}
			if b == 1 {
				// both validators that share an output address start unstaking in this block: they finish in one block
				for _, i := range []int{3, 4} {
					k := sim.BLSKey(i)
					if v, e := n.FSM.GetValidator(crypto.NewAddress(k.Addr)); e == nil && v != nil && v.UnstakingHeight == 0 {
						spec.Txs = append(spec.Txs, sim.TxBytes(fsm.NewUnstakeTx(k.Priv, crypto.NewAddress(k.Addr), 1, 1, 10000, h, fmt.Sprintf("shared-output-%d", i))))
						st.TxOutcome["unstake-of-validators-sharing-an-output"]++
					}
				}
			}
			// committee members that did not sign this block's certificate
			if vs, e := n.FSM.LoadCommittee(1, h); e == nil && r.Chance(50) {
				spec.NonSigners = map[string]bool{}
				for _, v := range vs.ValidatorSet.ValidatorSet {
					if r.Chance(35) && string(v.PublicKey) != string(sim.BLSKey(0).Pub) && string(v.PublicKey) != string(sim.BLSKey(1).Pub) {
						spec.NonSigners[string(v.PublicKey)] = true
						st.NonSign++
					}
				}
			}
			// a double-sign slash ordered by this block's certificate (processed by the next block)
			proposer := sim.BLSKey(r.Intn(nv))
			spec.Proposer = proposer.Addr
			results := &lib.CertificateResult{RewardRecipients: &lib.RewardRecipients{PaymentPercents: []*lib.PaymentPercents{{Address: proposer.Addr, Percent: 100, ChainId: 1}}}}
			if r.Chance(25) && h > 1 {
				// only members of the committee in force can be implicated by valid evidence (C14); keys 0 and 1 are kept honest so
				// that the committee never becomes empty (a chain without validators cannot produce blocks by construction)
				k := sim.BLSKey(2 + r.Intn(nv+1))
				inCommittee := false
				if vs, e := n.FSM.LoadCommittee(1, h-1); e == nil {
					for _, m := range vs.ValidatorSet.ValidatorSet {
						inCommittee = inCommittee || string(m.PublicKey) == string(k.Pub)
					}
				}
				key := fmt.Sprintf("%x-%d", k.Addr, h-1)
				if inCommittee && !slashedAt[key] {
					slashedAt[key] = true
					results.SlashRecipients = &lib.SlashRecipients{DoubleSigners: []*lib.DoubleSigner{{Id: k.Pub, Heights: []uint64{h - 1}}}}
					st.Slashes++
				}
			}
			spec.Results = results
			out := n.Apply(spec)
			if out.Err != nil {
				st.BlockErrs++
				if propNo == 0 || propNo == 12 {
					sim.Direct(outDir, map[string]any{"finding": "block-cannot-be-produced", "kind": "ApplyBlock failed on a reachable state (chain wedged)", "height": h, "error": out.Err.Error()})
				}
				break
			}
			sc, e := sim.ScanState(n.FSM)
			if e != nil {
				panic(e)
			}
			// scheduled mint bound: InitialTokensPerBlock >> halvenings, plus DAO mints offered in this block
			mint := n.Config.InitialTokensPerBlock >> (h / n.Config.BlocksPerHalvening)
			lit := fmt.Sprintf("mkScan %s %s %s", sim.CoqN(prevTotal), sim.CoqN(mint+daoMint), sc.Lit())
			cw.Add(lit, map[string]any{"kind": "block-scan", "height": h, "txs": len(out.Results.Results), "failed": len(out.Results.Failed)})
			st.Cases++
			st.Blocks++
			st.Distinct++
			prevTotal = sc.Supply.Total
		}
		for k, v := range gen.Counts {
			st.ChainTx[k] += v
		}
		n.Close()
	}
}

// propNo: 0 = all properties; a wedge (block cannot be produced) is a C12 matter, an error escaping ApplyTransactions a C07 one
var propNo int

func main() {
	nStates := flag.Int("states", 10, "tx mode: generated states")
	perState := flag.Int("txs", 30, "tx mode: transactions per state")
	nChains := flag.Int("chains", 6, "chain mode: chains")
	nBlocks := flag.Int("blocks", 25, "chain mode: blocks per chain")
	outDir := flag.String("outdir", ".", "output directory")
	_ = flag.String("replay", "", "replay file (cases regenerate deterministically from the seed)")
	prop := flag.Int("prop", 0, "judge the observations for this property only (4, 7, 12, 20; 0 = all)")
	flag.Parse()
	propNo = *prop
	outDirG = *outDir
	r := sim.NewRng(sim.SeedFromEnv())
	imp := "From V Require Import U64 Extracted Ledger LedgerCheck."
	w1 := &sim.CaseWriter{OutDir: *outDir, Name: "c04tx", Imports: imp, CaseType: "tx_case", MFun: "tx_mismatches", VFun: fmt.Sprintf("tx_violations_for %d", *prop), PerShard: 25}
	wFail = &sim.CaseWriter{OutDir: *outDir, Name: "c04fail", Imports: imp, CaseType: "fail_case", MFun: "fail_mismatches", VFun: fmt.Sprintf("fail_violations_for %d", *prop), PerShard: 40}
	if *prop == 5 {
		imp5 := "From V Require Import U64 Extracted Ledger LedgerCheck Auth."
		wa := &sim.CaseWriter{OutDir: *outDir, Name: "c05tx", Imports: imp5, CaseType: "auth_case", MFun: "auth_mismatches", VFun: "auth_violations", PerShard: 25}
		wb := &sim.CaseWriter{OutDir: *outDir, Name: "c05blk", Imports: imp5, CaseType: "ablk_case", MFun: "ablk_mismatches", VFun: "ablk_violations", PerShard: 100}
		wBA = &sim.CaseWriter{OutDir: *outDir, Name: "c05ba", Imports: "From V Require Import BlockAuth.", CaseType: "ba_case", MFun: "ba_mismatches", VFun: "ba_violations", PerShard: 100}
		authMode(r.Fork(), *nStates, *perState, wa, wb)
		wa.Close(st)
		wb.Close(st)
		wBA.Close(st)
		fmt.Printf("authorization: %d cases; variants %v outcomes %v skipped %v\n", st.Cases, st.TxCases, st.TxOutcome, st.Skipped)
		return
	}
	impB := "From V Require Import U64 Extracted Ledger LedgerCheck LedgerBlock LedgerBlockCheck."
	wReward = &sim.CaseWriter{OutDir: *outDir, Name: "c04reward", Imports: impB, CaseType: "rw_case", MFun: "rw_mismatches", VFun: fmt.Sprintf("rw_violations_for %d", *prop), PerShard: 25}
	wMint = &sim.CaseWriter{OutDir: *outDir, Name: "c04mint", Imports: impB, CaseType: "mint_case", MFun: "mint_mismatches", VFun: fmt.Sprintf("mint_violations_for %d", *prop), PerShard: 25}
	wSlash = &sim.CaseWriter{OutDir: *outDir, Name: "c04slash", Imports: imp, CaseType: "sl_case", MFun: "sl_mismatches", VFun: fmt.Sprintf("sl_violations_for %d", *prop), PerShard: 25}
	txMode(r.Fork(), *nStates, *perState, w1, *outDir)
	if *prop == 0 || *prop == 7 {
		rejectMode(r.Fork(), 1+*nChains/3, *nBlocks, *outDir)
	}
	w1.Close(st)
	wCert := &sim.CaseWriter{OutDir: *outDir, Name: "c04cert", Imports: impB, CaseType: "cr_case", MFun: "cr_mismatches", VFun: fmt.Sprintf("cr_violations_for %d", *prop), PerShard: 25}
	certsim.Run(r.Fork(), 1+*nChains/3, 6, *outDir, wCert, func(k string) {
		if k == "case" {
			st.Cases++
			st.Distinct++
			st.TxCases["certificate-results"]++
		} else {
			st.TxOutcome[k]++
		}
	})
	wCert.Close(st)
	wSlash.Close(st)
	wReward.Close(st)
	wMint.Close(st)
	wFail.Close(st)
	w2 := &sim.CaseWriter{OutDir: *outDir, Name: "c04chain", Imports: imp, CaseType: "scan_case", MFun: "scan_mismatches", VFun: fmt.Sprintf("scan_violations_for %d", *prop), PerShard: 40}
	chainMode(r.Fork(), *nChains, *nBlocks, w2, *outDir)
	w2.Close(st)
	fmt.Printf("ledger: %d cases; tx cases %v outcomes %v skipped %v; %d chain blocks scanned, %d blocks failed\n", st.Cases, st.TxCases, st.TxOutcome, st.Skipped, st.Blocks, st.BlockErrs)
}
