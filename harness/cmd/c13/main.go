// c13: correspondence harness for property C13 (committee derivation and voting power).
// Runs the real FSM (fsm.New on a real in-memory store from a generated genesis, and a real controller-driven
// chain for the historical part) and writes cases.v: for every query the raw validator scan (the state) and the
// implementation's answer. The Coq side evaluates model/Committee.v on the same scans and lists mismatches.
package main

import (
	"context"
	"flag"
	"fmt"
	"os"
	"sort"

	"github.com/canopy-network/canopy/fsm"
	"github.com/canopy-network/canopy/lib"
	"github.com/canopy-network/canopy/lib/crypto"
	"verifharness/sim"
)

type stats struct {
	Cases        int            `json:"cases"`
	Distinct     int            `json:"distinct_nontrivial"`
	ByKind       map[string]int `json:"by_kind"`
	Sizes        map[string]int `json:"population_sizes"`
	Caps         map[string]int `json:"caps"`
	Errors       int            `json:"answers_error"`
	TiesAtCap    int            `json:"ties_at_cap_boundary"`
	OverCap      int            `json:"eligible_over_cap"`
	Historical   int            `json:"historical_requeries"`
	EvictionRuns int            `json:"shared_cache_evictions_exercised"`
	Samples      []string       `json:"samples"`
}

var st = stats{ByKind: map[string]int{}, Sizes: map[string]int{}, Caps: map[string]int{}}
var cw *sim.CaseWriter
var seen = map[string]bool{}

func valLit(v *fsm.Validator) string {
	return fmt.Sprintf("mkVal %s %s %s %s %s %s", sim.AddrN(v.Address), sim.CoqN(v.StakedAmount), sim.CoqNList(v.Committees),
		sim.CoqN(v.MaxPausedHeight), sim.CoqN(v.UnstakingHeight), sim.CoqBool(v.Delegate))
}

func obsLit(vs lib.ValidatorSet, err lib.ErrorI, scan []*fsm.Validator) string {
	if err != nil {
		st.Errors++
		return "None"
	}
	addrOf := map[string][]byte{}
	for _, v := range scan {
		addrOf[string(v.PublicKey)] = v.Address
	}
	var ms []string
	for _, m := range vs.ValidatorSet.ValidatorSet {
		ms = append(ms, fmt.Sprintf("(%s, %s)", sim.AddrN(addrOf[string(m.PublicKey)]), sim.CoqN(m.VotingPower)))
	}
	return fmt.Sprintf("Some (mkVset %s %s %s %s)", sim.CoqList(ms), sim.CoqN(vs.TotalPower), sim.CoqN(vs.MinimumMaj23), sim.CoqN(vs.NumValidators))
}

func emit(kind string, cap, chain uint64, delegate bool, scan []*fsm.Validator, vs lib.ValidatorSet, err lib.ErrorI) {
	var vals []string
	for _, v := range scan {
		vals = append(vals, valLit(v))
	}
	lit := fmt.Sprintf("mkC13 %s %s %s %s (%s)", sim.CoqN(cap), sim.CoqN(chain), sim.CoqBool(delegate), sim.CoqList(vals), obsLit(vs, err, scan))
	cw.Add(lit, map[string]any{"kind": kind, "cap": cap, "chain": chain, "delegate": delegate, "case": lit})
	st.Cases++
	st.ByKind[kind]++
	st.Sizes[fmt.Sprint(len(scan))]++
	st.Caps[fmt.Sprint(cap)]++
	// non-trivial: at least 2 eligible validators; distinct by literal
	elig := 0
	var stakes []uint64
	for _, v := range scan {
		if v.UnstakingHeight == 0 && v.MaxPausedHeight == 0 && v.Delegate == delegate && (chain == 0 || contains(v.Committees, chain)) {
			elig++
			stakes = append(stakes, v.StakedAmount)
		}
	}
	if elig >= 2 && !seen[lit] {
		seen[lit] = true
		st.Distinct++
	}
	if cap > 0 && uint64(elig) > cap {
		st.OverCap++
		sort.Slice(stakes, func(i, j int) bool { return stakes[i] > stakes[j] })
		if stakes[cap-1] == stakes[cap] {
			st.TiesAtCap++
		}
	}
	if len(st.Samples) < 3 && elig >= 2 {
		st.Samples = append(st.Samples, lit)
	}
}

func contains(xs []uint64, x uint64) bool {
	for _, y := range xs {
		if x == y {
			return true
		}
	}
	return false
}

func randomPopulation(r *sim.Rng, n int) []*fsm.Validator {
	stakeSet := []uint64{0, 1, 1, 5, 5, 5, 100, 100, 1000, 1 << 32, 1 << 40}
	// one population in six has up to five very large stakes: the committee total lies in [2^63, 2^64), where
	// 2*total does not fit in 64 bits (the threshold must still be floor(2*total/3)+1)
	heavy := r.Intn(6) == 0
	heavySet := []uint64{3_000_000_000_000_000_000, 2_500_000_000_000_000_000, 3_600_000_000_000_000_000}
	var vals []*fsm.Validator
	for i := 0; i < n; i++ {
		k := sim.BLSKey(i)
		v := &fsm.Validator{Address: k.Addr, PublicKey: k.Pub, NetAddress: fmt.Sprintf("tcp://v%d", i),
			StakedAmount: stakeSet[r.Intn(len(stakeSet))], Output: k.Addr}
		if heavy && i < 5 {
			v.StakedAmount = heavySet[r.Intn(len(heavySet))]
		}
		switch r.Intn(6) {
		case 0:
			v.Committees = []uint64{1, 2}
		case 1:
			v.Committees = []uint64{2}
		case 2:
			v.Committees = []uint64{3, 1}
		default:
			v.Committees = []uint64{1}
		}
		switch r.Intn(10) {
		case 0:
			v.MaxPausedHeight = uint64(10 + r.Intn(5))
		case 1:
			v.UnstakingHeight = uint64(10 + r.Intn(5))
		case 2, 3:
			v.Delegate = true
		}
		vals = append(vals, v)
	}
	// shuffle genesis order (must not matter)
	for i := len(vals) - 1; i > 0; i-- {
		j := r.Intn(i + 1)
		vals[i], vals[j] = vals[j], vals[i]
	}
	return vals
}

func genesisCases(r *sim.Rng, count int) {
	caps := []uint64{0, 1, 2, 3, 5, 100}
	for c := 0; c < count; c++ {
		n := r.Intn(13)
		p := fsm.DefaultParams()
		p.Validator.MaxCommitteeSize = caps[r.Intn(len(caps))]
		p.Validator.MaximumDelegatesPerCommittee = caps[r.Intn(len(caps))]
		g := &sim.GenesisSpec{Validators: randomPopulation(r, n), Params: p}
		node, err := sim.NewNode(g.State(), nil)
		if err != nil {
			fmt.Fprintln(os.Stderr, "c13: genesis rejected:", err)
			continue
		}
		scan, e := node.FSM.GetValidators()
		if e != nil {
			panic(e)
		}
		for _, chain := range []uint64{1, 2, 3} {
			vs, e := node.FSM.GetCommitteeMembers(chain)
			emit("GetCommitteeMembers", p.Validator.MaxCommitteeSize, chain, false, scan, vs, e)
			vs, e = node.FSM.GetDelegates(chain)
			emit("GetDelegates", p.Validator.MaximumDelegatesPerCommittee, chain, true, scan, vs, e)
		}
		// asked again (cache warm) and through the historical path at the genesis height
		vs, e := node.FSM.GetCommitteeMembers(1)
		emit("GetCommitteeMembers-again", p.Validator.MaxCommitteeSize, 1, false, scan, vs, e)
		vs, e = node.FSM.LoadCommittee(1, 1)
		emit("LoadCommittee", p.Validator.MaxCommitteeSize, 1, false, scan, vs, e)
		node.Close()
	}
}

// historicalCases: a real chain (FSM mini-node: ApplyBlock/IndexQC/IndexBlock/Commit/fsm.New per block) whose validator set AND
// governance caps change over time; LoadCommittee(h)/GetDelegates at h are re-asked for every past height after all later blocks,
// twice and in scrambled order, which exercises the shared historical cache and its 64-entry eviction.
func historicalCases(r *sim.Rng, blocks int) {
	nv := 6
	g := &sim.GenesisSpec{}
	p := fsm.DefaultParams()
	p.Validator.MaxCommitteeSize = 4
	p.Validator.UnstakingBlocks = 3
	g.Params = p
	for i := 0; i < nv; i++ {
		g.Validators = append(g.Validators, sim.StdValidator(i, 1000))
	}
	for i := 0; i < 16; i++ {
		g.Accounts = append(g.Accounts, &fsm.Account{Address: sim.BLSKey(i).Addr, Amount: 1 << 40})
	}
	n, err := sim.NewFNode(g.State(), nil)
	if err != nil {
		panic(err)
	}
	defer n.Close()
	type snap struct {
		h    uint64
		cap  uint64
		dcap uint64
		scan []*fsm.Validator
	}
	var snaps []snap
	record := func() {
		n.Enter()
		sm, e := n.FSM.TimeMachine(0)
		if e != nil {
			panic(e)
		}
		scan, e := sm.GetValidators()
		if e != nil {
			panic(e)
		}
		vp, e := sm.GetParamsVal()
		if e != nil {
			panic(e)
		}
		sm.Discard()
		snaps = append(snaps, snap{n.FSM.Height(), vp.MaxCommitteeSize, vp.MaximumDelegatesPerCommittee, scan})
	}
	record()
	staked := map[int]bool{}
	for i := 0; i < nv; i++ {
		staked[i] = true
	}
	for b := 0; b < blocks; b++ {
		h := n.FSM.Height()
		var txs [][]byte
		i := nv + r.Intn(8)
		k := sim.BLSKey(i)
		switch r.Intn(6) {
		case 0: // new validator or delegate stakes (ties on purpose)
			if !staked[i] {
				txs = append(txs, sim.TxBytes(fsm.NewStakeTx(k.Priv, k.Pub, crypto.NewAddress(k.Addr), "tcp://x", []uint64{1}, r.Pick(1000, 1000, 2000, 500), 1, 1, 10000, h, r.Chance(30), false, "")))
				staked[i] = true
			}
		case 1: // edit stake up
			j := r.Intn(nv)
			kj := sim.BLSKey(j)
			v, e := n.FSM.GetValidator(crypto.NewAddress(kj.Addr))
			if e == nil && v != nil && v.UnstakingHeight == 0 {
				txs = append(txs, sim.TxBytes(fsm.NewEditStakeTx(kj.Priv, crypto.NewAddress(kj.Addr), crypto.NewAddress(kj.Addr), "tcp://y", []uint64{1}, v.StakedAmount+r.Pick(0, 500, 1000), 1, 1, 10000, h, false, "")))
			}
		case 2: // pause or unpause a non-genesis validator
			if staked[i] {
				v, e := n.FSM.GetValidator(crypto.NewAddress(k.Addr))
				if e == nil && v != nil && v.UnstakingHeight == 0 && !v.Delegate {
					if v.MaxPausedHeight == 0 {
						txs = append(txs, sim.TxBytes(fsm.NewPauseTx(k.Priv, crypto.NewAddress(k.Addr), 1, 1, 10000, h, "")))
					} else {
						txs = append(txs, sim.TxBytes(fsm.NewUnpauseTx(k.Priv, crypto.NewAddress(k.Addr), 1, 1, 10000, h, "")))
					}
				}
			}
		case 3: // unstake a non-genesis validator
			if staked[i] {
				txs = append(txs, sim.TxBytes(fsm.NewUnstakeTx(k.Priv, crypto.NewAddress(k.Addr), 1, 1, 10000, h, "")))
				staked[i] = false
			}
		case 4: // governance: change the committee cap
			txs = append(txs, sim.TxBytes(fsm.NewChangeParamTxUint64(sim.BLSKey(0).Priv, fsm.ParamSpaceVal, fsm.ParamMaxCommitteeSize, r.Pick(2, 3, 4, 5, 100), h, h+5, 1, 1, 10000, h, "")))
		case 5: // governance: change the delegate cap (0 = unlimited)
			txs = append(txs, sim.TxBytes(fsm.NewChangeParamTxUint64(sim.BLSKey(0).Priv, fsm.ParamSpaceVal, fsm.ParamMaximumDelegatesPerCommittee, r.Pick(0, 1, 2, 3), h, h+5, 1, 1, 10000, h, "")))
		}
		if b%2 == 0 {
			// a height the chain has not reached yet is asked for (certificate results name root heights freely); whatever the
			// answer, it must not be remembered as the committee of that height once the chain gets there
			n.Enter()
			_, _ = n.FSM.LoadCommittee(1, h+1+uint64(r.Intn(3)))
			_, _ = n.FSM.LoadCommittee(1, 0)
			st.ByKind["asked-before-the-height-existed"]++
		}
		if b%3 == 1 {
			// the committee of the CURRENT height asked for in the middle of a block: uncommitted validator changes on the live
			// state machine (a new top staker, a paused member), a committee question answered by the live state machine (its
			// caches are warm with the uncommitted population), then LoadCommittee for the current height - the committed records
			n.Enter()
			last := snaps[len(snaps)-1]
			fresh := sim.BLSKey(14 + b%2)
			var mid [][]byte
			mid = append(mid, sim.TxBytes(fsm.NewStakeTx(fresh.Priv, fresh.Pub, crypto.NewAddress(fresh.Addr), "tcp://mid", []uint64{1}, 50000, 1, 1, 10000, h, false, false, fmt.Sprintf("mid%d", b))))
			g0 := sim.BLSKey(r.Intn(nv))
			mid = append(mid, sim.TxBytes(fsm.NewPauseTx(g0.Priv, crypto.NewAddress(g0.Addr), 1, 1, 10000, h, fmt.Sprintf("midp%d", b))))
			res := new(lib.ApplyBlockResults)
			if aerr := n.FSM.ApplyTransactions(context.Background(), mid, res, false); aerr == nil {
				_, _ = n.FSM.GetCommitteeMembers(1)
				vs, e := n.FSM.LoadCommittee(1, n.FSM.Height())
				emit("LoadCommittee-current-height-mid-block", last.cap, 1, false, last.scan, vs, e)
				st.ByKind["mid-block-uncommitted-applied"] += len(res.Results)
			}
			n.FSM.Reset()
		}
		out := n.Apply(&sim.BlockSpec{Txs: txs})
		if out.Err != nil {
			fmt.Fprintln(os.Stderr, "c13: chain step failed:", out.Err)
			break
		}
		st.ByKind["hist-txs-applied"] += len(out.Results.Results)
		st.ByKind["hist-txs-failed"] += len(out.Results.Failed)
		record()
	}
	if len(snaps) > 64 {
		st.EvictionRuns++
	}
	// re-query every past height, twice, in a scrambled order, after all later history
	order := make([]int, 0, 2*len(snaps))
	for i := range snaps {
		order = append(order, i, i)
	}
	for i := len(order) - 1; i > 0; i-- {
		j := r.Intn(i + 1)
		order[i], order[j] = order[j], order[i]
	}
	n.Enter()
	for qi, i := range order {
		s := snaps[i]
		if qi%7 == 0 {
			// a node answers live and historical questions interleaved: the live FSM's own caches are warm
			last := snaps[len(snaps)-1]
			vs, e := n.FSM.GetCommitteeMembers(1)
			emit("GetCommitteeMembers-live-interleaved", last.cap, 1, false, last.scan, vs, e)
		}
		vs, e := n.FSM.LoadCommittee(1, s.h)
		emit("LoadCommittee-historical", s.cap, 1, false, s.scan, vs, e)
		st.Historical++
		if r.Chance(40) {
			sm, e2 := n.FSM.TimeMachine(s.h)
			if e2 == nil {
				vs, e = sm.GetDelegates(1)
				emit("GetDelegates-historical", s.dcap, 1, true, s.scan, vs, e)
				sm.Discard()
				st.Historical++
			}
		}
	}
}

func main() {
	nGen := flag.Int("genesis", 60, "number of generated genesis populations")
	nBlocks := flag.Int("blocks", 70, "blocks in the historical chain")
	outDir := flag.String("outdir", ".", "output directory")
	replay := flag.String("replay", "", "replay file (re-runs with the recorded seed; cases are regenerated deterministically)")
	flag.Parse()
	_ = replay
	cw = &sim.CaseWriter{OutDir: *outDir, Name: "c13", Imports: "From V Require Import Committee.", CaseType: "c13_case",
		MFun: "mismatches", VFun: "violations", PerShard: 150}
	r := sim.NewRng(sim.SeedFromEnv())
	genesisCases(r.Fork(), *nGen)
	historicalCases(r.Fork(), *nBlocks)
	cw.Close(st)
	fmt.Printf("c13: %d cases (%d distinct non-trivial)\n", st.Cases, st.Distinct)
}
