// c02: correspondence harness for property C02 (finality gate).
// A real controller.Controller (real FSM, store, BLS) is driven height by height. At every height an honest proposal is
// produced (ProduceProposal), then a family of certificates is assembled from REAL BLS signatures by committee members
// (weighted stakes, incl. a dominant member and a zero-stake member) with single and pairwise deviations from a valid
// certificate: signer subsets at power maj23-1 / maj23 / all, bitmap bits of members that did not sign, padded bitmaps,
// wrong-length bitmaps, signatures produced for another view (round, phase, height, root height, chain, network),
// another block hash / results hash / proposer, swapped or missing results, missing block, a block of another height,
// non-commit phases (incl. a +2/3 ELECTION_VOTE certificate with a block attached) - and delivered through the real
// HandlePeerBlock.  Observable: whether the store version advanced.  The ground truth (who signed which payload) goes to Coq.
package main

import (
	"flag"
	"fmt"
	"google.golang.org/protobuf/encoding/protowire"
	"sort"

	"github.com/canopy-network/canopy/fsm"
	"github.com/canopy-network/canopy/lib"
	"github.com/canopy-network/canopy/lib/crypto"
	"verifharness/sim"
)

type stats struct {
	Cases     int            `json:"cases"`
	Distinct  int            `json:"distinct_nontrivial"`
	ByKind    map[string]int `json:"by_mutation"`
	Committed int            `json:"committed"`
	Rejected  int            `json:"rejected"`
	Heights   int            `json:"heights_advanced"`
	Samples   []string       `json:"samples"`
}

var st = stats{ByKind: map[string]int{}}

type payload struct {
	view                  lib.View
	blockHash, resultHash []byte
	proposer              []byte
}

func hN(b []byte) string {
	if len(b) == 0 {
		return "0%N"
	}
	h := crypto.Hash(b)
	return "0x" + sim.Hex(h[:8]) + "%N" // injective enough for case literals: 64-bit tag of the bytes
}
func viewLit(v *lib.View) string {
	return fmt.Sprintf("(mkView %d %d %d %d %d %d)", v.NetworkId, v.ChainId, v.Height, v.RootHeight, v.Round, uint64(v.Phase))
}
func payloadLit(p payload) string {
	if p.view.Phase == lib.Phase_ELECTION_VOTE {
		return fmt.Sprintf("(mkPayload %s 0 0 %s)", viewLit(&p.view), hN(p.proposer))
	}
	return fmt.Sprintf("(mkPayload %s %s %s %s)", viewLit(&p.view), hN(p.blockHash), hN(p.resultHash), hN(p.proposer))
}

// signBytesFor returns the sign bytes of a certificate with the given payload fields
func signBytesFor(p payload) []byte {
	q := &lib.QuorumCertificate{Header: &p.view, BlockHash: p.blockHash, ResultsHash: p.resultHash, ProposerKey: p.proposer}
	return q.SignBytes()
}

func main() {
	nHeights := flag.Int("heights", 10, "heights to advance")
	perHeight := flag.Int("variants", 22, "certificate variants per height")
	outDir := flag.String("outdir", ".", "output directory")
	_ = flag.String("replay", "", "replay file (cases regenerate deterministically from the seed)")
	flag.Parse()
	r := sim.NewRng(sim.SeedFromEnv())
	cw := &sim.CaseWriter{OutDir: *outDir, Name: "c02", Imports: "From V Require Import U64 Extracted Cert.", CaseType: "c02_case", MFun: "c02_mismatches", VFun: "c02_violations", PerShard: 120}
	seen := map[string]bool{}
	// committee: weighted stakes
	nv := 4 + r.Intn(6)
	g := &sim.GenesisSpec{}
	stakes := []uint64{1000, 1000, 1000, 2500, 1, 0, 700, 1300, 900, 1100}
	if r.Chance(30) {
		stakes[0] = 20000 // one dominant member
	}
	for i := 0; i < nv; i++ {
		v := sim.StdValidator(i, stakes[i%len(stakes)])
		v.Compound = false // rewards go to the output account: the committee (and its voting power) is the same at every root height
		g.Validators = append(g.Validators, v)
		g.Accounts = append(g.Accounts, &fsm.Account{Address: sim.BLSKey(i).Addr, Amount: 1 << 40})
	}
	ch, err := sim.NewChain(g, 1, nil)
	if err != nil {
		panic(err)
	}
	defer ch.Close()
	n := ch.Nodes[0]
	for h := 0; h < *nHeights; h++ {
		n.Enter()
		var txs [][]byte
		if r.Chance(60) {
			txs = append(txs, sim.TxBytes(fsm.NewSendTransaction(sim.BLSKey(0).Priv, crypto.NewAddress(sim.BLSKey(1).Addr), uint64(1+r.Intn(50)), 1, 1, 10000, n.C.FSM.Height(), fmt.Sprint(h))))
		}
		p, perr := n.Propose(txs)
		if perr != nil {
			// the node accepted a certificate it cannot continue from
			sim.Direct(*outDir, map[string]any{"finding": "chain-cannot-continue-after-accepted-certificate", "kind": "after the last commit no further block can be produced",
				"height": n.C.FSM.Height(), "error": perr.Error()})
			break
		}
		goodView := n.CommitView()
		vs, verr := n.Committee(goodView.RootHeight)
		if verr != nil {
			panic(verr)
		}
		nMembers := len(vs.ValidatorSet.ValidatorSet)
		blk := new(lib.Block)
		blockHash, _ := blk.BytesToBlockHash(p.Block)
		resBz, _ := lib.Marshal(p.Results)
		resHash := crypto.Hash(resBz)
		proposer := sim.BLSKey(n.KeyIdx).Pub
		good := payload{*goodView, blockHash, resHash, proposer}
		// another honest proposal's block (different content) for cross-target attacks: same height, different time/memo
		powers := make([]uint64, nMembers)
		for i, v := range vs.ValidatorSet.ValidatorSet {
			powers[i] = v.VotingPower
		}
		cmLit := fmt.Sprintf("(mkCommittee %s %d %d)", sim.CoqNList(powers), vs.TotalPower, vs.MinimumMaj23)
		maxBlock := n.C.LoadMaxBlockSize()
		lastRoot := uint64(0)
		if cd, e := n.C.LoadCommitteeData(); e == nil && cd != nil {
			lastRoot = cd.LastRootHeightUpdated
		}
		// ... and not older than the root height of the previous block's certificate (which this block's begin-block records)
		if hh := n.C.FSM.Height(); hh > 1 {
			if last, e := n.C.FSM.LoadCertificateHashesOnly(hh - 1); e == nil && last != nil && last.Header != nil && last.Header.RootHeight > lastRoot {
				lastRoot = last.Header.RootHeight
			}
		}
		cfgLit := fmt.Sprintf("(mkCfg %d %d %d %d %d)", n.C.Config.NetworkID, n.C.Config.ChainId, n.C.FSM.Height(), maxBlock, lastRoot)
		committedThisHeight := false
		for v := 0; v <= *perHeight && !committedThisHeight; v++ {
			last := v == *perHeight
			// ---- choose the presented certificate fields and what is really signed
			present := good // fields shown in the certificate
			signed := good  // payload the signers really sign
			kind := "valid"
			signerIdx := sim.AllSigners(vs)
			bitmapExtra := []int{} // committee indices set in the bitmap WITHOUT a signature
			padBits := false
			padExact := 0
			wrongLen := false
			attachBlock, attachResults := true, true
			swapResults := false
			otherBlockHeight := false
			secondHeader := false
			lastCertPhase := false
			if !last {
				switch r.Intn(26) {
				case 24: // a consistent, fully signed certificate under a root height OLDER than the one the node's state last recorded
					if lastRoot > 0 {
						rh := lastRoot - 1 // the boundary, half of the time
						if r.Bool() {
							rh = lastRoot - 1 - uint64(r.Intn(int(lastRoot)))
						}
						if sameCommittee(n, rh, vs) {
							present.view.RootHeight = rh
							signed = present
							kind = "older-root-consistent"
						}
					}
				case 25: // ... and under the oldest root height the state still vouches for (accepted: the bound is not over-tight)
					if lastRoot > 0 && lastRoot <= good.view.RootHeight && sameCommittee(n, lastRoot, vs) {
						present.view.RootHeight = lastRoot
						signed = present
						kind = "oldest-vouched-root-consistent"
					}
				case 22, 23:
					// the block's header embeds, as the certificate of the previous block, a genuine +2/3 certificate of the same block
					// and results in ANOTHER phase (the lock or election votes every honest member cast); the block is otherwise the
					// honest one and is certified in the commit phase. The embedded certificate replaces the stored finality proof
					// of the previous height: only a commit-phase certificate may
					if goodView.Height > 1 {
						lastCertPhase = true
						kind = "last-certificate-of-another-phase"
					}
				case 0: // subset exactly at the threshold
					signerIdx = sim.SignersForPower(vs, vs.MinimumMaj23)
					kind = "subset-at-maj23"
				case 1: // just below the threshold
					full := sim.SignersForPower(vs, vs.MinimumMaj23)
					signerIdx = full[:len(full)-1]
					kind = "subset-below-maj23"
				case 2: // random subset
					signerIdx = nil
					for i := 0; i < nMembers; i++ {
						if r.Bool() {
							signerIdx = append(signerIdx, i)
						}
					}
					kind = "random-subset"
				case 3: // bitmap names members that did not sign
					full := sim.SignersForPower(vs, vs.MinimumMaj23)
					signerIdx = full[:len(full)-1]
					if len(signerIdx) == 0 {
						// one dominant member reaches the threshold alone: the genuine minority is then the weakest member
						weakest := 0
						for i, m := range vs.ValidatorSet.ValidatorSet {
							if m.VotingPower < vs.ValidatorSet.ValidatorSet[weakest].VotingPower {
								weakest = i
							}
						}
						signerIdx = []int{weakest}
					}
					for i := 0; i < nMembers; i++ {
						in := false
						for _, s := range signerIdx {
							in = in || s == i
						}
						if !in {
							bitmapExtra = append(bitmapExtra, i)
						}
					}
					kind = "unsigned-bits"
				case 4:
					padBits = true
					if avail := (8 - nMembers%8) % 8; avail > 0 && r.Chance(40) {
						// the weakest k members sign and EXACTLY nMembers-k unused bits of the last bitmap byte are set: the number of set
						// bits equals the committee size although the signers hold a minority (a decision taken on the bit count instead
						// of the signers' power would take this for "everyone signed")
						order := make([]int, nMembers)
						for i := range order {
							order[i] = i
						}
						sort.SliceStable(order, func(a, b int) bool {
							return vs.ValidatorSet.ValidatorSet[order[a]].VotingPower < vs.ValidatorSet.ValidatorSet[order[b]].VotingPower
						})
						k := nMembers - avail
						if k < 1 {
							k = 1
						}
						var pw uint64
						for _, i := range order[:k] {
							pw += vs.ValidatorSet.ValidatorSet[i].VotingPower
						}
						if pw < vs.MinimumMaj23 {
							signerIdx = append([]int{}, order[:k]...)
							sort.Ints(signerIdx)
							padExact = nMembers - k
							kind = "padding-count-equals-committee"
							break
						}
					}
					if r.Bool() {
						full := sim.SignersForPower(vs, vs.MinimumMaj23)
						signerIdx = full[:len(full)-1]
						kind = "padding+below-maj23"
					} else {
						kind = "padding"
					}
				case 5:
					wrongLen = true
					kind = "wrong-length-bitmap"
				case 6: // signatures made for another round, presented with this one
					signed.view.Round = good.view.Round + 1
					kind = "retarget-round"
				case 7: // signatures of the lock phase presented as commit-justifying
					signed.view.Phase = lib.Phase_PROPOSE_VOTE
					kind = "retarget-phase"
				case 8: // consistent certificate of a non-commit phase (valid +2/3 signatures)
					present.view.Phase = []lib.Phase{lib.Phase_PROPOSE_VOTE, lib.Phase_ELECTION_VOTE, lib.Phase_PRECOMMIT, lib.Phase_COMMIT}[r.Intn(4)]
					signed = present
					kind = "wrong-phase-consistent"
				case 9: // signatures for another block hash
					signed.blockHash = crypto.Hash([]byte("other block"))
					kind = "retarget-block"
				case 10: // certificate names another block hash than the attached block (consistently signed)
					present.blockHash = crypto.Hash([]byte("other block"))
					signed = present
					kind = "hash-mismatch-consistent"
				case 11: // signatures for other results
					signed.resultHash = crypto.Hash([]byte("other results"))
					kind = "retarget-results"
				case 12:
					swapResults = true
					kind = "swapped-results"
				case 13:
					if r.Bool() {
						attachBlock = false
						kind = "no-block"
					} else {
						attachResults = false
						kind = "no-results"
					}
				case 14: // another chain / network, consistently signed
					if r.Bool() {
						present.view.ChainId = 2
					} else {
						present.view.NetworkId = 2
					}
					signed = present
					kind = "other-chain-or-network-consistent"
				case 15: // signatures for another chain presented for this chain
					signed.view.ChainId = 2
					kind = "retarget-chain"
				case 16: // height in the view differs (consistently signed)
					present.view.Height = good.view.Height + uint64(1+r.Intn(2))
					signed = present
					kind = "other-height-consistent"
				case 17: // signatures of another height / root height
					if r.Bool() {
						signed.view.Height = good.view.Height - 1
					} else {
						signed.view.RootHeight = good.view.RootHeight + 1
					}
					kind = "retarget-height-or-root"
				case 18: // another proposer key
					signed.proposer = sim.BLSKey((n.KeyIdx + 1) % nv).Pub
					kind = "retarget-proposer"
				case 19:
					otherBlockHeight = true
					kind = "block-of-other-height"
				case 20, 21:
					// the certified block bytes followed by a SECOND occurrence of the header field (protobuf merges repeated
					// embedded messages: last value per field wins) and possibly one more transaction: the hash computed from the raw
					// bytes is still the certified one, the block that would be decoded, validated and applied is another
					secondHeader = true
					kind = "second-header-occurrence"
				}
			}
			// ---- build it with real signatures
			qc := &lib.QuorumCertificate{Header: &lib.View{NetworkId: present.view.NetworkId, ChainId: present.view.ChainId, Height: present.view.Height,
				RootHeight: present.view.RootHeight, Round: present.view.Round, Phase: present.view.Phase},
				BlockHash: present.blockHash, ResultsHash: present.resultHash, ProposerKey: present.proposer}
			blockBytes := p.Block
			blockHeight := goodView.Height
			if secondHeader {
				b2 := new(lib.Block)
				_ = lib.Unmarshal(p.Block, b2)
				over := &lib.BlockHeader{Time: b2.BlockHeader.Time + 1 + uint64(r.Intn(5))}
				merged := new(lib.Block)
				_ = lib.Unmarshal(p.Block, merged)
				merged.BlockHeader.Time = over.Time
				merged.BlockHeader.Hash = nil
				if hh, e := merged.BlockHeader.SetHash(); e == nil {
					over.Hash = hh
				}
				ob, _ := lib.Marshal(over)
				extra := protowire.AppendBytes(protowire.AppendTag(nil, 1, protowire.BytesType), ob)
				if r.Bool() && len(b2.Transactions) > 0 {
					extra = protowire.AppendBytes(protowire.AppendTag(extra, 2, protowire.BytesType), b2.Transactions[0])
				}
				blockBytes = append(append([]byte{}, p.Block...), extra...)
			}
			if lastCertPhase {
				b2 := new(lib.Block)
				_ = lib.Unmarshal(p.Block, b2)
				lq := b2.BlockHeader.LastQuorumCertificate
				done := false
				if lq != nil && lq.Header != nil && lq.Signature != nil {
					if pvs, e := n.Committee(lq.Header.RootHeight); e == nil {
						var who []int
						for i := range pvs.ValidatorSet.ValidatorSet {
							if i/8 < len(lq.Signature.Bitmap) && lq.Signature.Bitmap[i/8]&(1<<uint(i%8)) != 0 {
								who = append(who, i)
							}
						}
						lq.Header.Phase = []lib.Phase{lib.Phase_PROPOSE_VOTE, lib.Phase_ELECTION_VOTE}[r.Intn(2)]
						if sg, e2 := sim.AggregateSign(pvs, lq.SignBytes(), who); e2 == nil {
							lq.Signature = sg
							b2.BlockHeader.Hash = nil
							if _, e3 := b2.BlockHeader.SetHash(); e3 == nil {
								blockBytes, _ = lib.Marshal(b2)
								hh, _ := new(lib.Block).BytesToBlockHash(blockBytes)
								qc.BlockHash, present.blockHash = hh, hh
								signed.blockHash = hh
								done = true
							}
						}
					}
				}
				if !done {
					lastCertPhase = false
					kind = "valid"
				}
			}
			if otherBlockHeight {
				b2 := new(lib.Block)
				_ = lib.Unmarshal(p.Block, b2)
				b2.BlockHeader.Height++
				_, _ = b2.BlockHeader.SetHash()
				blockBytes, _ = lib.Marshal(b2)
				blockHeight++
				hh, _ := new(lib.Block).BytesToBlockHash(blockBytes)
				qc.BlockHash, present.blockHash = hh, hh
				signed.blockHash = hh
			}
			results := p.Results
			if swapResults {
				results = &lib.CertificateResult{RewardRecipients: &lib.RewardRecipients{PaymentPercents: []*lib.PaymentPercents{{Address: sim.BLSKey(2).Addr, Percent: 100, ChainId: 1}}}}
			}
			if attachBlock {
				qc.Block = blockBytes
			}
			if attachResults {
				qc.Results = results
			}
			msg := signBytesFor(signed)
			agg, aerr := sim.AggregateSign(vs, msg, signerIdx)
			if aerr != nil {
				panic(aerr)
			}
			// two-step attack: the node first sees the genuine minority certificate (must be rejected as partial), then the
			// same aggregate signature with a bitmap that also names members who never signed
			if len(bitmapExtra) > 0 {
				qc.Signature = &lib.AggregateSignature{Signature: agg.Signature, Bitmap: append([]byte{}, agg.Bitmap...)}
				b0 := n.Store.Version()
				_ = n.Deliver(sim.CloneQC(qc), false)
				st.ByKind["genuine-minority-first"]++
				if n.Store.Version() != b0 {
					sim.Direct(*outDir, map[string]any{"finding": "partial-certificate-committed", "kind": "a certificate below the threshold advanced the version", "height": goodView.Height})
					committedThisHeight = true
					continue
				}
			}
			// bitmap manipulation
			bm := append([]byte{}, agg.Bitmap...)
			for _, i := range bitmapExtra {
				bm[i/8] |= 1 << uint(i%8)
			}
			if padExact > 0 {
				for i := nMembers; i < nMembers+padExact && i < len(bm)*8; i++ {
					bm[i/8] |= 1 << uint(i%8)
				}
			} else if padBits && nMembers%8 != 0 {
				for i := nMembers; i < len(bm)*8; i++ {
					if r.Bool() {
						bm[i/8] |= 1 << uint(i%8)
					}
				}
			}
			lenOK := true
			if wrongLen {
				if r.Bool() {
					bm = append(bm, 0)
				} else if len(bm) > 1 {
					bm = bm[:len(bm)-1]
				} else {
					bm = append(bm, 1)
				}
				lenOK = false
			}
			qc.Signature = &lib.AggregateSignature{Signature: agg.Signature, Bitmap: bm}
			// ---- deliver
			before := n.Store.Version()
			derr := n.Deliver(sim.CloneQC(qc), false)
			after := n.Store.Version()
			committed := after != before
			if derr == nil != committed {
				sim.Direct(*outDir, map[string]any{"finding": "handlepeerblock-result-vs-version", "kind": "return value and version disagree", "mutation": kind})
			}
			// a refused certificate is presented again (a peer re-sends it; the next block's header embeds it): a refusal must not be
			// remembered as an acceptance by any verification cache
			if !committed && r.Chance(60) {
				b1 := n.Store.Version()
				_ = n.Deliver(sim.CloneQC(qc), false)
				st.ByKind["refused-presented-again"]++
				if n.Store.Version() != b1 {
					sim.Direct(*outDir, map[string]any{"finding": "refused-certificate-committed-on-second-presentation", "kind": "a certificate refused on its first presentation caused a commit when presented again",
						"mutation": kind, "height": goodView.Height})
					committed = true
				}
			}
			if lastCertPhase && committed {
				sim.Direct(*outDir, map[string]any{"finding": "last-certificate-of-another-phase-accepted", "kind": "a block whose header embeds a non-commit-phase certificate as the previous block's certificate was committed (the embedded certificate replaces the stored finality proof)",
					"height": goodView.Height})
			}
			// ---- ground truth literal
			bits := make([]string, len(bm)*8)
			for i := range bits {
				bits[i] = sim.CoqBool(bm[i/8]&(1<<uint(i%8)) != 0)
			}
			var sigs []string
			for _, i := range signerIdx {
				sigs = append(sigs, fmt.Sprintf("(%d%%nat, %s)", i, payloadLit(signed)))
			}
			resLit := "None"
			if attachResults {
				rb, _ := lib.Marshal(results)
				resLit = fmt.Sprintf("(Some %s)", hN(crypto.Hash(rb)))
			}
			blkLit := "None"
			if attachBlock {
				hb, _ := new(lib.Block).BytesToBlockHash(blockBytes)
				bb := new(lib.Block)
				_ = lib.Unmarshal(blockBytes, bb)
				txSize := 0
				for _, t := range bb.Transactions {
					txSize += len(t)
				}
				// b_applies: the honest proposal applies iff it is the unmodified block at this node's height
				applies := !otherBlockHeight && !secondHeader && !lastCertPhase
				// the hash of the header as decoded (merged), which is what the block that would be applied carries
				hd := hb
				if secondHeader {
					if x, e := bb.Hash(); e == nil {
						hd = x
					}
				}
				blkLit = fmt.Sprintf("(Some (mkBlock %s %s %d %d true %d %s))", hN(hb), hN(hd), blockHeight, bb.BlockHeader.NetworkId, txSize, sim.CoqBool(applies))
			}
			certLit := fmt.Sprintf("(mkCert %s %s %s %s true %s %s %s %s %s)", viewLit(qc.Header), hN(present.blockHash), hN(present.resultHash), hN(present.proposer),
				resLit, blkLit, sim.CoqBool(lenOK), sim.CoqList(bits), sim.CoqList(sigs))
			lit := fmt.Sprintf("mkC02 %s %s %s %s", cfgLit, cmLit, certLit, sim.CoqBool(committed))
			cw.Add(lit, map[string]any{"kind": kind, "committed": committed, "height": goodView.Height, "signers": signerIdx, "error": fmt.Sprint(derr)})
			st.Cases++
			st.ByKind[kind]++
			if committed {
				st.Committed++
				committedThisHeight = true
				st.Heights++
			} else {
				st.Rejected++
			}
			if !seen[lit] {
				seen[lit] = true
				st.Distinct++
			}
			if len(st.Samples) < 2 && kind != "valid" {
				st.Samples = append(st.Samples, lit)
			}
		}
	}
	historicalCommittee(r.Fork(), *outDir)
	cw.Close(st)
	fmt.Printf("c02: %d certificates (%d committed, %d rejected) over %d heights, mutations %v\n", st.Cases, st.Committed, st.Rejected, st.Heights, st.ByKind)
}

// sameCommittee: the committee in force at rootHeight is the given one (same members in the same order with the same power), so a
// certificate signed by `vs` verifies under that root height too
func sameCommittee(n *sim.CNode, rootHeight uint64, vs lib.ValidatorSet) bool {
	n.Enter()
	o, err := n.Committee(rootHeight)
	if err != nil || o.ValidatorSet == nil || vs.ValidatorSet == nil || len(o.ValidatorSet.ValidatorSet) != len(vs.ValidatorSet.ValidatorSet) {
		return false
	}
	for i, m := range o.ValidatorSet.ValidatorSet {
		w := vs.ValidatorSet.ValidatorSet[i]
		if string(m.PublicKey) != string(w.PublicKey) || m.VotingPower != w.VotingPower {
			return false
		}
	}
	return true
}
