package main

import (
	"fmt"

	"github.com/canopy-network/canopy/fsm"
	"github.com/canopy-network/canopy/lib"
	"github.com/canopy-network/canopy/lib/crypto"
	"verifharness/sim"
)

// historicalCommittee: "the voting power in force at the certificate's root height" is only a guarantee if the root height is
// one the node's own state vouches for. Seven equal validators; five of them unstake in block 1, so from then on the committee
// is the remaining two. Several heights later the five (who hold no voting power any more) certify a block of their own with a
// certificate that names root height 1 - when they were +2/3 of the committee. An in-sync node must not commit it.
func historicalCommittee(r *sim.Rng, outDir string) {
	g := &sim.GenesisSpec{}
	p := fsm.DefaultParams()
	p.Validator.UnstakingBlocks = 2
	g.Params = p
	for i := 0; i < 7; i++ {
		g.Validators = append(g.Validators, sim.StdValidator(i, 1000000))
		g.Accounts = append(g.Accounts, &fsm.Account{Address: sim.BLSKey(i).Addr, Amount: 1 << 40})
	}
	sim.RegisterKeys(16)
	a, err := sim.NewCNode(g.State(), 5, nil)
	if err != nil {
		panic(err)
	}
	defer a.Close()
	b, err := sim.NewCNode(g.State(), 6, nil)
	if err != nil {
		panic(err)
	}
	defer b.Close()
	step := func(txs [][]byte) bool {
		a.Enter()
		prop, perr := a.Propose(txs)
		if perr != nil {
			return false
		}
		view := a.CommitView()
		vs, verr := a.Committee(view.RootHeight)
		if verr != nil {
			return false
		}
		qc, qerr := sim.MakeQC(vs, view, sim.BLSKey(a.KeyIdx).Pub, prop, sim.AllSigners(vs))
		if qerr != nil {
			return false
		}
		for _, n := range []*sim.CNode{a, b} {
			if n.Deliver(sim.CloneQC(qc), false) != nil {
				return false
			}
		}
		return true
	}
	a.Enter()
	var txs [][]byte
	for i := 0; i < 5; i++ {
		k := sim.BLSKey(i)
		txs = append(txs, sim.TxBytes(fsm.NewUnstakeTx(k.Priv, crypto.NewAddress(k.Addr), 1, 1, 10000, a.C.FSM.Height(), "")))
	}
	if !step(txs) {
		st.ByKind["historical-committee:setup-failed"]++
		return
	}
	for i := 0; i < 5+r.Intn(3); i++ {
		if !step(nil) {
			st.ByKind["historical-committee:setup-failed"]++
			return
		}
	}
	// the current committee no longer contains the five
	a.Enter()
	cur, cerr := a.Committee(a.C.FSM.Height())
	if cerr != nil || len(cur.ValidatorSet.ValidatorSet) != 2 {
		st.ByKind["historical-committee:setup-failed"]++
		return
	}
	// the five certify a block of their own at the next height under root height 1
	b.Enter()
	h := b.C.FSM.Height()
	forged, perr := b.Propose([][]byte{sim.TxBytes(fsm.NewSendTransaction(sim.BLSKey(0).Priv, crypto.NewAddress(sim.BLSKey(1).Addr), 777, 1, 1, 10000, h, "forged"))})
	if perr != nil {
		st.ByKind["historical-committee:setup-failed"]++
		return
	}
	old, oerr := b.Committee(1)
	if oerr != nil || len(old.ValidatorSet.ValidatorSet) != 7 {
		st.ByKind["historical-committee:setup-failed"]++
		return
	}
	var five []int
	for i, v := range old.ValidatorSet.ValidatorSet {
		for k := 0; k < 5; k++ {
			if string(v.PublicKey) == string(sim.BLSKey(k).Pub) {
				five = append(five, i)
			}
		}
	}
	view := b.CommitView()
	view.RootHeight = 1
	qc, qerr := sim.MakeQC(old, view, sim.BLSKey(b.KeyIdx).Pub, forged, five)
	if qerr != nil {
		st.ByKind["historical-committee:setup-failed"]++
		return
	}
	before := b.Store.Version()
	derr := b.Deliver(sim.CloneQC(qc), false)
	st.ByKind["historical-committee"]++
	if b.Store.Version() != before {
		sim.Direct(outDir, map[string]any{"finding": "block-certified-by-historical-committee-committed", "kind": "an in-sync node committed a block whose certificate is signed by validators holding none of the current voting power, under a root height of the sender's choosing",
			"height": h, "certificate_root_height": 1, "error": fmt.Sprint(derr)})
		return
	}
	// the honest block of that height is still accepted
	if !step(nil) {
		sim.Direct(outDir, map[string]any{"finding": "honest-block-rejected-after-historical-certificate", "kind": "the honest block is no longer accepted", "height": h})
	}
	_ = lib.Phase_PRECOMMIT_VOTE
}
