package main

import (
	"encoding/hex"
	"fmt"
	"os"

	"github.com/canopy-network/canopy/lib"
	_ "github.com/canopy-network/canopy/fsm"
)

func main() {
	b, _ := hex.DecodeString(os.Args[1])
	tx := new(lib.Transaction)
	fmt.Println("unmarshal:", lib.Unmarshal(b, tx))
	fmt.Println("checkbasic:", tx.CheckBasic())
	m, err := lib.FromAny(tx.Msg)
	fmt.Println("fromany:", err)
	mi := m.(lib.MessageI)
	fmt.Println("check:", mi.Check())
	fmt.Println("recipient:", mi.Recipient())
}
