package main

import (
	"encoding/hex"
	"math/big"

	"github.com/canopy-network/canopy/fsm"
	"github.com/ethereum/go-ethereum/common"
	ethTypes "github.com/ethereum/go-ethereum/core/types"
	ethCrypto "github.com/ethereum/go-ethereum/crypto"
	"verifharness/sim"
)

// Ethereum-wrapped transactions: the call data of a validly signed Ethereum transaction is attacker-controlled bytes that reach the
// translation code (selector dispatch, ABI offsets, proto payloads) during signature verification, before any authorization.
// Every selector (and an unknown one) x every pseudo-contract address x every call-data length 0..100 (and a few longer ones),
// random contents; both wrapper generations. Nothing may panic.
func ethCallDataRuns(r *sim.Rng, outDir string) {
	key, err := ethCrypto.GenerateKey()
	if err != nil {
		panic(err)
	}
	v2, _ := fsm.CanopyIdsToEVMChainIdV2(1, 1)
	chains := []*big.Int{new(big.Int).SetUint64(v2), new(big.Int).SetUint64(fsm.CanopyIdsToEVMChainId(1, 1))}
	selectors := []string{fsm.SendSelector, fsm.SubsidySelector, fsm.StakeSelector, fsm.EditStakeSelector, fsm.UnstakeSelector, fsm.CreateOrderSelector, fsm.EditOrderSelector, fsm.DeleteOrderSelector, "deadbeef"}
	contracts := []string{fsm.CNPYContractAddress, fsm.StakedCNPYContractAddress, fsm.SwapCNPYContractAddress, "0x00000000000000000000000000000000000000aa"}
	tV2 := target{"eth-wrapped-transaction(RLP.V2)", func(b []byte) bool { _, e := fsm.RLPToCanopyTransactionV2(b); return e == nil }}
	tV1 := target{"eth-wrapped-transaction(RLP)", func(b []byte) bool { _, e := fsm.RLPToCanopyTransaction(b); return e == nil }}
	price := new(big.Int).SetUint64(1_000_000_000_000)
	lengths := []int{}
	for l := 0; l <= 100; l++ {
		lengths = append(lengths, l)
	}
	lengths = append(lengths, 127, 128, 129, 255, 256, 1000)
	for _, sel := range selectors {
		sb, _ := hex.DecodeString(sel)
		for ci, contract := range contracts {
			to := common.HexToAddress(contract)
			for _, l := range lengths {
				if (l+ci)%3 != 0 && l > 72 && l <= 100 { // thin out the uninteresting middle
					continue
				}
				data := r.Bytes(l)
				copy(data, sb)
				for k, cid := range chains {
					tx := ethTypes.MustSignNewTx(key, ethTypes.LatestSignerForChainID(cid), &ethTypes.DynamicFeeTx{
						ChainID: cid, Nonce: uint64(l), GasTipCap: price, GasFeeCap: price, Gas: 30000, To: &to, Value: big.NewInt(0), Data: data})
					raw, e := tx.MarshalBinary()
					if e != nil {
						continue
					}
					t := tV2
					if k == 1 {
						t = tV1
					}
					if runGuarded(outDir, t, raw) {
						st.DecodeOK++
					} else {
						st.DecodeRej++
					}
					st.DecodeRuns++
				}
			}
		}
	}
	st.ByKind["eth-call-data-sweep"]++
}

var _ = sim.CoqN
