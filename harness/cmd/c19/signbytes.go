package main

import (
	"bytes"
	"fmt"

	"github.com/canopy-network/canopy/lib"
	"google.golang.org/protobuf/types/known/anypb"
	"verifharness/sim"
)

// Sign bytes (property C19, second half): the bytes a signature covers determine the signed content. Random transactions with
// EVERY field possibly non-default (type, payload, created height, time, fee, memo, network id, chain id, nonce) are marshalled by
// the real library; model/Proto.v must decode them to the same transaction and produce the same sign bytes (M); and for each one a
// copy that differs in exactly one signed field must have different sign bytes on the implementation itself (direct).
func randTx(r *sim.Rng) *lib.Transaction {
	pick := func() uint64 {
		return r.Pick(0, 0, 1, 2, 127, 128, 300, 65535, 1<<32, 1<<63, ^uint64(0), uint64(r.Intn(1000)))
	}
	str := func() string {
		n := r.Intn(6)
		b := make([]byte, n)
		for i := range b {
			b[i] = byte('a' + r.Intn(26))
		}
		return string(b)
	}
	t := &lib.Transaction{MessageType: str(), CreatedHeight: pick(), Time: pick(), Fee: pick(), Memo: str(), NetworkId: pick(), ChainId: pick(), Nonce: pick()}
	if r.Chance(80) {
		t.Msg = &anypb.Any{TypeUrl: "type.googleapis.com/types." + str(), Value: r.Bytes(r.Intn(12))}
	}
	if r.Chance(70) {
		t.Signature = &lib.Signature{PublicKey: r.Bytes(r.Intn(5) * 16), Signature: r.Bytes(r.Intn(4) * 24)}
	}
	return t
}

func ptxLit(tx *lib.Transaction) string {
	msg, sig := "None", "None"
	if tx.Msg != nil {
		msg = fmt.Sprintf("(Some (mkAny %s %s))", sim.CoqBytes([]byte(tx.Msg.TypeUrl)), sim.CoqBytes(tx.Msg.Value))
	}
	if tx.Signature != nil {
		sig = fmt.Sprintf("(Some (mkSgn %s %s))", sim.CoqBytes(tx.Signature.PublicKey), sim.CoqBytes(tx.Signature.Signature))
	}
	return fmt.Sprintf("(mkPtx %s %s %s %s %s %s %s %s %s %s)", sim.CoqBytes([]byte(tx.MessageType)), msg, sig, sim.CoqN(tx.CreatedHeight), sim.CoqN(tx.Time),
		sim.CoqN(tx.Fee), sim.CoqBytes([]byte(tx.Memo)), sim.CoqN(tx.NetworkId), sim.CoqN(tx.ChainId), sim.CoqN(tx.Nonce))
}

func signBytesCases(r *sim.Rng, n int, w *sim.CaseWriter, outDir string) {
	for i := 0; i < n; i++ {
		t := randTx(r)
		b, err := lib.Marshal(t)
		if err != nil {
			continue
		}
		dec := new(lib.Transaction)
		if lib.Unmarshal(b, dec) != nil {
			continue
		}
		sb, e := dec.GetSignBytes()
		if e != nil {
			continue
		}
		w.Add(fmt.Sprintf("mkPC %s (Some %s) true %s", sim.CoqBytes(b), ptxLit(dec), sim.CoqBytes(sb)), map[string]any{"kind": "sign-bytes", "len": len(b), "nonce": t.Nonce})
		st.Cases++
		st.Distinct++
		st.ByKind["sign-bytes"]++
		// one signed field changed: the sign bytes must change
		c := new(lib.Transaction)
		_ = lib.Unmarshal(b, c)
		field := ""
		switch r.Intn(9) {
		case 0:
			c.MessageType += "x"
			field = "message_type"
		case 1:
			if c.Msg == nil {
				c.Msg = &anypb.Any{TypeUrl: "t"}
			} else {
				c.Msg = &anypb.Any{TypeUrl: c.Msg.TypeUrl, Value: append(append([]byte{}, c.Msg.Value...), 1)}
			}
			field = "msg"
		case 2:
			c.CreatedHeight ^= 1 << uint(r.Intn(64))
			field = "created_height"
		case 3:
			c.Time ^= 1 << uint(r.Intn(64))
			field = "time"
		case 4:
			c.Fee ^= 1 << uint(r.Intn(64))
			field = "fee"
		case 5:
			c.Memo += "y"
			field = "memo"
		case 6:
			c.NetworkId ^= 1 << uint(r.Intn(64))
			field = "network_id"
		case 7:
			c.ChainId ^= 1 << uint(r.Intn(64))
			field = "chain_id"
		default:
			c.Nonce ^= 1 << uint(r.Intn(64))
			field = "nonce"
		}
		sb2, e2 := c.GetSignBytes()
		st.ByKind["sign-bytes-pair:"+field]++
		if e2 == nil && bytes.Equal(sb, sb2) {
			sim.Direct(outDir, map[string]any{"finding": "sign-bytes-collision", "kind": "two transactions that differ in a signed field have the same sign bytes", "field": field,
				"tx": fmt.Sprintf("%x", b)})
		}
	}
}
