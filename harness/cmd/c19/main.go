// c19: correspondence harness for property C19 (unambiguous store keys; decoders never panic or hang).
//   - keys: lib.JoinLenPrefix / lib.DecodeLengthPrefixed and every key constructor of fsm/key.go are run on generated
//     component tuples (all lengths 0..255 and beyond, embedded length bytes, 0xFF runs) and compared in Coq with
//     model/Keys.v (join, decode, encode_key);
//   - decoders: structured mutations of valid encodings and random bytes are fed to the block / transaction /
//     certificate / consensus-message / peer-message decoders and the stateless checks that follow them, under recover
//     and a watchdog; a panic or hang is recorded as a direct violation.
package main

import (
	"bytes"
	"context"
	"flag"
	"fmt"
	"time"

	"bufio"
	"encoding/hex"
	"encoding/json"
	"os"
	"path/filepath"

	"google.golang.org/protobuf/encoding/protowire"

	"github.com/canopy-network/canopy/bft"
	"github.com/canopy-network/canopy/fsm"
	"github.com/canopy-network/canopy/lib"
	"github.com/canopy-network/canopy/lib/crypto"
	"verifharness/sim"
)

type stats struct {
	Cases      int            `json:"cases"`
	Distinct   int            `json:"distinct_nontrivial"`
	ByKind     map[string]int `json:"by_kind"`
	SegLens    map[string]int `json:"segment_length_classes"`
	DecodeOK   int            `json:"decoder_inputs_accepted"`
	DecodeRej  int            `json:"decoder_inputs_rejected"`
	DecodeRuns int            `json:"decoder_inputs"`
	Panics     int            `json:"panics"`
	Hangs      int            `json:"hangs"`
	Samples    []string       `json:"samples"`
}

var st = stats{ByKind: map[string]int{}, SegLens: map[string]int{}}
var seen = map[string]bool{}

func lenClass(n int) string {
	switch {
	case n == 0:
		return "0"
	case n == 1:
		return "1"
	case n < 20:
		return "2-19"
	case n == 20:
		return "20"
	case n < 255:
		return "21-254"
	case n == 255:
		return "255"
	case n == 256:
		return "256"
	default:
		return ">256"
	}
}

func genSeg(r *sim.Rng) []byte {
	var n int
	switch r.Intn(12) {
	case 0:
		n = 0
	case 1:
		n = 1
	case 2:
		n = 20
	case 3:
		n = 8
	case 4:
		n = 255
	case 5:
		n = 254
	case 6:
		n = 256
	case 7:
		n = 257 + r.Intn(60)
	default:
		n = r.Intn(40)
	}
	b := make([]byte, n)
	mode := r.Intn(4)
	for i := range b {
		switch mode {
		case 0:
			b[i] = byte(r.U64())
		case 1:
			b[i] = 0xFF
		case 2:
			b[i] = byte(r.Intn(4)) // embedded small length bytes
		default:
			b[i] = byte(n - i) // looks like a length prefix chain
		}
	}
	return b
}

func segsLit(segs [][]byte) string {
	ss := make([]string, len(segs))
	for i, s := range segs {
		ss[i] = sim.CoqBytes(s)
	}
	return sim.CoqList(ss)
}

func decodeSafe(k []byte) (segs [][]byte, ok bool) {
	defer func() {
		if recover() != nil {
			segs, ok = nil, false
		}
	}()
	return lib.DecodeLengthPrefixed(k), true
}

func eqSegs(a, b [][]byte) bool {
	if len(a) != len(b) {
		return false
	}
	for i := range a {
		if string(a[i]) != string(b[i]) {
			return false
		}
	}
	return true
}

func joinCases(r *sim.Rng, n int, w *sim.CaseWriter) {
	for i := 0; i < n; i++ {
		k := 1 + r.Intn(4)
		segs := make([][]byte, k)
		long := false
		for j := range segs {
			segs[j] = genSeg(r)
			st.SegLens[lenClass(len(segs[j]))]++
			if len(segs[j]) > 255 {
				long = true
			}
		}
		obs := lib.JoinLenPrefix(segs...)
		dec, ok := decodeSafe(obs)
		decodes := ok && eqSegs(dec, segs)
		lit := fmt.Sprintf("mkJoin %s %s %s", segsLit(segs), sim.CoqBytes(obs), sim.CoqBool(decodes))
		w.Add(lit, map[string]any{"kind": "join", "segments_hex": hexes(segs), "long_segment": long})
		st.Cases++
		st.ByKind["join"]++
		if !seen[lit] && k >= 2 {
			seen[lit] = true
			st.Distinct++
		}
		if len(st.Samples) < 2 {
			st.Samples = append(st.Samples, lit)
		}
	}
}

func hexes(segs [][]byte) []string {
	out := make([]string, len(segs))
	for i, s := range segs {
		out[i] = sim.Hex(s)
	}
	return out
}

func pickU64(r *sim.Rng) uint64 {
	return r.Pick(0, 1, 2, 255, 256, 65535, 1<<32, 1<<63, ^uint64(0), r.U64(), r.U64()%1000)
}

func keyCases(r *sim.Rng, n int, w *sim.CaseWriter) {
	for i := 0; i < n; i++ {
		addr := r.Bytes(20)
		if r.Chance(10) {
			for j := range addr {
				addr[j] = 0xFF
			}
		}
		a := crypto.NewAddress(addr)
		x, y := pickU64(r), pickU64(r)
		oid := r.Bytes([]int{0, 1, 20, 32, 40, 255}[r.Intn(6)])
		var lit string
		var obs []byte
		kind := r.Intn(16)
		switch kind {
		case 0:
			obs, lit = fsm.KeyForAccount(a), fmt.Sprintf("KAccount %s", sim.CoqBytes(addr))
		case 1:
			obs, lit = fsm.KeyForPool(x), fmt.Sprintf("KPool %s", sim.CoqN(x))
		case 2:
			obs, lit = fsm.KeyForValidator(a), fmt.Sprintf("KValidator %s", sim.CoqBytes(addr))
		case 3:
			obs, lit = fsm.KeyForCommittee(x, a, y), fmt.Sprintf("KCommittee %s %s %s", sim.CoqN(x), sim.CoqN(y), sim.CoqBytes(addr))
		case 4:
			obs, lit = fsm.KeyForUnstaking(x, a), fmt.Sprintf("KUnstaking %s %s", sim.CoqN(x), sim.CoqBytes(addr))
		case 5:
			obs, lit = fsm.KeyForPaused(x, a), fmt.Sprintf("KPaused %s %s", sim.CoqN(x), sim.CoqBytes(addr))
		case 6:
			sp := []string{fsm.ParamSpaceCons, fsm.ParamSpaceVal, fsm.ParamSpaceFee, fsm.ParamSpaceGov}[r.Intn(4)]
			obs = fsm.KeyForParams(sp)
			// the segment is prefixForParamSpace(space): recover it from the implementation's own decode (first segment is the family prefix)
			segs, _ := decodeSafe(obs)
			if len(segs) != 2 {
				continue
			}
			lit = fmt.Sprintf("KParams %s", sim.CoqBytes(segs[1]))
		case 7:
			obs, lit = fsm.KeyForNonSigner(addr), fmt.Sprintf("KNonSigner %s", sim.CoqBytes(addr))
		case 8:
			obs, lit = fsm.LastProposersPrefix(), "KLastProposers"
		case 9:
			obs, lit = fsm.SupplyPrefix(), "KSupply"
		case 10:
			obs, lit = fsm.KeyForDelegate(x, a, y), fmt.Sprintf("KDelegate %s %s %s", sim.CoqN(x), sim.CoqN(y), sim.CoqBytes(addr))
		case 11:
			obs, lit = fsm.CommitteesDataPrefix(), "KCommitteesData"
		case 12:
			obs, lit = fsm.KeyForOrder(x, oid), fmt.Sprintf("KOrder %s %s", sim.CoqN(x), sim.CoqBytes(oid))
		case 13:
			obs, lit = fsm.KeyForRetiredCommittee(x), fmt.Sprintf("KRetired %s", sim.CoqN(x))
		case 14:
			obs, lit = fsm.KeyForLockedBatch(x), fmt.Sprintf("KLockedBatch %s", sim.CoqN(x))
		case 15:
			obs, lit = fsm.KeyForNextBatch(x), fmt.Sprintf("KNextBatch %s", sim.CoqN(x))
		}
		full := fmt.Sprintf("mkKeyCase (%s) %s", lit, sim.CoqBytes(obs))
		w.Add(full, map[string]any{"kind": "key", "constructor": lit})
		st.Cases++
		st.ByKind["key"]++
		if !seen[full] {
			seen[full] = true
			st.Distinct++
		}
	}
}

// ---------------------------------------------------------------- decoder robustness

type target struct {
	name string
	run  func(b []byte) bool // returns accepted
}

func targets() []target {
	return []target{
		{"Transaction", func(b []byte) bool {
			tx := new(lib.Transaction)
			if err := lib.Unmarshal(b, tx); err != nil {
				return false
			}
			if err := tx.CheckBasic(); err != nil {
				return false
			}
			_, _ = tx.GetSignBytes()
			_, _ = tx.GetHash()
			if tx.Msg != nil {
				if m, err := lib.FromAny(tx.Msg); err == nil {
					if mi, ok := m.(lib.MessageI); ok {
						// the node only asks for the recipient of a message whose Check() passed (CheckTx -> ApplyTransaction)
						if mi.Check() == nil {
							_ = mi.Recipient()
						}
					}
				}
			}
			return true
		}},
		{"Block", func(b []byte) bool {
			blk := new(lib.Block)
			if _, err := blk.BytesToBlockHash(b); err != nil {
				return false
			}
			return blk.Check(1, 1) == nil
		}},
		{"QuorumCertificate", func(b []byte) bool {
			qc := new(lib.QuorumCertificate)
			if err := lib.Unmarshal(b, qc); err != nil {
				return false
			}
			if err := qc.CheckBasic(); err != nil {
				return false
			}
			_ = qc.SignBytes()
			_, _ = qc.CheckProposalBasic(1, 1, 1)
			return true
		}},
		{"BlockMessage", func(b []byte) bool {
			m := new(lib.BlockMessage)
			if err := lib.Unmarshal(b, m); err != nil {
				return false
			}
			if m.BlockAndCertificate != nil {
				_ = m.BlockAndCertificate.CheckBasic()
			}
			return true
		}},
		{"bft.Message", func(b []byte) bool {
			m := new(bft.Message)
			if err := lib.Unmarshal(b, m); err != nil {
				return false
			}
			_ = m.SignBytes()
			if m.Qc != nil {
				_ = m.Qc.CheckBasic()
			}
			return true
		}},
		{"Transaction-through-StateMachine", func(b []byte) bool {
			// what a node does with a transaction it was sent (mempool check / block validation): the real state machine,
			// from decoding to the authorized-signer lookup (which builds store keys from message fields) and the handler
			n := txNode()
			n.Enter()
			defer n.FSM.Reset()
			res := new(lib.ApplyBlockResults)
			if err := n.FSM.ApplyTransactions(context.Background(), [][]byte{b}, res, false); err != nil {
				return false
			}
			return len(res.Results) == 1
		}},
		{"bft.Message-through-gossip", func(b []byte) bool {
			// what ListenForConsensus does with a consensus message in gossip mode BEFORE any validation: decode, classify
			// (ShouldGossip), forward (GossipConsensus)
			m := new(bft.Message)
			if err := lib.Unmarshal(b, m); err != nil {
				return false
			}
			if m.IsProposerMessage() || m.IsPacemakerMessage() || m.IsReplicaMessage() {
				gossipNode().C.GossipConsensus(m, nil)
				return true
			}
			return false
		}},
		{"TxMessage", func(b []byte) bool {
			m := new(lib.TxMessage)
			return lib.Unmarshal(b, m) == nil
		}},
		{"DecodeLengthPrefixed(safe wrappers)", func(b []byte) bool {
			_, e1 := fsm.AddressFromKey(b)
			_, e2 := fsm.IdFromKey(b)
			return e1 == nil && e2 == nil
		}},
	}
}

var txNodeV *sim.FNode

// txNode: a small real chain (state machine over an in-memory store) that untrusted transactions are played against
func txNode() *sim.FNode {
	if txNodeV == nil {
		g := &sim.GenesisSpec{Params: fsm.DefaultParams()}
		for i := 0; i < 3; i++ {
			g.Validators = append(g.Validators, sim.StdValidator(i, 1000000, 1, 2))
			g.Accounts = append(g.Accounts, &fsm.Account{Address: sim.BLSKey(i).Addr, Amount: 5_000_000_000})
		}
		n, err := sim.NewFNode(g.State(), nil)
		if err != nil {
			panic(err)
		}
		txNodeV = n
	}
	return txNodeV
}

var gossipNodeV *sim.CNode

// gossipNode: a controller with an (unstarted, peerless) P2P module
func gossipNode() *sim.CNode {
	if gossipNodeV == nil {
		g := &sim.GenesisSpec{Params: fsm.DefaultParams()}
		for i := 0; i < 3; i++ {
			g.Validators = append(g.Validators, sim.StdValidator(i, 1000000))
			g.Accounts = append(g.Accounts, &fsm.Account{Address: sim.BLSKey(i).Addr, Amount: 5_000_000_000})
		}
		n, err := sim.NewCNode(g.State(), 0, nil)
		if err != nil {
			panic(err)
		}
		gossipNodeV = n
	}
	return gossipNodeV
}

func seeds(r *sim.Rng) map[string][][]byte {
	out := map[string][][]byte{}
	k := sim.BLSKey(0)
	tx, _ := fsm.NewSendTransaction(k.Priv, crypto.NewAddress(sim.BLSKey(1).Addr), 5, 1, 1, 10000, 3, "memo")
	txb, _ := lib.Marshal(tx)
	out["Transaction"] = [][]byte{txb}
	// order messages whose order id is of every length class, signed or with a garbage signature (the authorized signers are
	// looked up - by order id - before the signature is verified)
	sm := [][]byte{txb}
	for _, n := range []int{0, 1, 20, 32, 255, 256, 300, 511, 512, 1000} {
		id := lib.BytesToString(bytes.Repeat([]byte{0xFE}, n))
		if t, e := fsm.NewDeleteOrderTx(k.Priv, id, 2, 1, 1, 10000, 1, "d"); e == nil {
			b, _ := lib.Marshal(t)
			sm = append(sm, b)
		}
		if t, e := fsm.NewEditOrderTx(k.Priv, id, 1000, 10, 2, nil, k.Addr, 1, 1, 10000, 1, "e"); e == nil {
			b, _ := lib.Marshal(t)
			sm = append(sm, b)
			bad := new(lib.Transaction)
			if lib.Unmarshal(b, bad) == nil && bad.Signature != nil {
				bad.Signature.Signature = bytes.Repeat([]byte{0x42}, 96)
				b2, _ := lib.Marshal(bad)
				sm = append(sm, b2)
			}
		}
	}
	out["Transaction-through-StateMachine"] = sm
	hdr := &lib.BlockHeader{Height: 3, NetworkId: 1, Time: 77, ProposerAddress: k.Addr, LastBlockHash: crypto.Hash([]byte("a")), StateRoot: crypto.Hash([]byte("b")),
		TransactionRoot: crypto.Hash([]byte("c")), ValidatorRoot: crypto.Hash([]byte("d")), NextValidatorRoot: crypto.Hash([]byte("e"))}
	blk := &lib.Block{BlockHeader: hdr, Transactions: [][]byte{txb}}
	_, _ = hdr.SetHash()
	bb, _ := lib.Marshal(blk)
	out["Block"] = [][]byte{bb}
	res := &lib.CertificateResult{RewardRecipients: &lib.RewardRecipients{PaymentPercents: []*lib.PaymentPercents{{Address: k.Addr, Percent: 100, ChainId: 1}}}}
	rb, _ := lib.Marshal(res)
	qc := &lib.QuorumCertificate{Header: &lib.View{NetworkId: 1, ChainId: 1, Height: 3, RootHeight: 3, Phase: lib.Phase_PRECOMMIT_VOTE}, Results: res, ResultsHash: crypto.Hash(rb),
		Block: bb, BlockHash: hdr.Hash, ProposerKey: k.Pub, Signature: &lib.AggregateSignature{Signature: make([]byte, 96), Bitmap: []byte{1}}}
	qb, _ := lib.Marshal(qc)
	out["QuorumCertificate"] = [][]byte{qb}
	bm, _ := lib.Marshal(&lib.BlockMessage{ChainId: 1, BlockAndCertificate: qc, Time: 9})
	out["BlockMessage"] = [][]byte{bm}
	msg := &bft.Message{Header: qc.Header, Qc: qc, Signature: &lib.Signature{PublicKey: k.Pub, Signature: make([]byte, 96)}}
	mb, _ := lib.Marshal(msg)
	out["bft.Message"] = [][]byte{mb}
	// proposer messages (header set) whose certificate has no header / is empty, a replica vote, a pacemaker message
	el := &bft.Message{Header: &lib.View{NetworkId: 1, ChainId: 1, Height: 3, RootHeight: 3, Phase: lib.Phase_ELECTION}, Qc: &lib.QuorumCertificate{}}
	elb, _ := lib.Marshal(el)
	vote := &bft.Message{Qc: &lib.QuorumCertificate{Header: &lib.View{NetworkId: 1, ChainId: 1, Height: 3, RootHeight: 3, Phase: lib.Phase_PROPOSE_VOTE}, BlockHash: hdr.Hash, ResultsHash: crypto.Hash(rb), ProposerKey: k.Pub},
		Signature: &lib.Signature{PublicKey: k.Pub, Signature: make([]byte, 96)}}
	vb, _ := lib.Marshal(vote)
	pm := &bft.Message{Qc: &lib.QuorumCertificate{Header: &lib.View{NetworkId: 1, ChainId: 1, Height: 3, RootHeight: 3, Round: 2, Phase: lib.Phase_ROUND_INTERRUPT}}}
	pb, _ := lib.Marshal(pm)
	out["bft.Message-through-gossip"] = [][]byte{mb, elb, vb, pb, {0x0a, 0x02, 0x30, 0x01, 0x1a, 0x00}}
	tm, _ := lib.Marshal(&lib.TxMessage{ChainId: 1, Txs: [][]byte{txb, txb}})
	out["TxMessage"] = [][]byte{tm}
	out["DecodeLengthPrefixed(safe wrappers)"] = [][]byte{fsm.KeyForAccount(crypto.NewAddress(k.Addr)), fsm.KeyForPool(7)}
	return out
}

// lengthAttack rewrites the length varint of one length-delimited field (chosen at a random nesting depth) with a
// boundary value: values that wrap int / int32 conversions, exceed the buffer by one, or are astronomically large.
func lengthAttack(r *sim.Rng, b []byte, depth int) []byte {
	type fld struct{ start, lenPos, valPos, end int }
	var fs []fld
	off := 0
	for off < len(b) {
		_, wt, n := protowire.ConsumeTag(b[off:])
		if n < 0 {
			break
		}
		start := off
		off += n
		if wt == protowire.BytesType {
			l, m := protowire.ConsumeVarint(b[off:])
			if m < 0 || uint64(len(b)-off-m) < l {
				break
			}
			fs = append(fs, fld{start, off, off + m, off + m + int(l)})
			off += m + int(l)
		} else {
			m := protowire.ConsumeFieldValue(1, wt, b[off:])
			if m < 0 {
				break
			}
			off += m
		}
	}
	if len(fs) == 0 {
		return append([]byte{}, b...)
	}
	f := fs[r.Intn(len(fs))]
	if depth > 0 && r.Bool() && f.end-f.valPos > 2 {
		inner := lengthAttack(r, b[f.valPos:f.end], depth-1)
		out := append([]byte{}, b[:f.lenPos]...)
		out = protowire.AppendVarint(out, uint64(len(inner)))
		out = append(out, inner...)
		return append(out, b[f.end:]...)
	}
	real := uint64(f.end - f.valPos)
	vals := []uint64{real + 1, real - 1, 1 << 31, 1<<31 - 1, 1 << 32, 1<<32 + real, 1 << 62, 1 << 63, 1<<63 + real, ^uint64(0), ^uint64(0) - real, ^uint64(0) - uint64(f.valPos), ^uint64(0) - uint64(f.valPos) + 1, ^uint64(0) - uint64(r.Intn(200))}
	out := append([]byte{}, b[:f.lenPos]...)
	out = protowire.AppendVarint(out, vals[r.Intn(len(vals))])
	return append(out, b[f.valPos:]...)
}

func mutate(r *sim.Rng, b []byte) []byte {
	c := append([]byte{}, b...)
	switch r.Intn(12) {
	case 9, 10, 11:
		return lengthAttack(r, b, 3)
	case 0: // truncate
		if len(c) > 0 {
			c = c[:r.Intn(len(c))]
		}
	case 1: // flip a bit
		if len(c) > 0 {
			c[r.Intn(len(c))] ^= 1 << uint(r.Intn(8))
		}
	case 2: // set a byte to a length-like value
		if len(c) > 0 {
			c[r.Intn(len(c))] = byte(r.Pick(0, 1, 0x7f, 0x80, 0xff, 0xfe))
		}
	case 3: // append unknown field / garbage
		c = append(c, r.Bytes(1+r.Intn(12))...)
	case 4: // huge varint length
		i := 0
		if len(c) > 0 {
			i = r.Intn(len(c))
		}
		c = append(append(append([]byte{}, c[:i]...), 0xff, 0xff, 0xff, 0xff, 0xff, 0xff, 0xff, 0xff, 0xff, 0x01), c[i:]...)
	case 5: // duplicate a slice
		if len(c) > 2 {
			i := r.Intn(len(c) - 1)
			j := i + 1 + r.Intn(len(c)-i-1)
			c = append(append(append([]byte{}, c[:j]...), c[i:j]...), c[j:]...)
		}
	case 6: // deep nesting of group/len-delimited tags
		n := 50 + r.Intn(200)
		var d []byte
		for k := 0; k < n; k++ {
			d = append(d, 0x0a, 0x7f)
		}
		c = append(d, c...)
	case 7: // random
		c = r.Bytes(r.Intn(64))
	case 8: // two mutations
		return mutate(r, mutate(r, b))
	}
	return c
}

func runGuarded(outDir string, t target, b []byte) (accepted bool) {
	done := make(chan int, 1)
	go func() {
		defer func() {
			if p := recover(); p != nil {
				st.Panics++
				sim.Direct(outDir, map[string]any{"finding": "panic-" + t.name, "kind": "decoder-panic", "decoder": t.name, "input_hex": sim.Hex(b), "panic": fmt.Sprint(p)})
				done <- 2
			}
		}()
		if t.run(b) {
			done <- 1
		} else {
			done <- 0
		}
	}()
	select {
	case v := <-done:
		return v == 1
	case <-time.After(5 * time.Second):
		// slow is not hung: on a loaded machine a decoder run can be descheduled for seconds.  A hang is a run that does not
		// finish at all - it gets two more minutes before it is reported.
		select {
		case v := <-done:
			return v == 1
		case <-time.After(120 * time.Second):
		}
		st.Hangs++
		sim.Direct(outDir, map[string]any{"finding": "hang-" + t.name, "kind": "decoder-hang", "decoder": t.name, "input_hex": sim.Hex(b)})
		return false
	}
}

// corpusRuns replays the committed corpus (minimised earlier failures and directed boundary inputs) first.
func corpusRuns(dir, outDir string) {
	f, err := os.Open(filepath.Join(dir, "decoder_inputs.jsonl"))
	if err != nil {
		return
	}
	defer f.Close()
	byName := map[string]target{}
	for _, t := range targets() {
		byName[t.name] = t
	}
	sc := bufio.NewScanner(f)
	sc.Buffer(make([]byte, 1<<20), 1<<24)
	for sc.Scan() {
		var e struct {
			Decoder string `json:"decoder"`
			Hex     string `json:"input_hex"`
		}
		if json.Unmarshal(sc.Bytes(), &e) != nil {
			continue
		}
		b, err := hex.DecodeString(e.Hex)
		if err != nil {
			continue
		}
		ts := []target{}
		if t, ok := byName[e.Decoder]; ok {
			ts = append(ts, t)
		} else {
			ts = targets()
		}
		for _, t := range ts {
			if runGuarded(outDir, t, b) {
				st.DecodeOK++
			} else {
				st.DecodeRej++
			}
			st.DecodeRuns++
			st.ByKind["corpus"]++
		}
	}
}

func decoderRuns(r *sim.Rng, n int, outDir string) {
	sd := seeds(r)
	for _, t := range targets() {
		for _, s := range sd[t.name] {
			if runGuarded(outDir, t, s) {
				st.DecodeOK++
			} else {
				st.DecodeRej++
			}
			st.DecodeRuns++
			nm := n
			if t.name == "Transaction-through-StateMachine" {
				nm = n / 25 // many seeds, each run goes through the state machine
			}
			for i := 0; i < nm; i++ {
				m := mutate(r, s)
				if runGuarded(outDir, t, m) {
					st.DecodeOK++
				} else {
					st.DecodeRej++
				}
				st.DecodeRuns++
			}
		}
	}
}

func main() {
	nJoin := flag.Int("join", 300, "JoinLenPrefix cases")
	nKey := flag.Int("keys", 300, "key constructor cases")
	nDec := flag.Int("decode", 1500, "mutations per decoder seed")
	outDir := flag.String("outdir", ".", "output directory")
	_ = flag.String("replay", "", "replay file (cases regenerate deterministically from the seed)")
	corpus := flag.String("corpus", "/verif/corpus/C19", "corpus directory")
	flag.Parse()
	r := sim.NewRng(sim.SeedFromEnv())
	wj := &sim.CaseWriter{OutDir: *outDir, Name: "c19join", Imports: "From V Require Import Bytes Keys KeysCheck.", CaseType: "join_case", MFun: "join_mismatches", VFun: "join_violations", PerShard: 100}
	joinCases(r.Fork(), *nJoin, wj)
	wj.Close(st)
	wk := &sim.CaseWriter{OutDir: *outDir, Name: "c19key", Imports: "From V Require Import Bytes Keys KeysCheck.", CaseType: "key_case", MFun: "key_mismatches", VFun: "key_violations", PerShard: 150}
	keyCases(r.Fork(), *nKey, wk)
	// order ids of every length class through the message checks of the three places that take one from the wire
	wo := &sim.CaseWriter{OutDir: *outDir, Name: "c19oid", Imports: "From V Require Import Bytes Keys KeysCheck.", CaseType: "oid_case", MFun: "oid_mismatches", VFun: "oid_violations", PerShard: 200}
	for _, n := range []int{0, 1, 19, 20, 21, 32, 64, 254, 255, 256, 257, 300, 511, 512, 513, 1000, 65536} {
		id := bytes.Repeat([]byte{0xFE}, n)
		del := (&fsm.MessageDeleteOrder{OrderId: id, ChainId: 2}).Check() == nil
		edit := (&fsm.MessageEditOrder{OrderId: id, ChainId: 2, AmountForSale: 5, RequestedAmount: 5, SellerReceiveAddress: bytes.Repeat([]byte{1}, 20)}).Check() == nil
		for _, acc := range []bool{del, edit} {
			wo.Add(fmt.Sprintf("mkOid %d %s", n, sim.CoqBool(acc)), map[string]any{"kind": "order-id-check", "len": n, "accepted": acc})
			st.Cases++
			st.ByKind["order-id-check"]++
		}
	}
	wo.Close(st)
	corpusRuns(*corpus, *outDir)
	decoderRuns(r.Fork(), *nDec, *outDir)
	ethCallDataRuns(r.Fork(), *outDir)
	wk.Close(st)
	ws := &sim.CaseWriter{OutDir: *outDir, Name: "c19sign", Imports: "From V Require Import Bytes Proto.", CaseType: "pcase", MFun: "proto_mismatches", VFun: "", PerShard: 150}
	signBytesCases(r.Fork(), *nKey, ws, *outDir)
	ws.Close(st)
	fmt.Printf("c19: %d key cases (%d distinct), %d decoder inputs (%d accepted, %d rejected), %d panics, %d hangs\n", st.Cases, st.Distinct, st.DecodeRuns, st.DecodeOK, st.DecodeRej, st.Panics, st.Hangs)
}
