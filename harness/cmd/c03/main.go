// c03: multi-path differential harness for property C03 (deterministic replicated execution) — also serves C11's first clause.
// Four real nodes (controller.Controller + FSM + store) share a genesis.  For every block:
//
//	A (rotating leader) builds the proposal from its mempool (ProduceProposal; the mempool holds valid, invalid, conflicting
//	  and exactly-draining transactions, sometimes more than 16 state operations so that the 8-way parallel tree commit runs);
//	B validates it (ValidateProposal) and commits with the CACHED block result;
//	C commits it by REPLAY only (no validation, no cached result);
//	D runs on a re-openable store, is restarted (database closed and re-opened, all in-memory caches fresh) every few blocks and
//	  commits by replay; D also runs speculative validations of a DIFFERENT proposal that are discarded before the real one.
//
// GOMAXPROCS is varied between runs.  After every block each node reports (block hash, state root, results hash, store root);
// all must be identical.  The records go to Coq (uniform pipeline): the model of "the header is a function of (prefix, block)" is
// that all reports are equal.
package main

import (
	"bytes"
	"flag"
	"fmt"
	"os"
	"runtime"

	"github.com/cockroachdb/pebble/v2/vfs"

	"github.com/canopy-network/canopy/fsm"
	"github.com/canopy-network/canopy/lib"
	"github.com/canopy-network/canopy/lib/crypto"
	"verifharness/sim"
)

type stats struct {
	Cases            int            `json:"cases"`
	Distinct         int            `json:"distinct_nontrivial"`
	Blocks           int            `json:"blocks"`
	Txs              int            `json:"transactions_included"`
	Dropped          int            `json:"transactions_dropped_by_proposer"`
	Restarts         int            `json:"restarts"`
	RootsChecked     int            `json:"committed_state_roots_compared_with_header"`
	RestartedRounds  int            `json:"rounds_restarted_between_validation_and_commit"`
	Specul           int            `json:"discarded_speculative_validations"`
	Archive          int            `json:"heights_revalidated_from_archive"`
	Unusual          int            `json:"unusually_encoded_transactions_offered"`
	VoteFlips        int            `json:"vote_window_closed_between_caching_and_proposing"`
	FullBlocks       int            `json:"full_blocks_of_small_transactions"`
	FullBlockTxs     int            `json:"transactions_in_the_full_block"`
	FullBlockBytes   int            `json:"serialized_bytes_of_the_full_block"`
	SmallBlockChains int            `json:"chains_with_a_block_size_of_a_few_transactions"`
	Followed         int            `json:"heights_followed_in_sync_mode_from_the_tip"`
	ForgedTwice      int            `json:"forged_signature_transactions_offered_twice"`
	CertVariants     int            `json:"nodes_given_a_commit_certificate_with_another_signer_set"`
	Kinds            map[string]int `json:"tx_kinds_offered"`
	Procs            map[string]int `json:"gomaxprocs"`
	BigBlocks        int            `json:"blocks_with_16_or_more_state_ops"`
	Samples          []string       `json:"samples"`
}

var st = stats{Kinds: map[string]int{}, Procs: map[string]int{}}

type report struct{ blockHash, stateRoot, resultsHash, storeRoot []byte }

func tag(b []byte) string {
	if len(b) == 0 {
		return "0%N"
	}
	return "0x" + sim.Hex(b) + "%N"
}

func reportOf(n *sim.CNode, h uint64) report {
	n.Enter()
	blk, err := n.C.FSM.LoadBlock(h)
	if err != nil || blk == nil || blk.BlockHeader == nil {
		return report{}
	}
	qc, _ := n.C.FSM.LoadCertificateHashesOnly(h)
	var rh []byte
	if qc != nil {
		rh = qc.ResultsHash
	}
	// the state committed with the block is the state the header names
	if st0, ok := n.C.FSM.Store().(lib.StoreI); ok {
		if ro, e := st0.NewReadOnly(st0.Version()); e == nil {
			st.RootsChecked++
			if root, e2 := ro.Root(); e2 == nil && !bytes.Equal(root, blk.BlockHeader.StateRoot) {
				sim.Direct(outDirG, map[string]any{"finding": "committed-state-is-not-the-block-state", "kind": "the state root committed with a block differs from the state root in its header",
					"height": h, "header_root": sim.Hex(blk.BlockHeader.StateRoot), "committed_root": sim.Hex(root)})
			}
			ro.Discard()
		}
	}
	return report{blk.BlockHeader.Hash, blk.BlockHeader.StateRoot, rh, nil}
}

var outDirG = "."

var smallBlocks = os.Getenv("VERIF_SMALL_BLOCKS") != "0"

func main() {
	nChains := flag.Int("chains", 3, "independent chains")
	nBlocks := flag.Int("blocks", 12, "blocks per chain")
	outDir := flag.String("outdir", ".", "output directory")
	prop := flag.Int("prop", 0, "3: the execution paths only; 11 (or 0): also fresh nodes syncing from the archive")
	_ = flag.String("replay", "", "replay file (cases regenerate deterministically from the seed)")
	flag.Parse()
	outDirG = *outDir
	r := sim.NewRng(sim.SeedFromEnv())
	cw := &sim.CaseWriter{OutDir: *outDir, Name: "c03", Imports: "From V Require Import Paths.", CaseType: "path_case", MFun: "path_mismatches", VFun: "path_violations", PerShard: 200}
	for c := 0; c < *nChains; c++ {
		procs := []int{1, 2, 16}[c%3]
		runtime.GOMAXPROCS(procs)
		st.Procs[fmt.Sprint(procs)]++
		nv := 4
		g := &sim.GenesisSpec{}
		p := fsm.DefaultParams()
		p.Validator.UnstakingBlocks = 2
		if smallBlocks && c%3 == 1 {
			// a block size that a handful of transactions exceed: the proposer executes more than fits ("oversize": executed to keep
			// the mempool tidy, not included) - what it did with them must not show in the block it proposes
			p.Consensus.BlockSize = lib.MaxBlockHeaderSize + 1200
			st.SmallBlockChains++
		}
		fullBlockChain := c%3 == 0
		if fullBlockChain {
			// a block size that several hundred small transactions fill: one block of this chain is built from a mempool that
			// exceeds it (a FULL block of many small transactions - the size limit every node applies must be the one the
			// proposer filled the block by)
			p.Consensus.BlockSize = lib.MaxBlockHeaderSize + 170000
		}
		g.Params = p
		for i := 0; i < nv; i++ {
			g.Validators = append(g.Validators, sim.StdValidator(i, 1000000+uint64(i)))
		}
		nKeys := 10
		for i := 0; i < nKeys; i++ {
			g.Accounts = append(g.Accounts, &fsm.Account{Address: sim.BLSKey(i).Addr, Amount: 5_000_000_000})
		}
		// accounts under the other signature schemes (their verification goes through the batch verifier's per-scheme paths)
		edKey, _ := crypto.NewEd25519PrivateKey()
		skKey, _ := crypto.NewSECP256K1PrivateKey()
		otherKeys := []crypto.PrivateKeyI{edKey, skKey}
		for _, k := range otherKeys {
			g.Accounts = append(g.Accounts, &fsm.Account{Address: k.PublicKey().Address().Bytes(), Amount: 5_000_000_000})
		}
		sim.RegisterKeys(16)
		var nodes []*sim.CNode
		for i := 0; i < 4; i++ {
			var n *sim.CNode
			var err error
			if i == 3 {
				n, err = sim.NewCNodeFS(g.State(), i, nil, vfs.NewMem())
			} else {
				n, err = sim.NewCNode(g.State(), i, nil)
			}
			if err != nil {
				panic(err)
			}
			nodes = append(nodes, n)
		}
		// a node that follows the chain in SYNC mode, one height behind the tip: it takes each block from node 0's archive at the
		// moment node 0 is at its tip (node 0 then still holds ITS OWN commit certificate of that block, which the next block's
		// header need not embed)
		var follower *sim.CNode
		{ // (for C03 as well: replaying a block in sync mode is one of the execution paths that must give the same header)
			f, ferr := sim.NewCNode(g.State(), 2, nil)
			if ferr != nil {
				panic(ferr)
			}
			follower = f
			follower.C.Syncing().Store(true) // a node that is catching up
		}
		gen := sim.NewTxGen(r.Fork(), nKeys)
		gen.Stable = 2 // two validators never leave: the committee stays alive
		// the last chain is a long one: it runs through the checkpoint height (every 100th block carries a checkpoint in its
		// certificate results), quietly until shortly before it
		blocks, long := *nBlocks, c == *nChains-1
		if long {
			blocks = 104
		}
		for b := 0; b < blocks; b++ {
			leader := nodes[b%3]
			leader.Enter()
			h := leader.C.FSM.Height()
			var txs [][]byte
			ntx := r.Intn(8)
			if r.Chance(25) {
				ntx = 10 + r.Intn(12)
			}
			if long && h < 96 {
				ntx = 0
				if r.Chance(10) {
					ntx = 1
				}
			}
			for i := 0; i < ntx; i++ {
				tx, _ := gen.Next(leader.C.FSM)
				if len(tx) > 0 && r.Chance(8) {
					// an unusually encoded copy of a transaction (explicit default field appended / fee as a non-minimal varint):
					// it decodes to the same transaction; it must not make the block unportable (C11) nor execute twice (C06)
					if r.Bool() {
						tx = append(append([]byte{}, tx...), 0x3a, 0x00)
					} else {
						tx = append(append([]byte{}, tx...), 0x50, 0x80, 0x00)
					}
					st.Unusual++
				}
				txs = append(txs, tx)
			}
			if fullBlockChain && b == 3 {
				sendFee := uint64(10000)
				if fp, e := leader.C.FSM.GetParamsFee(); e == nil && fp != nil {
					sendFee = fp.SendFee // governance may have changed it in an earlier block of this chain
				}
				for i := 0; i < 900; i++ {
					k := sim.BLSKey(i % nKeys)
					t, terr := fsm.NewSendTransaction(k.Priv, crypto.NewAddress(sim.BLSKey((i+1)%nKeys).Addr), 1, 1, 1, sendFee, h, fmt.Sprintf("f%d", i))
					if terr == nil {
						bz, _ := lib.Marshal(t)
						txs = append(txs, bz)
					}
				}
				st.FullBlocks++
			}
			if len(txs) > 1 && r.Chance(30) {
				txs = append(txs, txs[0]) // duplicate offered twice
			}
			// a transfer under an ed25519 / secp256k1 key: honest, or with a forged signature that the leader's mempool sees twice
			// (submitted, refused, submitted again): a refusal must not be remembered as an acceptance
			if r.Chance(60) {
				k := otherKeys[r.Intn(len(otherKeys))]
				t, terr := fsm.NewSendTransaction(k, crypto.NewAddress(sim.BLSKey(r.Intn(nKeys)).Addr), 100+uint64(b), 1, 1, 10000, h, fmt.Sprintf("o%d", b))
				if terr == nil {
					bz, _ := lib.Marshal(t)
					if r.Chance(35) {
						tx := new(lib.Transaction)
						_ = lib.Unmarshal(bz, tx)
						tx.Signature.Signature[r.Intn(len(tx.Signature.Signature))] ^= 0x40
						bz, _ = lib.Marshal(tx)
						leader.Enter()
						_ = leader.C.Mempool.HandleTransactions(bz)
						st.ForgedTwice++
					}
					txs = append(txs, bz)
				}
			}
			for _, nd := range nodes { // every operator votes yes on the governance proposals of this round
				nd.ApproveGov(txs)
			}
			// sometimes the vote window closes between the moment the leader cached its proposal and the moment it proposes: the
			// cached block was built while governance proposals on the approve list were acceptable, now every node rejects them
			hasGov := false
			for _, bz := range txs {
				t := new(lib.Transaction)
				if lib.Unmarshal(bz, t) == nil && (t.MessageType == fsm.MessageChangeParameterName || t.MessageType == fsm.MessageDAOTransferName) {
					hasGov = true
				}
			}
			if hasGov && r.Chance(50) && !(fullBlockChain && b == 3) {
				if _, e := leader.Propose(txs); e == nil {
					for _, nd := range nodes {
						nd.CloseVoteWindow()
					}
					txs = nil // they are in the leader's mempool already
					st.VoteFlips++
				}
			}
			prop, perr := leader.Propose(txs)
			if perr != nil {
				sim.Direct(*outDir, map[string]any{"finding": "proposer-cannot-build-block", "kind": "ProduceProposal failed", "height": h, "error": perr.Error()})
				break
			}
			blk := new(lib.Block)
			_ = lib.Unmarshal(prop.Block, blk)
			st.Txs += len(blk.Transactions)
			if fullBlockChain && b == 3 {
				if os.Getenv("VERIF_DEBUG") != "" {
					mbs, _ := leader.C.FSM.GetMaxBlockSize()
					fmt.Fprintf(os.Stderr, "full block: offered %d, included %d, mempool count %d, height %d, max block size %d, first tx %d bytes\n", len(txs), len(blk.Transactions), leader.C.Mempool.TxCount(), h, mbs, len(blk.Transactions[0]))
				}
				st.FullBlockTxs = len(blk.Transactions)
				st.FullBlockBytes = len(prop.Block)
			}
			st.Dropped += len(txs) - len(blk.Transactions)
			if len(blk.Transactions) >= 6 {
				st.BigBlocks++
			}
			view := leader.CommitView()
			vs, verr := leader.Committee(view.RootHeight)
			if verr != nil {
				break // no committee left: the chain ends here (outside the property)
			}
			qc, qerr := sim.MakeQC(vs, view, sim.BLSKey(leader.KeyIdx).Pub, prop, sim.AllSigners(vs))
			if qerr != nil {
				panic(qerr)
			}
			// several valid commit certificates exist for one block (any +2/3 of the committee): each node ends up with its own -
			// all signers, or all but one. The proposer of the next block embeds ITS certificate of this block in the header;
			// what the others (and the archive a fresh node syncs from) stored may differ in the signer bitmap
			variants := make([]*lib.QuorumCertificate, len(nodes))
			for i := range nodes {
				variants[i] = qc
				if n := len(vs.ValidatorSet.ValidatorSet); n >= 4 && r.Chance(35) {
					drop := r.Intn(n)
					var signers []int
					for k := 0; k < n; k++ {
						if k != drop {
							signers = append(signers, k)
						}
					}
					if alt, e := sim.MakeQC(vs, view, sim.BLSKey(leader.KeyIdx).Pub, prop, signers); e == nil {
						if partial, cerr := alt.Check(vs, lib.GlobalMaxBlockSize, view, false); cerr == nil && !partial {
							variants[i] = alt
							st.CertVariants++
						}
					}
				}
			}
			var reps []report
			var names []string
			fail := func(who string, err lib.ErrorI) {
				sim.Direct(*outDir, map[string]any{"finding": "honest-block-rejected-" + who, "kind": "path disagreement", "path": who, "height": h, "error": err.Error()})
			}
			ok := true
			for i, n := range nodes {
				n.Enter()
				qc := variants[i]
				if n != leader {
					// the nodes run in one process and would share the process-wide signature cache with the leader: a replica
					// starts each validation with a cache of its own (cold)
					_ = crypto.SignatureCache.Reset()
				}
				switch i {
				case 0, 1, 2:
					if n == leader || i == 1 {
						// validate, then commit with the cached result (what a replica that voted does)
						res, err := n.C.ValidateProposal(prop.RCBuildHeight, sim.CloneQC(qc), sim.NoEvidence())
						if err != nil {
							fail(fmt.Sprintf("validate-node%d", i), err)
							ok = false
							break
						}
						n.C.Consensus.BlockResult = res
						if n != leader && r.Chance(30) {
							// a root-chain update restarts the rounds before the commit arrives (NewHeight(true) -> NewRound(true)); the
							// replica is elected for the new round 0, holds no lock and builds a proposal of its own (ProduceProposal
							// ends by resetting the state machine). The block it had validated is then committed by the others and
							// reaches it as a peer block: what it commits must be that block's state
							n.C.Consensus.NewRound(true)
							_, _, _, _ = n.C.ProduceProposal(sim.NoEvidence(), nil)
							st.RestartedRounds++
						}
						if err := n.Deliver(sim.CloneQC(qc), false); err != nil {
							fail(fmt.Sprintf("commit-cached-node%d", i), err)
							ok = false
						}
						n.C.Consensus.BlockResult = nil
						names = append(names, "validate+commit-cached")
					} else {
						if err := n.Deliver(sim.CloneQC(qc), false); err != nil {
							fail(fmt.Sprintf("commit-replay-node%d", i), err)
							ok = false
						}
						names = append(names, "commit-replay")
					}
				case 3:
					if b%3 == 2 {
						if err := n.RestartProcess(); err != nil {
							panic(err)
						}
						st.Restarts++
					}
					// a speculative validation of a tampered proposal that must leave no trace
					if r.Chance(70) {
						bad := sim.CloneQC(qc)
						bb := new(lib.Block)
						_ = lib.Unmarshal(bad.Block, bb)
						if len(bb.Transactions) > 0 {
							bb.Transactions = bb.Transactions[:len(bb.Transactions)-1]
						} else {
							bb.BlockHeader.Time++
						}
						// or: one transaction's signature corrupted (the block is then invalid for that reason alone)
						if len(bb.Transactions) > 0 && r.Bool() {
							_ = lib.Unmarshal(qc.Block, bb)
							k := r.Intn(len(bb.Transactions))
							for j, raw := range bb.Transactions { // prefer a transaction under a non-BLS key (other verification paths)
								t := new(lib.Transaction)
								if lib.Unmarshal(raw, t) == nil && t.Signature != nil && len(t.Signature.PublicKey) != crypto.BLS12381PubKeySize {
									k = j
								}
							}
							tx := new(lib.Transaction)
							if lib.Unmarshal(bb.Transactions[k], tx) == nil && tx.Signature != nil && len(tx.Signature.Signature) > 0 {
								tx.Signature.Signature[r.Intn(len(tx.Signature.Signature))] ^= 0x20
								bb.Transactions[k], _ = lib.Marshal(tx)
							}
						}
						_, _ = bb.BlockHeader.SetHash()
						bad.Block, _ = lib.Marshal(bb)
						bad.BlockHash = bb.BlockHeader.Hash
						// validated twice: the verdict on one and the same proposal must not depend on having seen it before
						_, e1 := n.C.ValidateProposal(prop.RCBuildHeight, sim.CloneQC(bad), sim.NoEvidence())
						_, e2 := n.C.ValidateProposal(prop.RCBuildHeight, sim.CloneQC(bad), sim.NoEvidence())
						if (e1 == nil) != (e2 == nil) || (e1 != nil && e2 != nil && e1.Code() != e2.Code()) {
							sim.Direct(*outDir, map[string]any{"finding": "verdict-depends-on-earlier-execution", "kind": "the same tampered proposal is judged differently the second time it is validated",
								"height": h, "first": fmt.Sprint(e1), "second": fmt.Sprint(e2)})
						}
						st.Specul++
					}
					if err := n.Deliver(sim.CloneQC(qc), false); err != nil {
						fail("commit-after-restart-node3", err)
						ok = false
					}
					names = append(names, "restart+speculation+commit-replay")
				}
				if !ok {
					break
				}
				reps = append(reps, reportOf(n, h))
			}
			if !ok {
				break
			}
			// proposer's own view of the header
			reps = append(reps, report{blk.BlockHeader.Hash, blk.BlockHeader.StateRoot, crypto.Hash(mustMarshal(prop.Results)), nil})
			names = append(names, "proposer")
			var items []string
			for i, rp := range reps {
				items = append(items, fmt.Sprintf("(%d%%N, %s, %s, %s)", i, tag(rp.blockHash), tag(rp.stateRoot), tag(rp.resultsHash)))
				if !bytes.Equal(rp.blockHash, reps[0].blockHash) || !bytes.Equal(rp.stateRoot, reps[0].stateRoot) {
					sim.Direct(*outDir, map[string]any{"finding": "header-differs-between-paths", "kind": "nondeterministic header", "height": h, "path": names[i]})
				}
			}
			lit := fmt.Sprintf("mkPath %d%%N %s", h, sim.CoqList(items))
			if follower != nil {
				nodes[0].Enter()
				if tipQC, lerr := nodes[0].C.LoadCertificate(h); lerr == nil && tipQC != nil {
					if derr := follower.Deliver(sim.CloneQC(tipQC), true); derr != nil {
						sim.Direct(*outDir, map[string]any{"finding": "served-block-rejected-by-following-node", "kind": "a node following the chain in sync mode cannot validate the block the archive serves at its tip",
							"height": h, "error": derr.Error()})
						follower.Close()
						follower = nil
					} else {
						st.Followed++
					}
				}
			}
			cw.Add(lit, map[string]any{"kind": "block", "height": h, "paths": names, "txs": len(blk.Transactions), "gomaxprocs": procs})
			st.Cases++
			st.Blocks++
			if len(blk.Transactions) > 0 {
				st.Distinct++
			}
			if len(st.Samples) < 2 {
				st.Samples = append(st.Samples, lit)
			}
		}
		// C11: a fresh node catches up from what node 0 serves from its archive (certificate + re-marshalled block) through the
		// sync path; every height must re-validate to the hash the chain committed, and the final state root must be the chain's
		nodes[0].Enter()
		top := nodes[0].C.FSM.Height()
		if top > 1 && *prop != 3 {
			fresh, ferr := sim.NewCNode(g.State(), 2, nil)
			if ferr != nil {
				panic(ferr)
			}
			fresh.C.Syncing().Store(true) // a node that is catching up
			okAll := true
			for h := uint64(1); h < top; h++ {
				nodes[0].Enter()
				qc, lerr := nodes[0].C.LoadCertificate(h)
				if lerr != nil || qc == nil {
					sim.Direct(*outDir, map[string]any{"finding": "archive-cannot-serve-height", "kind": "LoadCertificate failed for a committed height", "height": h})
					okAll = false
					break
				}
				served := sim.CloneQC(qc)
				if derr := fresh.Deliver(served, true); derr != nil {
					sim.Direct(*outDir, map[string]any{"finding": "served-block-rejected-by-fresh-node", "kind": "archive block does not re-validate", "height": h, "error": derr.Error()})
					okAll = false
					break
				}
				st.Archive++
			}
			if okAll {
				fresh.Enter()
				a, _ := fresh.C.FSM.LoadBlock(top - 1)
				nodes[0].Enter()
				b0, _ := nodes[0].C.FSM.LoadBlock(top - 1)
				if a == nil || b0 == nil || !bytes.Equal(a.BlockHeader.Hash, b0.BlockHeader.Hash) || !bytes.Equal(a.BlockHeader.StateRoot, b0.BlockHeader.StateRoot) {
					sim.Direct(*outDir, map[string]any{"finding": "replayed-chain-differs", "kind": "fresh node synced from the archive ends with another block hash / state root", "height": top - 1})
				}
			}
			fresh.Close()
		}
		if follower != nil {
			follower.Close()
		}
		for k, v := range gen.Counts {
			st.Kinds[k] += v
		}
		for _, n := range nodes {
			n.Close()
		}
	}
	runtime.GOMAXPROCS(runtime.NumCPU())
	cw.Close(st)
	fmt.Printf("c03: %d blocks on %d chains x 5 paths (%d txs included, %d dropped by proposers, %d restarts, %d discarded speculations, %d heights re-validated by fresh nodes from the archive)\n", st.Blocks, *nChains, st.Txs, st.Dropped, st.Restarts, st.Specul, st.Archive)
}

func mustMarshal(x any) []byte {
	b, err := lib.Marshal(x)
	if err != nil {
		panic(err)
	}
	return b
}
