package main

import (
	"crypto/ecdsa"
	"fmt"
	"math"
	"math/big"

	"github.com/canopy-network/canopy/fsm"
	"github.com/canopy-network/canopy/lib"
	"github.com/canopy-network/canopy/lib/crypto"
	"github.com/ethereum/go-ethereum/common"
	ethTypes "github.com/ethereum/go-ethereum/core/types"
	ethCrypto "github.com/ethereum/go-ethereum/crypto"
	"verifharness/sim"
)

// rlpMode: nonce-based (Ethereum-wrapped, memo "RLP.V2") transactions on a real chain. For every offer the harness records the
// sender's account nonce floor before, the signed nonce, whether the wrapper is the honest conversion of the signed Ethereum
// transaction, whether the transaction executed, and the floor afterwards (model/Nonce.v).
//
//	fresh-at-floor / fresh-gap   : a newly signed transfer with nonce = floor or floor + gap
//	below-floor                  : a newly signed transfer (new content) with a nonce under the floor
//	max-nonce                    : nonce 2^64-1 (reserved)
//	identical-bytes              : an included transaction once more, at a later height (far beyond the height window too)
//	wrapper:*                    : the signed Ethereum transaction of an included or a fresh transfer under a wrapper that is not
//	                               its conversion (fee, nonce field, created height, time, message, legacy memo)
func rlpMode(r *sim.Rng, nBlocks int, cw *sim.CaseWriter) {
	key, err := ethCrypto.GenerateKey()
	if err != nil {
		panic(err)
	}
	keys := []*ecdsa.PrivateKey{key}
	k2, _ := ethCrypto.GenerateKey()
	keys = append(keys, k2)
	addrOf := func(k *ecdsa.PrivateKey) crypto.AddressI {
		pk, e := crypto.NewPublicKeyFromBytes(ethCrypto.FromECDSAPub(&k.PublicKey)[1:])
		if e != nil {
			panic(e)
		}
		return pk.Address()
	}
	g := &sim.GenesisSpec{}
	for i := 0; i < 4; i++ {
		g.Validators = append(g.Validators, sim.StdValidator(i, 1000000, 1))
	}
	for i := 0; i < 3; i++ {
		g.Accounts = append(g.Accounts, &fsm.Account{Address: sim.BLSKey(i).Addr, Amount: 5_000_000_000})
	}
	// the second key holds just enough for a few transfers: its balance reaches zero while its nonce floor must survive
	g.Accounts = append(g.Accounts, &fsm.Account{Address: addrOf(keys[0]).Bytes(), Amount: 5_000_000_000})
	g.Accounts = append(g.Accounts, &fsm.Account{Address: addrOf(keys[1]).Bytes(), Amount: 3 * (21000 + 1)})
	n, e := sim.NewFNode(g.State(), func(c *lib.Config) { c.ChainId = 1; c.P2PConfig.NetworkID = 1 })
	if e != nil {
		panic(e)
	}
	defer n.Close()
	evmChainID, ok := fsm.CanopyIdsToEVMChainIdV2(1, 1)
	if !ok {
		panic("chain id")
	}
	chainID := new(big.Int).SetUint64(evmChainID)
	legacyChainID := new(big.Int).SetUint64(fsm.CanopyIdsToEVMChainId(1, 1))
	recipient := common.BytesToAddress(sim.BLSKey(2).Addr)
	// a signed Ethereum transfer of `amount` (6-decimals) with the given nonce; gas varies the pseudo timestamp
	sign := func(k *ecdsa.PrivateKey, nonce uint64, amount uint64, gas uint64, cid *big.Int) []byte {
		price := new(big.Int).SetUint64(1_000_000_000_000) // fee = gas
		tx := ethTypes.MustSignNewTx(k, ethTypes.LatestSignerForChainID(cid), &ethTypes.DynamicFeeTx{
			ChainID: cid, Nonce: nonce, GasTipCap: price, GasFeeCap: price, Gas: gas, To: &recipient,
			Value: new(big.Int).Mul(new(big.Int).SetUint64(amount), big.NewInt(1_000_000_000_000)),
		})
		bz, e := tx.MarshalBinary()
		if e != nil {
			panic(e)
		}
		return bz
	}
	floorOf := func(k *ecdsa.PrivateKey) uint64 {
		acc, e := n.FSM.GetAccount(addrOf(k))
		if e != nil {
			panic(e)
		}
		return acc.Nonce
	}
	type incl struct {
		k   *ecdsa.PrivateKey
		raw []byte // signed Ethereum transaction
		b   []byte // Canopy bytes
	}
	var included []incl
	balOf := func(k *ecdsa.PrivateKey) uint64 {
		acc, e := n.FSM.GetAccount(addrOf(k))
		if e != nil {
			panic(e)
		}
		return acc.Amount
	}
	offer := func(k *ecdsa.PrivateKey, b []byte, nonce uint64, honest bool, kind string) bool {
		n.Enter()
		before := floorOf(k)
		// "wrapper ok" in the model includes the remaining checks: the sender can pay amount + fee
		if honest {
			if t := new(lib.Transaction); lib.Unmarshal(b, t) == nil {
				m := new(fsm.MessageSend)
				if lib.Unmarshal(t.Msg.Value, m) == nil && balOf(k) < m.Amount+t.Fee {
					honest, kind = false, kind+":unfunded"
				}
			}
		}
		out := n.Apply(&sim.BlockSpec{Txs: [][]byte{b}})
		ex := out.Err == nil && out.Results != nil && len(out.Results.Results) == 1
		n.Enter()
		after := floorOf(k)
		cw.Add(fmt.Sprintf("mkNCase %s %s %s %s %s", sim.CoqN(before), sim.CoqN(nonce), sim.CoqBool(honest), sim.CoqBool(ex), sim.CoqN(after)),
			map[string]any{"kind": kind, "floor": before, "nonce": nonce, "executed": ex, "floor_after": after})
		st.Cases++
		st.Chain["rlp:"+kind+fmt.Sprintf(":executed=%v", ex)]++
		if ex {
			st.Executed++
			st.Distinct++
		}
		return ex
	}
	wrap := func(raw []byte) *lib.Transaction {
		t, e := fsm.RLPToCanopyTransactionV2(raw)
		if e != nil {
			panic(e)
		}
		return t
	}
	for b := 0; b < nBlocks; b++ {
		k := keys[0]
		if r.Chance(30) {
			k = keys[1]
		}
		n.Enter()
		fl := floorOf(k)
		gas := 21000 + uint64(r.Intn(3))
		switch c := r.Intn(10); {
		case c < 4: // at the floor or over a gap
			nonce, kind := fl, "fresh-at-floor"
			if r.Chance(40) {
				nonce, kind = fl+1+uint64(r.Intn(3)), "fresh-gap"
			}
			amount := 1 + uint64(r.Intn(50))
			if bal := balOf(k); k == keys[1] && bal > gas && r.Chance(50) {
				amount, kind = bal-gas, kind+":drains-account" // balance reaches zero: the account must survive with its nonce
			}
			raw := sign(k, nonce, amount, gas, chainID)
			bz := mustBytes(wrap(raw))
			if offer(k, bz, nonce, true, kind) {
				included = append(included, incl{k, raw, bz})
			}
		case c == 4: // new content below the floor
			if fl == 0 {
				continue
			}
			nonce := uint64(r.Intn(int(fl)))
			raw := sign(k, nonce, 1+uint64(r.Intn(50)), gas, chainID)
			offer(k, mustBytes(wrap(raw)), nonce, true, "below-floor")
		case c == 5:
			raw := sign(k, math.MaxUint64, 3, gas, chainID)
			offer(k, mustBytes(wrap(raw)), math.MaxUint64, true, "max-nonce")
		case c == 6 || c == 7: // an included one again
			if len(included) == 0 {
				continue
			}
			in := included[r.Intn(len(included))]
			t := wrap(in.raw)
			offer(in.k, in.b, t.Nonce, true, "identical-bytes")
		default: // foreign wrappers around a freshly signed transaction that would be acceptable as it stands
			raw := sign(k, fl, 2, gas, chainID)
			t := wrap(raw)
			kind := ""
			switch r.Intn(6) {
			case 0:
				t.Fee++
				kind = "wrapper:fee"
			case 1:
				t.Nonce = fl + 5
				kind = "wrapper:nonce-field"
			case 2:
				t.CreatedHeight = fsm.RLPV2CreatedHeight + 1 + n.FSM.Height()
				kind = "wrapper:created-height"
			case 3:
				t.Time++
				kind = "wrapper:time"
			case 4:
				a, _ := lib.NewAny(&fsm.MessageSend{FromAddress: addrOf(k).Bytes(), ToAddress: sim.BLSKey(1).Addr, Amount: 1_000_000})
				t.Msg = a
				kind = "wrapper:message"
			default:
				// signed for the legacy domain, offered as RLP.V2 (and the other way round)
				rawL := sign(k, fl, 2, gas, legacyChainID)
				if tl, e := fsm.RLPToCanopyTransaction(rawL); e == nil {
					tl.Memo = fsm.RLPV2Indicator
					tl.Nonce = fl
					tl.CreatedHeight = t.CreatedHeight
					t = tl
				}
				kind = "wrapper:legacy-domain"
			}
			offer(k, mustBytes(t), fl, false, kind)
		}
	}
	// the legacy "RLP" wrapper (replay protection by transaction hash only): one signed typed Ethereum transfer, executed; then the
	// same signature under other encodings of V (not covered by the Ethereum signature hash: 27+v, 35+v, 35+2j+v) - each copy has
	// another Canopy hash and another Ethereum hash, and none of them was signed by the owner as a further payment
	if pv, e := n.FSM.GetParams(); e == nil && pv != nil {
		n.Enter()
		raw := sign(keys[0], n.FSM.Height(), 5, 21000, legacyChainID) // the legacy wrapper reads the Ethereum nonce as the created height
		if t, e := fsm.RLPToCanopyTransaction(raw); e == nil {
			out := n.Apply(&sim.BlockSpec{Txs: [][]byte{mustBytes(t)}})
			if out.Err == nil && out.Results != nil && len(out.Results.Results) == 1 {
				st.Chain["rlp-legacy:typed-transfer:executed=true"]++
				orig := new(ethTypes.Transaction)
				_ = orig.UnmarshalBinary(raw)
				v, rr, ss := orig.RawSignatureValues()
				for _, add := range []uint64{27, 35, 2035} {
					n.Enter()
					re := ethTypes.NewTx(&ethTypes.DynamicFeeTx{ChainID: orig.ChainId(), Nonce: orig.Nonce(), GasTipCap: orig.GasTipCap(), GasFeeCap: orig.GasFeeCap(), Gas: orig.Gas(),
						To: orig.To(), Value: orig.Value(), Data: orig.Data(), V: new(big.Int).Add(v, new(big.Int).SetUint64(add)), R: rr, S: ss})
					raw2, e2 := re.MarshalBinary()
					if e2 != nil {
						continue
					}
					t2, e3 := fsm.RLPToCanopyTransaction(raw2)
					executed := false
					if e3 == nil {
						o2 := n.Apply(&sim.BlockSpec{Txs: [][]byte{mustBytes(t2)}})
						executed = o2.Err == nil && o2.Results != nil && len(o2.Results.Results) == 1
					}
					st.Chain[fmt.Sprintf("rlp-legacy:re-encoded-v:executed=%v", executed)]++
					if executed {
						sim.Direct(outDirG, map[string]any{"finding": "one-ethereum-signature-executed-again", "kind": "a typed Ethereum transaction signed once was executed again under another encoding of V",
							"v_offset": add})
					}
				}
			} else {
				st.Chain["rlp-legacy:typed-transfer:executed=false"]++
			}
		}
	}
	// far beyond the height window: the included ones once more (the window does not apply to these; the floor must hold)
	n.Enter()
	n.FSM.VerifSetHeight(n.FSM.Height() + uint64(fsm.BlockAcceptanceRange) + 5)
	for i, in := range included {
		if i%2 == 0 {
			offer(in.k, in.b, wrap(in.raw).Nonce, true, "identical-bytes-outside-window")
		}
	}
}

func mustBytes(t *lib.Transaction) []byte {
	bz, e := lib.Marshal(t)
	if e != nil {
		panic(e)
	}
	return bz
}
