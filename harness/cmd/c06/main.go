// c06: correspondence harness for properties C06 (replay protection), and the encoding part of C11 / C19.
//
//	proto mode : real transactions of every message kind and wire-level variants of them (appended explicit defaults, re-ordered
//	             and repeated fields, non-minimal varints in tags / lengths / values, split sub-messages, wrong wire types,
//	             unknown fields, truncations, byte flips) go through the real lib.Unmarshal / lib.Marshal / GetSignBytes; Coq
//	             decodes the same bytes with model/Proto.v and compares the decoded transaction, canonicity and sign bytes.
//	rlp mode   : nonce-based Ethereum-wrapped transactions (memo RLP.V2) on a real chain: see rlp.go.
//	chain mode : a real chain (fsm.StateMachine over a real store); transactions are included, and at later heights (inside and
//	             outside the acceptance window) the harness offers the identical bytes, content-preserving re-encodings, the other
//	             representation of an ETH public key, and the same transactions to a node of another chain / network id; whether
//	             each offered byte string was executed is recorded with everything executed before it.
package main

import (
	"bytes"
	"flag"
	"fmt"
	"math/big"

	"github.com/canopy-network/canopy/fsm"
	"github.com/canopy-network/canopy/lib"
	"github.com/canopy-network/canopy/lib/crypto"
	"google.golang.org/protobuf/encoding/protowire"
	"verifharness/sim"
)

type stats struct {
	Cases    int            `json:"cases"`
	Distinct int            `json:"distinct_nontrivial"`
	Mutators map[string]int `json:"mutators"`
	Decoded  map[string]int `json:"proto_outcomes"`
	Chain    map[string]int `json:"chain_outcomes"`
	Executed int            `json:"executed"`
	Samples  []string       `json:"samples"`
}

var outDirG = "."

var st = &stats{Mutators: map[string]int{}, Decoded: map[string]int{}, Chain: map[string]int{}}

type field struct {
	num protowire.Number
	typ protowire.Type
	raw []byte // the field as on the wire, tag included
	val []byte // for length-delimited fields: the body
}

func split(b []byte) (out []field, ok bool) {
	for len(b) > 0 {
		num, typ, n := protowire.ConsumeTag(b)
		if n < 0 {
			return nil, false
		}
		m := protowire.ConsumeFieldValue(num, typ, b[n:])
		if m < 0 {
			return nil, false
		}
		f := field{num: num, typ: typ, raw: append([]byte{}, b[:n+m]...)}
		if typ == protowire.BytesType {
			v, _ := protowire.ConsumeBytes(b[n:])
			f.val = append([]byte{}, v...)
		}
		out = append(out, f)
		b = b[n+m:]
	}
	return out, true
}
func join(fs []field) (out []byte) {
	for _, f := range fs {
		out = append(out, f.raw...)
	}
	return
}

// a varint written with extra continuation bytes (same value)
func padVarint(v uint64, extra int) []byte {
	b := protowire.AppendVarint(nil, v)
	for i := 0; i < extra && len(b) < 10; i++ {
		b[len(b)-1] |= 0x80
		b = append(b, 0)
	}
	return b
}

// mutate returns a variant of the transaction bytes and the name of the mutator
func mutate(r *sim.Rng, b []byte) ([]byte, string) {
	fs, ok := split(b)
	if !ok || len(fs) == 0 {
		return b, "identity"
	}
	cp := func() []field { return append([]field{}, fs...) }
	switch r.Intn(17) {
	case 14, 15:
		// an unknown field INSIDE a sub-message (payload or signature): signature field 3+, any field 3+
		g := cp()
		want := protowire.Number(3)
		if r.Bool() {
			want = 2
		}
		for k := range g {
			if g[k].num == want && g[k].typ == protowire.BytesType {
				extra := protowire.AppendVarint(protowire.AppendTag(nil, protowire.Number(3+r.Intn(4)), protowire.VarintType), uint64(r.Intn(3)))
				body := append(append([]byte{}, g[k].val...), extra...)
				g[k].raw = protowire.AppendBytes(protowire.AppendTag(nil, want, protowire.BytesType), body)
				if want == 3 {
					return join(g), "unknown-field-inside-signature"
				}
				return join(g), "unknown-field-inside-payload-any"
			}
		}
		return b, "identity"
	case 16:
		// the nonce re-stamped by a third party (canonical encoding, everything else untouched)
		t := new(lib.Transaction)
		if lib.Unmarshal(b, t) == nil {
			t.Nonce = 1 + uint64(r.Intn(1000))
			if v, e := lib.Marshal(t); e == nil {
				return v, "restamped-nonce"
			}
		}
		return b, "identity"
	case 0:
		return append(append([]byte{}, b...), 0x3a, 0x00), "append-empty-memo"
	case 1:
		return append(append([]byte{}, b...), 0x50, 0x00), "append-zero-nonce"
	case 2:
		g := cp()
		i, j := r.Intn(len(g)), r.Intn(len(g))
		g[i], g[j] = g[j], g[i]
		return join(g), "reorder-fields"
	case 3:
		g := cp()
		f := g[r.Intn(len(g))]
		if r.Bool() {
			return join(append(g, f)), "repeat-field-at-end"
		}
		return join(append([]field{f}, g...)), "repeat-field-at-start"
	case 4:
		// non-minimal varint in a varint-typed field value
		g := cp()
		for k := range g {
			if g[k].typ == protowire.VarintType {
				_, _, n := protowire.ConsumeTag(g[k].raw)
				v, _ := protowire.ConsumeVarint(g[k].raw[n:])
				g[k].raw = append(append([]byte{}, g[k].raw[:n]...), padVarint(v, 1+r.Intn(3))...)
				return join(g), "non-minimal-varint-value"
			}
		}
		return b, "identity"
	case 5:
		// non-minimal length prefix
		g := cp()
		k := r.Intn(len(g))
		if g[k].typ == protowire.BytesType {
			_, _, n := protowire.ConsumeTag(g[k].raw)
			g[k].raw = append(append(append([]byte{}, g[k].raw[:n]...), padVarint(uint64(len(g[k].val)), 1+r.Intn(2))...), g[k].val...)
			return join(g), "non-minimal-length"
		}
		return b, "identity"
	case 6:
		// non-minimal tag
		g := cp()
		k := r.Intn(len(g))
		_, _, n := protowire.ConsumeTag(g[k].raw)
		g[k].raw = append(padVarint(protowire.EncodeTag(g[k].num, g[k].typ), 1), g[k].raw[n:]...)
		return join(g), "non-minimal-tag"
	case 7:
		// split the signature sub-message into two occurrences (merged by the decoder)
		g := cp()
		for k := range g {
			if g[k].num == 3 && g[k].typ == protowire.BytesType {
				inner, ok := split(g[k].val)
				if ok && len(inner) == 2 {
					a := protowire.AppendBytes(protowire.AppendTag(nil, 3, protowire.BytesType), inner[0].raw)
					c := protowire.AppendBytes(protowire.AppendTag(nil, 3, protowire.BytesType), inner[1].raw)
					g[k].raw = append(a, c...)
					if r.Bool() {
						g[k].raw = append(c, a...)
					}
					return join(g), "split-signature-submessage"
				}
			}
		}
		return b, "identity"
	case 8:
		// wrong wire type for a varint field: fixed64
		g := cp()
		for k := range g {
			if g[k].typ == protowire.VarintType {
				g[k].raw = protowire.AppendFixed64(protowire.AppendTag(nil, g[k].num, protowire.Fixed64Type), 7)
				return join(g), "wrong-wire-type"
			}
		}
		return b, "identity"
	case 9:
		return append(append([]byte{}, b...), protowire.AppendVarint(protowire.AppendTag(nil, protowire.Number(11+r.Intn(5)), protowire.VarintType), 1)...), "unknown-field"
	case 10:
		if len(b) > 2 {
			return append([]byte{}, b[:1+r.Intn(len(b)-1)]...), "truncate"
		}
		return b, "identity"
	case 11:
		c := append([]byte{}, b...)
		c[r.Intn(len(c))] ^= byte(1 << r.Intn(7))
		return c, "flip-bit"
	case 12:
		// overlong varint for the fee: ten bytes, the tenth 1 (wraps to the top bit) or 2 (overflow: rejected)
		g := cp()
		for k := range g {
			if g[k].num == 6 && g[k].typ == protowire.VarintType {
				last := byte(1 + r.Intn(2))
				g[k].raw = append(protowire.AppendTag(nil, 6, protowire.VarintType), 0x90, 0xce, 0x80, 0x80, 0x80, 0x80, 0x80, 0x80, 0x80, last)
				return join(g), "ten-byte-varint"
			}
		}
		return b, "identity"
	default:
		// change a value: the last occurrence wins
		g := cp()
		return join(append(g, field{raw: protowire.AppendVarint(protowire.AppendTag(nil, 6, protowire.VarintType), 10001)})), "append-other-fee"
	}
}

func ascii(s string) bool {
	for i := 0; i < len(s); i++ {
		if s[i] >= 128 {
			return false
		}
	}
	return true
}

func ptxLit(tx *lib.Transaction) string {
	msg, sig := "None", "None"
	if tx.Msg != nil {
		msg = fmt.Sprintf("(Some (mkAny %s %s))", sim.CoqBytes([]byte(tx.Msg.TypeUrl)), sim.CoqBytes(tx.Msg.Value))
	}
	if tx.Signature != nil {
		sig = fmt.Sprintf("(Some (mkSgn %s %s))", sim.CoqBytes(tx.Signature.PublicKey), sim.CoqBytes(tx.Signature.Signature))
	}
	return fmt.Sprintf("(mkPtx %s %s %s %s %s %s %s %s %s %s)", sim.CoqBytes([]byte(tx.MessageType)), msg, sig, sim.CoqN(tx.CreatedHeight), sim.CoqN(tx.Time),
		sim.CoqN(tx.Fee), sim.CoqBytes([]byte(tx.Memo)), sim.CoqN(tx.NetworkId), sim.CoqN(tx.ChainId), sim.CoqN(tx.Nonce))
}

func protoCase(cw *sim.CaseWriter, b []byte, how string) {
	tx := new(lib.Transaction)
	dec, canon, sb := "None", false, []byte{}
	if err := lib.Unmarshal(b, tx); err == nil {
		if !ascii(tx.MessageType) || !ascii(tx.Memo) || (tx.Msg != nil && !ascii(tx.Msg.TypeUrl)) {
			st.Decoded["skipped-non-ascii"]++
			return // outside the model's string alphabet
		}
		dec = "(Some " + ptxLit(tx) + ")"
		if c, e := lib.Marshal(tx); e == nil && bytes.Equal(c, b) {
			canon = true
		}
		sb, _ = tx.GetSignBytes()
		if canon {
			st.Decoded["decoded-canonical"]++
		} else {
			st.Decoded["decoded-non-canonical"]++
		}
	} else {
		st.Decoded["rejected"]++
	}
	cw.Add(fmt.Sprintf("mkPC %s %s %s %s", sim.CoqBytes(b), dec, sim.CoqBool(canon), sim.CoqBytes(sb)), map[string]any{"mutator": how, "len": len(b)})
	st.Cases++
	st.Distinct++
	st.Mutators[how]++
}

func main() {
	nProto := flag.Int("proto", 400, "proto mode: byte strings")
	nChains := flag.Int("chains", 3, "chain mode: chains")
	nBlocks := flag.Int("blocks", 14, "chain mode: blocks per chain")
	nRlp := flag.Int("rlp", 60, "rlp mode: offers of nonce-based transactions per chain")
	outDir := flag.String("outdir", ".", "output directory")
	_ = flag.String("replay", "", "replay file (cases regenerate deterministically from the seed)")
	flag.Parse()
	outDirG = *outDir
	r := sim.NewRng(sim.SeedFromEnv())
	imp := "From V Require Import Bytes Proto Replay ReplayCheck."
	w1 := &sim.CaseWriter{OutDir: *outDir, Name: "c06proto", Imports: imp, CaseType: "pcase", MFun: "proto_mismatches", VFun: "", PerShard: 100}
	w2 := &sim.CaseWriter{OutDir: *outDir, Name: "c06chain", Imports: imp, CaseType: "rcase", MFun: "replay_mismatches", VFun: "replay_violations", PerShard: 12}
	// ---- proto mode: transactions from the stateful generator (all message kinds), each with a few variants (and variants of variants)
	g := &sim.GenesisSpec{}
	for i := 0; i < 4; i++ {
		g.Validators = append(g.Validators, sim.StdValidator(i, 1000000))
	}
	for i := 0; i < 10; i++ {
		g.Accounts = append(g.Accounts, &fsm.Account{Address: sim.BLSKey(i).Addr, Amount: 5_000_000_000})
	}
	n, err := sim.NewFNode(g.State(), nil)
	if err != nil {
		panic(err)
	}
	gen := sim.NewTxGen(r.Fork(), 10)
	for st.Cases < *nProto {
		n.Enter()
		b, _ := gen.Next(n.FSM)
		if len(b) == 0 {
			continue
		}
		protoCase(w1, b, "original")
		for k := 0; k < 3; k++ {
			v, how := mutate(r, b)
			if r.Chance(25) {
				v2, how2 := mutate(r, v)
				v, how = v2, how+"+"+how2
			}
			protoCase(w1, v, how)
		}
	}
	n.Close()
	w1.Close(st)
	// ---- chain mode
	for c := 0; c < *nChains; c++ {
		chainMode(r.Fork(), *nBlocks, w2)
	}
	w2.Close(st)
	// ---- rlp mode: nonce-based transactions
	w3 := &sim.CaseWriter{OutDir: *outDir, Name: "c06rlp", Imports: "From V Require Import Nonce.", CaseType: "ncase", MFun: "nonce_mismatches", VFun: "nonce_violations", PerShard: 200}
	for c := 0; c < *nChains; c++ {
		rlpMode(r.Fork(), *nRlp, w3)
	}
	w3.Close(st)
	fmt.Printf("c06: %d cases; proto outcomes %v; chain outcomes %v; mutators %d kinds\n", st.Cases, st.Decoded, st.Chain, len(st.Mutators))
}

// chainMode: one chain. Keys 0..5 are BLS, key "eth" is an ETH secp256k1 key (two public-key representations).
func chainMode(r *sim.Rng, nBlocks int, cw *sim.CaseWriter) {
	eth, err := crypto.NewETHSECP256K1PrivateKey()
	if err != nil {
		panic(err)
	}
	edKey, _ := crypto.NewEd25519PrivateKey()
	mk := func(chainID uint64, netID uint64) *sim.FNode {
		g := &sim.GenesisSpec{}
		for i := 0; i < 4; i++ {
			g.Validators = append(g.Validators, sim.StdValidator(i, 1000000, chainID))
		}
		for i := 0; i < 6; i++ {
			g.Accounts = append(g.Accounts, &fsm.Account{Address: sim.BLSKey(i).Addr, Amount: 5_000_000_000})
		}
		g.Accounts = append(g.Accounts, &fsm.Account{Address: eth.PublicKey().Address().Bytes(), Amount: 5_000_000_000})
		g.Accounts = append(g.Accounts, &fsm.Account{Address: edKey.PublicKey().Address().Bytes(), Amount: 5_000_000_000})
		g.Accounts = append(g.Accounts, &fsm.Account{Address: msAddress(), Amount: 5_000_000_000})
		n, e := sim.NewFNode(g.State(), func(c *lib.Config) { c.ChainId = chainID; c.P2PConfig.NetworkID = netID })
		if e != nil {
			panic(e)
		}
		return n
	}
	n := mk(1, 1)
	defer n.Close()
	other := mk(2, 1) // another chain of the same network
	defer other.Close()
	var executed [][]byte // every byte string executed so far on n
	var pool [][]byte     // originals included so far (sources of variants)
	rangeBlocks := uint64(fsm.BlockAcceptanceRange)
	offer := func(node *sim.FNode, prev [][]byte, b []byte, kind string, chainID uint64) bool {
		node.Enter()
		h := node.FSM.Height()
		out := node.Apply(&sim.BlockSpec{Txs: [][]byte{b}})
		ex := out.Err == nil && out.Results != nil && len(out.Results.Results) == 1
		// what the crypto library itself says about the key and the signature
		sigok := false
		tx := new(lib.Transaction)
		if lib.Unmarshal(b, tx) == nil && tx.Signature != nil {
			if pk, e := crypto.NewPublicKeyFromBytes(tx.Signature.PublicKey); e == nil && bytes.Equal(pk.Bytes(), tx.Signature.PublicKey) {
				// the sign bytes, computed independently of GetSignBytes: the canonical encoding of the transaction without its
				// signature (every other field, the nonce included, is signed content)
				unsigned := &lib.Transaction{MessageType: tx.MessageType, Msg: tx.Msg, CreatedHeight: tx.CreatedHeight, Time: tx.Time, Fee: tx.Fee,
					Memo: tx.Memo, NetworkId: tx.NetworkId, ChainId: tx.ChainId, Nonce: tx.Nonce}
				if sb, e2 := lib.Marshal(unsigned); e2 == nil {
					// (the oracle verifies for real: the library's verification cache is switched off around it)
					crypto.DisableCache = true
					sigok = pk.VerifyBytes(sb, tx.Signature.Signature)
					crypto.DisableCache = false
				}
			}
		}
		var prevLits []string
		for _, p := range prev {
			prevLits = append(prevLits, sim.CoqBytes(p))
		}
		if ex && !sigok {
			sim.Direct(outDirG, map[string]any{"finding": "executed-without-valid-signature", "kind": "a transaction was executed although its signature does not verify over the canonical encoding of its content",
				"variant": kind, "height": h, "tx": fmt.Sprintf("%x", b)})
		}
		cw.Add(fmt.Sprintf("mkRCase 1 %s %s %s %s %s %s %s", sim.CoqN(chainID), sim.CoqN(rangeBlocks), sim.CoqN(h), sim.CoqList(prevLits), sim.CoqBytes(b), sim.CoqBool(sigok), sim.CoqBool(ex)),
			map[string]any{"kind": kind, "height": h, "executed": ex})
		st.Cases++
		st.Chain[kind+fmt.Sprintf(":executed=%v", ex)]++
		if ex {
			st.Executed++
			st.Distinct++
		}
		return ex
	}
	for b := 0; b < nBlocks; b++ {
		n.Enter()
		h := n.FSM.Height()
		// a fresh transfer (BLS key or the ETH key), included
		var tx []byte
		to := crypto.NewAddress(sim.BLSKey(5).Addr)
		if r.Chance(20) {
			// approved by two of the three members of the multi-signature account
			tx = msSend(to.Bytes(), 1000+uint64(b), h, fmt.Sprintf("ms%d", b))
		} else if r.Chance(35) {
			tx = sim.TxBytes(fsm.NewSendTransaction(eth, to, 1000+uint64(b), 1, 1, 10000, h, fmt.Sprintf("m%d", b)))
		} else {
			k := sim.BLSKey(r.Intn(5))
			tx = sim.TxBytes(fsm.NewSendTransaction(k.Priv, to, 1000+uint64(b), 1, 1, 10000, h, fmt.Sprintf("m%d", b)))
		}
		if offer(n, executed, tx, "fresh", 1) {
			executed = append(executed, tx)
			pool = append(pool, tx)
		}
		if len(pool) == 0 {
			continue
		}
		src := pool[r.Intn(len(pool))]
		// an included multi-signature transfer is offered again under another encoding of its (unsigned) nested key
		for _, p := range pool {
			if v, how := reencodeNestedKey(r, p); v != nil && r.Chance(50) {
				if offer(n, executed, v, how, 1) {
					executed = append(executed, v)
					// by construction: the signed content, the signers and the aggregate signature of an included transfer, under
					// another byte string for the same key (the replay model compares key BYTES and cannot see this one)
					sim.Direct(outDirG, map[string]any{"finding": "signed-content-executed-again-under-a-re-encoded-key", "kind": "an included multi-signature transfer executed again under another encoding of its (unsigned) serialized key",
						"variant": how, "tx": fmt.Sprintf("%x", v)})
				}
				break
			}
		}
		switch r.Intn(7) {
		case 6:
			// a third party re-stamps the nonce of an included (native, non-RLP) transaction: canonical encoding, new hash, the
			// original signature - the nonce is signed content, so the signature must not verify any more
			t := new(lib.Transaction)
			if lib.Unmarshal(src, t) == nil {
				t.Nonce += 1 + uint64(r.Intn(1000))
				v, _ := lib.Marshal(t)
				if offer(n, executed, v, "variant:restamped-nonce", 1) {
					executed = append(executed, v)
				}
			}
		case 0:
			if offer(n, executed, src, "identical-bytes", 1) {
				executed = append(executed, src)
			}
		case 1, 2:
			v, how := mutate(r, src)
			if !bytes.Equal(v, src) {
				if offer(n, executed, v, "variant:"+how, 1) {
					executed = append(executed, v)
				}
			}
		case 3:
			// the other representation of the ETH public key
			t := new(lib.Transaction)
			if lib.Unmarshal(src, t) == nil && t.Signature != nil && len(t.Signature.PublicKey) == 64 {
				t.Signature.PublicKey = append([]byte{4}, t.Signature.PublicKey...)
				v, _ := lib.Marshal(t)
				if offer(n, executed, v, "variant:eth-key-with-prefix", 1) {
					executed = append(executed, v)
				}
			}
		case 4:
			// a signature altered by a third party: a byte appended, or (secp256k1, 64 bytes R||S) S replaced by N-S
			t := new(lib.Transaction)
			if lib.Unmarshal(src, t) == nil && t.Signature != nil {
				sig := append([]byte{}, t.Signature.Signature...)
				how := "variant:signature-byte-appended"
				if len(sig) == 64 && r.Bool() {
					order, _ := new(big.Int).SetString("fffffffffffffffffffffffffffffffebaaedce6af48a03bbfd25e8cd0364141", 16)
					sNew := new(big.Int).Sub(order, new(big.Int).SetBytes(sig[32:]))
					copy(sig[32:], sNew.FillBytes(make([]byte, 32)))
					how = "variant:signature-high-s"
				} else {
					sig = append(sig, byte(r.Intn(256)))
				}
				t.Signature.Signature = sig
				v, _ := lib.Marshal(t)
				if offer(n, executed, v, how, 1) {
					executed = append(executed, v)
				}
			}
		default:
			// the same bytes on another chain
			offer(other, nil, src, "other-chain", 2)
		}
	}
	// a signature-verification cache must not confuse (key, message, signature) triples: a transfer whose signature happens to
	// begin with the bytes of a "nonce" field (tag 0x50, a one-byte non-zero varint) is included; then a byte string nobody
	// signed is offered: the same transaction with that nonce set and the REST of the signature as its signature - its sign bytes
	// are the old sign bytes followed by the first two signature bytes, so key || message || signature is the same byte string
	for _, k := range []crypto.PrivateKeyI{edKey, eth} {
		n.Enter()
		h := n.FSM.Height()
		var tx *lib.Transaction
		for attempt := 0; attempt < 4000 && tx == nil; attempt++ {
			t, e := fsm.NewSendTransaction(k, crypto.NewAddress(sim.BLSKey(5).Addr), 777, 1, 1, 10000, h, fmt.Sprintf("g%d", attempt))
			if e != nil {
				break
			}
			cand := t.(*lib.Transaction)
			if sg := cand.Signature.Signature; len(sg) > 2 && sg[0] == 0x50 && sg[1] >= 1 && sg[1] < 128 {
				tx = cand
			}
		}
		if tx == nil {
			continue
		}
		bz, _ := lib.Marshal(tx)
		if !offer(n, executed, bz, "fresh:signature-begins-like-a-nonce-field", 1) {
			continue
		}
		executed = append(executed, bz)
		forged := &lib.Transaction{MessageType: tx.MessageType, Msg: tx.Msg, CreatedHeight: tx.CreatedHeight, Time: tx.Time, Fee: tx.Fee, Memo: tx.Memo, NetworkId: tx.NetworkId,
			ChainId: tx.ChainId, Nonce: uint64(tx.Signature.Signature[1]), Signature: &lib.Signature{PublicKey: tx.Signature.PublicKey, Signature: tx.Signature.Signature[2:]}}
		fb, _ := lib.Marshal(forged)
		if offer(n, executed, fb, "variant:signature-boundary-shifted-into-the-content", 1) {
			executed = append(executed, fb)
		}
	}
	// far outside the acceptance window: the originals once more (a pruned index would let them through; the window stops them)
	n.Enter()
	n.FSM.VerifSetHeight(n.FSM.Height() + rangeBlocks + 5)
	for _, src := range pool {
		if r.Chance(40) {
			if offer(n, executed, src, "outside-window", 1) {
				executed = append(executed, src)
			}
			break
		}
	}
}
