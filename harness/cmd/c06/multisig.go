package main

import (
	"github.com/canopy-network/canopy/fsm"
	"github.com/canopy-network/canopy/lib"
	"github.com/canopy-network/canopy/lib/crypto"
	"github.com/drand/kyber"
	"google.golang.org/protobuf/encoding/protowire"
	"verifharness/sim"
)

// A 2-of-3 BLS multi-signature account (members: BLS keys 0, 1, 2): its serialized key is a nested protobuf message carried in
// an opaque bytes field of the transaction and is NOT signed content - every other encoding of the same key (an unknown field
// appended, a non-minimal varint, fields in another order) must be refused, or an included transfer can be offered again under
// another hash.
func msKey() (crypto.MultiPublicKeyI, error) {
	var points []kyber.Point
	for i := 0; i < 3; i++ {
		p, err := crypto.BytesToBLS12381Point(sim.BLSKey(i).Pub)
		if err != nil {
			return nil, err
		}
		points = append(points, p)
	}
	return crypto.NewAccountAuthMultiBLSFromPoints(points, nil, 2)
}

func msAddress() []byte {
	mk, err := msKey()
	if err != nil {
		panic(err)
	}
	return mk.Address().Bytes()
}

// msSend: a transfer out of the multi-signature account approved by members 0 and 1
func msSend(to []byte, amount, height uint64, memo string) []byte {
	mk, err := msKey()
	if err != nil {
		return nil
	}
	a, e := lib.NewAny(&fsm.MessageSend{FromAddress: mk.Address().Bytes(), ToAddress: to, Amount: amount})
	if e != nil {
		return nil
	}
	tx := &lib.Transaction{MessageType: fsm.MessageSendName, Msg: a, CreatedHeight: height, Time: 1_700_000_000_000_000 + amount, Fee: 10000, NetworkId: 1, ChainId: 1, Memo: memo}
	sb, e := tx.GetSignBytes()
	if e != nil {
		return nil
	}
	for s := 0; s < 2; s++ {
		if err := mk.AddSigner(sim.BLSKey(s).Priv.Sign(sb), s); err != nil {
			return nil
		}
	}
	agg, err := mk.AggregateSignatures()
	if err != nil {
		return nil
	}
	tx.Signature = &lib.Signature{PublicKey: mk.Bytes(), Signature: agg}
	bz, e := lib.Marshal(tx)
	if e != nil {
		return nil
	}
	return bz
}

// reencodeNestedKey returns the transaction with another encoding of the same multi-signature key (nil when the signer is not a
// serialized multi-signature key)
func reencodeNestedKey(r *sim.Rng, src []byte) ([]byte, string) {
	t := new(lib.Transaction)
	if lib.Unmarshal(src, t) != nil || t.Signature == nil || len(t.Signature.PublicKey) < 120 {
		return nil, ""
	}
	pk := t.Signature.PublicKey
	var out []byte
	how := ""
	switch r.Intn(3) {
	case 0: // an unknown field appended (field 15, varint 1)
		out = protowire.AppendVarint(protowire.AppendTag(append([]byte{}, pk...), 15, protowire.VarintType), 1)
		how = "variant:nested-key-unknown-field-appended"
	case 1: // the top-level fields of the nested message in reversed order
		var fields [][]byte
		rest := pk
		for len(rest) > 0 {
			_, _, n := protowire.ConsumeField(rest)
			if n <= 0 {
				return nil, ""
			}
			fields = append(fields, rest[:n])
			rest = rest[n:]
		}
		for i := len(fields) - 1; i >= 0; i-- {
			out = append(out, fields[i]...)
		}
		how = "variant:nested-key-fields-reordered"
	default: // every one-byte varint field value re-encoded non-minimally (two bytes)
		rest := pk
		for len(rest) > 0 {
			num, typ, tn := protowire.ConsumeTag(rest)
			if tn <= 0 {
				return nil, ""
			}
			vn := protowire.ConsumeFieldValue(num, typ, rest[tn:])
			if vn <= 0 {
				return nil, ""
			}
			if typ == protowire.VarintType && vn == 1 {
				out = append(out, rest[:tn]...)
				out = append(out, rest[tn]|0x80, 0x00)
			} else {
				out = append(out, rest[:tn+vn]...)
			}
			rest = rest[tn+vn:]
		}
		how = "variant:nested-key-non-minimal-varint"
	}
	if string(out) == string(pk) {
		return nil, ""
	}
	t.Signature.PublicKey = out
	v, e := lib.Marshal(t)
	if e != nil {
		return nil, ""
	}
	return v, how
}
