package main

import "github.com/canopy-network/canopy/lib"

func libMarshal(x any) ([]byte, lib.ErrorI) { return lib.Marshal(x) }
