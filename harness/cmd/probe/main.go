package main

import (
	"fmt"

	"github.com/canopy-network/canopy/fsm"
	"github.com/canopy-network/canopy/lib/crypto"
	"verifharness/sim"
)

func main() {
	g := &sim.GenesisSpec{}
	for i := 0; i < 4; i++ {
		g.Validators = append(g.Validators, sim.StdValidator(i, 1000000+uint64(i)))
		g.Accounts = append(g.Accounts, &fsm.Account{Address: sim.BLSKey(i).Addr, Amount: 1_000_000_000})
	}
	ch, err := sim.NewChain(g, 2, nil)
	if err != nil {
		panic(err)
	}
	defer ch.Close()
	for b := 0; b < 3; b++ {
		var txs [][]byte
		n := ch.Nodes[0]
		tx, e := fsm.NewSendTransaction(sim.BLSKey(0).Priv, crypto.NewAddress(sim.BLSKey(1).Addr), 5, 1, 1, 10000, n.C.FSM.Height(), "")
		if e != nil {
			panic(e)
		}
		bz, _ := libMarshal(tx)
		txs = append(txs, bz)
		qc, err := ch.Step(b%2, txs)
		if err != nil {
			panic(err)
		}
		fmt.Printf("height %d committed, block hash %x, node heights %d %d\n", qc.Header.Height, qc.BlockHash[:6], ch.Nodes[0].C.FSM.Height(), ch.Nodes[1].C.FSM.Height())
	}
	a, _ := ch.Nodes[1].C.FSM.GetAccount(crypto.NewAddress(sim.BLSKey(1).Addr))
	fmt.Println("acct1", a.Amount)
}
