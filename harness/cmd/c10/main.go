// c10: correspondence harness for property C10 (store read semantics; immutability of committed history).
// Random programs over set / delete / get / forward and reverse prefix iteration (at two prefix depths) / nested
// transactions with flush or discard / commit / reset / reads and iterations at past versions through NewReadOnly(v) /
// rollback, run on the real Store (real pebble, in-memory FS).  Between operations the harness also flushes memtables and
// compacts (so that block-property version filters apply to the reads that follow) - semantically no-ops.
// Every result is written into cases_*.v; Coq evaluates model/StoreModel.v (run) and the simple versioned map (arun).
package main

import (
	"flag"
	"fmt"
	"strings"

	"github.com/canopy-network/canopy/lib"
	"github.com/canopy-network/canopy/store"
	"verifharness/sim"
)

type stats struct {
	Cases    int            `json:"cases"`
	Distinct int            `json:"distinct_nontrivial"`
	Ops      map[string]int `json:"ops"`
	MaxVers  int            `json:"max_versions_per_key"`
	Physical map[string]int `json:"physical_no_op_actions"`
	Samples  []string       `json:"samples"`
}

var st = stats{Ops: map[string]int{}, Physical: map[string]int{}}

// keys: two families; family 1 keys have two segments (1-byte id), family 2 keys three segments (1-byte group, 2-byte id):
// a third family stores the group key itself (two segments) and the family key (one segment): keys that are proper prefixes of
// other keys and equal to iteration prefixes
// nested: the key family includes keys that are proper prefixes of other keys (streams "nested-latest" and the witness of the
// known finding); historical: read-at-version operations are generated
var nested, historical, commits = false, true, true

func genKey(r *sim.Rng) []byte {
	if nested && r.Chance(14) {
		// a stored key that is itself the iteration prefix of other stored keys (a group record above its members)
		if r.Chance(30) {
			return lib.JoinLenPrefix([]byte{2})
		}
		return lib.JoinLenPrefix([]byte{2}, []byte{byte(r.Intn(3))})
	}
	if r.Chance(50) {
		return lib.JoinLenPrefix([]byte{1}, []byte{byte(r.Intn(6))})
	}
	return lib.JoinLenPrefix([]byte{2}, []byte{byte(r.Intn(3))}, []byte{byte(r.Intn(2)), byte(r.Pick(0, 1, 255))})
}
func genPrefix(r *sim.Rng) []byte {
	if r.Chance(12) {
		// a prefix ending in an empty segment: it extends a stored key exactly into the version suffix of the
		// latest-state partition (inverted version 0x00..) - the counterexample of VStoreProofs, fixed in 4975908
		if r.Bool() {
			return append(genKey(r), 0)
		}
		return append(lib.JoinLenPrefix([]byte{byte(1 + r.Intn(2))}), 0)
	}
	switch r.Intn(5) {
	case 0:
		return lib.JoinLenPrefix([]byte{1})
	case 1:
		return lib.JoinLenPrefix([]byte{2})
	case 2:
		return lib.JoinLenPrefix([]byte{2}, []byte{byte(r.Intn(3))})
	case 3:
		return lib.JoinLenPrefix([]byte{3}) // nothing under it
	default:
		return lib.JoinLenPrefix([]byte{byte(1 + r.Intn(2))})
	}
}

func outGet(v []byte) string {
	if v == nil {
		return "OGet None"
	}
	return "OGet (Some " + sim.CoqBytes(v) + ")"
}

func collect(it lib.IteratorI, err lib.ErrorI) string {
	if err != nil {
		return "OErr"
	}
	defer it.Close()
	var items []string
	for ; it.Valid(); it.Next() {
		items = append(items, fmt.Sprintf("(%s, %s)", sim.CoqBytes(it.Key()), sim.CoqBytes(it.Value())))
		if len(items) > 10000 {
			break
		}
	}
	return "OIter " + sim.CoqList(items)
}

func runProgram(r *sim.Rng, nOps int) (ops []string, outs []string) {
	sti, err := store.NewStoreInMemory(lib.NewNullLogger())
	if err != nil {
		panic(err)
	}
	s := sti.(*store.Store)
	defer s.Close()
	stack := []lib.StoreI{s}
	cur := func() lib.StoreI { return stack[len(stack)-1] }
	version := uint64(0)
	emit := func(op, out string) {
		ops = append(ops, op)
		outs = append(outs, out)
	}
	versPerKey := map[string]int{}
	aborted := false
	// an unexpected error from the store is an observation (the model never errs on these operations), not a harness failure
	fail := func(op string, e lib.ErrorI) {
		emit(op, "OErr")
		st.Ops["unexpected-store-error"]++
		aborted = true
	}
	for i := 0; i < nOps && !aborted; i++ {
		switch c := r.Intn(100); {
		case c < 28:
			k, v := genKey(r), r.Bytes(1+r.Intn(3))
			if e := cur().Set(k, v); e != nil {
				fail(fmt.Sprintf("PSet %s %s", sim.CoqBytes(k), sim.CoqBytes(v)), e)
				continue
			}
			versPerKey[string(k)]++
			if versPerKey[string(k)] > st.MaxVers {
				st.MaxVers = versPerKey[string(k)]
			}
			st.Ops["set"]++
			emit(fmt.Sprintf("PSet %s %s", sim.CoqBytes(k), sim.CoqBytes(v)), "OUnit")
		case c < 38:
			k := genKey(r)
			if e := cur().Delete(k); e != nil {
				fail(fmt.Sprintf("PDel %s", sim.CoqBytes(k)), e)
				continue
			}
			st.Ops["delete"]++
			emit(fmt.Sprintf("PDel %s", sim.CoqBytes(k)), "OUnit")
		case c < 50:
			k := genKey(r)
			v, e := cur().Get(k)
			if e != nil {
				fail(fmt.Sprintf("PGet %s", sim.CoqBytes(k)), e)
				continue
			}
			st.Ops["get"]++
			emit(fmt.Sprintf("PGet %s", sim.CoqBytes(k)), outGet(v))
		case c < 62:
			p, rv := genPrefix(r), r.Bool()
			var out string
			if rv {
				out = collect(cur().RevIterator(p))
			} else {
				out = collect(cur().Iterator(p))
			}
			st.Ops["iterate"]++
			emit(fmt.Sprintf("PIter %s %s", sim.CoqBytes(p), sim.CoqBool(rv)), out)
		case c < 68:
			if len(stack) < 4 {
				stack = append(stack, cur().NewTxn())
				st.Ops["nest"]++
				emit("PNest", "OUnit")
			}
		case c < 73:
			if len(stack) > 1 {
				if e := cur().Flush(); e != nil {
					fail("PFlush", e)
					continue
				}
				cur().Discard()
				stack = stack[:len(stack)-1]
				st.Ops["flush"]++
				emit("PFlush", "OUnit")
			}
		case c < 77:
			if len(stack) > 1 {
				cur().Discard()
				stack = stack[:len(stack)-1]
				st.Ops["discard"]++
				emit("PDiscard", "OUnit")
			}
		case c < 86:
			if len(stack) == 1 && commits {
				if _, e := s.Commit(); e != nil {
					fail("PCommit", e)
					continue
				}
				version++
				st.Ops["commit"]++
				emit("PCommit", fmt.Sprintf("OVer %d", s.Version()))
			}
		case c < 88:
			if len(stack) == 1 {
				s.Reset()
				st.Ops["reset"]++
				emit("PReset", "OUnit")
			}
		case c < 97:
			if version >= 1 && historical {
				v := 1 + uint64(r.Intn(int(version)))
				ro, e := s.NewReadOnly(v)
				if e != nil {
					fail(fmt.Sprintf("PGetAt %d %s", v, sim.CoqBytes(genKey(r))), e)
					continue
				}
				if r.Bool() {
					k := genKey(r)
					val, e := ro.Get(k)
					if e != nil {
						fail(fmt.Sprintf("PGetAt %d %s", v, sim.CoqBytes(k)), e)
						ro.Discard()
						continue
					}
					st.Ops["get-at-version"]++
					emit(fmt.Sprintf("PGetAt %d %s", v, sim.CoqBytes(k)), outGet(val))
				} else {
					p, rv := genPrefix(r), r.Bool()
					var out string
					if rv {
						out = collect(ro.RevIterator(p))
					} else {
						out = collect(ro.Iterator(p))
					}
					st.Ops["iterate-at-version"]++
					emit(fmt.Sprintf("PIterAt %d %s %s", v, sim.CoqBytes(p), sim.CoqBool(rv)), out)
				}
				ro.Discard()
			}
		case c < 98:
			if len(stack) == 1 && version >= 2 && r.Chance(70) {
				// sometimes with pending (unflushed) writes: a rollback to the current version keeps them, a real one drops them
				if r.Chance(60) {
					s.Reset()
					emit("PReset", "OUnit")
				}
				v := 1 + uint64(r.Intn(int(version)))
				if e := s.Rollback(v); e != nil {
					fail(fmt.Sprintf("PRollback %d", v), e)
					continue
				}
				version = v
				st.Ops["rollback"]++
				emit(fmt.Sprintf("PRollback %d", v), "OUnit")
			}
		default:
			// physical actions that must not change any answer
			if len(stack) == 1 {
				if r.Bool() {
					_ = s.DB().Flush()
					st.Physical["memtable-flush"]++
				} else {
					_ = s.CompactAll(version)
					st.Physical["compact-all"]++
				}
			}
		}
	}
	for len(stack) > 1 {
		cur().Discard()
		stack = stack[:len(stack)-1]
	}
	return
}

func main() {
	nProg := flag.Int("programs", 150, "programs")
	nOps := flag.Int("ops", 60, "operations per program")
	outDir := flag.String("outdir", ".", "output directory")
	_ = flag.String("replay", "", "replay file (cases regenerate deterministically from the seed)")
	flag.Parse()
	r := sim.NewRng(sim.SeedFromEnv())
	cw := &sim.CaseWriter{OutDir: *outDir, Name: "c10", Imports: "From V Require Import Bytes Keys VStore Txn StoreModel.", CaseType: "st_case", MFun: "st_mismatches", VFun: "st_violations", PerShard: 12}
	seen := map[string]bool{}
	for p := 0; p < *nProg; p++ {
		ops, outs := runProgram(r.Fork(), *nOps)
		lit := fmt.Sprintf("mkSt %s %s", sim.CoqList(ops), sim.CoqList(outs))
		cw.Add(lit, map[string]any{"kind": "program", "ops": strings.Join(ops, "; "), "outs": strings.Join(outs, "; ")})
		st.Cases++
		if !seen[lit] && len(ops) > 5 {
			seen[lit] = true
			st.Distinct++
		}
		if len(st.Samples) < 1 {
			s := lit
			if len(s) > 1500 {
				s = s[:1500] + "..."
			}
			st.Samples = append(st.Samples, s)
		}
	}
	// ---- key families in which a key is a proper prefix of other keys (a record stored at the very prefix its members are
	// iterated by), in the write-set stack (nested transactions over the store's own write set, nothing committed): must behave
	// as the map. Once such keys are committed the versioned iterator loses entries: the known finding, see the witnesses below.
	nested, historical, commits = true, false, false
	for p := 0; p < *nProg/3; p++ {
		ops, outs := runProgram(r.Fork(), *nOps)
		cw.Add(fmt.Sprintf("mkSt %s %s", sim.CoqList(ops), sim.CoqList(outs)), map[string]any{"kind": "program-nested-keys-latest", "ops": strings.Join(ops, "; "), "outs": strings.Join(outs, "; ")})
		st.Cases++
		st.Ops["program-nested-keys"]++
	}
	// ---- the witness of the known finding (KNOWN_FINDINGS.txt versioned-iteration-nested-keys): reverse iteration of a committed
	// version by a prefix that is itself a stored key (and forward iteration of the latest state). Listed under that finding id only; everything else is reported as new.
	{
		sti, err := store.NewStoreInMemory(lib.NewNullLogger())
		if err != nil {
			panic(err)
		}
		s := sti.(*store.Store)
		grp := lib.JoinLenPrefix([]byte{2})
		k1 := lib.JoinLenPrefix([]byte{2}, []byte{1}, []byte{0, 0})
		k2 := lib.JoinLenPrefix([]byte{2}, []byte{2}, []byte{1, 255})
		var ops, outs []string
		for _, kv := range [][2][]byte{{grp, {9}}, {k1, {7}}, {k2, {8}}} {
			_ = s.Set(kv[0], kv[1])
			ops, outs = append(ops, fmt.Sprintf("PSet %s %s", sim.CoqBytes(kv[0]), sim.CoqBytes(kv[1]))), append(outs, "OUnit")
		}
		_, _ = s.Commit()
		ops, outs = append(ops, "PCommit"), append(outs, fmt.Sprintf("OVer %d", s.Version()))
		ops, outs = append(ops, fmt.Sprintf("PIter %s false", sim.CoqBytes(grp))), append(outs, collect(s.Iterator(grp)))
		ro, _ := s.NewReadOnly(1)
		ops, outs = append(ops, fmt.Sprintf("PIterAt 1 %s true", sim.CoqBytes(grp))), append(outs, collect(ro.RevIterator(grp)))
		ro.Discard()
		s.Close()
		cw.Add(fmt.Sprintf("mkSt %s %s", sim.CoqList(ops), sim.CoqList(outs)), map[string]any{"kind": "witness-nested-keys-historical", "finding": "versioned-iteration-nested-keys", "ops": strings.Join(ops, "; "), "outs": strings.Join(outs, "; ")})
		st.Cases++
	}
	blockHistoryCases(r.Fork(), 1+*nProg/10, *outDir)
	cw.Close(st)
	fmt.Printf("c10: %d programs (%d distinct non-trivial), ops %v, physical %v\n", st.Cases, st.Distinct, st.Ops, st.Physical)
}
