package main

import (
	"fmt"

	"github.com/canopy-network/canopy/lib"
	"github.com/canopy-network/canopy/lib/crypto"
	"github.com/canopy-network/canopy/store"
	"verifharness/sim"
)

// What a reader observes as of a committed height - blocks included - never changes. Blocks with transactions are indexed and
// committed at consecutive heights; the process-wide block cache is emptied (a restarted process) or kept; then headers and full
// blocks are read in random order, repeatedly. Every full read of height h must return exactly the transactions committed at h,
// whatever was read before.
func blockHistoryCases(r *sim.Rng, n int, outDir string) {
	for c := 0; c < n; c++ {
		bc := store.VerifNewBlockCache()
		old := store.VerifSwapBlockCache(bc)
		sti, err := store.NewStoreInMemory(lib.NewNullLogger())
		if err != nil {
			panic(err)
		}
		s := sti.(*store.Store)
		heights := 3 + r.Intn(8)
		want := map[uint64][]string{}
		for h := uint64(1); h <= uint64(heights); h++ {
			br := &lib.BlockResult{BlockHeader: &lib.BlockHeader{Height: h, Hash: crypto.Hash([]byte(fmt.Sprintf("blk-%d-%d", c, h))), Time: 1000 + h}}
			for i := 0; i < r.Intn(4); i++ {
				tx := &lib.Transaction{MessageType: "send", CreatedHeight: h, Time: uint64(i), Fee: 1, Memo: fmt.Sprintf("t%d-%d", h, i), NetworkId: 1, ChainId: 1}
				bz, _ := lib.Marshal(tx)
				hash := crypto.HashString(bz)
				br.Transactions = append(br.Transactions, &lib.TxResult{Sender: crypto.Hash([]byte("s"))[:20], Recipient: crypto.Hash([]byte("r"))[:20], MessageType: "send", Height: h, Index: uint64(i), Transaction: tx, TxHash: hash})
				want[h] = append(want[h], hash)
			}
			br.BlockHeader.NumTxs = uint64(len(br.Transactions))
			if e := s.IndexBlock(br); e != nil {
				panic(e)
			}
			if e := s.Set(lib.JoinLenPrefix([]byte{1}, []byte{byte(h)}), []byte{byte(h)}); e != nil {
				panic(e)
			}
			if _, e := s.Commit(); e != nil {
				panic(e)
			}
		}
		if r.Chance(70) {
			store.VerifPurgeBlockCache()
		}
		for k := 0; k < 4*heights; k++ {
			h := uint64(1 + r.Intn(heights))
			if r.Chance(45) {
				if _, e := s.GetBlockHeaderByHeight(h); e != nil {
					panic(e)
				}
				st.Ops["block-header-read"]++
				continue
			}
			b, e := s.GetBlockByHeight(h)
			st.Ops["block-read"]++
			bad := e != nil || b == nil || b.BlockHeader == nil || len(b.Transactions) != len(want[h])
			if !bad {
				for i, t := range b.Transactions {
					if t.TxHash != want[h][i] {
						bad = true
					}
				}
			}
			if bad {
				got := -1
				if b != nil {
					got = len(b.Transactions)
				}
				sim.Direct(outDir, map[string]any{"finding": "committed-block-changed", "kind": "a full read of a committed height does not return the transactions committed at that height",
					"height": h, "transactions_committed": len(want[h]), "transactions_returned": got, "error": fmt.Sprint(e)})
				break
			}
		}
		s.Close()
		store.VerifSwapBlockCache(old)
		st.Cases++
		st.Ops["block-history"]++
	}
}
