// c14: correspondence harness for property C14 (slashing accountability).
//
//	evidence : the real BFT.ProcessDSE on evidence fabricated from REAL aggregate signatures of chosen signer subsets (the harness
//	           holds every key): same view / other round / other phase / other root height, payloads that differ in the block, the
//	           results, the proposer, or not at all, phases up to PROPOSE, root heights below the minimum evidence height, partial and
//	           full certificates, overlapping and disjoint signer sets, a tampered signature, a block attached, already-slashed
//	           (validator, height) pairs; several pieces of evidence per call; the reported double signers are compared with
//	           Evidence.process_dse.
//	index    : the real fsm.HandleDoubleSigners on a real FSM: lists of (validator, heights) with fresh pairs, repeated pairs inside
//	           one list, and pairs slashed by an earlier call; error or not and the stake after, compared with
//	           Evidence.handle_double_signers.
package main

import (
	"flag"
	"fmt"

	"github.com/canopy-network/canopy/bft"
	"github.com/canopy-network/canopy/fsm"
	"github.com/canopy-network/canopy/lib"
	"github.com/canopy-network/canopy/lib/crypto"
	"verifharness/bftsim"
	"verifharness/sim"
)

type stats struct {
	Cases    int            `json:"cases"`
	Distinct int            `json:"distinct_nontrivial"`
	Outcomes map[string]int `json:"outcomes"`
	Samples  []string       `json:"samples"`
}

var st = &stats{Outcomes: map[string]int{}}

type idmap map[string]uint64

func (d idmap) of(h []byte) uint64 {
	if len(h) == 0 {
		return 0
	}
	if v, ok := d[string(h)]; ok {
		return v
	}
	d[string(h)] = uint64(len(d) + 1)
	return d[string(h)]
}

func qcLit(n *bftsim.Net, blk, res idmap, q *lib.QuorumCertificate) string {
	var signers []uint64
	sigok := false
	if q.Signature != nil {
		key := n.VS.MultiKey.Copy()
		if err := key.SetBitmap(q.Signature.Bitmap); err == nil {
			for i := 0; i < n.N; i++ {
				if on, _ := key.SignerEnabledAt(i); on {
					signers = append(signers, uint64(i))
				}
			}
			sigok = q.Signature.CheckBasic() == nil && key.VerifyBytes(q.SignBytes(), q.Signature.Signature)
		}
	}
	p := uint64(99)
	if i := n.IndexOf(q.ProposerKey); i >= 0 {
		p = uint64(i)
	}
	return fmt.Sprintf("(mkQC (mkView %s %s %s) %s %s %s %s %s)", sim.CoqN(q.Header.RootHeight), sim.CoqN(q.Header.Round), sim.CoqN(uint64(q.Header.Phase)),
		sim.CoqN(blk.of(q.BlockHash)), sim.CoqN(res.of(q.ResultsHash)), sim.CoqN(p), sim.CoqNList(signers), sim.CoqBool(sigok))
}

func evidenceCases(r *sim.Rng, count int, cw *sim.CaseWriter) {
	powersets := [][]uint64{{100, 100, 100, 100}, {10, 20, 30, 40, 25}, {300, 100, 100, 100, 100, 100, 100}, {50, 50, 50, 50, 50, 50, 50, 50, 50, 50, 50, 50}}
	for c := 0; c < count; c++ {
		powers := powersets[r.Intn(len(powersets))]
		n, err := bftsim.New(powers, 7)
		if err != nil {
			panic(err)
		}
		b := n.Reps[0].B
		ctl := n.Reps[0].Ctl
		ctl.MinEvidenceHeight = r.Pick(0, 0, 0, 5, 6, 8)
		// or: the answer depends on the root height asked about, as on a real root chain; what counts as expired NOW is decided by
		// the replica's current root height (7), not by the height the evidence itself is from
		if r.Chance(50) {
			ctl.UnstakingBlocks = r.Pick(1, 2)
			ctl.MinEvidenceHeight = 7 - ctl.UnstakingBlocks
		}
		ctl.AlreadySlashed = map[string]bool{}
		var invalid []string
		for i := 0; i < len(powers); i++ {
			for _, h := range []uint64{5, 6, 7} {
				if r.Chance(10) {
					ctl.AlreadySlashed[fmt.Sprintf("%x@%d", n.Keys[i].Addr, h)] = true
					invalid = append(invalid, fmt.Sprintf("(%s, %s)", sim.CoqN(uint64(i)), sim.CoqN(h)))
				}
			}
		}
		blk, res := idmap{}, idmap{}
		type val struct {
			block   []byte
			results *lib.CertificateResult
		}
		var vals []val
		for k := 0; k < 3; k++ {
			bb, rr := n.MakeProposal(r.Intn(len(powers)), uint64(10+k))
			vals = append(vals, val{bb, rr})
		}
		mk := func(view *lib.View, v val, proposer int, signers []int) *lib.QuorumCertificate {
			q := &lib.QuorumCertificate{Header: view, ProposerKey: n.Keys[proposer].Pub, BlockHash: b.BlockToHash(v.block), ResultsHash: v.results.Hash()}
			sig, e := sim.AggregateSign(n.VS, q.SignBytes(), signers)
			if e != nil {
				panic(e)
			}
			q.Signature = sig
			return q
		}
		subset := func() []int {
			var s []int
			for i := range powers {
				if r.Chance(60) {
					s = append(s, i)
				}
			}
			if len(s) == 0 {
				s = []int{r.Intn(len(powers))}
			}
			return s
		}
		view := func() *lib.View {
			return &lib.View{NetworkId: bftsim.NetworkID, ChainId: bftsim.ChainID, Height: bftsim.Height, RootHeight: r.Pick(5, 6, 7, 7),
				Round: uint64(r.Intn(3)), Phase: lib.Phase(r.Pick(2, 3, 4, 4, 4, 6, 6, 6, 6))}
		}
		var ev []*bft.DoubleSignEvidence
		var evLit []string
		for k := 0; k < int(r.Pick(1, 1, 2, 3)); k++ {
			va := view()
			vb := va.Copy()
			switch r.Intn(14) {
			case 0:
				vb.Round++
			case 1:
				vb.Phase = lib.Phase(r.Pick(4, 6))
			case 2:
				vb.RootHeight = r.Pick(5, 6, 7)
			}
			x, y := vals[r.Intn(3)], vals[r.Intn(3)]
			pa, pb := r.Intn(len(powers)), r.Intn(len(powers))
			if r.Chance(70) {
				pb = pa
			}
			qa, qb := mk(va, x, pa, subset()), mk(vb, y, pb, subset())
			switch r.Intn(25) {
			case 0:
				qb.Signature.Signature[5] ^= 1 // tampered aggregate
			case 1:
				qa.Block = x.block // a block attached to the evidence
			}
			ev = append(ev, &bft.DoubleSignEvidence{VoteA: qa, VoteB: qb})
			evLit = append(evLit, fmt.Sprintf("(%s, %s)", qcLit(n, blk, res, qa), qcLit(n, blk, res, qb)))
		}
		hasBlock := false
		for _, e := range ev {
			if e.VoteA.Block != nil {
				hasBlock = true
			}
		}
		// a replica that has already processed evidence at this height and has since been moved to a later root height (a
		// root-chain update with the locks kept, or the refresh of a round change): what counts as expired is decided by the root
		// height it is at NOW - an answer remembered from before the move would let expired evidence through
		if ctl.UnstakingBlocks > 0 && !hasBlock && r.Chance(45) {
			_, _ = b.ProcessDSE(ev...)
			newRoot := uint64(7 + 1 + r.Intn(2))
			n.RootUpdate(0, newRoot)
			ctl.MinEvidenceHeight = newRoot - ctl.UnstakingBlocks
			st.Outcomes["processed-again-after-root-update"]++
		}
		out, perr := b.ProcessDSE(ev...)
		if hasBlock {
			// the model has no block field in a certificate: evidence with a block attached must simply be refused
			if perr == nil {
				sim.Direct(cw.OutDir, map[string]any{"finding": "evidence-with-block-accepted", "kind": "ProcessDSE accepted evidence that carries a block"})
			}
			st.Outcomes["with-block-refused"]++
			continue
		}
		obs := "None"
		if perr == nil {
			var ds []string
			for _, d := range out {
				ds = append(ds, fmt.Sprintf("(%s, %s)", sim.CoqN(uint64(n.IndexOf(d.Id))), sim.CoqNList(d.Heights)))
			}
			obs = "(Some " + sim.CoqList(ds) + ")"
			if len(out) > 0 {
				st.Outcomes["double-signers-reported"]++
			} else {
				st.Outcomes["accepted-nobody-reported"]++
			}
		} else {
			st.Outcomes["refused"]++
		}
		cw.Add(fmt.Sprintf("mkEC %s %s %s %s %s", sim.CoqNList(powers), sim.CoqN(ctl.MinEvidenceHeight), sim.CoqList(evLit), sim.CoqList(invalid), obs), map[string]any{"pieces": len(ev), "error": perr != nil})
		st.Cases++
		st.Distinct++
	}
}

// collectionCases: evidence pieces offered one by one to the real AddDSE on ONE collection (as a leader collects them from
// ELECTION votes and from its own partial certificates): exact duplicates, pieces about the same view and the same two payloads
// under DIFFERENT signer sets (they accuse different validators), pieces about other payloads, invalid pieces. Observed: how many
// pieces the collection kept and what the real ProcessDSE derives from it.
func collectionCases(r *sim.Rng, count int, cw *sim.CaseWriter) {
	powersets := [][]uint64{{100, 100, 100, 100}, {10, 20, 30, 40, 25}, {300, 100, 100, 100, 100, 100, 100}, {50, 50, 50, 50, 50, 50, 50, 50, 50, 50, 50, 50}}
	for c := 0; c < count; c++ {
		powers := powersets[r.Intn(len(powersets))]
		n, err := bftsim.New(powers, 7)
		if err != nil {
			panic(err)
		}
		b := n.Reps[0].B
		ctl := n.Reps[0].Ctl
		ctl.MinEvidenceHeight = r.Pick(0, 0, 5, 6)
		ctl.AlreadySlashed = map[string]bool{}
		var invalid []string
		for i := 0; i < len(powers); i++ {
			for _, h := range []uint64{6, 7} {
				if r.Chance(8) {
					ctl.AlreadySlashed[fmt.Sprintf("%x@%d", n.Keys[i].Addr, h)] = true
					invalid = append(invalid, fmt.Sprintf("(%s, %s)", sim.CoqN(uint64(i)), sim.CoqN(h)))
				}
			}
		}
		blk, res := idmap{}, idmap{}
		type val struct {
			block   []byte
			results *lib.CertificateResult
		}
		var vals []val
		for k := 0; k < 3; k++ {
			bb, rr := n.MakeProposal(r.Intn(len(powers)), uint64(20+k))
			vals = append(vals, val{bb, rr})
		}
		mk := func(view *lib.View, v val, proposer int, signers []int) *lib.QuorumCertificate {
			q := &lib.QuorumCertificate{Header: view, ProposerKey: n.Keys[proposer].Pub, BlockHash: b.BlockToHash(v.block), ResultsHash: v.results.Hash()}
			sig, e := sim.AggregateSign(n.VS, q.SignBytes(), signers)
			if e != nil {
				panic(e)
			}
			q.Signature = sig
			return q
		}
		subset := func() []int {
			var s []int
			for i := range powers {
				if r.Chance(55) {
					s = append(s, i)
				}
			}
			if len(s) == 0 {
				s = []int{r.Intn(len(powers))}
			}
			return s
		}
		col := bft.NewDSE()
		var evLit []string
		type piece struct {
			view   *lib.View
			x, y   val
			p      int
			sa, sb []int
		}
		var pieces []piece
		kinds := map[string]int{}
		for k := 0; k < 2+r.Intn(4); k++ {
			var pc piece
			switch {
			case len(pieces) > 0 && r.Chance(25): // an exact duplicate of an earlier piece
				pc = pieces[r.Intn(len(pieces))]
				kinds["duplicate"]++
			case len(pieces) > 0 && r.Chance(45): // the same view and payloads, other signers
				pc = pieces[r.Intn(len(pieces))]
				pc.sa, pc.sb = subset(), subset()
				kinds["same-content-other-signers"]++
			default:
				pc = piece{view: &lib.View{NetworkId: bftsim.NetworkID, ChainId: bftsim.ChainID, Height: bftsim.Height, RootHeight: r.Pick(6, 7, 7),
					Round: uint64(r.Intn(2)), Phase: lib.Phase(r.Pick(4, 4, 6))}, x: vals[r.Intn(3)], y: vals[r.Intn(3)], p: r.Intn(len(powers)), sa: subset(), sb: subset()}
				kinds["fresh"]++
			}
			pieces = append(pieces, pc)
			qa, qb := mk(pc.view.Copy(), pc.x, pc.p, pc.sa), mk(pc.view.Copy(), pc.y, pc.p, pc.sb)
			evLit = append(evLit, fmt.Sprintf("(%s, %s)", qcLit(n, blk, res, qa), qcLit(n, blk, res, qb)))
			_ = b.AddDSE(&col, &bft.DoubleSignEvidence{VoteA: qa, VoteB: qb})
		}
		out, perr := b.ProcessDSE(col.Evidence...)
		obs := "None"
		if perr == nil {
			var ds []string
			for _, d := range out {
				ds = append(ds, fmt.Sprintf("(%s, %s)", sim.CoqN(uint64(n.IndexOf(d.Id))), sim.CoqNList(d.Heights)))
			}
			obs = "(Some " + sim.CoqList(ds) + ")"
		}
		cw.Add(fmt.Sprintf("mkCol %s %s %s %s %s %s", sim.CoqNList(powers), sim.CoqN(ctl.MinEvidenceHeight), sim.CoqList(evLit), sim.CoqList(invalid), sim.CoqN(uint64(len(col.Evidence))), obs),
			map[string]any{"pieces": len(pieces), "kept": len(col.Evidence), "kinds": kinds})
		st.Cases++
		st.Distinct++
		st.Outcomes[fmt.Sprintf("collection:kept-%d-of-%d", len(col.Evidence), len(pieces))]++
	}
}

func indexCases(r *sim.Rng, count int, cw *sim.CaseWriter) {
	for c := 0; c < count; c++ {
		g := &sim.GenesisSpec{}
		for i := 0; i < 5; i++ {
			g.Validators = append(g.Validators, sim.StdValidator(i, 1000000))
		}
		n, err := sim.NewFNode(g.State(), nil)
		if err != nil {
			panic(err)
		}
		n.Enter()
		params, _ := n.FSM.GetParamsVal()
		var index []string // pairs already slashed (model state)
		var calls, obs []string
		for k := 0; k < 1+r.Intn(3); k++ {
			var ds []*lib.DoubleSigner
			var lit []string
			for j := 0; j < 1+r.Intn(3); j++ {
				v := r.Intn(5)
				var hs []uint64
				for x := 0; x < r.Intn(4); x++ {
					hs = append(hs, r.Pick(3, 4, 5))
				}
				ds = append(ds, &lib.DoubleSigner{Id: sim.BLSKey(v).Pub, Heights: hs})
				lit = append(lit, fmt.Sprintf("(%s, %s)", sim.CoqN(uint64(v)), sim.CoqNList(hs)))
			}
			// a failing call aborts the block: the harness runs every call in a nested store transaction and discards it on error
			txn, _ := n.FSM.TxnWrap()
			herr := n.FSM.HandleDoubleSigners(1, params, ds)
			if herr != nil {
				txn.Discard()
				n.FSM.SetStore(n.Store)
			} else {
				_ = txn.Flush()
				n.FSM.SetStore(n.Store)
			}
			calls = append(calls, sim.CoqList(lit))
			obs = append(obs, sim.CoqBool(herr == nil))
			_ = index
		}
		var stakes []string
		for i := 0; i < 5; i++ {
			v, _ := n.FSM.GetValidator(crypto.NewAddress(sim.BLSKey(i).Addr))
			s := uint64(0)
			if v != nil {
				s = v.StakedAmount
			}
			stakes = append(stakes, sim.CoqN(s))
		}
		cw.Add(fmt.Sprintf("mkIC %s %s %s %s", sim.CoqList(calls), sim.CoqList(obs), sim.CoqN(params.DoubleSignSlashPercentage), sim.CoqList(stakes)), map[string]any{"calls": len(calls)})
		st.Cases++
		st.Distinct++
		st.Outcomes["index-case"]++
		n.Close()
	}
}

// capCases: within one block a committee never slashes a validator by more than the per-committee cap - also when another
// committee's slash of the same validator comes in between (A, B, A): each committee's budget is its own. The real
// HandleDoubleSigners (protocol version 2) is called for committee A, committee B and committee A again with fresh evidence heights;
// the stake after every call is compared with the budgeted expectation.
func capCases(r *sim.Rng, count int, outDir string) {
	for c := 0; c < count; c++ {
		g := &sim.GenesisSpec{}
		p := fsm.DefaultParams()
		p.Consensus.ProtocolVersion = fsm.NewProtocolVersion(0, 2)
		p.Validator.DoubleSignSlashPercentage = r.Pick(4, 10, 10, 14)
		p.Validator.MaxSlashPerCommittee = r.Pick(15, 15, 20, 25)
		g.Params = p
		for i := 0; i < 5; i++ {
			g.Validators = append(g.Validators, sim.StdValidator(i, 1_000_000+uint64(r.Intn(1000)), 1, 2, 3))
		}
		n, err := sim.NewFNode(g.State(), nil)
		if err != nil {
			panic(err)
		}
		n.Enter()
		params, _ := n.FSM.GetParamsVal()
		v := r.Intn(5)
		addr := crypto.NewAddress(sim.BLSKey(v).Addr)
		stakeOf := func() uint64 {
			val, _ := n.FSM.GetValidator(addr)
			if val == nil {
				return 0
			}
			return val.StakedAmount
		}
		a, b := uint64(1+r.Intn(3)), uint64(0)
		for b = uint64(1 + r.Intn(3)); b == a; b = uint64(1 + r.Intn(3)) {
		}
		order := []uint64{a, b, a}
		if r.Chance(30) {
			order = []uint64{a, b, b, a, a}
		}
		taken := map[uint64]uint64{}
		height := uint64(3)
		for step, chain := range order {
			before := stakeOf()
			if before == 0 {
				break
			}
			height++
			herr := n.FSM.HandleDoubleSigners(chain, params, []*lib.DoubleSigner{{Id: sim.BLSKey(v).Pub, Heights: []uint64{height}}})
			if herr != nil {
				break
			}
			after := stakeOf()
			pct, cap := params.DoubleSignSlashPercentage, params.MaxSlashPerCommittee
			apply := uint64(0)
			if taken[chain] < cap {
				apply = pct
				if taken[chain]+pct >= cap {
					apply = cap - taken[chain]
				}
			}
			taken[chain] += apply
			want := before
			if apply >= 100 {
				want = 0
			} else if apply > 0 {
				want = lib.SafeMulDiv(before, 100-apply, 100)
			}
			if after != want {
				sim.Direct(outDir, map[string]any{"finding": "committee-slash-cap-exceeded", "kind": "a committee's slash of a validator within one block does not follow its own budget",
					"step": step, "committee": chain, "order": order, "stake_before": before, "stake_after": after, "expected": want, "percent": pct, "cap": cap, "taken_by_this_committee_before": taken[chain] - apply})
				break
			}
		}
		st.Cases++
		st.Distinct++
		st.Outcomes["cap-case"]++
		n.Close()
	}
}

func main() {
	nEv := flag.Int("evidence", 150, "evidence cases")
	nIdx := flag.Int("index", 40, "index cases")
	outDir := flag.String("outdir", ".", "output directory")
	_ = flag.String("replay", "", "replay file (cases regenerate deterministically from the seed)")
	flag.Parse()
	sim.RegisterKeys(16)
	r := sim.NewRng(sim.SeedFromEnv())
	imp := "From V Require Import U64 Extracted Bft BftNet Evidence EvidenceCheck."
	w1 := &sim.CaseWriter{OutDir: *outDir, Name: "c14ev", Imports: imp, CaseType: "ev_case", MFun: "ev_mismatches", VFun: "", PerShard: 80}
	evidenceCases(r.Fork(), *nEv, w1)
	w1.Close(st)
	w2 := &sim.CaseWriter{OutDir: *outDir, Name: "c14idx", Imports: imp, CaseType: "ix_case", MFun: "ix_mismatches", VFun: "ix_violations", PerShard: 80}
	indexCases(r.Fork(), *nIdx, w2)
	w2.Close(st)
	w3 := &sim.CaseWriter{OutDir: *outDir, Name: "c14own", Imports: imp, CaseType: "ox_case", MFun: "ox_mismatches", VFun: "ox_violations", PerShard: 80}
	ownCases(r.Fork(), *nIdx, w3)
	w3.Close(st)
	capCases(r.Fork(), 1+*nIdx/2, *outDir)
	w4 := &sim.CaseWriter{OutDir: *outDir, Name: "c14col", Imports: imp, CaseType: "col_case", MFun: "col_mismatches", VFun: "col_violations", PerShard: 80}
	collectionCases(r.Fork(), 1+*nEv/3, w4)
	w4.Close(st)
	fmt.Printf("c14: %d cases; outcomes %v\n", st.Cases, st.Outcomes)
	_ = fsm.DefaultParams
}

// ownCases: the calls of one block are nested committees' certificate-results transactions (refused as a whole when they name a known
// pair) and the chain's OWN last certificate (executed by begin-block: the known pairs are dropped first - the real
// dropKnownDoubleSigners through a hook - then the real HandleDoubleSigners, exactly what HandleByzantine does for the own chain id)
func ownCases(r *sim.Rng, count int, cw *sim.CaseWriter) {
	for c := 0; c < count; c++ {
		g := &sim.GenesisSpec{}
		for i := 0; i < 5; i++ {
			g.Validators = append(g.Validators, sim.StdValidator(i, 1000000))
		}
		n, err := sim.NewFNode(g.State(), nil)
		if err != nil {
			panic(err)
		}
		n.Enter()
		params, _ := n.FSM.GetParamsVal()
		var calls, obs []string
		for k := 0; k < 2+r.Intn(3); k++ {
			own := r.Chance(45)
			var ds []*lib.DoubleSigner
			var lit []string
			for j := 0; j < 1+r.Intn(3); j++ {
				v := r.Intn(5)
				var hs []uint64
				for x := 0; x < r.Intn(4); x++ {
					hs = append(hs, r.Pick(3, 4, 5))
				}
				ds = append(ds, &lib.DoubleSigner{Id: sim.BLSKey(v).Pub, Heights: hs})
				lit = append(lit, fmt.Sprintf("(%s, %s)", sim.CoqN(uint64(v)), sim.CoqNList(hs)))
			}
			txn, _ := n.FSM.TxnWrap()
			var herr lib.ErrorI
			if own {
				var kept []*lib.DoubleSigner
				if kept, herr = n.FSM.VerifDropKnownDoubleSigners(ds); herr == nil {
					herr = n.FSM.HandleDoubleSigners(1, params, kept)
				}
			} else {
				herr = n.FSM.HandleDoubleSigners(1, params, ds)
			}
			if herr != nil {
				txn.Discard()
			} else {
				_ = txn.Flush()
			}
			n.FSM.SetStore(n.Store)
			calls = append(calls, fmt.Sprintf("(%s, %s)", sim.CoqBool(own), sim.CoqList(lit)))
			obs = append(obs, sim.CoqBool(herr == nil))
			if own {
				st.Outcomes[fmt.Sprintf("own-certificate:accepted=%v", herr == nil)]++
			}
		}
		var stakes []string
		for i := 0; i < 5; i++ {
			v, _ := n.FSM.GetValidator(crypto.NewAddress(sim.BLSKey(i).Addr))
			s := uint64(0)
			if v != nil {
				s = v.StakedAmount
			}
			stakes = append(stakes, sim.CoqN(s))
		}
		cw.Add(fmt.Sprintf("mkOX %s %s %s %s", sim.CoqList(calls), sim.CoqList(obs), sim.CoqN(params.DoubleSignSlashPercentage), sim.CoqList(stakes)), map[string]any{"calls": len(calls)})
		st.Cases++
		st.Distinct++
		st.Outcomes["own-case"]++
		n.Close()
	}
}
