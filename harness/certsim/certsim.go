// Package certsim drives certificate-result transactions of a nested committee through a real root-chain state machine
// (shared by the c04 harness: properties C04 / C07 / C12, and the c20 harness: the escrow identity under lock / reset / close).
package certsim

import (
	"bytes"
	"context"
	"fmt"
	"os"
	"strings"

	"github.com/canopy-network/canopy/fsm"
	"github.com/canopy-network/canopy/lib"
	"github.com/canopy-network/canopy/lib/crypto"
	"verifharness/sim"
)

// certMode: certificate-result transactions of a NESTED committee (chain 2) on a root-chain state machine, with REAL aggregate
// signatures of the committee: reward percents, double-signer reports (fresh heights, heights already indexed - the transaction
// then fails after the non-signer settlement has already slashed -, non-members), non-signers (a member left out of the
// signature with a strict liveness policy: settled and slashed at once), sell-order instructions (lock, reset, close on open
// orders, unknown ids, duplicates inside one certificate, lock and close of the same order together). Protocol version 2
// (committee-scoped slashing with the per-block slash tracker).
//   - every transaction alone through ApplyTransactions: scan before / after judged (conservation, nothing created, no trace of a
//     failed transaction, staking records, escrow identity)
//   - blocks [.. ok, FAILING, ok ..] on one twin and the same block without the failing ones on the other: state and root must be equal
const nested = uint64(2)

type certChain struct {
	n      *sim.FNode
	height uint64 // next nested-chain height to certify
	orders [][]byte
	phase  lib.Phase // phase of the certificates build() signs (the commit phase unless a forgery is being built)
}

func certGenesis(r *sim.Rng) *fsm.GenesisState {
	g := &sim.GenesisSpec{}
	p := fsm.DefaultParams()
	p.Consensus.ProtocolVersion = fsm.NewProtocolVersion(0, 2)
	p.Validator.MaxNonSign, p.Validator.NonSignWindow = 0, 1
	p.Validator.UnstakingBlocks = 3
	g.Params = p
	for i := 0; i < 5; i++ {
		v := sim.StdValidator(i, 1_000_000+uint64(r.Intn(3))*500_000, 1, nested)
		v.Compound = i%2 == 0
		g.Validators = append(g.Validators, v)
	}
	for i := 0; i < 10; i++ {
		g.Accounts = append(g.Accounts, &fsm.Account{Address: sim.BLSKey(i).Addr, Amount: 5_000_000_000})
	}
	// a buyer whose balance is close to 2^64: crediting it can overflow
	// (the genesis supply must stay below 2^64: the other balances are small against this one)
	g.Accounts = append(g.Accounts, &fsm.Account{Address: sim.BLSKey(11).Addr, Amount: ^uint64(0) - 60_000_000_000 - uint64(r.Intn(3000))})
	return g.State()
}

func newCertChain(g *fsm.GenesisState) *certChain {
	n, err := sim.NewFNode(g, nil)
	if err != nil {
		panic(err)
	}
	return &certChain{n: n, height: 1, phase: lib.Phase_PRECOMMIT_VOTE}
}

// certTx builds one signed certificate-results transaction against the node's current state
func (c *certChain) certTx(r *sim.Rng) (txBytes []byte, meta map[string]any, nonSigner []byte) {
	n := c.n
	n.Enter()
	h := n.FSM.Height()
	root := h - 1
	vs, err := n.FSM.LoadCommittee(nested, root)
	if err != nil || vs.MultiKey == nil {
		return nil, nil, nil
	}
	members := vs.ValidatorSet.ValidatorSet
	results := &lib.CertificateResult{RewardRecipients: &lib.RewardRecipients{}}
	// rewards
	budget := uint64(100)
	for k := 0; k < 1+r.Intn(3); k++ {
		p := uint64(r.Intn(int(budget) + 1))
		budget -= p
		results.RewardRecipients.PaymentPercents = append(results.RewardRecipients.PaymentPercents, &lib.PaymentPercents{Address: sim.BLSKey(r.Intn(10)).Addr, Percent: p, ChainId: nested})
	}
	meta = map[string]any{"kind": "certificate-results"}
	// double signers
	if r.Chance(55) {
		var ds []*lib.DoubleSigner
		for k := 0; k < 1+r.Intn(2); k++ {
			who := sim.BLSKey(r.Intn(6)).Pub // index 5 is not a member
			var hs []uint64
			for j := 0; j < 1+r.Intn(2); j++ {
				hs = append(hs, uint64(1+r.Intn(int(h)+1)))
			}
			if r.Chance(15) && len(hs) > 0 {
				hs = append(hs, hs[0])
			}
			ds = append(ds, &lib.DoubleSigner{Id: who, Heights: hs})
		}
		results.SlashRecipients = &lib.SlashRecipients{DoubleSigners: ds}
		meta["double_signers"] = len(ds)
	}
	// order instructions
	if len(c.orders) > 0 && r.Chance(65) {
		o := &lib.Orders{}
		pick := func() []byte {
			if r.Chance(10) {
				return r.Bytes(20)
			}
			return c.orders[r.Intn(len(c.orders))]
		}
		for k := 0; k < r.Intn(3); k++ {
			buyer := sim.BLSKey(6 + r.Intn(4)).Addr
			if r.Chance(25) {
				buyer = sim.BLSKey(11).Addr
			}
			o.LockOrders = append(o.LockOrders, &lib.LockOrder{OrderId: pick(), ChainId: nested, BuyerReceiveAddress: buyer, BuyerSendAddress: r.Bytes(20), BuyerChainDeadline: c.height + 10})
		}
		for k := 0; k < r.Intn(2); k++ {
			o.ResetOrders = append(o.ResetOrders, pick())
		}
		for k := 0; k < r.Intn(3); k++ {
			id := pick()
			o.CloseOrders = append(o.CloseOrders, id)
			if r.Chance(30) {
				o.CloseOrders = append(o.CloseOrders, id) // the same close instruction twice in one certificate
			}
		}
		results.Orders = o
		meta["lock"], meta["reset"], meta["close"] = len(o.LockOrders), len(o.ResetOrders), len(o.CloseOrders)
	}
	qcHeight := c.height
	if r.Chance(8) && c.height > 1 {
		qcHeight = c.height - 1 // stale nested height: refused
	}
	skip := -1
	if r.Chance(45) {
		skip = 1 + r.Intn(len(members)-1)
	}
	meta["non_signer"] = skip >= 0
	// sometimes the certificate is not a commit certificate: the committee's ELECTION_VOTE (which signs the view and the
	// proposer only) or PROPOSE_VOTE aggregate under results of the proposer's choosing. Only the commit certificate carries results
	if r.Chance(12) {
		c.phase = []lib.Phase{lib.Phase_ELECTION_VOTE, lib.Phase_PROPOSE_VOTE, lib.Phase_UNKNOWN}[r.Intn(3)]
		meta["forged_phase"] = c.phase.String()
		skip = -1
	}
	bz, ns := c.build(r, results, qcHeight, skip)
	c.phase = lib.Phase_PRECOMMIT_VOTE
	if bz == nil {
		return nil, nil, nil
	}
	return bz, meta, ns
}

// build signs the results as the certificate of nested height qcHeight; member index skip (if >= 0) does not sign
func (c *certChain) build(r *sim.Rng, results *lib.CertificateResult, qcHeight uint64, skip int) (txBytes []byte, nonSigner []byte) {
	n := c.n
	n.Enter()
	h := n.FSM.Height()
	root := h - 1
	vs, err := n.FSM.LoadCommittee(nested, root)
	if err != nil || vs.MultiKey == nil {
		return nil, nil
	}
	members := vs.ValidatorSet.ValidatorSet
	if results.RewardRecipients == nil {
		results.RewardRecipients = &lib.RewardRecipients{PaymentPercents: []*lib.PaymentPercents{{Address: sim.BLSKey(0).Addr, Percent: 100, ChainId: nested}}}
	}
	qc := &lib.QuorumCertificate{
		Header:      &lib.View{Height: qcHeight, NetworkId: uint64(n.Config.NetworkID), RootHeight: root, ChainId: nested, Phase: c.phase},
		Results:     results,
		ResultsHash: results.Hash(),
		BlockHash:   crypto.Hash([]byte(fmt.Sprintf("nested-block-%d", qcHeight))),
		ProposerKey: members[0].PublicKey,
	}
	var signers []int
	for i := range members {
		if i != skip {
			signers = append(signers, i)
		}
	}
	sig, e := sim.AggregateSign(vs, qc.SignBytes(), signers)
	if e != nil {
		return nil, nil
	}
	qc.Signature = sig
	tx, terr := fsm.NewCertificateResultsTx(sim.BLSKey(0).Priv, qc, n.Config.ChainId, uint64(n.Config.NetworkID), 0, h, fmt.Sprintf("c%d-%d", qcHeight, r.Intn(1_000_000)))
	if terr != nil {
		return nil, nil
	}
	bz, merr := lib.Marshal(tx)
	if merr != nil {
		return nil, nil
	}
	if skip >= 0 && skip < len(members) {
		if pk, e := crypto.NewPublicKeyFromBytes(members[skip].PublicKey); e == nil {
			nonSigner = pk.Address().Bytes()
		}
	}
	return bz, nonSigner
}

func (c *certChain) openOrders() {
	c.n.Enter()
	c.orders = nil
	book, err := c.n.FSM.GetOrderBook(nested)
	if err != nil || book == nil {
		return
	}
	for _, o := range book.Orders {
		c.orders = append(c.orders, o.Id)
	}
}

// Run plays nChains twin chains; count(kind) is called for every case / outcome (statistics of the calling harness)
func Run(r *sim.Rng, nChains, perChain int, outDir string, wCert *sim.CaseWriter, count func(string)) {
	sim.RegisterKeys(16)
	for k := 0; k < nChains; k++ {
		g := certGenesis(r)
		a, b := newCertChain(g), newCertChain(g)
		// sell orders for the nested chain, committed on both twins
		spec := &sim.BlockSpec{}
		for i := 0; i < 6; i++ {
			a.n.Enter()
			sell := 1000 * uint64(1+r.Intn(9))
			req := sell
			if r.Chance(60) {
				req = uint64(1 + r.Intn(int(sell)))
			}
			tx := sim.TxBytes(fsm.NewCreateOrderTx(sim.BLSKey(i%5).Priv, sell, req, nested, nil, r.Bytes(20), uint64(a.n.Config.NetworkID), a.n.Config.ChainId, 100000, a.n.FSM.Height(), fmt.Sprintf("o%d", i)))
			spec.Txs = append(spec.Txs, tx)
		}
		if oa, ob := a.n.Apply(spec), b.n.Apply(spec); oa.Err != nil || ob.Err != nil {
			a.n.Close()
			b.n.Close()
			continue
		}
		a.openOrders()
		scripted := 0
		for i := 0; i < perChain; i++ {
			// ---- one transaction alone
			tx, meta, nonSigner := a.certTx(r)
			if tx == nil {
				break
			}
			a.n.Enter()
			pre, e := sim.ScanState(a.n.FSM)
			if e != nil {
				panic(e)
			}
			// a slash earlier in the same block: the per-block tracker is not empty when the transaction under test starts
			if r.Chance(70) {
				if vals, e := a.n.FSM.GetValidators(); e == nil && len(vals) > 0 {
					who := vals[r.Intn(len(vals))].Address
					if nonSigner != nil && r.Chance(75) {
						who = nonSigner // the very validator the transaction under test will settle as a non-signer
					}
					_, _, _, _ = a.n.FSM.VerifSlash(who, nested, uint64(1+r.Intn(6)))
					pre, _ = sim.ScanState(a.n.FSM)
				}
			}
			trackerBefore := a.n.FSM.VerifSlashTrackerDigest()
			res := new(lib.ApplyBlockResults)
			if aerr := a.n.FSM.ApplyTransactions(context.Background(), [][]byte{tx}, res, false); aerr != nil {
				sim.Direct(outDir, map[string]any{"finding": "apply-transactions-error", "kind": "ApplyTransactions returned an error for a single certificate-results transaction", "error": aerr.Error()})
				break
			}
			okTx := len(res.Results) == 1
			if !okTx {
				if os.Getenv("VERIF_DEBUG") != "" {
					fmt.Printf("certsim failed tx: nonSigner=%x tracker before [%s] after [%s]\n", nonSigner, trackerBefore, a.n.FSM.VerifSlashTrackerDigest())
				}
				if after := a.n.FSM.VerifSlashTrackerDigest(); after != trackerBefore {
					sim.Direct(outDir, map[string]any{"finding": "failed-transaction-left-trace", "kind": "the per-block slash tracker differs after a failed certificate-results transaction",
						"tracker_before": trackerBefore, "tracker_after": after})
				}
			}
			post, e := sim.ScanState(a.n.FSM)
			if e != nil {
				panic(e)
			}
			meta["ok"] = okTx
			if fp, forged := meta["forged_phase"]; forged && okTx {
				sim.Direct(outDir, map[string]any{"finding": "non-commit-certificate-accepted-as-results", "kind": "a certificate-results transaction whose certificate is not in the commit phase changed the state",
					"phase": fp})
			}
			if _, forged := meta["forged_phase"]; forged {
				count("certificate-results:forged-phase")
			}
			if !okTx && len(res.Failed) == 1 {
				meta["error"] = res.Failed[0].Error.Error()
			}
			wCert.Add(fmt.Sprintf("mkCr %s %s %s", pre.Lit(), sim.CoqBool(okTx), post.Lit()), meta)
			count("case")
			count(fmt.Sprintf("certificate-results:ok=%v", okTx))
			a.n.FSM.Reset() // drop it: the block below is built on the committed state of both twins
			// ---- a block of several certificate-results transactions: twin A gets all, twin B only those that succeed on A
			var txs [][]byte
			var mustSucceed []byte
			// sometimes the block is the pattern [ok, FAILING-after-it-slashed, ok] around ONE validator V: V reported as a double
			// signer at h1; then V settled as a non-signer (slashed first) and reported at h1 AGAIN (already indexed by now: the
			// transaction fails); then V settled as a non-signer and reported at h2 - near the per-committee cap, which is kept in the
			// per-block slash tracker
			if a.n.FSM.Height() >= 3 && r.Chance(70) {
				a.n.Enter()
				if vs, e := a.n.FSM.LoadCommittee(nested, a.n.FSM.Height()-1); e == nil && len(vs.ValidatorSet.ValidatorSet) >= 4 {
					k := 1 + r.Intn(len(vs.ValidatorSet.ValidatorSet)-1)
					V := vs.ValidatorSet.ValidatorSet[k].PublicKey
					h1, h2 := 2*scripted+1, 2*scripted+2 // heights never reported for anybody before
					scripted++
					if uint64(h2) <= a.n.FSM.Height()+1 {
						ds := func(h int) *lib.CertificateResult {
							return &lib.CertificateResult{SlashRecipients: &lib.SlashRecipients{DoubleSigners: []*lib.DoubleSigner{{Id: V, Heights: []uint64{uint64(h)}}}}}
						}
						t1, _ := a.build(r, ds(h1), a.height, k) // V signs none of the three: its miss in one is settled (slashed) at the start of the next
						tF, _ := a.build(r, ds(h1), a.height+1, k)
						// or: the failing transaction names (V, h2) TWICE - the first is written to the double-signer index, the second is
						// refused and the transaction fails; the index entry must go with it, or the well-formed report of (V, h2) right
						// behind it is refused as "already slashed" and V is never slashed for h2
						indexedThenFailed := r.Chance(65)
						if indexedThenFailed {
							tF, _ = a.build(r, &lib.CertificateResult{SlashRecipients: &lib.SlashRecipients{DoubleSigners: []*lib.DoubleSigner{{Id: V, Heights: []uint64{uint64(h2)}}, {Id: V, Heights: []uint64{uint64(h2)}}}}}, a.height+1, k)
						}
						t3, _ := a.build(r, ds(h2), a.height+1, k)
						if t1 != nil && tF != nil && t3 != nil {
							txs = append(txs, t1, tF, t3)
							a.height += 2
							count("certificate-block:scripted-ok-failing-ok")
							if indexedThenFailed {
								mustSucceed = t3
								count("certificate-block:failing-transaction-had-written-to-the-index")
							}
						}
					}
				}
			}
			for j := 0; j < 2+r.Intn(3) && len(txs) == 0; j++ {
				t, _, _ := a.certTx(r)
				if t != nil {
					txs = append(txs, t)
					if r.Chance(60) {
						a.height++ // the next one certifies the next nested height; otherwise it repeats the height and fails
					}
				}
			}
			a.height++
			oa := a.n.Apply(&sim.BlockSpec{Txs: txs})
			if oa.Err != nil {
				sim.Direct(outDir, map[string]any{"finding": "block-cannot-be-produced", "kind": "a block of certificate-results transactions could not be produced", "error": oa.Err.Error()})
				break
			}
			failed := map[string]bool{}
			for _, f := range oa.Results.Failed {
				failed[f.Hash] = true
			}
			if mustSucceed != nil && failed[crypto.HashString(mustSucceed)] && strings.Contains(failedErr(oa.Results, mustSucceed), "double signer") {
				sim.Direct(outDir, map[string]any{"finding": "failed-transaction-left-trace", "kind": "a well-formed double-signer report is refused because the FAILED transaction before it had written the same (validator, height) pair to the index",
					"error": failedErr(oa.Results, mustSucceed)})
			}
			var good [][]byte
			for _, t := range txs {
				if !failed[crypto.HashString(t)] {
					good = append(good, t)
				}
			}
			ob := b.n.Apply(&sim.BlockSpec{Txs: good})
			if ob.Err != nil {
				sim.Direct(outDir, map[string]any{"finding": "failed-transaction-left-trace", "kind": "the block without the failing transactions cannot be produced on the twin", "error": ob.Err.Error()})
				break
			}
			count(fmt.Sprintf("certificate-block:failed=%d", len(txs)-len(good)))
			a.n.Enter()
			sa, _ := sim.ScanState(a.n.FSM)
			b.n.Enter()
			sb, _ := sim.ScanState(b.n.FSM)
			if !bytes.Equal(oa.Header.StateRoot, ob.Header.StateRoot) || sa.Lit() != sb.Lit() {
				sim.Direct(outDir, map[string]any{"finding": "failed-transaction-left-trace", "kind": "a block with failing certificate-results transactions ends in another state than the same block without them",
					"height": a.n.FSM.Height(), "failed": len(txs) - len(good), "state_root_with": fmt.Sprintf("%x", oa.Header.StateRoot), "state_root_without": fmt.Sprintf("%x", ob.Header.StateRoot)})
				break
			}
			a.openOrders()
		}
		a.repeatedDoubleSigner(r, outDir, count)
		a.n.Close()
		b.n.Close()
	}
}

// repeatedDoubleSigner: validator V (staked for the root chain and the nested chain) equivocated at height hh on both. Block N carries
// the nested committee's certificate results slashing (V, hh); the root committee's OWN results for block N name (V, hh) as well (the
// replicas checked their list against the state committed at N-1, where the pair was not yet known). Block N+1 executes block N's own
// results in its begin-block: the pair must be slashed at most once, and the chain must go on.
func (c *certChain) repeatedDoubleSigner(r *sim.Rng, outDir string, count func(string)) {
	n := c.n
	n.Enter()
	h := n.FSM.Height()
	if h < 3 {
		return
	}
	vs, err := n.FSM.LoadCommittee(nested, h-1)
	if err != nil || len(vs.ValidatorSet.ValidatorSet) < 2 {
		return
	}
	own, err := n.FSM.LoadCommittee(n.Config.ChainId, h-1)
	if err != nil {
		return
	}
	var V []byte
	for _, m := range vs.ValidatorSet.ValidatorSet[1:] {
		for _, o := range own.ValidatorSet.ValidatorSet {
			if bytes.Equal(m.PublicKey, o.PublicKey) {
				V = m.PublicKey
			}
		}
	}
	if V == nil {
		return
	}
	pk, e := crypto.NewPublicKeyFromBytes(V)
	if e != nil {
		return
	}
	hh := uint64(0)
	for cand := h; cand >= 1; cand-- {
		if ok, e := n.Store.IsValidDoubleSigner(pk.Address().Bytes(), cand); e == nil && ok {
			hh = cand
			break
		}
	}
	if hh == 0 {
		return
	}
	ds := func() *lib.SlashRecipients {
		return &lib.SlashRecipients{DoubleSigners: []*lib.DoubleSigner{{Id: V, Heights: []uint64{hh}}}}
	}
	tx, _ := c.build(r, &lib.CertificateResult{SlashRecipients: ds()}, c.height, -1)
	if tx == nil {
		return
	}
	c.height++
	stakeOf := func() uint64 {
		n.Enter()
		v, e := n.FSM.GetValidator(crypto.NewAddress(pk.Address().Bytes()))
		if e != nil || v == nil {
			return 0
		}
		return v.StakedAmount
	}
	s0 := stakeOf()
	proposer := sim.BLSKey(0).Addr
	o1 := n.Apply(&sim.BlockSpec{Txs: [][]byte{tx}, Results: &lib.CertificateResult{
		RewardRecipients: &lib.RewardRecipients{PaymentPercents: []*lib.PaymentPercents{{Address: proposer, Percent: 100, ChainId: n.Config.ChainId}}},
		SlashRecipients:  ds()}})
	if o1.Err != nil || o1.Results == nil || len(o1.Results.Failed) != 0 {
		count("repeated-double-signer:setup-failed")
		return
	}
	s1 := stakeOf()
	o2 := n.Apply(&sim.BlockSpec{})
	count("repeated-double-signer")
	if o2.Err != nil {
		sim.Direct(outDir, map[string]any{"finding": "chain-halts-after-repeated-double-signer", "kind": "no block can be applied after a block whose own certificate results name a (validator, height) pair that a transaction of the same block had already slashed",
			"height": n.FSM.Height(), "double_sign_height": hh, "error": o2.Err.Error()})
		return
	}
	if s2 := stakeOf(); s1 < s0 && s2 < s1 {
		sim.Direct(outDir, map[string]any{"finding": "double-signer-slashed-twice-for-one-height", "kind": "the same (validator, height) pair was slashed by the nested committee's certificate and again by the root committee's",
			"stake_before": s0, "after_first": s1, "after_second": s2})
	}
}

func failedErr(res *lib.ApplyBlockResults, tx []byte) string {
	h := crypto.HashString(tx)
	for _, f := range res.Failed {
		if f.Hash == h && f.Error != nil {
			return f.Error.Error()
		}
	}
	return ""
}
