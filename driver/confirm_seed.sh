#!/bin/bash
# confirm_seed.sh <Cxx> [pkgs...] : confirms a seeded change in a scratch worktree of /repo (outside /repo and /verif):
# the patch applies, the code builds, the existing tests of the given packages pass with it, the demonstration fails with it
# and passes without it. Writes seeded/<Cxx>/confirm.log. The worktree is removed afterwards.
set -u
ID=$1; shift
PKGS="$@"
SEED=${SEEDROOT:-/verif/seeded}/$ID
WT=/tmp/confirm-$ID
export GOFLAGS=-mod=mod GOPROXY=off GOSUMDB=off GOTOOLCHAIN=local
LOG=$SEED/confirm.log
: > $LOG
git -C /repo worktree remove --force $WT >/dev/null 2>&1
git -C /repo worktree add --detach $WT HEAD >>$LOG 2>&1 || { echo "worktree failed"; exit 2; }
cd $WT
DEMO=$(ls $SEED/*_test.go 2>/dev/null | head -1)
DEMOPKG=$(python3 -c "import json;print(json.load(open('$SEED/meta.json')).get('demo_pkg',''))" 2>/dev/null)
if [ -z "$DEMOPKG" ]; then DEMOPKG=$(grep -o '^package [a-z0-9_]*' $DEMO | head -1 | awk '{print $2}'); fi
case $DEMOPKG in lib) DIR=lib;; fsm) DIR=fsm;; store) DIR=store;; bft) DIR=bft;; controller) DIR=controller;; p2p) DIR=p2p;; crypto) DIR=lib/crypto;; *) DIR=$DEMOPKG;; esac
[ -n "${DEMO_DIR:-}" ] && DIR=$DEMO_DIR
RUN=$(grep -o 'func Test[A-Za-z0-9_]*' $DEMO | awk '{print $2}' | paste -sd'|')
echo "== demo $DEMO in ./$DIR run $RUN" >>$LOG
cp $DEMO $DIR/zz_seed_demo_test.go
echo "== WITHOUT patch: demo must pass" >>$LOG
go1.26 test -count=1 -timeout 20m -run "$RUN" ./$DIR/ >>$LOG 2>&1; A=$?
git apply $SEED/patch.diff >>$LOG 2>&1 || { echo "patch does not apply" | tee -a $LOG; }
echo "== WITH patch: build" >>$LOG
go1.26 build ./fsm/... ./lib/... ./store/... ./bft/... ./controller/... ./p2p/... >>$LOG 2>&1; B=$?
echo "== WITH patch: demo must fail" >>$LOG
go1.26 test -count=1 -timeout 20m -run "$RUN" ./$DIR/ >>$LOG 2>&1; C=$?
rm -f $DIR/zz_seed_demo_test.go
echo "== WITH patch: existing tests of $PKGS must pass" >>$LOG
D=0
for p in $PKGS; do go1.26 test -count=1 -timeout 25m $p >>$LOG 2>&1 || D=1; done
cd /; git -C /repo worktree remove --force $WT >/dev/null 2>&1
echo "RESULT $ID demo_without_patch=$A(want 0) build=$B(want 0) demo_with_patch=$C(want !=0) existing_tests=$D(want 0)" | tee -a $LOG
