#!/usr/bin/env python3
"""Regenerates /verif/MANIFEST.json and MANIFEST.hooks from driver/registry.py (run after editing the registry)."""
import json, os, sys, subprocess
ROOT = os.path.dirname(os.path.dirname(os.path.abspath(__file__)))
sys.path.insert(0, os.path.join(ROOT, 'driver'))
from registry import PROPS
props = [json.loads(l) for l in open(os.path.join(ROOT, 'properties.jsonl'))]
baseline = json.load(open('/root/.vp/BASELINE.json'))
hook_commits = []
try:
    out = subprocess.run(['git', '-C', '/repo', 'log', '--format=%H %s'], stdout=subprocess.PIPE, text=True).stdout
    for l in out.splitlines():
        h, s = l.split(' ', 1)
        if s.startswith('verif hook'):
            hook_commits.append(h)
except Exception:
    pass
checks, na = [], []
for p in props:
    pid = p['id']
    if pid in PROPS:
        c = PROPS[pid]
        checks.append({
            'property_id': pid,
            'quick_cmd': './check %s --tier quick' % pid,
            'thorough_cmd': './check %s --tier thorough' % pid,
            'evidence_file': '/verif/evidence/%s.json' % pid,
            'replay_cmd_template': './check %s --replay {path}' % pid,
            'engine': 'coq-proof+correspondence',
            'level_claimed': {'category': 'proof', 'text': c.get('level_text', ''), 'design_ref': 'DESIGN.md §4 %s' % pid},
            'level_note': c.get('level_note', ''),
            'technique': c.get('technique', 'machine-checked proof in Coq 8.16.1 over an executable Gallina model; model tied to /repo by regenerated definitions (translator) and a differential correspondence run evaluated in Coq'),
        })
    else:
        na.append({'property_id': pid, 'reason': 'check under construction in this session; not yet claimed (see DESIGN.md §7 work plan)'})
m = {
    'version': 1,
    'setup_cmd': './setup.sh',
    'hooks': {
        'guard': 'verif',
        'enable': 'go build -tags verif (harness module /verif/harness, replace github.com/canopy-network/canopy => /repo)',
        'baseline_off_cmd': baseline['cmd'],
        'source_commits': hook_commits,
        'add_only': True,
    },
    'engines': [{'name': 'coq-proof+correspondence', 'path': '/verif/check',
                 'serves_properties': [c['property_id'] for c in checks],
                 'kind_free_text': 'Coq 8.16.1 development under /verif/coq (models, proofs, property statements), translator tools/gen regenerating coq/gen/Extracted.v from /repo on every run, Go harnesses under /verif/harness running the real packages, comparison evaluated inside Coq with vm_compute'}],
    'checks': checks,
    'not_applicable': na,
    'notes': 'Every claimed property is decided by machine-checked proof in Coq over an executable model; see DESIGN.md for the trusted base and the partial components per property.',
}
json.dump(m, open(os.path.join(ROOT, 'MANIFEST.json'), 'w'), indent=1)
open(os.path.join(ROOT, 'MANIFEST.hooks'), 'w').write(
    'guard: go build tag `verif`\n' + ''.join('hook commit: %s\n' % h for h in hook_commits) +
    'files: store/verif_hooks.go fsm/verif_hooks.go bft/verif_hooks.go p2p/verif_hooks.go (add-only; every file starts with //go:build verif)\n')
print('MANIFEST.json: %d checks, %d not_applicable' % (len(checks), len(na)))
