# Per-property configuration of ./check.  One entry per property in /verif/properties.jsonl that is claimed.
PROPS = {}

PROPS['C13'] = dict(
    props='props/C13.v',
    models=['Committee'],
    harness='c13',
    args=dict(quick=['-genesis', '60', '-blocks', '70'], thorough=['-genesis', '1500', '-blocks', '220']),
    fingerprint_groups=['Committee'],
    rule='random validator populations (0..12 validators; stakes from a small set so that ties at the cap boundary are common; '
         'paused/unstaking/delegate/foreign-chain mixes; caps 1,2,3,5,100 and 0 for delegates; shuffled genesis order) queried through '
         'GetCommitteeMembers/GetDelegates/LoadCommittee on the real FSM, plus one real controller-driven chain whose validator set '
         'changes every block and whose past committees are re-queried (twice, scrambled) after all later history, crossing the 64-entry '
         'shared-cache eviction; a case is non-trivial when at least two validators are eligible; distinct by full literal',
    modelled='hand-modelled: fsm.getValidatorSet, Validator.PassesFilter, lib.NewValidatorSet (count/total/threshold). '
             'Generated from source: the threshold expression (Extracted.minimumMaj23). Not modelled: BLS key decoding in NewValidatorSet, '
             'the store scan itself (C10), metrics.',
    assumptions=['validator addresses in state are 20 bytes (KeyForValidator), so bytes.Compare is numeric order',
                 'total committee stake < 2^63 (above that the Go threshold expression wraps: theorem C13_threshold_wraps_refuted, observation O-1)',
                 'historical stability rests on C10 (history_immutable) for the store; here it is exercised by the correspondence only'],
    level_text='Unbounded theorems (any population, any cap, any scan order) that the derived committee is exactly the top-cap eligible validators in the (stake desc, address desc) order, that this description has a unique solution, that scan/cache order is irrelevant, that power = stake and threshold = floor(2T/3)+1 over the threshold expression regenerated from lib/consensus.go; the model is run against the real FSM (genesis populations and a real multi-block chain with historical re-queries) on every check.',
    level_note='Trusted: Coq kernel, translator tools/gen, the hand-written mirror of getValidatorSet tied by the correspondence run, 20-byte addresses, total stake < 2^63; BLS key decoding and the store scan are outside the model.',
    trusted_base=['model/Committee.v is a hand-written mirror of getValidatorSet/PassesFilter/NewValidatorSet, tied by the correspondence run'],
)

PROPS['C19'] = dict(
    props='props/C19.v',
    models=['Keys', 'KeysCheck'],
    harness='c19',
    args=dict(quick=['-join', '300', '-keys', '300', '-decode', '1500'], thorough=['-join', '3000', '-keys', '3000', '-decode', '40000']),
    fingerprint_groups=['Keys'],
    rule='JoinLenPrefix on 1-4 segments with lengths from {0,1,8,20,254,255,256,>256,random<40} and contents {random, 0xFF runs, embedded small '
         'length bytes, descending length-like bytes}; every key constructor of fsm/key.go on boundary u64 values and 20-byte addresses / order ids '
         'of 0..255 bytes; pairwise collision/prefix predicate over all pairs in a shard; decoders (Transaction, Block, QuorumCertificate, '
         'BlockMessage, bft.Message, TxMessage, AddressFromKey/IdFromKey) on a committed corpus first, then on structured mutations of valid '
         'encodings (truncate, bit flip, length-like byte, appended garbage, 10-byte varints, duplicated slices, deep nesting, nested length-field '
         'rewrites to values that wrap int/int32 or exceed the buffer) and random bytes, under recover and a 5 s watchdog; distinct by literal, '
         'non-trivial when a join case has at least two segments',
    modelled='hand-modelled: lib.JoinLenPrefix, lib.DecodeLengthPrefixed, every key constructor of fsm/key.go, prefixEnd, the version suffix. '
             'Generated from source: all family prefix bytes, batch segments, partition prefixes, maxKeyBytes. Not modelled (exercised only): the Go '
             'protobuf decoders and the stateless checks that follow them (panic/hang freedom cannot be a theorem about a Gallina model); '
             'sign-bytes injectivity is stated over Proto.v (see C06) once that model is in place.',
    assumptions=['key components are shorter than 256 bytes (outside it: C19_join_truncation_refuted); u64 components below 2^64',
                 'panic/hang freedom of Go decoders is differential fuzzing used as validation, not a theorem (partial, DESIGN.md §6)'],
    trusted_base=['model/Keys.v is a hand-written mirror of JoinLenPrefix/DecodeLengthPrefixed and fsm/key.go tied by the correspondence run'],
    level_text='Unbounded theorems that length-prefixed composite keys are injective, decodable and prefix-exact for all component tuples below 256 bytes, that the whole fsm/key.go schema (prefix bytes regenerated from source) is collision-free and prefix-free, that prefix-range bounds select exactly the prefixed keys, that big-endian and inverted-version encodings preserve order; the byte-level model is compared with the real constructors on every run, and the real decoders are driven with boundary and mutated inputs under recover/watchdog.',
    level_note='Trusted: Coq kernel, translator, hand-written key model tied by correspondence. Partial: absence of panics/hangs in Go decoders is exercised (corpus + structured mutation), not proved; sign-bytes injectivity pending Proto.v.',
)

PROPS['C20'] = dict(
    props='props/C20.v',
    models=['Dex', 'DexCheck', 'Ledger', 'LedgerCheck', 'LedgerBlock', 'LedgerBlockCheck', 'DexBatch'],
    harness='c20',
    args=dict(quick=['-fn', '600', '-swap', '200', '-withdraw', '200', '-deposit', '200', '-merge', '40', '-pipeline', '3', '-steps', '60'],
              escalated=['-fn', '1500', '-swap', '600', '-withdraw', '600', '-deposit', '600', '-merge', '150', '-pipeline', '8', '-steps', '80'],
              thorough=['-fn', '6000', '-swap', '3000', '-withdraw', '3000', '-deposit', '3000', '-merge', '300', '-pipeline', '40', '-steps', '150']),
    fingerprint_groups=['Dex'],
    rule='(fn) the generated SafeComputeDY/SafeMulDiv/SqrtProductUint64/percent helpers evaluated in Coq and in Go on amounts from '
         '{0,1,small,2^32,2^63,2^64-k,random}; (swap) the real HandleDexBatchOrders on a real FSM with reserves from {1,small,2^32,2^62,2^64-k,typical}, '
         'batches of 0-7 orders and batches around the 250-order settlement cap, requested amounts exactly at / one above the computed output, '
         'processed in the implementation\'s own pseudorandom order; (withdraw) real HandleBatchWithdraw on point tables with ghost (zero) entries, '
         'duplicate requests for one provider, unknown providers, local and remote side; (deposit) real HandleBatchDeposit with empty and populated '
         'point tables; (pipeline) two REAL state machines (chains 1 and 2, each with a liquidity pool for the other) run the whole cross-chain pipeline: '
         'limit orders, deposits and withdrawals through the real message handlers, the other chain\'s locked batch delivered through '
         'HandleRemoteDexBatch (receipts, execution, rotation) in both directions, one direction, not at all, or with the liveness fallback on the '
         'nested side; after every step the holding pool must equal the sum of the pending orders and deposits, the liquidity points must sum to '
         'the recorded total, and the combined supply of both chains must be unchanged (judged in Coq: pipe_ok); '
         'distinct by literal, non-trivial: every fn/withdraw/deposit case and swap batches with at least one order',
    modelled='hand-modelled: the loop of HandleDexBatchOrders, handleBatchWithdraw, pass 2 of handleBatchDeposit, liquidityDepositPoints, Pool.AddPoints. '
             'Generated from source: SafeComputeDY, SafeMulDiv, SqrtProductUint64, the settlement and provider caps. The same-block merge (IncludeSameBlockDex) and the sell-order escrow book are modelled (model/DexBatch.v, model/Ledger.v). NOT modelled: the '
             'cross-chain batch pipeline as a state machine (rotation, receipts from the counter chain, liveness fallback, capped-deposit eviction): its '
             'holding-pool and points identities are judged on two real chains after every pipeline step by a Coq-evaluated predicate, not proved.',
    assumptions=['reserves and amounts below 2^64 (uint64)', 'withdraw percent within 1..100 (checkPercent in MessageDexLiquidityWithdraw.Check)',
                 'big.Int division by zero (x = 0 and dX = 0) is excluded by the callers\' ErrInvalidLiquidityPool guard'],
    trusted_base=['model/Dex.v is a hand-written mirror of the DEX arithmetic loops tied by the correspondence run'],
    level_text='Unbounded theorems over the AMM formula regenerated from fsm/dex.go: output below reserve, product of reserves non-decreasing, for every batch length and order; liquidity points always sum to the pool total through deposits (shares + dust) and withdrawals, reserves are debited by exactly what is paid, no unchecked uint64 operation wraps, no request exceeds its pro-rata share even with duplicate providers. The model is run against the real handlers on every check. Partial: batch pipeline and order-book escrow identities not yet in the model.',
    level_note='Trusted: Coq kernel, translator, hand-written mirror of the DEX loops tied by correspondence. Not covered: DEX batch rotation/liveness fallback/holding-pool identity and the sell-order escrow identity (stated in DESIGN.md as pending parts of C20).',
)

PROPS['C08'] = dict(
    props='props/C08.v',
    models=['Trie', 'TrieCheck'],
    harness='c08',
    args=dict(quick=['-w8', '120', '-w16', '120', '-w160', '40'], escalated=['-w8', '500', '-w16', '500', '-w160', '80', '-store', '80'], thorough=['-w8', '3000', '-w16', '3000', '-w160', '600', '-store', '400']),
    fingerprint_groups=['Trie'],
    rule='histories of 1-4 batches of 1-60 set/overwrite/delete operations on the real SMT (fresh SMT object per batch over one transaction, as '
         'Store.Root() uses it), key widths 8, 16 (raw keys found by search so any hashed bit pattern can be targeted: neighbours differing in the '
         'last bits, keys adjacent to the 14 synthetic subtree borders, same 3-bit prefix clusters) and 160, batches below / around / above the '
         '16-operation parallel threshold, sequential and parallel commits chosen at random; per history: persisted tree dump compared in Coq '
         'with the model tree, canonical-form and leaves = final-map predicate, every stored parent hash recomputed with SHA-256 in Go, and a '
         're-batched, re-ordered history with the same final content replayed for root equality; non-trivial: at least two operations',
    modelled='hand-modelled: the structural effect of set()/delete()/traverse(), the batch as a sorted op sequence, CommitParallel as borders + any '
             'schedule + cleanup, what a parent value is a hash of. NOT modelled: the lazy rehash bookkeeping (traversed stack, early exit on the next '
             'operation key), node cache, the byte encoding of node keys (newNodeKey/bitAt/addBit) — these are exercised by the correspondence: '
             'every stored hash is recomputed from the dump and the tree shape is compared with the model on every run.',
    assumptions=['ideal hash: a digest is a term over (left key, left digest, right key, right digest); the code hashes the unframed concatenation of '
                 'the four byte strings', 'operation keys differ from the two sentinels and the 14 synthetic border keys (a 157-bit partial preimage '
                 'otherwise)', 'key width > 3'],
    trusted_base=['model/Trie.v is a hand-written mirror of the SMT structure algorithms tied by the correspondence run (shape + recomputed hashes)'],
    level_text='Unbounded theorems over the compressed-trie model: canonical form is unique, the tree is a finite map, any two histories with the same final content give the same tree and root, batch = fold, parallel commit = sequential for every worker schedule, synthetic borders leave no trace, the root digest is injective on states and equals the canonical commitment built in any order. The real SMT is run on adversarially structured histories every check; its persisted tree must equal the model tree and every stored hash must recompute.',
    level_note='Trusted: Coq kernel, hand-written structural model tied by correspondence, ideal hash. Lazy rehash bookkeeping, node-key byte codec and goroutine scheduling inside CommitParallel are validated by the correspondence (shape equality + recomputed SHA-256 + rebatched-history root equality), not proved.',
)

PROPS['C16'] = dict(
    props='props/C16.v',
    models=['Trie', 'TrieCheck', 'Proof', 'ProofCheck'],
    harness='c16',
    args=dict(quick=['-states', '24', '-claims', '14', '-store', '6'], escalated=['-states', '90', '-claims', '20', '-store', '12'], thorough=['-states', '400', '-claims', '30', '-store', '60']),
    fingerprint_groups=['Proof', 'Trie'],
    rule='for generated states on the real SMT (widths 8, 16, 160; one or two batches with overwrites and deletes): the real GetMerkleProof for present, '
         'absent and neighbouring keys, offered for the same key and for OTHER keys, as membership and as non-membership claims, with right and '
         'wrong values and roots, plus mutations (truncate, reorder, duplicate a node, flip the side bit, flip value bytes, flip key bits, malformed '
         'key bytes: nil / 1 byte / over-long / bad meta byte, nil node); VerifyProof verdict (false / true / error) under recover compared in Coq '
         'with model/Proof.v, and with the truth of the claim (soundness predicate); store level: NewReadOnly(v).GetProof verified against the root '
         'committed for v for every committed version; non-trivial: every claim, distinct by literal',
    modelled='hand-modelled: GetMerkleProof and VerifyProof (as repaired) on the trie model, including the {0,0} node-key encoding quirk after the root. '
             'Not modelled: node-key byte validation and panic recovery (exercised with malformed keys), the in-memory store VerifyProof allocates.',
    assumptions=['ideal hash (digest terms)', 'target keys differ from sentinels / border keys (validateTarget returns an error for reserved keys)'],
    trusted_base=['model/Proof.v is a hand-written mirror of GetMerkleProof/VerifyProof tied by the correspondence run'],
    level_text='Unbounded theorems: the store\'s own proof verifies for every present key and every absent key of every state (completeness), and for ARBITRARY proof lists an accepted membership / non-membership claim is true of the state (soundness, ideal hash); an honest proof for one key is never evidence about the absence of another present key. The verifier model is compared with the real VerifyProof on honest, cross-key and mutated proofs on every run; store-level completeness (read-only store at version v against the committed root of v) is exercised on the real Store. The unrepaired code violated soundness, completeness at store level and crash-freedom: three fix: commits.',
    level_note='Trusted: Coq kernel, hand-written mirror tied by correspondence, ideal hash. Crash-freedom on malformed proofs is exercised (mutations under recover), not proved.',
)

PROPS['C02'] = dict(
    props='props/C02.v',
    models=['Cert'],
    harness='c02',
    args=dict(quick=['-heights', '24', '-variants', '26'], escalated=['-heights', '60', '-variants', '34'], thorough=['-heights', '160', '-variants', '44']),
    fingerprint_groups=['Cert'],
    rule='a real controller.Controller is driven height by height; at every height the honest proposal is certified with REAL BLS signatures of a '
         'weighted committee (4-9 members incl. a 1-stake and a 0-stake member, sometimes a dominant one) and delivered through the real HandlePeerBlock '
         'in 20+ variants: signer subsets at maj23-1 / maj23 / random / all, bitmap bits of members that did not sign (preceded by the genuine '
         'minority certificate with the same aggregate signature: two-step replay), padded bitmaps, wrong-length bitmaps, signatures honestly produced '
         'for another round / phase / height / root height / chain / block / results / proposer, consistent certificates of non-commit phases (incl. '
         '+2/3 ELECTION_VOTE with a block attached), other chain / network / height, swapped or missing results, missing block, block of another '
         'height; observable: store.Version() before/after; distinct by literal, every variant is non-trivial',
    modelled='hand-modelled: the check cascade of HandlePeerBlock (CheckBasic, View.Check, size, AggregateSignature.Check, partial flag, '
             'CheckProposalBasic, phase) as a decision function over a structured certificate with symbolic aggregate signatures. Generated from '
             'source: phase constants, the threshold (via C13). Abstracted: the state-machine re-execution (b_applies) - C03/C11; the byte-level '
             'sign-bytes encoding - C19; the fast-sync path (exempted by the property); CheckAndSetLastCertificate of the PREVIOUS certificate inside '
             'the block (exercised implicitly by the multi-height run, not modelled).',
    assumptions=['ideal BLS aggregate verification (an aggregate verifies under a bitmap iff it is exactly the enabled members each signing this payload)',
                 'sign bytes are an injective encoding of (view, block hash, results hash, proposer) (C19)', 'committee total power < 2^63'],
    trusted_base=['model/Cert.v is a hand-written mirror of the peer-block admission checks tied by the correspondence run on the real controller with real BLS'],
    level_text='Unbounded theorems over the admission decision function: a commit implies every clause of the property (exact block/results binding, network, chain, next height, commit phase, every named member really signed this payload, real signed power >= floor(2T/3)+1), partial / forged / re-targeted / wrong-phase / wrong-target certificates never commit, padding bits are irrelevant, and a well-formed +2/3 certificate is accepted. The model is compared with the real HandlePeerBlock on certificates assembled from real BLS signatures every check.',
    level_note='Trusted: Coq kernel, hand-written mirror tied by correspondence, ideal BLS, sign-bytes injectivity (C19). The state-machine re-execution inside CommitCertificate is abstracted to a flag; the sync path is outside the property.',
)

PROPS['C03'] = dict(
    props='props/C03.v',
    models=['Trie', 'Paths'],
    harness='c03',
    args=dict(quick=['-prop', '3', '-chains', '3', '-blocks', '12'], escalated=['-prop', '3', '-chains', '6', '-blocks', '20'], thorough=['-prop', '3', '-chains', '30', '-blocks', '40']),
    fingerprint_groups=['Exec', 'Trie'],
    rule='per chain four real nodes (controller + FSM + store, real BLS certificates) over one genesis; every block is built by a rotating leader from a '
         'mempool fed by the stateful generator (valid, invalid, conflicting, exactly-draining, duplicate transactions of 12 message kinds; some '
         'blocks with 10+ transactions), and is then obtained on five paths: proposer, validate + commit with cached result, commit by replay, and '
         'replay on a node that is restarted (database closed and re-opened, caches fresh) every third block and runs a discarded speculative '
         'validation of a tampered proposal first; GOMAXPROCS in {1, 2, 16}; all (block hash, state root, results hash) reports of a block must be '
         'identical; non-trivial: blocks that include at least one transaction',
    modelled='PROVED on the model: order- and schedule-independence of the tree commit (Trie.v: any permutation of the pending operations, any '
             'interleaving of the 8 subtree workers). NOT a theorem about the code: that ApplyBlock and the controller paths are the same function of '
             '(prefix, block) — this is tied by the five-path differential on the real node (Paths.v records that all paths must report the same header); '
             'goroutine nondeterminism inside pebble or the indexer errgroup cannot be exhibited by a theorem.',
    assumptions=['the FSM layer is tied by differential execution, not by proof (partial, DESIGN.md §6)'],
    trusted_base=['model/Trie.v (see C08); model/Paths.v states only that all execution paths must agree'],
    level_text='Theorems: the state root does not depend on the iteration order of the pending-operation map nor on the schedule of the 8 parallel subtree workers (unbounded, over the trie model tied to the real SMT by C08\'s correspondence). The execution-path clause (propose / validate / commit-cached / commit-replay / restart yield a bit-identical header) is decided by running all five paths on real nodes for generated chains and comparing headers: differential validation, labelled partial.',
    level_note='Partial: for the state machine and controller the claim rests on the multi-path differential run, not on a proof; the proved part is the commit algorithm.',
)

PROPS['C10'] = dict(
    props='props/C10.v',
    models=['VStore', 'Txn', 'StoreModel'],
    harness='c10',
    args=dict(quick=['-programs', '150', '-ops', '60'], escalated=['-programs', '400', '-ops', '70'], thorough=['-programs', '2500', '-ops', '90']),
    fingerprint_groups=['Store', 'Keys'],
    rule='random store programs on the REAL store.Store (pebble in memory): set / delete / get / forward and reverse prefix iteration / nested '
         'transactions with flush or discard (up to depth 3) / commit / reset / historical get and iteration through NewReadOnly(v) at every '
         'committed version (re-queried after later commits) / rollback, over two prefix-free key families with shared prefixes of several depths '
         '(keys differing only in the last byte incl. 0x00/0xFF, prefixes ending in an empty segment), many versions per key, tombstones, '
         'physical no-op actions (memtable flush, full compaction) in between; every observation is compared with the executable store model '
         '(M) and with the simple versioned map (V); distinct by program literal, a program is non-trivial when it commits at least twice and '
         'iterates at least once',
    modelled='hand-modelled: VersionedStore get / iterator (seek and linear, forward and reverse: first, advanceToNextKey, rewindToLatestVersion, '
             'step), the inverted-version key layout, Txn write-set + merge iterator (TxnIterator), Store.NewTxn / Flush / Discard / Commit (latest-state '
             'partition at version MAX with tombstone purge + historical partition) / Reset / NewReadOnly / Rollback. Generated from source: partition '
             'prefixes and key constants (via C19). Not modelled: pebble itself (sorted map with SeekGE / SeekLT / Next / Prev, assumed), block-property '
             'filters and compaction (exercised as physical no-op actions by the harness), the state-commitment tree (C08/C16), the indexer (C11).',
    assumptions=['store keys are length-prefixed and form a prefix-free family (proved for the state keys in C19; the store panics on other keys)',
                 'pebble behaves as a sorted byte-string map', 'fewer than 2^64-2 versions'],
    trusted_base=['model/VStore.v, model/Txn.v, model/StoreModel.v are hand-written mirrors of store/versioned_store.go, store/txn.go, store/store.go tied by the correspondence run on the real store'],
    level_text='Unbounded refinement theorem: for every well-formed program (any length, nesting, versions) the store state machine - real iterator algorithms included, all four strategies - returns exactly what a simple versioned map returns; committed versions are immutable under all later operations incl. rollback to a later version. The executable model is compared with the real store.Store on random programs on every check.',
    level_note='Trusted: Coq kernel, hand-written mirrors tied by correspondence, pebble as a sorted map. Committee / block immutability as of a height follows from state immutability only through C13/C11 (not restated here).',
)

_LEDGER_RULE = ('(tx) generated ledger states on a REAL fsm.StateMachine (validators, delegates, paused / unstaking members, accounts incl. empty and '
                'near-2^64 balances, open sell orders with escrow) and stateful transactions of the 11 modelled kinds (send, stake, edit-stake, '
                'unstake, pause, unpause, subsidy, DAO transfer, create / edit / delete order) with valid, boundary and invalid amounts, applied one by '
                'one through ApplyTransactions; the full ledger scan before and after is compared with the model (M) and judged by the property '
                'predicates (V); (fail) failing transactions of ALL kinds incl. unmodelled ones (certificate results, parameter changes, DEX messages): '
                'scan before = scan after, parameters included; (block actions) the real DistributeCommitteeRewards on a scanned state for a committee whose pool was just '
                'funded - recipients: compounding / non-compounding / unstaking / paused validators, delegates, plain and not-yet-existing accounts, 1-3 samples, '
                'percents up to 100 per sample - and the real FundCommitteeRewardPools at the current and far later heights (halvenings), both compared with '
                'model/LedgerBlock.v (M) and judged (V: conservation, nothing created by rewards, pool emptied, never more than the scheduled mint, never fails); '
                '(rejected blocks, C07) twin nodes: one fully executes and then drops extra blocks, the next common block must give the same header and state; '
                '(chain) real multi-block chains with rewards, scripted non-signers and double-signers '
                '(slashes incl. 100% and stake rounding to zero), governance parameter changes, auto-compounding, deferred unstaking and max-pause '
                'firing at later heights: scan after every block judged by the predicates, and every block must be producible; distinct by literal; '
                'non-trivial: transactions that were applied, blocks with at least one transaction or slash')
_LEDGER_MODELLED = ('hand-modelled (model/Ledger.v): accounts, pools, validators, supply tallies, unstaking / paused markers, sell orders; handlers of 11 '
                    'message kinds, ApplyTransaction (fee, nested transaction discarded on error), SlashValidator, ForceUnstakeMaxPaused, '
                    'DeleteFinishedUnstaking, DeleteValidator; (model/LedgerBlock.v) the scheduled mint (GetBlockMintStats split, FundCommitteeRewardPools) and the reward '
                    'distribution of a committee (DistributeCommitteeRewards / DistributeCommitteeReward incl. the unchecked burn subtraction). Generated from source: SafeMulDiv / percent helpers, pool id addends, MaxChainId. NOT in the '
                    'model (judged by the predicates on scans of the real chain only): the choice of subsidized committees, certificate-result processing (accumulation of payment percents), '
                    'committee swaps, parameter changes, the DEX pipeline (C20 has its own model), vesting, faucet.')

PROPS['C04'] = dict(
    props='props/C04.v',
    models=['Ledger', 'LedgerCheck', 'LedgerBlock', 'LedgerBlockCheck'],
    harness='c04',
    args=dict(quick=['-prop', '4', '-states', '8', '-txs', '30', '-chains', '3', '-blocks', '20'],
              escalated=['-prop', '4', '-states', '20', '-txs', '40', '-chains', '6', '-blocks', '30'],
              thorough=['-prop', '4', '-states', '80', '-txs', '50', '-chains', '24', '-blocks', '45']),
    fingerprint_groups=['Ledger'],
    rule=_LEDGER_RULE,
    modelled=_LEDGER_MODELLED,
    assumptions=['amounts and fees are uint64', 'the total supply stays below 2^64 (stated as a hypothesis of the history theorem; the implementation checks additions to the total)',
                 'order ids are transaction hashes: a created order never reuses the id of an open order', 'slashes name committee members, not delegates',
                 'the payment percents of a committee add up to at most 100 per sample (maintained by CertificateResult.CheckBasic and UpsertCommitteeData; hypothesis stubs_ok of the reward theorems)'],
    trusted_base=['model/LedgerBlock.v mirrors GetBlockMintStats / FundCommitteeRewardPools / DistributeCommitteeRewards / DistributeCommitteeReward, tied by the reward and mint cases on the real FSM', 'model/Ledger.v is a hand-written mirror of the fsm ledger primitives and handlers tied by the transaction-level correspondence run on the real FSM'],
    level_text='Unbounded theorems over the ledger model: on every state reachable by any history of transactions (applied or failed), slashes and deferred end-block actions the recorded total equals accounts + pools + stakes and nothing wraps; a transaction changes the total only by the DAO mint it carries, a slash burns exactly what the validator loses, the deferred actions only move tokens. The model is compared with the real FSM transaction by transaction on every check; block mint, rewards, parameter changes and the DEX are outside the model and are judged on scans of real generated chains by the same predicate (partial).',
    level_note='The scheduled mint and the reward distribution are modelled (model/LedgerBlock.v), proved (whole-block history theorem) and compared with the real FundCommitteeRewardPools / DistributeCommitteeRewards on scanned states. Partial: which committees are subsidized and how payment percents are accumulated from certificate results are inputs of the model (observed); non-sign slashing windows and parameter changes are judged on real chains by the scan predicate. Trusted: Coq kernel, translator, hand-written mirror tied by correspondence.',
)
PROPS['C07'] = dict(
    props='props/C07.v',
    models=['Ledger', 'LedgerCheck', 'LedgerBlock', 'LedgerBlockCheck'],
    harness='c04',
    args=dict(quick=['-prop', '7', '-states', '8', '-txs', '30', '-chains', '2', '-blocks', '12'],
              escalated=['-prop', '7', '-states', '20', '-txs', '40', '-chains', '4', '-blocks', '20'],
              thorough=['-prop', '7', '-states', '80', '-txs', '50', '-chains', '12', '-blocks', '30']),
    fingerprint_groups=['Ledger', 'Exec'],
    rule=_LEDGER_RULE,
    modelled=_LEDGER_MODELLED + ' For C07 the store-level half (a discarded nested transaction vanishes) is proved in C10; events, indexes and in-memory '
             'trackers are compared by the harness through the full scan (state, parameters, supply) and the side-state hook (VerifSideState).',
    assumptions=['the nested store transaction of ApplyTransaction is discarded on error (proved of the store model in C10: PDiscard)'],
    trusted_base=['model/Ledger.v apply_tx mirrors ApplyTransaction; tied by correspondence and by the failed-transaction no-trace cases of every message kind'],
    level_text='Theorems: a transaction failing at any step (fee, any primitive of any handler) leaves the ledger untouched, hence a block equals the sequential application of exactly its successful transactions (unbounded, ledger model); the store-level discard semantics is C10. On the real FSM failing transactions of all 16 kinds, at failure points after fee deduction and after partial effects, are checked to leave the full scan unchanged. Rejection of proposals / peer blocks leaving committed and working state unchanged is exercised by C03\'s speculative-validation path; partial.',
    level_note='Partial: caches, events and trackers are outside the model and compared by scan; block-level rejection is exercised, not proved.',
)
PROPS['C12'] = dict(
    props='props/C12.v',
    models=['Ledger', 'LedgerCheck', 'LedgerBlock', 'LedgerBlockCheck'],
    harness='c04',
    args=dict(quick=['-prop', '12', '-states', '8', '-txs', '30', '-chains', '3', '-blocks', '24'],
              escalated=['-prop', '12', '-states', '20', '-txs', '40', '-chains', '6', '-blocks', '36'],
              thorough=['-prop', '12', '-states', '80', '-txs', '50', '-chains', '24', '-blocks', '50']),
    fingerprint_groups=['Ledger'],
    rule=_LEDGER_RULE,
    modelled=_LEDGER_MODELLED,
    assumptions=['heights and deferred heights do not wrap (height + unstaking blocks < 2^64)', 'a validator lists each committee once (Check of stake messages)',
                 'slashes name committee members, not delegates (SlashValidator is not delegate-aware: observation O-7)'],
    trusted_base=['model/Ledger.v (see C04)'],
    level_text='Unbounded theorems over the ledger model: on every reachable state the total / delegated / per-committee tallies equal the sums over validator records and the unstaking / paused markers are exactly the validators in that status; from such a state no admissible history can fail - finish-unstaking, force-unstake and slashes always succeed at every future height (the old DeleteValidator is proved to wedge). The model is compared with the real FSM per transaction; on real chains every block must be producible and every scan consistent. Parameter changes and reward compounding are judged on the real chains only (partial).',
    level_note='Auto-compounding rewards and the scheduled mint are modelled and proved never to fail on reachable states (model/LedgerBlock.v). Partial for governance parameter changes and non-sign windows (outside the model; exercised on real chains).',
)

PROPS['C01'] = dict(
    props='props/C01.v',
    models=['Bft', 'BftNet', 'BftCheck'],
    harness='c01',
    args=dict(quick=['-runs', '30', '-ticks', '60', '-inject', '300'], escalated=['-runs', '80', '-ticks', '70', '-inject', '900'], thorough=['-runs', '400', '-ticks', '90', '-inject', '4000']),
    fingerprint_groups=['Bft'],
    rule='REAL bft.BFT replicas (harness/bftsim: mock bft.Controller only; real BLS signing, sortition, vote aggregation, certificate checks, '
         'SafeNode, locks, pacemaker, NEW_COMMITTEE reset) under an adversarial network. (scripted) five attack schedules with one Byzantine '
         'validator of four, each of which forked the chain before the fixes recorded in KNOWN_FINDINGS.txt (stale PRECOMMIT justification, '
         'stale HighQC across a root-chain update, duplicated root-chain notification, planted block with stale block-hash cache) plus their '
         'honest controls: a fork is reported directly. (random) recorded runs over committees of 3-7 validators with equal and skewed powers, '
         '0 or 1 Byzantine validator (< 1/3 of the power) following one of 8 strategies (silent, withholding, commit-to-one, replaying old '
         'justifications, stale HighQC proposals, forwarding locks with attached blocks, equivocation), message loss / delay / duplication, '
         'skipped timer ticks, advancing, duplicated and late root-chain notifications; (state injection) a replica is put into an arbitrary '
         'model-expressible state (root height, round, phase, lock, block, possibly stale block-hash cache, results, proposer, leader messages '
         'stored at the previous root height) and receives fabricated messages whose certificates carry REAL aggregate signatures of chosen '
         'signer subsets (right / wrong round, phase, root height, value, proposer, below +2/3), then its timer fires twice; after EVERY action the acting replica\'s observable state '
         '(root height, round, phase, lock, block, cached block hash, results, proposer, commit, votes sent) is compared with the model (M), and '
         'the commits observed must agree (V); non-trivial: runs in which at least one replica commits',
    modelled='hand-modelled: the replica side of package bft (message admission, proposal store, lock adoption, every phase of HandlePhase, SafeNode, '
             'round interrupt, pacemaker, NEW_COMMITTEE reset, the commit gate). Generated from source: phase constants, the +2/3 threshold. Oracle '
             '(universally quantified in the theorem, observed in the correspondence): election outcome (VRF sortition), vote aggregation at the '
             'leader, block production and validation, the pacemaker round, the controller\'s root height. Not modelled: VDF, double-sign evidence '
             'collection (C14), timers as real time (C15), gossip / sync of committed blocks (C02).',
    assumptions=['ideal signatures: an aggregate that verifies names a correct replica only if that replica sent exactly that vote (unforgeability)',
                 'the hash of a block / results identifies it (collision-free)', 'the controller\'s root height never decreases',
                 'the validator set is the same at every root height of the height being decided (committee-preserving updates: the property\'s premise)',
                 'total power below 2^63'],
    trusted_base=['model/Bft.v and model/BftNet.v are hand-written mirrors of package bft tied by the action-by-action correspondence run on real replicas'],
    level_text='Unbounded theorem: for every committee, every Byzantine set below one third of the power and EVERY execution of the replica model under an adversary that owns the network, the timers, the root-chain notifications, the election and every leader, correct replicas never commit different (block, results) pairs; commits are final and certified. The proof found two further forks in the model, one of which was replayed on the real replicas and both fixed; the model is compared with real bft.BFT replicas action by action on scripted attacks and random adversarial runs on every check.',
    level_note='Trusted: Coq kernel, hand-written mirror tied by correspondence, ideal signatures and hashes, monotone root heights. Committee-changing root updates are outside the property. Five genuine defects were repaired (KNOWN_FINDINGS.txt); the theorem holds of the repaired code only (the old variants are proved to fork).',
)

PROPS['C15'] = dict(
    props='props/C15.v',
    models=['Bft', 'BftNet', 'BftLive'],
    harness='c01',
    args=dict(quick=['-prop', '15', '-runs', '40', '-ticks', '50', '-heal-rounds', '12'], escalated=['-prop', '15', '-runs', '100', '-ticks', '60', '-heal-rounds', '12'],
              thorough=['-prop', '15', '-runs', '500', '-ticks', '80', '-heal-rounds', '12']),
    fingerprint_groups=['Bft'],
    rule='REAL bft.BFT replicas (harness/bftsim) in VIRTUAL time. An adversarial prefix (the random schedules of C01: loss, delay, duplication, '
         'skipped ticks, one Byzantine validator below 1/3 following one of 8 strategies, root-chain notifications) leaves the correct replicas '
         'in different rounds and phases, with locks on possibly different blocks and stored leader messages. Then the network heals: every '
         'message is delivered within 1-50 ms, the Byzantine validator falls silent, and every phase timer fires after exactly the duration the '
         'implementation prescribes for that phase and round. (V) every correct replica must commit, all the same value, within '
         '11*(r0+1)+12 rounds of the heal (r0 = highest round at the heal); (M) the state the prefix left behind (round, locks, stored proposals) is '
         'loaded into model/BftLive.v and the model\'s synchronous round from the aligned version of that state must commit the value the '
         'real replicas committed when they held a lock (highest lock) and some value otherwise; non-trivial: healed runs that started with replicas '
         'in different rounds or holding locks',
    modelled='hand-modelled: the replica model of C01 (model/Bft.v, BftNet.v) plus model/BftLive.v: the synchronous round (12 stages ELECTION .. '
             'COMMIT_PROCESS with all messages of the correct replicas delivered and a correct leader) and the alignment predicate. Not modelled '
             '(validated on the implementation by the virtual-time run only): the time-out arithmetic that brings replicas into one round '
             '(round r lasts (2r+1) x the base durations; the pacemaker jumps to the round +1/3 of the power reports), sortition\'s choice of leaders, '
             'block gossip to replicas that fell behind.',
    assumptions=['after the heal every message between correct replicas is delivered within the phase time-outs (partial synchrony)',
                 'the leader of the synchronous round is correct (sortition elects a correct leader with probability proportional to the correct power; a Byzantine leader costs one round)',
                 'ValidateProposal never accepts a proposal without a block or results (run_valid_sane; true of the controller, which rejects empty blocks)',
                 'ideal signatures and hashes, committee-preserving root updates, total power below 2^63 (as in C01)'],
    trusted_base=['model/BftLive.v (sync_round, aligned) is hand-written over the C01 replica model, which is tied to package bft by the C01 correspondence run on every C01 check',
                  'the virtual-time event loop of harness/cmd/c01/heal.go re-implements the timer durations of bft.BFT (phase time-out x (2 round + 1), remaining round time after an interrupt)'],
    level_text='Unbounded theorem: from EVERY state reachable under the C01 adversary (any committee, any Byzantine set below one third, any rounds, locks on different blocks, stored messages), a round that the correct replicas start together under a correct leader with their messages delivered ends with every correct replica committing one common value, which is the value of the highest lock held if any replica is locked. Partial: that the implementation\'s time-outs and pacemaker bring the replicas into one round after the network heals, and within how many rounds, is validated by a virtual-time simulation on real replicas (bound 11*(r0+1)+12 rounds observed to hold; recoveries of up to 37 rounds seen because nothing re-aligns phases - DESIGN.md O-10), not proved; the probability that sortition elects a correct leader is not modelled.',
    level_note='Partial by construction: convergence of rounds in real time is simulated, not proved. Trusted: Coq kernel, the C01 replica model and its correspondence, the virtual-time loop of the harness.',
)

PROPS['C06'] = dict(
    props='props/C06.v',
    models=['Proto', 'Replay', 'ReplayCheck', 'Nonce'],
    harness='c06',
    args=dict(quick=['-proto', '400', '-chains', '3', '-blocks', '14', '-rlp', '60'], escalated=['-proto', '1200', '-chains', '8', '-blocks', '18', '-rlp', '120'],
              thorough=['-proto', '6000', '-chains', '40', '-blocks', '24', '-rlp', '250']),
    fingerprint_groups=['Replay'],
    rule='(proto) real transactions of all message kinds from the stateful generator and wire-level variants of them - appended explicit '
         'defaults, re-ordered and repeated fields, non-minimal varints in tags / lengths / values, ten-byte varints, a sub-message split into '
         'two occurrences, wrong wire types, unknown fields, truncations, bit flips, and combinations - are decoded by the REAL lib.Unmarshal, '
         're-marshalled, and their sign bytes taken; model/Proto.v decodes the same bytes in Coq and must produce the same transaction, the same '
         'canonicity verdict and the same sign bytes (M). (chain) a real chain on a real FSM and store: transfers signed by BLS keys and by an ETH '
         'secp256k1 key are included; at later heights the identical bytes, content-preserving re-encodings, the 65-byte representation of the ETH '
         'key, the same bytes on a node of another chain id, and the originals far outside the acceptance window are offered; executed or not is '
         'recorded with everything executed before: an executed byte string must be acceptable to the model (M) and must not carry the signed '
         'content of anything executed before, nor another chain / network id (V). (rlp) nonce-based Ethereum-wrapped transactions (memo RLP.V2) signed with real secp256k1 keys on a real chain: '
         'transfers at the account nonce floor and over gaps, new content below the floor, the reserved nonce 2^64-1, included transactions offered '
         'again (also far beyond the height window, which does not apply to them), an account drained to balance zero (its floor must survive), and '
         'wrappers that are not the conversion of the signed Ethereum transaction (fee, nonce field, created height, time, message, legacy signing '
         'domain); floor before / after and executed-or-not must equal model/Nonce.v (M) and satisfy the floor rule on their own (V); '
         'non-trivial: byte strings that were executed',
    modelled='hand-modelled: the protobuf wire format of lib.Transaction (permissive decoder with last-wins / merge semantics and unknown-field '
             'rejection, canonical encoder, sign bytes), CheckTx\'s canonical-encoding check, CheckReplay (ids, hash lookup, window), CheckSignature\'s '
             'canonical-key check, same-block de-duplication, the never-pruned transaction index. Parameters (hypotheses, never axioms): signature '
             'verification, canonical key representation. The nonce floor of RLP.V2 transactions (model/Nonce.v: CheckTx floor test, ApplyTransaction bump, VerifyRLPBytes as a '
             'boolean). Not modelled: the RLP decoding and Ethereum signature recovery themselves (go-ethereum), legacy RLP wrappers (window-based, disabled from protocol version 2), '
             'mempool-level de-duplication, fees / authorization (C05).',
    assumptions=['the transaction hash is collision-free', 'a public key has exactly one canonical byte representation (enforced since the second C06 fix)',
                 'signatures are not malleable by third parties (BLS: unique; ed25519 and secp256k1: the libraries reject non-canonical S)',
                 'the transaction index is never pruned', 'strings are ASCII in the correspondence run (proto3 strings must be valid UTF-8)'],
    trusted_base=['model/Proto.v is a hand-written mirror of the protobuf decoding / encoding of lib.Transaction tied by the differential run against the real library on mutated encodings',
                  'model/Replay.v mirrors CheckTx / CheckReplay / ApplyTransactions de-duplication, tied by the chain-mode run'],
    level_text='Unbounded theorems: along any chain and for any byte strings offered at any heights, no signed content (sign bytes, signer key, signature) is executed twice, executed transactions carry this network and chain id and lie inside the creation-height window; the canonical encoding is a bijection (decode after encode is the identity, at most one canonical byte string per transaction, sign bytes determine the content). The protobuf model is compared with the real library on mutated encodings and the replay model with a real chain on every check. Two replay vectors were found and repaired (KNOWN_FINDINGS.txt). Nonce-based RLP.V2 transactions: the floor alone gives at-most-once execution of every signed content over any offer sequence (no reliance on the index or the window); the floor model is compared with a real chain on every check. Partial: RLP decoding / Ethereum signature recovery are go-ethereum code and are not modelled.',
    level_note='Trusted: Coq kernel, the hand-written protobuf mirror tied by differential testing, ideal hash, crypto assumptions listed. For RLP.V2 the binding wrapper = conversion(signed Ethereum transaction) is a boolean of the model, exercised by the harness with six kinds of foreign wrappers.',
)

PROPS['C18'] = dict(
    props='props/C18.v',
    models=['Mux'],
    harness='c18',
    args=dict(quick=['-split', '60', '-asm', '80', '-conc', '6', '-backpressure', '2', '-stress', '1'], escalated=['-split', '120', '-asm', '200', '-conc', '20', '-backpressure', '4', '-stress', '8'], thorough=['-split', '400', '-asm', '1500', '-conc', '120', '-backpressure', '20', '-stress', '20']),
    fingerprint_groups=['Mux'],
    rule='(split) the real packetisation on buffer lengths 0, 1, lim-1, lim, lim+1, 2lim-1 .. 2lim+1 and random, for small limits and for the '
         'real chunk limit, compared with Mux.split; (assembler) random packet sequences over four topics (random EOF marks, empty and short '
         'payloads, messages left open, messages closed at once) through real Stream.handlePacket instances, compared with Mux.handle_packet '
         'packet by packet; (concurrent) two real P2P nodes over net.Pipe - real handshake, encrypted frames, send and receive services - with '
         '2-5 goroutines calling MultiConn.Send concurrently, half of them on the SAME topic, with messages of 0, 1, 31, chunk-1, chunk, chunk+1, '
         '2 chunks+17, 3 chunks and random sizes (up to 3 MB); every message delivered to the remote inboxes is matched by topic, length and '
         'SHA-256 against the sent ones; Coq judges the id lists: nothing invented (no truncated or merged message), nothing twice, each '
         'sender\'s order kept per topic; (back-pressure) the remote stops reading, the topic\'s send queue is filled up to two free slots, a 5-packet '
         'message starts queueing and blocks half-way, a 1-packet message is sent on the same topic, the remote reads again: all 1001 '
         'messages must arrive as sent; non-trivial: every case',
    modelled='hand-modelled: split, Send\'s packet marking, the per-topic send queues and the single sender as an arbitrary order-preserving interleaving, '
             'Stream.handlePacket (assembler, size cap, delivery on EOF). The bounded send queue with time-outs is modelled as qsend (whole or nothing; the queueing before the repair bdf6f29 is '
             'qsend_old, refuted). Not modelled: the rate limiter, heartbeats (exercised against Stop()), inbox overflow (messages may be dropped, which the '
             'property allows), data races (a theorem cannot exhibit them; the concurrent run is also executed under the race detector in the '
             'thorough tier when the toolchain supports it).',
    assumptions=['the transport below delivers the packets in order and unmodified (C17)', 'messages are at most maxMessageSize'],
    trusted_base=['model/Mux.v is a hand-written mirror of the packetisation and reassembly in p2p/conn.go tied by the correspondence run'],
    level_text='Unbounded theorem: for any number of topics, any messages within the limit and every schedule of the sending goroutine, each topic\'s inbox receives exactly the messages sent on it, whole and in order, and nothing arrives on another topic; over-limit messages close the connection without partial delivery. The pure functions are compared with the real ones and real connection pairs are driven with concurrent same-topic and cross-topic senders on every check. Freedom from data races is outside what a theorem can show (partial).',
    level_note='Partial: goroutine-level races and channel time-outs are runtime behaviour the model cannot exhibit; the over-limit branch (256 MB) is proved, not exercised.',
)

PROPS['C17'] = dict(
    props='props/C17.v',
    models=['Frames', 'FramesCheck'],
    harness='c17',
    args=dict(quick=['-frames', '80', '-handshake', '30'], escalated=['-frames', '240', '-handshake', '80'], thorough=['-frames', '2500', '-handshake', '400']),
    fingerprint_groups=['Frames'],
    rule='(frames) two REAL EncryptedConn endpoints (real NewHandshake over net.Pipe, real ChaCha20-Poly1305) with a relay that applies one '
         'fault at frame granularity after the handshake - bit flip at a random bit, drop, duplicate, swap with the next frame, replay of an '
         'earlier frame, cut inside a frame - at a random frame; writes of 0, 1, 2, 1023, 1024, 1025, 2047, 2048, 2049, 3000 and random sizes; '
         'reads with buffers of 1, 3, 4, 1000, 1024, 4096 and random sizes, interleaved with writes in the opposite direction (a partly '
         'consumed frame while the buffers are reused); the number of bytes delivered, whether they are a prefix of the written stream and '
         'whether a read failed are compared with Frames.read_all (M); delivered bytes that are not a prefix of the stream are a violation (V). '
         '(handshake) an honest endpoint against a misbehaving one: honest proof, a proof the honest identity A signed for ANOTHER session (all '
         'a man in the middle can relay), A\'s key with the attacker\'s signature, meta signed by another key, another network id, another chain '
         'id; accepted or not and as whom, compared with Frames.accepts; accepting the session as A is a violation; non-trivial: every case',
    modelled='hand-modelled: EncryptedConn.Write / Read (chunking, length header, frame counter as nonce, unread remainder), the acceptance '
             'decision of NewHandshake. Ideal: the AEAD (a frame opens only under the key and nonce it was sealed with), key agreement (two key '
             'pairs give the same secret only if they are the same pair), signatures. Not modelled: X25519 / HKDF / ChaCha20-Poly1305 themselves, '
             'the low-order point blacklist, time-outs, the nonce wrap after 2^64 frames.',
    assumptions=['ideal AEAD, key agreement and signatures', 'ephemeral keys are fresh per session', 'fewer than 2^64 frames per connection'],
    trusted_base=['model/Frames.v is a hand-written mirror of p2p/encrypt.go tied by the fault-injection run on real connections'],
    level_text='Unbounded theorems: for any writes and read buffer sizes the reader gets exactly the written stream; for ANY frame sequence an adversary can put on the wire without the session key (modification, reordering, duplication, replay, truncation, foreign frames) the reader gets a prefix of the written stream and every deviation is reported as a read error; an endpoint accepts a session as coming from an honest identity only if that identity ran this very session (no man in the middle), on the same network and chain. Real connections are fault-injected at frame level and real handshakes attacked on every check.',
    level_note='Trusted: ideal cryptography (symbolic model), the hand-written mirror tied by correspondence. The handshake theorem is a symbolic (Dolev-Yao style) statement, not a computational one.',
)


PROPS['C11'] = dict(
    props='props/C11.v',
    models=['Proto', 'Paths', 'Trie'],
    harness='c03',
    args=dict(quick=['-prop', '11', '-chains', '3', '-blocks', '12'], escalated=['-prop', '11', '-chains', '6', '-blocks', '20'], thorough=['-prop', '11', '-chains', '30', '-blocks', '40']),
    fingerprint_groups=['Exec', 'Replay'],
    rule='per chain four real nodes (controller + FSM + store, real BLS certificates): every block is built by a rotating leader through the real '
         'mempool / ProduceProposal path from valid, invalid, conflicting, exactly-draining, duplicate and UNUSUALLY ENCODED transactions (an explicit '
         'default field or a non-minimal varint appended to a valid transaction) of 12 message kinds incl. governance proposals on the approve list, '
         'and must be accepted by every other node on the validate, commit and replay paths (with restarts and discarded speculative validations); '
         'at the end of the chain a FRESH node syncs every height from what node 0 serves from its archive (certificate + re-marshalled block) '
         'through HandlePeerBlock(syncing): every served height must re-validate to the committed block hash and the replayed chain must end with '
         'the same block hash and state root; a rejected honest block, an unservable height or a differing replay is reported directly; '
         'non-trivial: blocks with transactions',
    modelled='PROVED on the model: a transaction the node accepts is in canonical encoding, and re-marshalling a canonically encoded transaction '
             'reproduces its bytes exactly (Proto.v) - so the block a node serves from its archive is byte-identical to the block it committed; the '
             'state root is independent of map iteration order and worker schedule (Trie.v). NOT a theorem about the code: that ApplyBlock is the '
             'same function on proposer and replicas, and that the sync path accepts what the archive serves - these are tied by the multi-path '
             'differential run on real nodes including fresh-node replay from the archive (Paths.v only records that all paths must agree).',
    assumptions=['the FSM / controller layer is tied by differential execution, not by proof (partial)', 'same governance-vote configuration on all nodes (the property\'s premise)'],
    trusted_base=['model/Proto.v (see C06); model/Paths.v states only that all paths must report the same header'],
    level_text='Theorems: accepted transactions are canonically encoded and the canonical encoding round-trips byte for byte, so an archive that re-marshals what it decoded serves exactly the committed block; the tree commit is schedule-independent. The system-level clauses (every honest proposal validates on every node; served blocks re-validate on a fresh node; replay from genesis reproduces every hash) are decided by running real nodes on generated chains with hostile mempools and by syncing a fresh node from the archive: differential validation, labelled partial. One defect was found and repaired this way (non-canonical transactions made served blocks unvalidatable).',
    level_note='Partial: the state machine and controller are covered by the differential run, not by proof.',
)

PROPS['C14'] = dict(
    props='props/C14.v',
    models=['Bft', 'BftNet', 'Evidence', 'EvidenceCheck'],
    harness='c14',
    args=dict(quick=['-evidence', '150', '-index', '40'], escalated=['-evidence', '500', '-index', '120'], thorough=['-evidence', '5000', '-index', '800']),
    fingerprint_groups=['Evidence', 'Bft'],
    rule='(evidence) the REAL BFT.ProcessDSE on evidence fabricated from REAL aggregate signatures of chosen signer subsets over committees of '
         '4, 5 and 7 validators (equal and skewed powers): same view / next round / other phase / other root height, payloads differing in the '
         'block, the results, the proposer, or not at all, ELECTION and PROPOSE phases, root heights below the minimum evidence height, partial and '
         'full certificates, overlapping and disjoint signer sets, a tampered aggregate, a block attached, (validator, height) pairs already '
         'slashed, one to three pieces per call; the reported (signer, heights) list or the refusal is compared with Evidence.process_dse (M). '
         '(index) the REAL fsm.HandleDoubleSigners called up to three times within one block on a real FSM with lists that contain fresh pairs, '
         'a pair twice, and pairs slashed by an earlier call; acceptance and the resulting stakes are compared with '
         'Evidence.handle_double_signers (M); a pair accepted twice is a violation (V); non-trivial: every case',
    modelled='hand-modelled: DoubleSignEvidence.CheckBasic / Check, ProcessDSE, GetDoubleSigners, ValidateByzantineEvidence (coverage of the proposer\'s '
             'slash list), HandleDoubleSigners with the double-signer index, the per-block per-committee slash budget of SlashValidator (also in '
             'Ledger.v, C12). The replica behaviour the main theorem rests on is Bft.v (C01). Not modelled: collection of evidence from partial '
             'certificates (addDSEByPartialQC), non-signer slashing (part of C12\'s chain runs).',
    assumptions=['ideal signatures (an aggregate that verifies names a correct replica only if it sent exactly that vote)',
                 'the double-signer index is never pruned'],
    trusted_base=['model/Evidence.v is a hand-written mirror of bft/evidence.go and fsm.HandleDoubleSigners tied by the correspondence run with real signatures'],
    level_text='Unbounded theorems: in every reachable network and for any evidence an adversary can assemble from existing signatures, a correct replica (one payload per view - a proved invariant of the replica model) is never reported as a double signer; every report is justified by a checked pair at that pair\'s root height; expired and early-phase evidence is refused; a (validator, height) pair is slashed at most once and a block naming it again is rejected; within a block a committee never slashes a validator by more than the cap. The evidence check and the index are compared with the real code on fabricated evidence with real signatures on every check.',
    level_note='Trusted: ideal signatures, hand-written mirrors tied by correspondence, the replica model of C01.',
)

PROPS['C09'] = dict(
    props='props/C09.v',
    models=['Commit'],
    harness='c09',
    args=dict(quick=['-chains', '1', '-blocks', '8', '-stride', '509'], escalated=['-chains', '2', '-blocks', '10', '-stride', '97'], thorough=['-chains', '6', '-blocks', '14', '-stride', '11']),
    fingerprint_groups=['Commit', 'Store'],
    rule='a REAL node (controller + FSM + store on an in-memory pebble file system) commits a chain of blocks with real certificates: transfers, '
         'stakes, unstakes that finish (validator deletions), orders created and deleted, accounts drained to zero (state deletes: tombstone '
         'purge), sometimes a memtable flush in the middle (history partly in a table file, partly in the log). The on-disk image is cut at '
         'byte prefixes of the write-ahead log - every stride bytes (509 / 97 / 11 by tier), the last byte and the full log - which lands inside '
         'and between all records; every cut is re-opened by a new node process, which must find itself exactly at one committed version: '
         'latest-state scan, recomputed and recorded state root, block and certificate index for every earlier height and nothing for later '
         'ones, historical scans at two earlier heights, and - for a third of the images - it must accept the reference chain\'s next certified '
         'block and reach the reference\'s next header and state; versions must not decrease as the surviving log grows; a node that cannot '
         're-open is reported directly; non-trivial: every image',
    modelled='hand-modelled: the database as the fold of a log of atomic batches; Commit as ONE batch carrying latest state (sets, deletes), '
             'historical state, the tree root, the index entry and the version; recovery as a prefix of the records. ASSUMED: pebble applies a batch '
             'atomically and a crash keeps a prefix of the log records (torn last record dropped). The tie to the code - that Commit really puts '
             'everything into one batch - is what the crash enumeration on the real store checks; compaction, manifest and table-file writes are '
             'exercised (memtable flush) but not modelled.',
    assumptions=['pebble: atomic batches, prefix-durable write-ahead log', 'file-system operations other than log appends are not cut (the image keeps every other file whole)'],
    trusted_base=['model/Commit.v states the batch / log contract; the crash enumeration on the real node validates that the store obeys the one-batch discipline'],
    level_text='Unbounded theorems over the batch / log model: whatever prefix of the log survives, the restarted node is at the height of the last surviving block with the version, the latest state, the recorded roots and the indexes of exactly that height, and continuing from there equals never having crashed; a commit split into two log records is proved to break this. On the real node the write-ahead log of a generated chain is cut at byte prefixes and every image is re-opened and compared component by component with the reference run: validation of the model\'s tie to the code, not a proof about pebble (partial).',
    level_note='Partial: pebble\'s durability contract is assumed; crash points inside table-file / manifest writes are not enumerated.',
)

PROPS['C05'] = dict(
    props='props/C05.v',
    models=['Ledger', 'LedgerCheck', 'LedgerBlock', 'LedgerBlockCheck', 'Auth', 'BlockAuth'],
    harness='c04',
    args=dict(quick=['-prop', '5', '-states', '6', '-txs', '40'], escalated=['-prop', '5', '-states', '16', '-txs', '50'], thorough=['-prop', '5', '-states', '80', '-txs', '60']),
    fingerprint_groups=['Auth', 'Ledger'],
    rule='transactions of the 11 modelled kinds from the stateful generator plus transfers signed by ed25519, secp256k1 and eth-secp256k1 keys, '
         'each submitted either as signed by its rightful key or as a variant: re-signed by another key of the population (a stranger; for '
         'validator operations also the output address, which IS authorized), the owner\'s public key with another key\'s signature (forged), '
         'content changed after signing (fee, memo, creation height); every variant goes through the real ApplyTransactions on a real FSM. The '
         'harness records the address of the key that REALLY signed exactly those bytes (0 = none), whether the transaction executed, and the full '
         'ledger scan before and after: what executes must be what the model executes for that signer (M), the signer must be authorized for the '
         'message in that state and no other account may lose balance, and a refused transaction must leave no trace (V). (blocks) blocks of 3-6 '
         'transfers mixing honest, validly-signed-but-unauthorized and forged-signature transactions in random order through the batch '
         'signature verifier (proposer path): a transfer executes only if the owner of the debited account signed it (V); '
         'non-trivial: transactions that executed',
    modelled='hand-modelled: GetAuthorizedSignersFor / GetAuthorizedSignersForValidator, the authorization part of CheckSignature, the signer field '
             'populated from the verified signer, on top of the ledger model (C04). Symbolic: signature verification per key type (the harness asks '
             'the real crypto library which key signed). Not modelled: BLS multisig thresholds and RLP-wrapped Ethereum transactions (their '
             'authorization goes through the same address comparison; the wrappers themselves are outside the model), certificate-result messages '
             '(proposer key of the certificate: C02), DEX messages (sender only), the signature cache and the batch verifier (exercised by the block cases).',
    assumptions=['signatures are unforgeable (a signature verifies under a key only if its owner produced it over exactly that content)',
                 'order ids are transaction hashes (a created order never reuses the id of an open one)', 'amounts fit 64 bits'],
    trusted_base=['model/Auth.v is a hand-written mirror of the authorization rules tied by the correspondence run on the real FSM'],
    level_text='Unbounded theorems over the ledger model, for every message and state: a transaction not signed by a key the message\'s rules authorize changes nothing; if it takes effect, its signer was authorized and no account other than the signer\'s is debited; a validator record changes only at the hands of its operator or output address; an order only at the hands of its seller; escrow leaves a pool only to the seller on the seller\'s request. The rules are compared with the real CheckTx / ApplyTransactions on rightful, re-signed, forged and tampered transactions of several key types on every check. Partial: multisig, RLP wrappers, certificate-result and DEX messages are outside the model.',
    level_note='Partial: key-type specifics (multisig thresholds, RLP re-derivation) are exercised only through the real library verdict, not modelled.',
)

# ---- additions made after the second and third seeding rounds (what the harnesses exercise beyond the text above)
_EXTRA = {
 'C02': ' Also: the certified block bytes followed by a second occurrence of the header field (protobuf merge) and an extra transaction.',
 'C03': ' Also: one chain runs through the checkpoint height 100; one chain has a block size of a few transactions (the proposer executes '
        'more than fits); the governance vote window closes between caching and proposing; every node stores its own valid commit certificate '
        '(signer sets differ); transfers under ed25519 / secp256k1 keys, forged ones offered to the mempool twice, replicas start with a cold '
        'signature cache; tampered proposals (a transaction dropped, the time changed, a signature corrupted) are validated twice and must be '
        'judged the same; a follower node takes every block in sync mode from the archive at its tip.',
 'C05': ' Also: BLS multi-signature accounts (threshold met, below, presented again, threshold lowered inside the key, bitmap naming a '
        'non-signer); Ethereum-wrapped calls (payload names the victim; wrapper declares the victim\'s key); blocks mixing all four key types '
        'presented twice (a refusal must not become an acceptance).',
 'C06': ' Also: unknown fields inside the signature / payload sub-messages, the nonce re-stamped by a third party (independent sign bytes '
        'computed by the harness), nonce-based transactions (see rlp mode).',
 'C07': ' Also: the content of the per-block slash tracker before / after failed transactions; certificate-result transactions with real '
        'committee signatures (certsim): single, and blocks [ok, failing-after-it-slashed, ok] on twin nodes against the block without the failing ones.',
 'C08': ' Also: store histories with rollbacks to earlier heights followed by further commits.',
 'C10': ' Also: key families with nested keys on the write-set stack; the witness of the known finding; block histories: committed blocks '
        'with transactions read back as headers and as full blocks in random order, with and without a purged block cache.',
 'C11': ' (see C03: certificate variants per node, follower in sync mode, vote-window flip, long chain).',
 'C12': ' Also: slashes in the block in which the validator\'s unstaking finishes followed by the end-block sweep; slash bursts on one '
        'validator across committees A, B, A with the harness\'s own budget account.',
 'C14': ' Also: per-committee cap across interleaved committees (A, B, A / A, B, B, A, A) through the real HandleDoubleSigners under protocol version 2.',
 'C15': ' The healed period takes every wait from the implementation\'s own BFT.WaitTime; in half of the runs the Byzantine validator '
        'sends Pacemaker messages for far higher rounds whenever a correct replica gives up a round.',
 'C16': ' Also: re-framed proofs (key / value boundary of every proof node moved to every position), proofs at the head while the next block '
        'is pending (speculative root computed or not), historical proofs after a memtable flush, values of another size.',
 'C17': ' Also: a proof relayed from a REAL session with the impersonated node; sealed handshake frames injected into the data stream.',
 'C18': ' Also: assembler cases on the streams the node itself builds (NewStreams); the inbox of a topic overflowing and the next message after it.',
 'C19': ' Also: sign-bytes cases (random transactions with every field non-default, model vs implementation; copies differing in exactly one '
        'signed field must have other sign bytes); Ethereum call data of every selector x contract x length 0..100 through the wrapper translation.',
 'C20': ' Also: lock / reset / close instructions of certificate results (duplicates, unknown ids, a buyer near 2^64) through real transactions (certsim).',
}
for _k, _v in _EXTRA.items():
    PROPS[_k]['rule'] = PROPS[_k]['rule'] + _v

# additions of the defect hunt (DESIGN.md 0.3.1)
_EXTRA2 = {
 'C01': ' Also: the witness of the known finding fast-sync-commits-uncertified-block on real controllers.',
 'C02': ' Also: a block whose header embeds a +2/3 certificate of another phase as the previous block\'s certificate; a block certified '
        'under an old root height by validators that have since unstaked (historical committee).',
 'C03': ' Also: rounds restarted (NewRound + ProduceProposal) between validation and commit; after every commit the committed state root '
        'is compared with the header\'s.',
 'C04': ' Also: certificate-results transactions whose certificate is in a non-commit phase; genesis delegates, slashed like validators; '
        'a (validator, height) pair named by a nested certificate and by the chain\'s own results of the same block, then an empty block.',
 'C05': ' Also: an account at the address of a threshold-0 multi-signature key spent by one member; the witness of the known finding '
        'multisig-approval-executed-again (one approval under two orderings of the member keys).',
 'C06': ' Also: a typed Ethereum transfer under the legacy RLP wrapper, executed, then offered again under other encodings of V.',
 'C09': ' Also: commits verified (version, every key of the block) while other stores over the same database are reset concurrently, in a child process.',
 'C12': ' Also: delegates slashed; the chain\'s own certificate naming an already slashed (validator, height) pair, followed by an empty block.',
 'C13': ' Also: populations with very large stakes (committee totals in [2^63, 2^64)).',
 'C14': ' Also: the minimum evidence height is computed from the controller\'s root height as the real root chain would (faithful mock).',
 'C17': ' Also: identities under which a constant signature verifies (neutral element, small-order points, empty signer set).',
 'C18': ' Also: histories of sends (accepted, timed out after 10 s) and drains on the real bounded send queue (Stream.queueSends) against '
        'the model qsend; Stop() between two packets of a message on the real Stream; heartbeats against Stop() with a full heartbeat queue.',
 'C19': ' Also: transactions played through the real state machine (order ids of every length class, garbage signatures); consensus '
        'messages through the pre-validation gossip path.',
}
for _k, _v in _EXTRA2.items():
    PROPS[_k]['rule'] = PROPS[_k]['rule'] + _v
_NOTE2 = {
 'C20': ' The claim excludes histories in which the liveness fallback follows a root batch the nested chain has already executed (DESIGN.md O-16: reported by a reader, not reproduced by this check).',
 'C18': ' Sender attribution during connection set-up (the identity is written into the shared PeerInfo after the receive service has started, DESIGN.md O-17) is not exercised.',
 'C01': ' One KNOWN finding: fast sync (catching-up validators verify certificates only at checkpoint heights).',
 'C05': ' One KNOWN finding: one multi-signature approval yields several executable transactions (key orderings).',
}
for _k, _v in _NOTE2.items():
    PROPS[_k]['level_note'] = PROPS[_k].get('level_note', '') + _v

# additions of the fifth session (DESIGN.md 0.7: structural translator, fourth seeding round)
_EXTRA3 = {
 'C01': ' The decision functions lib.View.Less and bft.BFT.SafeNode are TRANSLATED from the source on every run (gen/Extracted.v, sfunc) '
        'and proved equal to the model\'s view_less / safe_node (proofs/BftGen.v): a change of either breaks a proof obligation before any case runs.',
 'C02': ' Also: the weakest k members sign and exactly (committee size - k) unused bits of the last bitmap byte are set (the count of set '
        'bits equals the committee size under a minority of the power).',
 'C05': ' (two-pass model) every block of transfers and every dependent block is also a case of BlockAuth.v: per transaction what the first pass of '
        'ApplyTransactions must see (CheckTx result on the start state, the signature jobs and whether they verify) against what happened (executed / '
        'failed on the batch verifier\'s signature verdict / failed otherwise): exactly the owners of bad jobs fail on the signature (M), what '
        'executed had reached the second pass (M), what executed was authorized (V). Also: dependent blocks - a validator / an order is created by a rightfully signed transaction and acted upon (edit-stake, unstake, '
        'pause, edit-order, delete-order) by a later transaction of the SAME block that declares the owner\'s key under somebody else\'s signature; presented twice.',
 'C14': ' (collection) pieces offered one by one to the REAL AddDSE on one collection - exact duplicates, the same view and payloads under '
        'other signer sets, fresh pieces - kept count and the REAL ProcessDSE of the collection compared with Evidence.collect (M); whoever a single '
        'offered piece accuses must be named by the collection\'s report (V).',
 'C19': ' The store key constructors of fsm/key.go and checkOrderId are TRANSLATED from the source on every run (gen/ExtractedKeys.v, kfunc; '
        'gen/Extracted.v, sfunc) and proved to be the schema of Keys.v (proofs/KeysGen.v): injectivity and prefix-freeness are theorems about the '
        'source\'s own constructors.',
 'C15': ' In a third of the healed runs the Byzantine validator re-signs every PRECOMMIT / COMMIT message of a correct leader under its own key and '
        'delivers the copy right behind the original; in another third it answers them with a message of the same phase whose certificate it signed '
        'alone (a partial certificate of the same view and payload). Scripted: a round led by the Byzantine validator whose PRECOMMIT message names '
        'build height 0 (COMMIT withheld), then up to eight rounds among the correct replicas with nothing lost: they must commit (and the control run too).',
 'C16': ' Also: the store rolled back to an earlier height and continued (proofs at the heights committed after the rollback).',
 'C17': ' Also: a recording of everything an honest peer sent in an earlier session played back to a new handshake of the same node (the answering side '
        'holds no key); an endpoint without identity key that sends the node\'s own identity proof and signed meta straight back (reflection; also a '
        'correspondence case of the symbolic handshake); a connection aged to 2^32 - 1 frames through a hook, then the first data frame of its life put on the '
        'wire again at the position where a 32-bit counter would be back at its value.',
 'C18': ' Also: the gossip path itself (PeerSet.SendToPeers): several messages of one and a half packets handed over back to back on two topics; every delivered message must be one that was handed over on that topic.',
 'C20': ' Also: deposit batches with newcomers into a pool whose provider list is full (5000 entries): tokens conserved, pool balance = reserve ledger, points = total.',
 'C03': ' One chain has a block size that several hundred small transactions fill and one block built from a mempool of 900: a FULL block of many small transactions through every path.',
 'C08': ' Also: keys with EMPTY values (nil and zero-length) set, committed and deleted in later blocks.',
 'C13': ' Also: LoadCommittee for the CURRENT height in the middle of a block (uncommitted stake / pause on the live state machine, a committee question answered by the live state machine first).',
 'C12': ' Also: validators that are already unstaking slashed below the minimum stake.',
 'C07': ' Also: the four parameter spaces as the state machine reports them (through its caches) before and after every failed transaction and every rejected block; parameter changes of the consensus space with values rejected after the field was set.',
}
for _k, _v in _EXTRA3.items():
    PROPS[_k]['rule'] = PROPS[_k]['rule'] + _v
PROPS['C14']['modelled'] = PROPS['C14']['modelled'].replace('Not modelled: collection of evidence from partial certificates (addDSEByPartialQC)',
    'AddDSE (collection with de-duplication of identical pieces: Evidence.collect). Not modelled: where the pieces come from (addDSEByPartialQC, ELECTION votes)')

_NOTE3 = {
 'C15': ' The healed-network simulation has an ACTIVE Byzantine validator (re-signed leader messages, partial certificates) and a bound derived from the time debt of replicas left in different rounds; a Byzantine LEADER appears in one scripted scenario only (the PRECOMMIT message naming another build height, then correct replicas alone).',
 'C09': ' A commit batch above about a megabyte rotates the log, which the crash enumeration does not follow (seeded5/C09 is not caught).',
}
for _k, _v in _NOTE3.items():
    PROPS[_k]['level_note'] = PROPS[_k].get('level_note', '') + _v
