# Per-property configuration of ./check.  One entry per property in /verif/properties.jsonl that is claimed.
PROPS = {}

PROPS['C13'] = dict(
    props='props/C13.v',
    models=['Committee'],
    harness='c13',
    args=dict(quick=['-genesis', '60', '-blocks', '70'], thorough=['-genesis', '1500', '-blocks', '220']),
    fingerprint_groups=['Committee'],
    rule='random validator populations (0..12 validators; stakes from a small set so that ties at the cap boundary are common; '
         'paused/unstaking/delegate/foreign-chain mixes; caps 1,2,3,5,100 and 0 for delegates; shuffled genesis order) queried through '
         'GetCommitteeMembers/GetDelegates/LoadCommittee on the real FSM, plus one real controller-driven chain whose validator set '
         'changes every block and whose past committees are re-queried (twice, scrambled) after all later history, crossing the 64-entry '
         'shared-cache eviction; a case is non-trivial when at least two validators are eligible; distinct by full literal',
    modelled='hand-modelled: fsm.getValidatorSet, Validator.PassesFilter, lib.NewValidatorSet (count/total/threshold). '
             'Generated from source: the threshold expression (Extracted.minimumMaj23). Not modelled: BLS key decoding in NewValidatorSet, '
             'the store scan itself (C10), metrics.',
    assumptions=['validator addresses in state are 20 bytes (KeyForValidator), so bytes.Compare is numeric order',
                 'total committee stake < 2^63 (above that the Go threshold expression wraps: theorem C13_threshold_wraps_refuted, observation O-1)',
                 'historical stability rests on C10 (history_immutable) for the store; here it is exercised by the correspondence only'],
    level_text='Unbounded theorems (any population, any cap, any scan order) that the derived committee is exactly the top-cap eligible validators in the (stake desc, address desc) order, that this description has a unique solution, that scan/cache order is irrelevant, that power = stake and threshold = floor(2T/3)+1 over the threshold expression regenerated from lib/consensus.go; the model is run against the real FSM (genesis populations and a real multi-block chain with historical re-queries) on every check.',
    level_note='Trusted: Coq kernel, translator tools/gen, the hand-written mirror of getValidatorSet tied by the correspondence run, 20-byte addresses, total stake < 2^63; BLS key decoding and the store scan are outside the model.',
    trusted_base=['model/Committee.v is a hand-written mirror of getValidatorSet/PassesFilter/NewValidatorSet, tied by the correspondence run'],
)
