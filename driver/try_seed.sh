#!/bin/bash
# usage: driver/try_seed.sh <patch.diff> <Cxx> [<Cyy> ...]   applies a seeded change to /repo, runs the quick checks, undoes it
# (never commits anything in /repo).  Prints one line per check: CAUGHT / MISSED.
patch="$1"; shift
cd /verif
if ! git -C /repo diff --quiet; then echo "try_seed: /repo has uncommitted changes, refusing"; exit 2; fi
git -C /repo apply "$patch" || { echo "try_seed: patch does not apply"; exit 2; }
for id in "$@"; do
  log=/verif/.scratch/try_seed.$id.$(basename $(dirname "$patch")).log
  ./check $id --tier quick > "$log" 2>&1; rc=$?
  if [ $rc -ne 0 ] && grep -q "^VIOLATION property=$id" "$log"; then echo "CAUGHT $id by $patch: $(grep '^VIOLATION' "$log" | head -1)"; else echo "MISSED $id by $patch (exit $rc)"; fi
done
git -C /repo checkout -- . ; git -C /repo status --short | grep -v '^??' | head -3
rm -f /verif/replays/*.json 2>/dev/null
