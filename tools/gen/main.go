// gen: the translator of /verif (trusted base, DESIGN.md §2.3-A).
//
// It reads Go source files of the repository's *current working tree* with go/parser and emits
// coq/gen/Extracted.v: numeric constants, byte-string literals and small arithmetic functions, translated
// node by node into Coq terms over N with explicit 64-bit wrap-around (U64.add64 / mul64 / sub64 / shl64).
// It refuses (exit 2, "translator cannot express ...") anything outside the fragment it understands
// instead of guessing. It also emits fingerprints (sha256 of the gofmt'ed, comment-free body) of the Go
// functions each hand-written model mirrors; a changed fingerprint only escalates the tier.
//
// usage: gen -repo /repo -targets targets.json -out Extracted.v -fp fingerprints.json
package main

import (
	"bytes"
	"crypto/sha256"
	"encoding/hex"
	"encoding/json"
	"flag"
	"fmt"
	"go/ast"
	"go/parser"
	"go/printer"
	"go/token"
	"math/big"
	"os"
	"path/filepath"
	"sort"
	"strconv"
	"strings"
)

type Target struct {
	Coq      string            `json:"coq"`      // Coq identifier to emit
	File     string            `json:"file"`     // path relative to repo
	Kind     string            `json:"kind"`     // const | bytes | func | assign | string
	Name     string            `json:"name"`     // Go const/var/func name
	Var      string            `json:"var"`      // for kind=assign: assigned variable inside func Name
	Params   []string          `json:"params"`   // for kind=assign: free identifiers that become parameters
	Recv     string            `json:"recv"`     // optional receiver type for methods
	Abstract map[string]string `json:"abstract"` // kfunc / sfunc: Go expression text -> name of an opaque parameter
}

type Config struct {
	Targets      []Target            `json:"targets"`
	Fingerprints map[string][]string `json:"fingerprints"` // model -> ["file.go:Func" | "file.go:Recv.Method"]
}

var fset = token.NewFileSet()
var files = map[string]*ast.File{}
var repo string

// cannotExpress is raised by die and recovered per target in main: a target outside the fragment is NOT emitted (every Coq
// file that uses its name then fails to compile - a broken proof obligation for exactly the properties that depend on it) and
// the reason is written to the warnings file; the other targets are unaffected.
type cannotExpress struct{ msg string }

func die(format string, a ...any) {
	panic(cannotExpress{fmt.Sprintf("translator cannot express: "+format, a...)})
}

func load(rel string) *ast.File {
	if f, ok := files[rel]; ok {
		return f
	}
	f, err := parser.ParseFile(fset, filepath.Join(repo, rel), nil, parser.SkipObjectResolution)
	if err != nil {
		fmt.Fprintf(os.Stderr, "gen: cannot parse %s: %v\n", rel, err)
		os.Exit(3)
	}
	files[rel] = f
	return f
}

func findFunc(f *ast.File, name, recv string) *ast.FuncDecl {
	for _, d := range f.Decls {
		fd, ok := d.(*ast.FuncDecl)
		if !ok || fd.Name.Name != name {
			continue
		}
		if recv == "" && fd.Recv == nil {
			return fd
		}
		if recv != "" && fd.Recv != nil && len(fd.Recv.List) == 1 {
			t := fd.Recv.List[0].Type
			if s, ok := t.(*ast.StarExpr); ok {
				t = s.X
			}
			if id, ok := t.(*ast.Ident); ok && id.Name == recv {
				return fd
			}
		}
	}
	return nil
}

func findValue(f *ast.File, name string) ast.Expr {
	for _, d := range f.Decls {
		gd, ok := d.(*ast.GenDecl)
		if !ok || (gd.Tok != token.CONST && gd.Tok != token.VAR) {
			continue
		}
		for _, s := range gd.Specs {
			vs := s.(*ast.ValueSpec)
			for i, n := range vs.Names {
				if n.Name == name && i < len(vs.Values) {
					return vs.Values[i]
				}
			}
		}
	}
	return nil
}

// ------------------------------------------------------------------ constant evaluation (big integers)

var knownConst = map[string]*big.Int{}

func init() {
	set := func(n string, v string) { x, _ := new(big.Int).SetString(v, 10); knownConst[n] = x }
	set("math.MaxUint8", "255")
	set("math.MaxUint16", "65535")
	set("math.MaxUint32", "4294967295")
	set("math.MaxUint64", "18446744073709551615")
	set("math.MaxInt64", "9223372036854775807")
	set("math.MaxInt32", "2147483647")
	set("units.MB", "1000000")
	set("units.KB", "1000")
	set("units.Kilobyte", "1024")
	set("units.Megabyte", "1048576")
}

func constEval(f *ast.File, e ast.Expr) *big.Int {
	switch x := e.(type) {
	case *ast.BasicLit:
		if x.Kind == token.INT {
			v, ok := new(big.Int).SetString(strings.ReplaceAll(x.Value, "_", ""), 0)
			if !ok {
				die("integer literal %s", x.Value)
			}
			return v
		}
		if x.Kind == token.CHAR {
			r, _, _, err := strconv.UnquoteChar(x.Value[1:len(x.Value)-1], '\'')
			if err != nil {
				die("char literal %s", x.Value)
			}
			return big.NewInt(int64(r))
		}
	case *ast.ParenExpr:
		return constEval(f, x.X)
	case *ast.SelectorExpr:
		if id, ok := x.X.(*ast.Ident); ok {
			if v, ok := knownConst[id.Name+"."+x.Sel.Name]; ok {
				return v
			}
		}
	case *ast.Ident:
		if v := findValue(f, x.Name); v != nil {
			return constEval(f, v)
		}
	case *ast.CallExpr: // conversions uint64(x), int(x), byte(x)
		if id, ok := x.Fun.(*ast.Ident); ok && len(x.Args) == 1 {
			switch id.Name {
			case "uint64", "int", "uint32", "int64", "uint", "int32", "byte", "uint8", "uint16":
				return constEval(f, x.Args[0])
			}
		}
		if sel, ok := x.Fun.(*ast.SelectorExpr); ok && len(x.Args) == 1 { // time.Duration(x), units.Base2Bytes(x)
			_ = sel
			return constEval(f, x.Args[0])
		}
	case *ast.BinaryExpr:
		a, b := constEval(f, x.X), constEval(f, x.Y)
		switch x.Op {
		case token.ADD:
			return new(big.Int).Add(a, b)
		case token.SUB:
			return new(big.Int).Sub(a, b)
		case token.MUL:
			return new(big.Int).Mul(a, b)
		case token.QUO:
			if b.Sign() == 0 {
				die("constant division by zero")
			}
			return new(big.Int).Quo(a, b)
		case token.REM:
			return new(big.Int).Rem(a, b)
		case token.SHL:
			return new(big.Int).Lsh(a, uint(b.Uint64()))
		case token.SHR:
			return new(big.Int).Rsh(a, uint(b.Uint64()))
		}
	}
	var buf bytes.Buffer
	printer.Fprint(&buf, fset, e)
	die("constant expression %q", buf.String())
	return nil
}

// ------------------------------------------------------------------ byte literals

func bytesEval(f *ast.File, e ast.Expr) []byte {
	switch x := e.(type) {
	case *ast.CompositeLit: // []byte{1, 2}
		var out []byte
		for _, el := range x.Elts {
			out = append(out, byte(constEval(f, el).Uint64()))
		}
		return out
	case *ast.CallExpr: // []byte("x/")
		if len(x.Args) == 1 {
			if lit, ok := x.Args[0].(*ast.BasicLit); ok && lit.Kind == token.STRING {
				s, err := strconv.Unquote(lit.Value)
				if err != nil {
					die("string literal %s", lit.Value)
				}
				return []byte(s)
			}
			if id, ok := x.Args[0].(*ast.Ident); ok {
				if v := findValue(f, id.Name); v != nil {
					return bytesEval(f, v)
				}
			}
		}
	case *ast.BasicLit:
		if x.Kind == token.STRING {
			s, err := strconv.Unquote(x.Value)
			if err != nil {
				die("string literal %s", x.Value)
			}
			return []byte(s)
		}
	case *ast.Ident:
		if v := findValue(f, x.Name); v != nil {
			return bytesEval(f, v)
		}
	}
	var buf bytes.Buffer
	printer.Fprint(&buf, fset, e)
	die("byte-string expression %q", buf.String())
	return nil
}

// ------------------------------------------------------------------ arithmetic functions -> Coq terms over N

type env struct {
	f     *ast.File
	vars  map[string]bool // identifiers bound as Coq variables (params, lets)
	calls map[string]bool // Go function names already translated (callable)
}

func exprStr(e ast.Expr) string {
	var buf bytes.Buffer
	printer.Fprint(&buf, fset, e)
	return buf.String()
}

// isBigNew matches new(big.Int)
func isBigNew(e ast.Expr) bool {
	c, ok := e.(*ast.CallExpr)
	if !ok || len(c.Args) != 1 {
		return false
	}
	id, ok := c.Fun.(*ast.Ident)
	return ok && id.Name == "new" && exprStr(c.Args[0]) == "big.Int"
}

func (v *env) expr(e ast.Expr) string {
	switch x := e.(type) {
	case *ast.ParenExpr:
		return v.expr(x.X)
	case *ast.BasicLit:
		return "(" + constEval(v.f, x).String() + ")"
	case *ast.Ident:
		if x.Name == "true" || x.Name == "false" {
			return x.Name
		}
		if v.vars[x.Name] {
			return coqIdent(x.Name)
		}
		if c := findValue(v.f, x.Name); c != nil {
			return "(" + constEval(v.f, c).String() + ")"
		}
		die("free identifier %s", x.Name)
	case *ast.SelectorExpr:
		return "(" + constEval(v.f, x).String() + ")"
	case *ast.UnaryExpr:
		if x.Op == token.NOT {
			return "(negb " + v.expr(x.X) + ")"
		}
	case *ast.BinaryExpr:
		a, b := v.expr(x.X), v.expr(x.Y)
		switch x.Op {
		case token.ADD:
			return "(add64 " + a + " " + b + ")"
		case token.SUB:
			return "(sub64 " + a + " " + b + ")"
		case token.MUL:
			return "(mul64 " + a + " " + b + ")"
		case token.QUO:
			return "(N.div " + a + " " + b + ")"
		case token.REM:
			return "(N.modulo " + a + " " + b + ")"
		case token.SHL:
			return "(shl64 " + a + " " + b + ")"
		case token.SHR:
			return "(N.shiftr " + a + " " + b + ")"
		case token.EQL:
			return "(N.eqb " + a + " " + b + ")"
		case token.NEQ:
			return "(negb (N.eqb " + a + " " + b + "))"
		case token.LSS:
			return "(N.ltb " + a + " " + b + ")"
		case token.LEQ:
			return "(N.leb " + a + " " + b + ")"
		case token.GTR:
			return "(N.ltb " + b + " " + a + ")"
		case token.GEQ:
			return "(N.leb " + b + " " + a + ")"
		case token.LAND:
			return "(andb " + a + " " + b + ")"
		case token.LOR:
			return "(orb " + a + " " + b + ")"
		}
	case *ast.CallExpr:
		// conversions
		if id, ok := x.Fun.(*ast.Ident); ok {
			if len(x.Args) == 1 && (id.Name == "uint64") {
				return v.expr(x.Args[0])
			}
			if id.Name == "min" && len(x.Args) == 2 {
				return "(N.min " + v.expr(x.Args[0]) + " " + v.expr(x.Args[1]) + ")"
			}
			if id.Name == "max" && len(x.Args) == 2 {
				return "(N.max " + v.expr(x.Args[0]) + " " + v.expr(x.Args[1]) + ")"
			}
			if v.calls[id.Name] {
				args := []string{}
				for _, a := range x.Args {
					args = append(args, v.expr(a))
				}
				return "(" + coqIdent(id.Name) + " " + strings.Join(args, " ") + ")"
			}
		}
		if sel, ok := x.Fun.(*ast.SelectorExpr); ok {
			// lib.Foo(...) / qualified call to an already translated function
			if pk, ok := sel.X.(*ast.Ident); ok && !v.vars[pk.Name] && v.calls[sel.Sel.Name] && pk.Name != "big" {
				args := []string{}
				for _, a := range x.Args {
					args = append(args, v.expr(a))
				}
				return "(" + coqIdent(sel.Sel.Name) + " " + strings.Join(args, " ") + ")"
			}
			// big.NewInt(k)
			if exprStr(x.Fun) == "big.NewInt" && len(x.Args) == 1 {
				return v.expr(x.Args[0])
			}
			// big.Int methods (exact arithmetic, no wrap)
			switch sel.Sel.Name {
			case "SetUint64":
				if isBigNew(sel.X) && len(x.Args) == 1 {
					return v.expr(x.Args[0])
				}
			case "Sqrt": // new(big.Int).Sqrt(p): floor square root
				if isBigNew(sel.X) && len(x.Args) == 1 {
					return "(N.sqrt " + v.expr(x.Args[0]) + ")"
				}
			case "Uint64": // low 64 bits
				if len(x.Args) == 0 {
					return "(wrap64 " + v.expr(sel.X) + ")"
				}
			case "Mul", "Add", "Div", "Quo", "Sub":
				if len(x.Args) == 2 {
					a, b := v.expr(x.Args[0]), v.expr(x.Args[1])
					switch sel.Sel.Name {
					case "Mul":
						return "(N.mul " + a + " " + b + ")"
					case "Add":
						return "(N.add " + a + " " + b + ")"
					case "Div", "Quo":
						return "(N.div " + a + " " + b + ")"
					case "Sub":
						return "(N.sub " + a + " " + b + ")" // truncated: big.Int can go negative; only used where a>=b is proved
					}
				}
			}
		}
	}
	die("expression %q", exprStr(e))
	return ""
}

func coqIdent(s string) string {
	switch s {
	case "at", "in", "as", "fun", "let", "end", "match", "with", "return", "then", "else", "using", "by", "type", "Type":
		return s + "_"
	}
	return s
}

// stmts translates a statement list into one Coq expression; result is the named result variable (if any).
func (v *env) stmts(list []ast.Stmt, result string) string {
	if len(list) == 0 {
		if result != "" {
			return coqIdent(result)
		}
		die("function falls off the end without a result")
	}
	s, rest := list[0], list[1:]
	switch x := s.(type) {
	case *ast.ReturnStmt:
		if len(x.Results) == 0 {
			if result == "" {
				die("bare return without named result")
			}
			return coqIdent(result)
		}
		if len(x.Results) != 1 {
			die("multi-value return")
		}
		return v.expr(x.Results[0])
	case *ast.AssignStmt:
		if len(x.Lhs) != 1 || len(x.Rhs) != 1 {
			die("multi-assignment %q", exprStr(x.Lhs[0]))
		}
		id, ok := x.Lhs[0].(*ast.Ident)
		if !ok {
			die("assignment target %q", exprStr(x.Lhs[0]))
		}
		var rhs string
		switch x.Tok {
		case token.DEFINE, token.ASSIGN:
			rhs = v.expr(x.Rhs[0])
		case token.ADD_ASSIGN:
			rhs = "(add64 " + v.expr(id) + " " + v.expr(x.Rhs[0]) + ")"
		case token.SUB_ASSIGN:
			rhs = "(sub64 " + v.expr(id) + " " + v.expr(x.Rhs[0]) + ")"
		case token.MUL_ASSIGN:
			rhs = "(mul64 " + v.expr(id) + " " + v.expr(x.Rhs[0]) + ")"
		case token.QUO_ASSIGN:
			rhs = "(N.div " + v.expr(id) + " " + v.expr(x.Rhs[0]) + ")"
		default:
			die("assignment operator %s", x.Tok)
		}
		v.vars[id.Name] = true
		return "(let " + coqIdent(id.Name) + " := " + rhs + " in\n    " + v.stmts(rest, result) + ")"
	case *ast.ExprStmt:
		// in-place big.Int update: z.Add(z, w) etc.
		if c, ok := x.X.(*ast.CallExpr); ok {
			if sel, ok := c.Fun.(*ast.SelectorExpr); ok {
				if id, ok := sel.X.(*ast.Ident); ok && v.vars[id.Name] {
					rhs := v.expr(c)
					return "(let " + coqIdent(id.Name) + " := " + rhs + " in\n    " + v.stmts(rest, result) + ")"
				}
			}
		}
		die("expression statement %q", exprStr(x.X))
	case *ast.IfStmt:
		if x.Init != nil {
			die("if with init statement")
		}
		cond := v.expr(x.Cond)
		endsInReturn := func(b *ast.BlockStmt) bool {
			if b == nil || len(b.List) == 0 {
				return false
			}
			_, ok := b.List[len(b.List)-1].(*ast.ReturnStmt)
			return ok
		}
		if endsInReturn(x.Body) {
			thenE := v.fork().stmts(x.Body.List, result)
			var elseList []ast.Stmt
			if x.Else != nil {
				switch eb := x.Else.(type) {
				case *ast.BlockStmt:
					elseList = append(elseList, eb.List...)
				case *ast.IfStmt:
					elseList = append(elseList, eb)
				}
			}
			elseList = append(elseList, rest...)
			return "(if " + cond + " then " + thenE + "\n    else " + v.stmts(elseList, result) + ")"
		}
		// conditional single assignment without else:  if c { x = e }
		if x.Else == nil && len(x.Body.List) == 1 {
			if as, ok := x.Body.List[0].(*ast.AssignStmt); ok && as.Tok == token.ASSIGN && len(as.Lhs) == 1 {
				if id, ok := as.Lhs[0].(*ast.Ident); ok && v.vars[id.Name] {
					rhs := v.expr(as.Rhs[0])
					n := coqIdent(id.Name)
					return "(let " + n + " := (if " + cond + " then " + rhs + " else " + n + ") in\n    " + v.stmts(rest, result) + ")"
				}
			}
		}
		die("if statement shape at %s", fset.Position(x.Pos()))
	case *ast.DeclStmt:
		die("declaration statement at %s", fset.Position(x.Pos()))
	}
	die("statement at %s", fset.Position(s.Pos()))
	return ""
}

func (v *env) fork() *env {
	n := &env{f: v.f, vars: map[string]bool{}, calls: v.calls}
	for k := range v.vars {
		n.vars[k] = true
	}
	return n
}

func isUint64(t ast.Expr) bool {
	id, ok := t.(*ast.Ident)
	return ok && (id.Name == "uint64")
}

func translateFunc(f *ast.File, fd *ast.FuncDecl, coq string, calls map[string]bool) string {
	v := &env{f: f, vars: map[string]bool{}, calls: calls}
	var params []string
	for _, p := range fd.Type.Params.List {
		if !isUint64(p.Type) {
			die("func %s: parameter type %s (only uint64 supported)", fd.Name.Name, exprStr(p.Type))
		}
		for _, n := range p.Names {
			v.vars[n.Name] = true
			params = append(params, coqIdent(n.Name))
		}
	}
	result := ""
	if fd.Type.Results == nil || len(fd.Type.Results.List) != 1 {
		die("func %s: needs exactly one result", fd.Name.Name)
	}
	r := fd.Type.Results.List[0]
	isBool := false
	if id, ok := r.Type.(*ast.Ident); ok && id.Name == "bool" {
		isBool = true
	} else if !isUint64(r.Type) {
		die("func %s: result type %s", fd.Name.Name, exprStr(r.Type))
	}
	body := ""
	if len(r.Names) == 1 {
		result = r.Names[0].Name
		v.vars[result] = true
		zero := "0"
		if isBool {
			zero = "false"
		}
		body = "(let " + coqIdent(result) + " := " + zero + " in\n    " + v.stmts(fd.Body.List, result) + ")"
	} else {
		body = v.stmts(fd.Body.List, "")
	}
	ty := "N"
	if isBool {
		ty = "bool"
	}
	ps := ""
	if len(params) > 0 {
		ps = " (" + strings.Join(params, " ") + " : N)"
	}
	return fmt.Sprintf("Definition %s%s : %s :=\n  %s.\n", coq, ps, ty, body)
}

func translateAssign(f *ast.File, fd *ast.FuncDecl, t Target, calls map[string]bool) string {
	var found ast.Expr
	ast.Inspect(fd.Body, func(n ast.Node) bool {
		if as, ok := n.(*ast.AssignStmt); ok && len(as.Lhs) == 1 && len(as.Rhs) == 1 {
			if id, ok := as.Lhs[0].(*ast.Ident); ok && id.Name == t.Var && found == nil {
				found = as.Rhs[0]
			}
		}
		if vs, ok := n.(*ast.ValueSpec); ok && len(vs.Names) == 1 && len(vs.Values) == 1 && vs.Names[0].Name == t.Var && found == nil {
			found = vs.Values[0]
		}
		return true
	})
	if found == nil {
		die("no assignment to %s in %s", t.Var, t.Name)
	}
	v := &env{f: f, vars: map[string]bool{}, calls: calls}
	var params []string
	for _, p := range t.Params {
		v.vars[p] = true
		params = append(params, coqIdent(p))
	}
	ps := ""
	if len(params) > 0 {
		ps = " (" + strings.Join(params, " ") + " : N)"
	}
	return fmt.Sprintf("Definition %s%s : N :=\n  %s.\n", t.Coq, ps, v.expr(found))
}

// ------------------------------------------------------------------ fingerprints

func fingerprint(spec string) string {
	parts := strings.SplitN(spec, ":", 2)
	if len(parts) != 2 {
		return "bad-spec"
	}
	f := load(parts[0])
	name, recv := parts[1], ""
	if i := strings.Index(name, "."); i >= 0 {
		recv, name = name[:i], name[i+1:]
	}
	fd := findFunc(f, name, recv)
	if fd == nil {
		return "missing"
	}
	// print without comments
	var buf bytes.Buffer
	cfg := printer.Config{Mode: printer.RawFormat}
	_ = cfg.Fprint(&buf, token.NewFileSet(), stripPos(fd))
	h := sha256.Sum256(buf.Bytes())
	return hex.EncodeToString(h[:8])
}

func stripPos(fd *ast.FuncDecl) *ast.FuncDecl {
	c := *fd
	c.Doc = nil
	return &c
}

func main() {
	var cfgPath, out, out2, fpOut, warnOut string
	flag.StringVar(&warnOut, "warn", "", "file receiving one line per target the translator cannot express")
	flag.StringVar(&out2, "out2", "", "second output .v (bytes-valued functions; needs V.Bytes and V.Keys)")
	flag.StringVar(&repo, "repo", "/repo", "repository root")
	flag.StringVar(&cfgPath, "targets", "targets.json", "targets file")
	flag.StringVar(&out, "out", "Extracted.v", "output .v")
	flag.StringVar(&fpOut, "fp", "", "fingerprints output json")
	flag.Parse()
	bz, err := os.ReadFile(cfgPath)
	if err != nil {
		fmt.Fprintln(os.Stderr, "gen:", err)
		os.Exit(3)
	}
	var cfg Config
	if err := json.Unmarshal(bz, &cfg); err != nil {
		fmt.Fprintln(os.Stderr, "gen: targets:", err)
		os.Exit(3)
	}
	var b strings.Builder
	b.WriteString("(* GENERATED by /verif/tools/gen from the working tree of the repository. DO NOT EDIT. *)\n")
	b.WriteString("From Coq Require Import NArith List Bool.\nFrom V Require Import U64.\nImport ListNotations.\nLocal Open Scope N_scope.\n\n")
	calls := map[string]bool{}
	var b2 strings.Builder
	b2.WriteString("(* GENERATED by /verif/tools/gen from the working tree of the repository. DO NOT EDIT. *)\n")
	b2.WriteString("From Coq Require Import NArith List Bool.\nFrom V Require Import Bytes Extracted Keys.\nImport ListNotations.\nLocal Open Scope N_scope.\n\n")
	kcalls, bytesOK, scalls := map[string]bool{}, map[string]bool{}, map[string]*sfuncSig{}
	var warnings []string
	for _, t := range cfg.Targets {
		func() {
			defer func() {
				if r := recover(); r != nil {
					ce, ok := r.(cannotExpress)
					if !ok {
						panic(r)
					}
					w := fmt.Sprintf("%s (%s:%s): %s", t.Coq, t.File, t.Name, ce.msg)
					warnings = append(warnings, w)
					fmt.Fprintln(os.Stderr, w)
				}
			}()
			f := load(t.File)
			switch t.Kind {
			case "const":
				e := findValue(f, t.Name)
				if e == nil {
					die("constant %s not found in %s", t.Name, t.File)
				}
				fmt.Fprintf(&b, "Definition %s : N := %s. (* %s:%s *)\n", t.Coq, constEval(f, e).String(), t.File, t.Name)
			case "bytes":
				e := findValue(f, t.Name)
				if e == nil {
					die("byte literal %s not found in %s", t.Name, t.File)
				}
				bs := bytesEval(f, e)
				ss := make([]string, len(bs))
				for i, x := range bs {
					ss[i] = strconv.Itoa(int(x))
				}
				fmt.Fprintf(&b, "Definition %s : list N := [%s]. (* %s:%s *)\n", t.Coq, strings.Join(ss, "; "), t.File, t.Name)
				if t.Coq == t.Name {
					bytesOK[t.Name] = true
				}
			case "kfunc":
				fd := findFunc(f, t.Name, t.Recv)
				if fd == nil {
					die("func %s not found in %s", t.Name, t.File)
				}
				checkFormatUint64(f)
				fmt.Fprintf(&b2, "(* %s:%s *)\n%s", t.File, t.Name, translateKFunc(f, fd, t, kcalls, bytesOK))
				if t.Coq != t.Name {
					die("kfunc %s: the Coq name must be the Go name", t.Name)
				}
				kcalls[t.Name] = true
			case "sfunc":
				fd := findFunc(f, t.Name, t.Recv)
				if fd == nil {
					die("func %s not found in %s", t.Name, t.File)
				}
				src, sig := translateSFunc(f, fd, t, scalls)
				fmt.Fprintf(&b, "(* %s:%s.%s *)\n%s", t.File, t.Recv, t.Name, src)
				scalls[t.Name] = sig
			case "joinarg":
				e := findValue(f, t.Name)
				if e == nil {
					die("value %s not found in %s", t.Name, t.File)
				}
				call, ok := e.(*ast.CallExpr)
				if !ok || !strings.HasSuffix(exprStr(call.Fun), "JoinLenPrefix") || len(call.Args) != 1 {
					die("%s is not a single-argument JoinLenPrefix call", t.Name)
				}
				bs := bytesEval(f, call.Args[0])
				ss := make([]string, len(bs))
				for i, x := range bs {
					ss[i] = strconv.Itoa(int(x))
				}
				fmt.Fprintf(&b, "Definition %s : list N := [%s]. (* %s:%s = JoinLenPrefix(this) *)\n", t.Coq, strings.Join(ss, "; "), t.File, t.Name)
			case "func":
				fd := findFunc(f, t.Name, t.Recv)
				if fd == nil {
					die("func %s not found in %s", t.Name, t.File)
				}
				fmt.Fprintf(&b, "(* %s:%s *)\n%s", t.File, t.Name, translateFunc(f, fd, t.Coq, calls))
				calls[t.Name] = true
				if t.Coq != t.Name {
					// calls from later Go code use the Go name; emit an alias under the Go name as well
					fmt.Fprintf(&b, "Notation %s := %s (only parsing).\n", coqIdent(t.Name), t.Coq)
				}
			case "assign":
				fd := findFunc(f, t.Name, t.Recv)
				if fd == nil {
					die("func %s not found in %s", t.Name, t.File)
				}
				fmt.Fprintf(&b, "(* %s:%s, right-hand side assigned to %s *)\n%s", t.File, t.Name, t.Var, translateAssign(f, fd, t, calls))
			default:
				die("target kind %s", t.Kind)
			}
		}()
	}
	if warnOut != "" {
		_ = os.WriteFile(warnOut, []byte(strings.Join(warnings, "\n")), 0o644)
	}
	if err := os.WriteFile(out, []byte(b.String()), 0o644); err != nil {
		fmt.Fprintln(os.Stderr, "gen:", err)
		os.Exit(3)
	}
	if out2 != "" {
		if err := os.WriteFile(out2, []byte(b2.String()), 0o644); err != nil {
			fmt.Fprintln(os.Stderr, "gen:", err)
			os.Exit(3)
		}
	}
	if fpOut != "" {
		fps := map[string]map[string]string{}
		models := make([]string, 0, len(cfg.Fingerprints))
		for m := range cfg.Fingerprints {
			models = append(models, m)
		}
		sort.Strings(models)
		for _, m := range models {
			fps[m] = map[string]string{}
			for _, spec := range cfg.Fingerprints[m] {
				fps[m][spec] = fingerprint(spec)
			}
		}
		j, _ := json.MarshalIndent(fps, "", " ")
		_ = os.WriteFile(fpOut, j, 0o644)
	}
}
