// struct.go: the structural part of the translator (trusted base, DESIGN.md 0.7).
//
// Two further target kinds, both translated node by node from the Go AST of the working tree and both refusing
// (exit 2, "translator cannot express ...") anything outside the fragment:
//
//	kfunc  a bytes-valued function made of JoinLenPrefix / append / formatUint64 / calls to other kfuncs over its
//	       parameters and the byte literals of its file (the store key constructors of fsm/key.go).  Emitted into the second
//	       output file (it needs V.Bytes.be64 and V.Keys.join).
//	sfunc  a decision function over scalars and (pointers to) structs: if / return chains, comparisons, boolean
//	       connectives, bytes.Equal, nil tests, calls to other sfuncs.  Every field path rooted at a parameter or the
//	       receiver ("x.Height", "b.HighQC.Header.Round") becomes one flattened Coq parameter ("x_Height",
//	       "b_HighQC_Header_Round" : N), a nil test of such a path a bool parameter ("x_nil").  Call expressions listed
//	       under "abstract" become parameters too (opaque values such as hashes).  Result: bool, uint64, or "errbool"
//	       (an error-valued function: `return nil` is true, any other return is false).  Logging statements are skipped.
package main

import (
	"fmt"
	"go/ast"
	"go/printer"
	"go/token"
	"sort"
	"strings"
)

// ------------------------------------------------------------------ kfunc

type kenv struct {
	f        *ast.File
	params   map[string]string // Go param name -> "N" | "bytes"
	abstract map[string]string
	kcalls   map[string]bool
	bytesOK  map[string]bool // byte literals already emitted under their Go name
}

func checkFormatUint64(f *ast.File) {
	fd := findFunc(f, "formatUint64", "")
	if fd == nil {
		die("formatUint64 not found")
	}
	src := exprStrNode(fd.Body)
	if !strings.Contains(src, "make([]byte, 8)") || !strings.Contains(src, "binary.BigEndian.PutUint64(") {
		die("formatUint64 is no longer the 8-byte big-endian encoding: %s", src)
	}
}

func exprStrNode(n ast.Node) string {
	var sb strings.Builder
	_ = printer.Fprint(&sb, fset, n)
	return sb.String()
}

func (k *kenv) expr(e ast.Expr) string {
	if a, ok := k.abstract[exprStr(e)]; ok {
		return coqIdent(a)
	}
	switch x := e.(type) {
	case *ast.ParenExpr:
		return k.expr(x.X)
	case *ast.Ident:
		if _, ok := k.params[x.Name]; ok {
			return coqIdent(x.Name)
		}
		if k.bytesOK[x.Name] {
			return coqIdent(x.Name)
		}
		die("kfunc: identifier %s is neither a parameter nor an emitted byte literal", x.Name)
	case *ast.CallExpr:
		fn := exprStr(x.Fun)
		switch {
		case fn == "formatUint64" && len(x.Args) == 1:
			id, ok := x.Args[0].(*ast.Ident)
			if !ok || k.params[id.Name] != "N" {
				die("kfunc: formatUint64 of %s", exprStr(x.Args[0]))
			}
			return "(be64 " + coqIdent(id.Name) + ")"
		case strings.HasSuffix(fn, "JoinLenPrefix") && !x.Ellipsis.IsValid():
			var as []string
			for _, a := range x.Args {
				as = append(as, k.expr(a))
			}
			return "(join [" + strings.Join(as, "; ") + "])"
		case fn == "append" && len(x.Args) == 2 && x.Ellipsis.IsValid():
			return "(" + k.expr(x.Args[0]) + " ++ " + k.expr(x.Args[1]) + ")"
		case strings.HasSuffix(fn, ".Bytes") && len(x.Args) == 0:
			sel := x.Fun.(*ast.SelectorExpr)
			if id, ok := sel.X.(*ast.Ident); ok && k.params[id.Name] == "bytes" {
				return coqIdent(id.Name)
			}
		default:
			if id, ok := x.Fun.(*ast.Ident); ok && k.kcalls[id.Name] {
				var as []string
				for _, a := range x.Args {
					as = append(as, k.expr(a))
				}
				return "(" + coqIdent(id.Name) + " " + strings.Join(as, " ") + ")"
			}
		}
	}
	die("kfunc: expression %q", exprStr(e))
	return ""
}

func translateKFunc(f *ast.File, fd *ast.FuncDecl, t Target, kcalls, bytesOK map[string]bool) string {
	k := &kenv{f: f, params: map[string]string{}, abstract: t.Abstract, kcalls: kcalls, bytesOK: bytesOK}
	var ps []string
	for _, p := range fd.Type.Params.List {
		ty := exprStr(p.Type)
		var ct string
		switch ty {
		case "uint64":
			ct = "N"
		case "[]byte", "crypto.AddressI", "string":
			ct = "bytes"
		default:
			die("kfunc %s: parameter type %s", fd.Name.Name, ty)
		}
		for _, n := range p.Names {
			k.params[n.Name] = ct
			ps = append(ps, fmt.Sprintf("(%s : %s)", coqIdent(n.Name), map[string]string{"N": "N", "bytes": "list N"}[ct]))
		}
	}
	if fd.Type.Results == nil || len(fd.Type.Results.List) != 1 || exprStr(fd.Type.Results.List[0].Type) != "[]byte" {
		die("kfunc %s: result must be []byte", fd.Name.Name)
	}
	if len(fd.Body.List) != 1 {
		die("kfunc %s: body is not a single return statement", fd.Name.Name)
	}
	ret, ok := fd.Body.List[0].(*ast.ReturnStmt)
	if !ok || len(ret.Results) != 1 {
		die("kfunc %s: body is not a single return statement", fd.Name.Name)
	}
	sp := ""
	if len(ps) > 0 {
		sp = " " + strings.Join(ps, " ")
	}
	return fmt.Sprintf("Definition %s%s : list N :=\n  %s.\n", t.Coq, sp, k.expr(ret.Results[0]))
}

// ------------------------------------------------------------------ sfunc

type fparam struct {
	root  int    // index of the Go parameter (receiver = 0) the path is rooted at
	name  string // flattened Coq name, e.g. x_Height
	isNil bool
}

type sfuncSig struct {
	coq    string
	roots  []string         // Go names of receiver + params, in order
	kinds  []string         // "scalar" | "struct" | "bool"
	flat   map[int][]fparam // per struct root: flattened params in emitted order
	order  []string         // emitted Coq parameter names in order (with types)
	suffix map[int][]string // per struct root: suffixes ("_Height", "_nil") in emitted order
	abst   []string         // abstract params (emitted last)
	result string
}

type senv struct {
	f        *ast.File
	roots    map[string]int
	kinds    []string
	lets     map[string]bool
	used     map[string]fparam
	abstract map[string]string
	absUsed  map[string]bool
	scalls   map[string]*sfuncSig
	result   string // bool | N | errbool
}

func (s *senv) path(e ast.Expr) (string, int, bool) {
	switch x := e.(type) {
	case *ast.ParenExpr:
		return s.path(x.X)
	case *ast.Ident:
		if r, ok := s.roots[x.Name]; ok && s.kinds[r] == "struct" {
			return x.Name, r, true
		}
	case *ast.SelectorExpr:
		if p, r, ok := s.path(x.X); ok {
			return p + "_" + x.Sel.Name, r, true
		}
	case *ast.StarExpr:
		return s.path(x.X)
	}
	return "", 0, false
}

func (s *senv) use(name string, root int, isNil bool) string {
	s.used[name] = fparam{root: root, name: name, isNil: isNil}
	return coqIdent(name)
}

func isNilIdent(e ast.Expr) bool {
	id, ok := e.(*ast.Ident)
	return ok && id.Name == "nil"
}

func (s *senv) expr(e ast.Expr) string {
	if a, ok := s.abstract[exprStr(e)]; ok {
		s.absUsed[a] = true
		return coqIdent(a)
	}
	switch x := e.(type) {
	case *ast.ParenExpr:
		return s.expr(x.X)
	case *ast.BasicLit:
		return "(" + constEval(s.f, x).String() + ")"
	case *ast.Ident:
		if x.Name == "true" || x.Name == "false" {
			return x.Name
		}
		if s.lets[x.Name] {
			return coqIdent(x.Name)
		}
		if r, ok := s.roots[x.Name]; ok && s.kinds[r] != "struct" {
			return coqIdent(x.Name)
		}
		if c := findValue(s.f, x.Name); c != nil {
			return "(" + constEval(s.f, c).String() + ")"
		}
		die("sfunc: free identifier %s", x.Name)
	case *ast.SelectorExpr:
		if p, r, ok := s.path(x); ok {
			return s.use(p, r, false)
		}
		return "(" + constEval(s.f, x).String() + ")"
	case *ast.UnaryExpr:
		if x.Op == token.NOT {
			return "(negb " + s.expr(x.X) + ")"
		}
	case *ast.BinaryExpr:
		if x.Op == token.EQL || x.Op == token.NEQ {
			var pe ast.Expr
			if isNilIdent(x.Y) {
				pe = x.X
			} else if isNilIdent(x.X) {
				pe = x.Y
			}
			if pe != nil {
				p, r, ok := s.path(pe)
				if !ok {
					die("sfunc: nil test of %q", exprStr(pe))
				}
				v := s.use(p+"_nil", r, true)
				if x.Op == token.NEQ {
					return "(negb " + v + ")"
				}
				return v
			}
		}
		a, b := s.expr(x.X), s.expr(x.Y)
		switch x.Op {
		case token.ADD:
			return "(add64 " + a + " " + b + ")"
		case token.SUB:
			return "(sub64 " + a + " " + b + ")"
		case token.MUL:
			return "(mul64 " + a + " " + b + ")"
		case token.QUO:
			return "(N.div " + a + " " + b + ")"
		case token.REM:
			return "(N.modulo " + a + " " + b + ")"
		case token.EQL:
			return "(N.eqb " + a + " " + b + ")"
		case token.NEQ:
			return "(negb (N.eqb " + a + " " + b + "))"
		case token.LSS:
			return "(N.ltb " + a + " " + b + ")"
		case token.LEQ:
			return "(N.leb " + a + " " + b + ")"
		case token.GTR:
			return "(N.ltb " + b + " " + a + ")"
		case token.GEQ:
			return "(N.leb " + b + " " + a + ")"
		case token.LAND:
			return "(andb " + a + " " + b + ")"
		case token.LOR:
			return "(orb " + a + " " + b + ")"
		}
	case *ast.CallExpr:
		fn := exprStr(x.Fun)
		if fn == "bytes.Equal" && len(x.Args) == 2 {
			return "(N.eqb " + s.expr(x.Args[0]) + " " + s.expr(x.Args[1]) + ")"
		}
		if id, ok := x.Fun.(*ast.Ident); ok && len(x.Args) == 1 {
			switch id.Name {
			case "uint64", "int", "int32", "Phase", "lib.Phase":
				return s.expr(x.Args[0])
			}
		}
		if fn == "len" && len(x.Args) == 1 {
			// the length of a byte-string parameter: the parameter itself stands for its length (kind "len")
			if id, ok := x.Args[0].(*ast.Ident); ok {
				if r, ok := s.roots[id.Name]; ok && s.kinds[r] == "len" {
					return coqIdent(id.Name + "_len")
				}
			}
		}
		// method call on a struct path to another sfunc: E.M(args)
		if sel, ok := x.Fun.(*ast.SelectorExpr); ok {
			if sig, ok := s.scalls[sel.Sel.Name]; ok {
				args := append([]ast.Expr{sel.X}, x.Args...)
				if len(args) != len(sig.roots) {
					die("sfunc: call %s: arity", fn)
				}
				var out []string
				for i, a := range args {
					switch sig.kinds[i] {
					case "struct":
						p, r, ok := s.path(a)
						if !ok {
							die("sfunc: call %s: argument %q is not a field path", fn, exprStr(a))
						}
						for _, suf := range sig.suffix[i] {
							out = append(out, s.use(p+suf, r, suf == "_nil"))
						}
					default:
						out = append(out, s.expr(a))
					}
				}
				if len(sig.abst) > 0 {
					die("sfunc: call to %s which has abstract parameters", fn)
				}
				return "(" + sig.coq + " " + strings.Join(out, " ") + ")"
			}
		}
	}
	die("sfunc: expression %q", exprStr(e))
	return ""
}

func isLogStmt(st ast.Stmt) bool {
	es, ok := st.(*ast.ExprStmt)
	if !ok {
		return false
	}
	c, ok := es.X.(*ast.CallExpr)
	if !ok {
		return false
	}
	fn := exprStr(c.Fun)
	return strings.Contains(fn, ".log.") || strings.HasPrefix(fn, "log.")
}

func (s *senv) ret(x *ast.ReturnStmt) string {
	if len(x.Results) != 1 {
		die("sfunc: return with %d results", len(x.Results))
	}
	if s.result == "errbool" {
		if isNilIdent(x.Results[0]) {
			return "true"
		}
		if c, ok := x.Results[0].(*ast.CallExpr); ok && strings.Contains(exprStr(c.Fun), "Err") {
			return "false"
		}
		die("sfunc: error return %q", exprStr(x.Results[0]))
	}
	return s.expr(x.Results[0])
}

func (s *senv) stmts(list []ast.Stmt) string {
	for len(list) > 0 && isLogStmt(list[0]) {
		list = list[1:]
	}
	if len(list) == 0 {
		die("sfunc: function falls off the end")
	}
	st, rest := list[0], list[1:]
	switch x := st.(type) {
	case *ast.ReturnStmt:
		return s.ret(x)
	case *ast.IfStmt:
		if x.Init != nil {
			die("sfunc: if with init statement")
		}
		body := x.Body.List
		n := 0
		for _, b := range body {
			if !isLogStmt(b) {
				n++
			}
		}
		if n == 0 {
			die("sfunc: empty if body")
		}
		if _, ok := body[len(body)-1].(*ast.ReturnStmt); !ok {
			die("sfunc: if body does not end in return at %s", fset.Position(x.Pos()))
		}
		cond := s.expr(x.Cond)
		thenE := s.stmts(body)
		var elseList []ast.Stmt
		if x.Else != nil {
			switch eb := x.Else.(type) {
			case *ast.BlockStmt:
				elseList = append(elseList, eb.List...)
			case *ast.IfStmt:
				elseList = append(elseList, eb)
			}
		}
		elseList = append(elseList, rest...)
		return "(if " + cond + " then " + thenE + "\n    else " + s.stmts(elseList) + ")"
	case *ast.AssignStmt:
		if len(x.Lhs) == 1 && len(x.Rhs) == 1 && x.Tok == token.DEFINE {
			if id, ok := x.Lhs[0].(*ast.Ident); ok {
				rhs := s.expr(x.Rhs[0])
				s.lets[id.Name] = true
				return "(let " + coqIdent(id.Name) + " := " + rhs + " in\n    " + s.stmts(rest) + ")"
			}
		}
	}
	die("sfunc: statement at %s", fset.Position(st.Pos()))
	return ""
}

func translateSFunc(f *ast.File, fd *ast.FuncDecl, t Target, scalls map[string]*sfuncSig) (string, *sfuncSig) {
	s := &senv{f: f, roots: map[string]int{}, lets: map[string]bool{}, used: map[string]fparam{}, abstract: t.Abstract,
		absUsed: map[string]bool{}, scalls: scalls}
	sig := &sfuncSig{coq: t.Coq, flat: map[int][]fparam{}, suffix: map[int][]string{}}
	add := func(name string, ty ast.Expr) {
		tys := exprStr(ty)
		kind := "struct"
		switch tys {
		case "uint64", "int", "int32", "Phase", "lib.Phase", "uint32":
			kind = "scalar"
		case "bool":
			kind = "bool"
		case "[]byte":
			kind = "len"
		}
		s.roots[name] = len(sig.roots)
		sig.roots = append(sig.roots, name)
		sig.kinds = append(sig.kinds, kind)
	}
	if fd.Recv != nil && len(fd.Recv.List) == 1 && len(fd.Recv.List[0].Names) == 1 {
		add(fd.Recv.List[0].Names[0].Name, fd.Recv.List[0].Type)
	}
	for _, p := range fd.Type.Params.List {
		for _, n := range p.Names {
			add(n.Name, p.Type)
		}
	}
	s.kinds = sig.kinds
	if fd.Type.Results == nil || len(fd.Type.Results.List) != 1 || len(fd.Type.Results.List[0].Names) != 0 {
		die("sfunc %s: needs exactly one unnamed result", fd.Name.Name)
	}
	rt := exprStr(fd.Type.Results.List[0].Type)
	switch {
	case rt == "bool":
		s.result = "bool"
	case rt == "uint64":
		s.result = "N"
	case strings.HasSuffix(rt, "ErrorI") || rt == "error":
		s.result = "errbool"
	default:
		die("sfunc %s: result type %s", fd.Name.Name, rt)
	}
	sig.result = s.result
	body := s.stmts(fd.Body.List)
	// parameters: per root in declaration order; a struct root contributes its used paths, "_nil" first, then alphabetical
	var ps []string
	for i, r := range sig.roots {
		switch sig.kinds[i] {
		case "scalar":
			ps = append(ps, "("+coqIdent(r)+" : N)")
		case "bool":
			ps = append(ps, "("+coqIdent(r)+" : bool)")
		case "len":
			ps = append(ps, "("+coqIdent(r+"_len")+" : N)")
		case "struct":
			var fl []fparam
			for _, u := range s.used {
				if u.root == i {
					fl = append(fl, u)
				}
			}
			sort.Slice(fl, func(a, b int) bool {
				if fl[a].isNil != fl[b].isNil {
					return fl[a].isNil
				}
				return fl[a].name < fl[b].name
			})
			sig.flat[i] = fl
			for _, u := range fl {
				ty := "N"
				if u.isNil {
					ty = "bool"
				}
				ps = append(ps, "("+coqIdent(u.name)+" : "+ty+")")
				// the suffix relative to the root name (only direct fields and the root's own nil flag can be synthesized at a
				// call site; deeper paths work the same way since the suffix is appended to the caller's path)
				sig.suffix[i] = append(sig.suffix[i], strings.TrimPrefix(u.name, r))
			}
		}
	}
	var abs []string
	for a := range s.absUsed {
		abs = append(abs, a)
	}
	sort.Strings(abs)
	for _, a := range abs {
		ps = append(ps, "("+coqIdent(a)+" : N)")
	}
	sig.abst = abs
	for a := range t.Abstract {
		if !s.absUsed[t.Abstract[a]] {
			die("sfunc %s: abstract expression %q no longer occurs in the source", fd.Name.Name, a)
		}
	}
	ty := "bool"
	if s.result == "N" {
		ty = "N"
	}
	sp := ""
	if len(ps) > 0 {
		sp = " " + strings.Join(ps, " ")
	}
	return fmt.Sprintf("Definition %s%s : %s :=\n  %s.\n", t.Coq, sp, ty, body), sig
}
